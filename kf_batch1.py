import json,subprocess,re
# (property, rule, construct-substring) -> (what_fails, reproduction)
R='/verif/repro/'
M=[
("C07","C07.a must-respond","processPublish: nil-error return under [!(cl.Net.Inline)",
 "a QoS 1/2 PUBLISH from a normal client to a topic rejected by IsValidFilter (e.g. $SYS/x) gets no PUBACK/PUBREC and the connection stays open",
 R+"B/zz_repro_B1_test.go: QoS1 PUBLISH to $SYS/x (v3.1.1 and v5) receives nothing; a following PINGREQ is still answered. Not repaired: answering needs a policy decision (0x90 ack vs disconnect) and existing tests pin the silent drop."),
("C07","C07.a must-respond","processPubrel: nil-error return under",
 "a PUBREL carrying a reason code >= 0x80 for a packet id that is in flight gets no PUBCOMP",
 R+"B/zz_repro_B2_test.go: PUBREL id 11 reason 0x92: record deleted, no PUBCOMP written, receive quota not re-credited."),
("C08","C08.c retransmission-answered-ok","the PUBREC for a retransmission carries a non-failure reason code",
 "a QoS 2 PUBLISH retransmitted (DUP) before PUBREL is answered with PUBREC 0x91 'packet identifier in use', a failure code, so the client cannot complete the exchange",
 R+"B/zz_repro_B3_test.go. Not repaired: the pinned suite (TPubrecMqtt5IDInUse in server_test.go) expects exactly 0x91."),
("C09","C09.a who-may-delete","processPacket deletes in-flight record next.PacketID",
 "the flow-control deferred message is written from processPacket and immediately deleted from the session, so an unacknowledged deferred message is never redelivered after reconnect (and its quota is never returned)",
 R+"B/zz_repro_B4_test.go (TestRepro_B4, TestRepro_B4_QuotaLeak)."),
("C10","C10.a direction-guarded","processPuback: Inflight.Delete","a client PUBACK for an id that holds an inbound QoS 2 PUBREC marker deletes the marker (the later PUBREL gets PUBCOMP 0x92)",R+"B/zz_repro_B5_test.go"),
("C10","C10.a direction-guarded","processPubcomp: Inflight.Delete","PUBCOMP deletes whatever record has the id, including an inbound marker",R+"B/zz_repro_B5_test.go (same single-map design defect; shown for PUBACK)"),
("C10","C10.a direction-guarded","processPubrec: Inflight.Delete","PUBREC with an error code deletes whatever record has the id",R+"B/zz_repro_B5_test.go (same single-map design defect)"),
("C10","C10.a direction-guarded","processPubrec: Inflight.Set","PUBREC replaces whatever record has the id by a PUBREL",R+"B/zz_repro_B5_test.go (same single-map design defect)"),
("C10","C10.a direction-guarded","processPubrel: Inflight.Delete","PUBREL deletes whatever record has the id, including the broker's outbound PUBLISH",R+"B/zz_repro_B5_test.go (same single-map design defect)"),
("C10","C10.a direction-guarded","processPubrel: Inflight.Set","PUBREL replaces whatever record has the id by a PUBCOMP marker",R+"B/zz_repro_B5_test.go (same single-map design defect)"),
("C11","C11.a direction-typing","processPubcomp calls IncreaseReceiveQuota","completing an OUTBOUND QoS 2 message re-credits the INBOUND receive quota",R+"B/zz_repro_B6_test.go"),
("C11","C11.a direction-typing","processPubrec calls DecreaseReceiveQuota","an outbound QoS 2 exchange consumes the client's inbound allowance: with server ReceiveMaximum 1 the client's next QoS 1 publish is refused with DISCONNECT 0x93",R+"B/zz_repro_B6_test.go"),
("C11","C11.a direction-typing","processPubrel calls IncreaseSendQuota","an inbound QoS 2 PUBREL re-credits the send quota while an outbound message is unacknowledged: the broker exceeds the client's Receive Maximum",R+"B/zz_repro_B6_test.go"),
("C13","C13.a nothing-before-connack","Clients.Add (publication point) after the success SendConnack",
 "attachClient registers the client before writing the CONNACK: on a resumed session a concurrent publish is written to the new connection before the CONNACK",
 R+"C/zz_repro_C1_test.go: first packet read on a resumed session was PUBLISH (30 06 00 03 61 2f 62 78) after 4-516 reconnects. Not repaired: moving the registration changes takeover/queueing behaviour and needs maintainer judgement."),
("C17","C17.a write-check","sendDelayedLWT → publishToSubscribers","a delayed will is published without a write-permission check",R+"C/zz_repro_C4_test.go"),
("C17","C17.a write-check","sendDelayedLWT → retainMessage","a delayed will is retained without a write-permission check",R+"C/zz_repro_C4_test.go"),
("C17","C17.a write-check","sendLWT → publishToSubscribers","a will on a write-denied topic (secret/x) is delivered",R+"C/zz_repro_C4_test.go"),
("C17","C17.a write-check","sendLWT → retainMessage","a will on a write-denied topic is retained",R+"C/zz_repro_C4_test.go"),
("C17","C17.b topic-sanitiser","will topics are validated","wills on $SYS/x, a/# and a/+/c are accepted (CONNACK 0), delivered and retained",R+"C/zz_repro_C4_test.go"),
("C19","C19.a rejected-not-routed","no path reaches publishToSubscribers without pk.Ignore","for MQTT 3.1.1 clients, QoS 0, or non-Code errors a failing OnPublish hook does not stop the message: it is forwarded and acknowledged 0x00",R+"B/zz_repro_B7_test.go"),
("C19","C19.a rejected-not-routed","no path reaches retainMessage without pk.Ignore","same defect: the message a hook answered with an error is still retained",R+"B/zz_repro_B7_test.go"),
("C24","C24.b stored-packets-keep-topic","sendQuota) == 0","the deferred copy stored in the in-flight map has its topic blanked when the alias already existed",R+"B/zz_repro_B9_test.go (shown for the non-deferred store; same store of the same value)"),
("C24","C24.b stored-packets-keep-topic","NextPacketID(cl)#1 == nil] stores","the second QoS 1 message on a topic is stored with TopicName \"\" and alias; after reconnect it is resent verbatim on a connection that never bound the alias",R+"B/zz_repro_B9_test.go"),
("C24","C24.d unresolved-alias-rejected","an empty topic after alias resolution","a PUBLISH with empty topic and a never-bound alias is acknowledged 0x00 and retained under the empty topic",R+"B/zz_repro_B8_test.go"),
("C25","C25.a expiry-survives-deferral","Expiry is overwritten with -1","a flow-control deferred message loses its expiry (Expiry=-1): ClearExpiredInflights never expires it by its own interval and it is later sent with the full original interval",R+"B/zz_repro_B10_test.go"),
]
out=open('/tmp/all_false.txt').read().splitlines()
d=json.load(open('/verif/known_findings.json'))
have={(x['property'],x['rule'],x['construct']) for x in d['findings']}
n=0
for line in out:
    m=re.match(r'\s*\[false\] (.*?) \| (.*)$',line)
    rule,construct=m.group(1),m.group(2)
    for (p,r,sub,what,repro) in M:
        if r==rule and sub in construct:
            if (p,rule,construct) not in have:
                d['findings'].append({"property":p,"rule":rule,"construct":construct,"what_fails":what,"reproduction":repro}); n+=1
            break
json.dump(d,open('/verif/known_findings.json','w'),indent=1,ensure_ascii=False)
print('added',n)
