#!/usr/bin/env python3
"""kf_add.py <property> <rule> <construct> <what_fails> <reproduction>  — appends one known finding."""
import json,sys
p='/verif/known_findings.json'
d=json.load(open(p))
e={"property":sys.argv[1],"rule":sys.argv[2],"construct":sys.argv[3],"what_fails":sys.argv[4],"reproduction":sys.argv[5]}
for x in d["findings"]:
    if (x["property"],x["rule"],x["construct"])==(e["property"],e["rule"],e["construct"]):
        x.update(e); break
else:
    d["findings"].append(e)
json.dump(d,open(p,'w'),indent=1,ensure_ascii=False)
