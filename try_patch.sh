#!/bin/bash
# usage: try_patch.sh <patch.diff | -R:<commit>> <prop> [<prop>...]
# Applies a change to /repo's working tree, runs the quick checks, and always restores the tree.
P="$1"; shift
cd /repo || exit 2
if [ -n "$(git status --porcelain)" ]; then echo "/repo not clean" >&2; exit 2; fi
trap 'git -C /repo checkout -q -- . ; git -C /repo clean -fdq' EXIT
case "$P" in
  -R:*) git show "${P#-R:}" | git apply -R || exit 2;;
  *) git apply "$P" || exit 2;;
esac
for p in "$@"; do
  /verif/bin/mqttverif -repo /repo -prop "$p" -tier quick -known /verif/known_findings.json -evidence /tmp/try_$p.json
  echo "== $p exit=$?"
done
