#!/bin/bash
# Applies every stored behaviour-preserving refactoring (/verif/refactors/*.diff) to a scratch worktree of /repo HEAD
# and runs all 42 checks on it. Any VIOLATION is a false alarm; exits 1 if there is one.
export GOFLAGS=-mod=mod GOPROXY=off GOSUMDB=off GOTOOLCHAIN=local; unset GOWORK
( cd /verif/checker && go build -o /verif/bin/mqttverif . ) || exit 2
WT=$(mktemp -d /tmp/rfm_XXXX); rmdir "$WT"
git -C /repo worktree add -q "$WT" HEAD || exit 2
trap 'git -C /repo worktree remove --force "$WT" 2>/dev/null; rm -rf "$WT" /tmp/rfm_ev' EXIT
bad=0; n=0
for p in /verif/refactors/*.diff; do
  ( cd "$WT" && git checkout -q -- . && git clean -fdq && git apply "$p" ) || { echo "$(basename $p): does not apply"; continue; }
  out=$(/verif/bin/mqttverif -repo "$WT" -prop all -known /verif/known_findings.json -evidence /tmp/rfm_ev 2>&1)
  v=$(echo "$out" | grep -c '^VIOLATION'); m=$(echo "$out" | grep -c 'exit=2')
  n=$((n+1))
  echo "$(basename $p): $v false alarms, $m machinery failures"
  if [ "$v" != 0 ] || [ "$m" != 0 ]; then bad=1; echo "$out" | grep -A1 '^VIOLATION' | grep 'rule=' | cut -c1-300; fi
done
echo "$n refactorings checked"
exit $bad
