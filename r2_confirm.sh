#!/bin/bash
# usage: r2_confirm.sh <Cxx> <n> <new-seed-index> "<needs>"  — confirms round-2 change n and stores it as <Cxx>-<index>
P=$1; N=$2; K=$3; NEEDS="$4"
D=/tmp/seed_out2/$P
H=$(head -1 $D/demo${N}_test.go)
PKG=$(echo "$H" | sed -n 's/.*PKG=\([^ ]*\).*/\1/p'); RUN=$(echo "$H" | sed -n 's/.*RUN=\([^ ]*\).*/\1/p'); FLAGS=$(echo "$H" | sed -n 's/.*FLAGS=\(.*\)$/\1/p')
[ "$FLAGS" = none ] && FLAGS=""
FLAGS=$(echo "$FLAGS" | sed 's/`//g; s/ *$//')
[ -z "$PKG" ] && { echo "no PKG in header: $H"; exit 2; }
/verif/confirm_seed.sh $P-$K $D/change$N.diff $D/demo${N}_test.go "$PKG" "$RUN" $P "$NEEDS" "$FLAGS"
