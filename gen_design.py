#!/usr/bin/env python3
"""Fills the generated parts of DESIGN.md (between <!-- BEGIN GENERATED x --> / <!-- END GENERATED x -->):
fixed commits, known-finding counts, the seeded-change matrix and Appendix C (rules as built).
Inputs: `mqttverif -meta`, one `mqttverif -prop all` run on /repo (evidence in a temp dir),
/verif/known_findings.json, /verif/seeded/matrix.json and the seeds' meta.json."""
import json, os, re, subprocess, sys, tempfile, collections, shutil

V = '/verif'
env = dict(os.environ, GOFLAGS='-mod=mod', GOPROXY='off', GOSUMDB='off', GOTOOLCHAIN='local')
env.pop('GOWORK', None)
meta = json.loads(subprocess.check_output([V + '/bin/mqttverif', '-meta'], env=env))
tmp = tempfile.mkdtemp(prefix='gen_design_')
subprocess.run([V + '/bin/mqttverif', '-repo', '/repo', '-prop', 'all', '-known', V + '/known_findings.json', '-evidence', tmp],
               env=env, stdout=subprocess.DEVNULL, stderr=subprocess.DEVNULL)
kf = json.load(open(V + '/known_findings.json'))
matrix = json.load(open(V + '/seeded/matrix.json')) if os.path.exists(V + '/seeded/matrix.json') else []


def esc(s):
    return s.replace('|', '\\|').replace('\n', ' ')


# fixed
fixed = []
for line in kf['fixed']:
    m = re.match(r'fixed: property=(C\d+) ([0-9a-f]+) (.*)', line)
    if m:
        fixed.append('| %s | `%s` | %s |' % (m.group(1), m.group(2), esc(m.group(3))))
fixed_md = '| property | commit | what failed |\n|---|---|---|\n' + '\n'.join(fixed)

# findings counts
cnt = collections.Counter(f['property'] for f in kf['findings'])
rows = []
for p in sorted(cnt):
    rules = sorted({f['rule'] for f in kf['findings'] if f['property'] == p})
    rows.append('| %s | %d | %s |' % (p, cnt[p], esc('; '.join(rules))))
findings_md = '| property | findings | rules that report them |\n|---|---|---|\n' + '\n'.join(rows) + '\n\n%d findings in all.' % sum(cnt.values())

# matrix
mrows = []
for r in matrix:
    own = 'yes' if r['caught_by_own'] else '**no**'
    others = ' '.join(h for h in r['caught_by'] if h != r['property']) or '-'
    if not r['caught_by']:
        own, others = '**missed**', '-'
    mrows.append('| %s | %s | %s | %s | %s |' % (r['seed'], esc(r.get('needs', ''))[:230], own, others, esc('; '.join(r['rules']))[:260]))
n = len(matrix)
own_n = sum(1 for r in matrix if r['caught_by_own'])
any_n = sum(1 for r in matrix if r['caught_by'])
matrix_md = ('Produced by `/verif/seed_matrix.sh` (all 42 checks on a scratch worktree with the change applied). '
             '%d confirmed seeded changes: %d reported by the check of the property they were written against, %d by at least one check, %d missed by all.\n\n'
             % (n, own_n, any_n, n - any_n) +
             '| change | what it needs to manifest | own check | other checks reporting | rules that fired |\n|---|---|---|---|---|\n' + '\n'.join(mrows))

# appendix C
out = []
for p in meta:
    pid = p['id']
    ev = {}
    try:
        ev = json.load(open(os.path.join(tmp, pid + '.json')))
    except Exception:
        pass
    cov = ev.get('coverage', {})
    out.append('### %s — %s\n' % (pid, p['title']))
    out.append('*Technique.* %s\n' % p['technique'])
    out.append('*Decided.* %s\n' % p['explanation'])
    if p.get('not_decided'):
        out.append('*Not decided.* ' + '; '.join(p['not_decided']) + '.\n')
    rules = cov.get('rules', {})
    if rules:
        out.append('*Rules on the current tree* (%s obligations, %s discharged, %s functions analysed):\n' %
                   (cov.get('obligations', '?'), cov.get('discharged', '?'), cov.get('functions_analysed_n', '?')))
        for rn in sorted(rules):
            r = rules[rn]
            if 'obligations' in r:
                out.append('- `%s`: %d obligations' % (rn, r['obligations']))
            else:
                out.append('- floor `%s`: %d instances (floor %d)' % (rn, r.get('instances', 0), r.get('floor', 0)))
        out.append('')
    fx = [l for l in kf['fixed'] if ('property=' + pid + ' ') in l]
    if fx:
        out.append('*Repaired:* ' + ' '.join('`%s`' % re.match(r'fixed: property=C\d+ ([0-9a-f]+)', l).group(1) for l in fx) + ' (8.3).\n')
    fs = [f for f in kf['findings'] if f['property'] == pid]
    if fs:
        out.append('*Known findings (%d):*\n' % len(fs))
        for f in fs:
            out.append('- `%s` — %s — %s *(%s)*' % (f['rule'], esc(f['construct'])[:200], esc(f['what_fails'])[:400], esc(f.get('reproduction', ''))[:160]))
        out.append('')
    sd = [r for r in matrix if pid in r['caught_by'] or r['property'] == pid]
    if sd:
        out.append('*Seeded changes:*\n')
        for r in sd:
            if pid in r['caught_by']:
                mine = [x for x in r['rules'] if x.startswith(pid + '.') or x.startswith(pid + ' ') or x == 'anchor-drift']
                out.append('- %s: reported (%s)' % (r['seed'], '; '.join(mine) or 'see matrix'))
            else:
                out.append('- %s: **not reported by this check**%s' % (r['seed'], (' (reported by ' + ' '.join(r['caught_by']) + ')') if r['caught_by'] else ' (missed by all, 8.6)'))
        out.append('')
appendix_md = '\n'.join(out)

path = V + '/DESIGN.md'
s = open(path).read()
for name, body in (('fixed', fixed_md), ('findings', findings_md), ('matrix', matrix_md), ('appendixC', appendix_md)):
    a = '<!-- BEGIN GENERATED %s -->' % name
    b = '<!-- END GENERATED %s -->' % name
    i, j = s.index(a), s.index(b)
    s = s[:i + len(a)] + '\n' + body + '\n' + s[j:]
open(path, 'w').write(s)
shutil.rmtree(tmp, ignore_errors=True)
print('DESIGN.md generated parts updated: %d properties, %d findings, %d seeds' % (len(meta), len(kf['findings']), len(matrix)))
