#!/bin/bash
# validates MANIFEST.json and all evidence files against the schemas (uses the tooling venv's jsonschema)
python3-vt - <<'PY'
import json,jsonschema,glob
jsonschema.validate(json.load(open('/verif/MANIFEST.json')),json.load(open('/root/.vp/MANIFEST.schema.json')))
print('manifest ok')
sch=json.load(open('/root/.vp/EVIDENCE.schema.json'))
for f in sorted(glob.glob('/verif/evidence/C*.json')):
    jsonschema.validate(json.load(open(f)),sch)
print('evidence ok', len(glob.glob('/verif/evidence/C*.json')))
PY
