#!/bin/bash
# thorough tier: whole-program load (dependencies from source), same rules, plus the seeded-change self-test.
set -u
PROP="$1"; REPO="${2:-/repo}"
HERE="$(cd "$(dirname "$0")" && pwd)"
export GOFLAGS=-mod=mod GOPROXY=off GOSUMDB=off GOTOOLCHAIN=local GOWORK=off
exec "$HERE/bin/mqttverif" -repo "$REPO" -prop "$PROP" -tier thorough -known "$HERE/known_findings.json" -evidence "$HERE/evidence/$PROP.json"
