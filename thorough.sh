#!/bin/bash
# thorough tier:
#  1. the property's rules on the whole program (packages.LoadAllSyntax: dependencies type-checked and built to SSA
#     from source, call graph over everything) — this decides the property and sets the exit code;
#  2. a self-test of the rules that decide it: every stored seeded change that this property's check is recorded to
#     catch (/verif/seeded/matrix.json) is applied to a scratch copy of the CURRENT working tree (under /tmp, removed
#     afterwards) and the rules are run on the copy; the outcome (fired / missed / patch no longer applies) is recorded
#     in the evidence file under coverage.selftest. The self-test never changes the verdict on /repo: it documents that
#     the rules still discriminate on today's code. (/verif/seed_matrix.sh is the failing form used during development.)
set -u
PROP="$1"; REPO="${2:-/repo}"
HERE="$(cd "$(dirname "$0")" && pwd)"
export GOFLAGS=-mod=mod GOPROXY=off GOSUMDB=off GOTOOLCHAIN=local GOWORK=off
EV="$HERE/evidence/$PROP.json"
"$HERE/bin/mqttverif" -repo "$REPO" -prop "$PROP" -tier thorough -known "$HERE/known_findings.json" -evidence "$EV"
RC=$?
[ "${VERIF_NO_SELFTEST:-0}" = 1 ] && exit $RC
[ -f "$HERE/seeded/matrix.json" ] || exit $RC
SEEDS=$(python3 - "$PROP" "$HERE/seeded/matrix.json" <<'PY'
import json,sys
prop,path=sys.argv[1:3]
for r in json.load(open(path)):
    if prop in r.get("caught_by",[]): print(r["seed"])
PY
)
[ -z "$SEEDS" ] && exit $RC
TMP=$(mktemp -d /tmp/verif_selftest_XXXXXX)
trap 'rm -rf "$TMP"' EXIT
RES="$TMP/results.txt"; : > "$RES"
for s in $SEEDS; do
  rm -rf "$TMP/copy"; mkdir -p "$TMP/copy"
  rsync -a --exclude .git "$REPO"/ "$TMP/copy"/
  if ! ( cd "$TMP/copy" && git apply --whitespace=nowarn "$HERE/seeded/$s/patch.diff" ) 2>/dev/null; then
    echo "$s skipped-patch-does-not-apply" >> "$RES"; continue
  fi
  "$HERE/bin/mqttverif" -repo "$TMP/copy" -prop "$PROP" -tier quick -known "$HERE/known_findings.json" -evidence "$TMP/ev.json" > "$TMP/out.txt" 2>&1
  rc=$?
  if [ $rc -eq 1 ] && grep -q "^VIOLATION property=$PROP" "$TMP/out.txt"; then
    rule=$(grep -A1 '^VIOLATION' "$TMP/out.txt" | grep 'rule=' | head -1 | sed -E 's/^ +rule=([^ ]+ [^ ]*) .*/\1/')
    echo "$s fired $rule" >> "$RES"
  elif [ $rc -eq 2 ]; then
    echo "$s machinery-failure" >> "$RES"
  else
    echo "$s missed" >> "$RES"
  fi
done
python3 - "$EV" "$RES" <<'PY'
import json,sys
ev,res=sys.argv[1:3]
e=json.load(open(ev))
rows=[]
for l in open(res):
    p=l.split(None,2)
    rows.append({"seed":p[0],"outcome":p[1],"rule":p[2].strip() if len(p)>2 else ""})
e["coverage"]["selftest"]={"what":"stored seeded changes applied to a scratch copy of the current tree; the property's rules must report each",
  "seeds":rows,"fired":sum(1 for r in rows if r["outcome"]=="fired"),"missed":sum(1 for r in rows if r["outcome"]=="missed"),
  "skipped":sum(1 for r in rows if r["outcome"].startswith("skipped"))}
json.dump(e,open(ev,"w"),indent=1)
print("selftest: "+", ".join(f'{r["seed"]}={r["outcome"]}' for r in rows))
PY
exit $RC
