#!/usr/bin/env python3
"""Regenerates /verif/MANIFEST.json from the rules registered in the checker (mqttverif -meta)
and /verif/not_applicable.json (reasons for properties without a registered rule)."""
import json, subprocess, os
here = os.path.dirname(os.path.abspath(__file__))
meta = json.loads(subprocess.check_output([os.path.join(here, "bin/mqttverif"), "-meta"]))
props = [json.loads(l) for l in open(os.path.join(here, "properties.jsonl"))]
na_reasons = json.load(open(os.path.join(here, "not_applicable.json")))
by = {m["id"]: m for m in meta}
checks, na = [], []
for p in props:
    pid = p["id"]
    m = by.get(pid)
    if m is None:
        na.append({"property_id": pid, "reason": na_reasons.get(pid, "no rule implemented yet for this property (static analysis); see DESIGN.md section 4")})
        continue
    checks.append({
        "property_id": pid,
        "quick_cmd": f"/verif/check.sh {pid} quick",
        "thorough_cmd": f"/verif/check.sh {pid} thorough",
        "evidence_file": f"/verif/evidence/{pid}.json",
        "replay_cmd_template": f"/verif/check.sh {pid} quick  # re-decides the property on /repo; the obligation is in {{path}}",
        "engine": "mqttverif",
        "level_claimed": {
            "category": "other",
            "text": "Static decision of named structural clauses, each a necessary condition of the property: " + m["explanation"]
                    + " NOT decided: " + "; ".join(m["not_decided"] or ["-"]) + ".",
            "design_ref": f"DESIGN.md section 4, {pid}",
        },
        "level_note": "Trusted: go/types and go/ssa (x/tools v0.29.0) as a faithful model of /repo's source; module call graph (static callees + interface dispatch restricted to module types); hand-confirmed tables printed in the evidence. "
                      + " ".join(m["assumptions"] or []),
        "technique": "static analysis: " + m["technique"],
    })
manifest = {
    "version": 1,
    "setup_cmd": "cd /verif/checker && GOFLAGS=-mod=mod GOPROXY=off GOSUMDB=off GOTOOLCHAIN=local GOWORK=off go build -o /verif/bin/mqttverif .",
    "hooks": {
        "guard": "verif",
        "enable": "no source hooks are needed: the checker reads /repo's source; nothing in /repo is built with a tag",
        "baseline_off_cmd": "/verif/run_baseline.sh",
        "source_commits": [],
        "add_only": True,
    },
    "engines": [{
        "name": "mqttverif",
        "path": "/verif/checker",
        "serves_properties": [c["property_id"] for c in checks],
        "kind_free_text": "repository-specific static checker (go/packages + go/types + go/ssa): lock-flow, path/must-pass-through, effect pairing, table agreement, bounds typestate, map-order, who-may-call rules",
    }],
    "checks": checks,
    "not_applicable": na,
    "notes": "All checks are static: they load /repo's current working tree on every run (go/packages, type-check, SSA) and never execute the broker or its tests. Exit 0 = all obligations discharged or listed in known_findings.json; exit 1 = VIOLATION lines; exit 2 = the machinery itself failed (load/type-check error, internal panic). Fix commits in /repo are listed in known_findings.json under 'fixed'.",
}
json.dump(manifest, open(os.path.join(here, "MANIFEST.json"), "w"), indent=1)
print(f"{len(checks)} checks, {len(na)} not applicable")
