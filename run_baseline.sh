#!/bin/bash
# Runs the repository's pinned test suite (guard tag off; there are no hooks) and prints a pass/fail summary.
export GOFLAGS=-mod=mod GOPROXY=off GOSUMDB=off GOTOOLCHAIN=local
unset GOWORK
cd /repo && go test -mod=mod -vet=off -count=1 -timeout 25m ./... 
