#!/bin/bash
# usage: try_wt.sh <patch.diff> : runs every property's quick rules on a scratch worktree with the patch applied
export GOFLAGS=-mod=mod GOPROXY=off GOSUMDB=off GOTOOLCHAIN=local; unset GOWORK
WT=$(mktemp -d /tmp/trywt_XXXX); rmdir "$WT"
git -C /repo worktree add -q "$WT" HEAD || exit 2
trap 'git -C /repo worktree remove --force "$WT" 2>/dev/null; rm -rf "$WT"' EXIT
( cd "$WT" && git apply "$1" ) || exit 2
/verif/bin/mqttverif -repo "$WT" -prop all -known /verif/known_findings.json -evidence /tmp/trywt_ev 2>&1 | grep -A2 '^VIOLATION\|exit=2' | grep -v '^--'
