#!/bin/bash
# usage: try_dump.sh <patch.diff> <Cxx> : applies the patch to a scratch worktree, dumps the normalised sources to /tmp/normdump
# and prints the check's output for one property (development helper).
export GOFLAGS=-mod=mod GOPROXY=off GOSUMDB=off GOTOOLCHAIN=local; unset GOWORK
WT=$(mktemp -d /tmp/trydump_XXXX); rmdir "$WT"
git -C /repo worktree add -q "$WT" HEAD || exit 2
trap 'git -C /repo worktree remove --force "$WT" 2>/dev/null; rm -rf "$WT"' EXIT
( cd "$WT" && git apply "$1" ) || exit 2
rm -rf /tmp/normdump
VERIF_DUMP_NORM=/tmp/normdump /verif/bin/mqttverif -repo "$WT" -prop "$2" -known /verif/known_findings.json -evidence /tmp/trydump_ev.json 2>&1 | grep -v "^KNOWN-FINDING" | cut -c1-600
if [ -n "$3" ]; then cp -r "$WT" "$3"; fi
