#!/bin/bash
# usage: r2_try.sh <Cxx>  — runs all checks against each round-2 change of a property (scratch worktree)
P=$1
for n in 1 2 3; do
  f=/tmp/seed_out2/$P/change$n.diff
  [ -f $f ] || continue
  echo "##### $P change$n: $(head -1 /tmp/seed_out2/$P/demo${n}_test.go | cut -c1-160)"
  /verif/try_wt.sh $f | grep -A1 '^VIOLATION' | grep -v '^--' | cut -c1-280 | head -12
done
