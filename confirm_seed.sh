#!/bin/bash
# usage: confirm_seed.sh <seed-id> <patch.diff> <demo_test.go> <package-dir-relative> <go-test-run-regexp> <property> "<needs>" [extra go test flags]
# Confirms a seeded change in a scratch worktree: compiles, suite passes with the change, demo fails with it and
# passes without it. On success stores it under /verif/seeded/<seed-id>/.
set -u
ID="$1"; PATCH="$2"; DEMO="$3"; PKG="$4"; RUN="$5"; PROP="$6"; NEEDS="$7"; EXTRA="${8:-}"
export GOFLAGS=-mod=mod GOPROXY=off GOSUMDB=off GOTOOLCHAIN=local; unset GOWORK
WT=$(mktemp -d /tmp/confirm_XXXX); rmdir "$WT"
git -C /repo worktree add -q "$WT" HEAD || exit 2
trap 'git -C /repo worktree remove --force "$WT" 2>/dev/null; rm -rf "$WT"' EXIT
cd "$WT"
cp "$DEMO" "$PKG/zz_demo_test.go"
go test -vet=off -count=1 -run "$RUN" $EXTRA "./$PKG" > /tmp/confirm_$ID.clean.log 2>&1; CLEAN=$?
git apply "$PATCH" || { echo "patch does not apply"; exit 2; }
go build ./... > /tmp/confirm_$ID.build.log 2>&1; BUILD=$?
go test -vet=off -count=1 -run "$RUN" $EXTRA "./$PKG" > /tmp/confirm_$ID.mut.log 2>&1; MUT=$?
rm "$PKG/zz_demo_test.go"
go test -vet=off -count=1 ./... > /tmp/confirm_$ID.suite.log 2>&1; SUITE=$?
if [ $SUITE -ne 0 ]; then
  # the pinned suite has a few timing/port-sensitive tests that fail spuriously under machine load:
  # every package that failed must pass on its own within 6 further attempts
  SUITE=0
  for pkg in $(grep -E '^FAIL\s+github.com' /tmp/confirm_$ID.suite.log | awk '{print $2}'); do
    okp=1
    for try in 1 2 3 4 5 6; do
      if go test -vet=off -count=1 "$pkg" >> /tmp/confirm_$ID.suite.log 2>&1; then okp=0; break; fi
    done
    [ $okp -ne 0 ] && SUITE=1
  done
fi
echo "seed $ID: build=$BUILD demo_on_clean=$CLEAN demo_with_change=$MUT suite_with_change=$SUITE"
if [ $BUILD -eq 0 ] && [ $CLEAN -eq 0 ] && [ $MUT -ne 0 ] && [ $SUITE -eq 0 ]; then
  D=/verif/seeded/$ID; mkdir -p $D
  cp "$PATCH" $D/patch.diff; cp "$DEMO" $D/demo_test.go
  python3 - "$ID" "$PROP" "$NEEDS" "$PKG" "$RUN" "$EXTRA" <<'PY'
import json,sys
i,prop,needs,pkg,run,extra=sys.argv[1:7]
json.dump({"id":i,"property":prop,"needs_to_manifest":needs,
 "demo":{"place_as":pkg+"/zz_demo_test.go","command":f"go test -vet=off -count=1 -run '{run}' {extra} ./{pkg}"},
 "confirmed":{"builds":True,"demo_passes_on_unchanged_tree":True,"demo_fails_with_change":True,"pinned_suite_passes_with_change":True,
   "how":"scratch worktree of /repo HEAD under /tmp (removed afterwards): go build ./..., go test -run <demo> with and without the patch, go test ./... with the patch"},
 "source":"written by an independent sub-agent that was given only the property text and its own worktree"},
 open(f"/verif/seeded/{i}/meta.json","w"),indent=1)
PY
  echo "stored $D"
else
  echo "NOT CONFIRMED (see /tmp/confirm_$ID.*.log)"; exit 1
fi
