#!/bin/bash
# usage: try_refactor.sh <patch.diff>... : applies each behaviour-preserving patch to a scratch worktree and runs all
# checks; prints the violations (every one of them is a false alarm to be fixed in the checker).
export GOFLAGS=-mod=mod GOPROXY=off GOSUMDB=off GOTOOLCHAIN=local; unset GOWORK
WT=$(mktemp -d /tmp/tryrf_XXXX); rmdir "$WT"
git -C /repo worktree add -q "$WT" HEAD || exit 2
trap 'git -C /repo worktree remove --force "$WT" 2>/dev/null; rm -rf "$WT"' EXIT
for p in "$@"; do
  ( cd "$WT" && git checkout -q -- . && git clean -fdq && git apply "$p" ) || { echo "## $p: does not apply"; continue; }
  out=$(${MQTTVERIF:-/verif/bin/mqttverif} -repo "$WT" -prop all -known /verif/known_findings.json -evidence /tmp/tryrf_ev 2>&1)
  n=$(echo "$out" | grep -c '^VIOLATION')
  m=$(echo "$out" | grep -c 'exit=2')
  echo "## $p: $n false alarms, $m machinery failures"
  echo "$out" | grep -A1 '^VIOLATION' | grep 'rule=' | cut -c1-330
  echo "$out" | grep -B2 -A6 'internal panic\|load failed' | head -20
done
