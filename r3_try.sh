#!/bin/bash
# usage: r3_try.sh <Cxx> [dir]  — runs all checks against each change of a property delivered under <dir>/<Cxx>
# (default /tmp/seed_out3), each in a scratch worktree; prints the reported violations or MISSED.
P=$1; D=${2:-/tmp/seed_out3}
for n in 1 2 3; do
  f=$D/$P/change$n.diff
  [ -f $f ] || continue
  echo "##### $P change$n: $(head -1 $D/$P/demo${n}_test.go | cut -c1-160)"
  out=$(/verif/try_wt.sh $f | grep -A1 '^VIOLATION' | grep -v '^--' | cut -c1-280 | head -12)
  if [ -z "$out" ]; then echo "  MISSED"; else echo "$out"; fi
done
