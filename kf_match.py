#!/usr/bin/env python3
"""kf_match.py <prop> <construct-substring> <what_fails> <reproduction>
Adds a known finding for every currently failing, unlisted obligation of <prop> (from /tmp/<prop>.json,
written by a run with -evidence /tmp/<prop>.json) whose construct contains the substring."""
import json,sys
prop,sub,what,repro=sys.argv[1:5]
ev=json.load(open(f'/tmp/{prop}.json'))
d=json.load(open('/verif/known_findings.json'))
have={(x['property'],x['rule'],x['construct']) for x in d['findings']}
n=0
for o in ev['coverage']['samples']:
    if o['ok'] or o.get('known_finding'): continue
    if sub in o['construct'] and (prop,o['rule'],o['construct']) not in have:
        d['findings'].append({"property":prop,"rule":o['rule'],"construct":o['construct'],"what_fails":what,"reproduction":repro}); n+=1
json.dump(d,open('/verif/known_findings.json','w'),indent=1,ensure_ascii=False)
print(prop,'added',n)
