#!/bin/bash
# usage: seed_matrix.sh [seed-id ...]
#        MATRIX_SHARD=k/n seed_matrix.sh     runs every n-th seed (k = 0..n-1) and only writes /tmp/matrix_rows_k.txt
#        seed_matrix.sh --merge              builds MATRIX.md / matrix.json from the shard files /tmp/matrix_rows_*.txt
# For every stored seeded change (/verif/seeded/<id>/patch.diff) applies it to a scratch worktree of /repo HEAD
# (under /tmp, removed afterwards), runs every property's quick rules on that worktree in one process and records
# which checks report a violation.  Writes /verif/seeded/MATRIX.md and /verif/seeded/matrix.json.
# /repo itself is never modified.
set -u
export GOFLAGS=-mod=mod GOPROXY=off GOSUMDB=off GOTOOLCHAIN=local; unset GOWORK
HERE=/verif

merge() {
python3 - "$1" <<'PY'
import sys,json,os,re
rows=[l.rstrip('\n').split('|') for l in open(sys.argv[1]) if l.strip()]
def key(r):
    m=re.match(r'C(\d+)-(\d+)',r[0]); return (int(m.group(1)),int(m.group(2)))
rows.sort(key=key)
res=[]
md=["# Seeded changes × checks","",
"Produced by `/verif/seed_matrix.sh` (every property's quick rules run on a scratch worktree with the change applied).",
"`own` = the check of the property the change was written against reports it; `other` = reported by these other properties' checks.","",
"| seed | property | own check | other checks reporting | rules that fired |","|---|---|---|---|---|"]
for r in rows:
    s=r[0]; hits=r[1].split(); rules=r[2] if len(r)>2 else ''
    own=s.split('-')[0]
    meta={}
    try: meta=json.load(open(f'/verif/seeded/{s}/meta.json'))
    except Exception: pass
    res.append({"seed":s,"property":own,"caught_by_own":own in hits,"caught_by":hits,"rules":[x for x in rules.split(';') if x],"needs":meta.get("needs_to_manifest","")})
    md.append(f"| {s} | {own} | {'yes' if own in hits else '**no**'} | {' '.join(h for h in hits if h!=own) or '-'} | {rules.replace(';','; ')} |")
n=len(res); own=sum(1 for r in res if r['caught_by_own']); anyc=sum(1 for r in res if r['caught_by'])
md += ["",f"{n} seeds: {own} reported by the property's own check, {anyc} by at least one check, {n-anyc} missed by all."]
open('/verif/seeded/MATRIX.md','w').write('\n'.join(md)+'\n')
json.dump(res,open('/verif/seeded/matrix.json','w'),indent=1)
print(md[-1])
PY
}

if [ "${1:-}" = --merge ]; then
  cat /tmp/matrix_rows_[0-9]*.txt > /tmp/matrix_rows.txt
  merge /tmp/matrix_rows.txt
  exit 0
fi

( cd $HERE/checker && go build -o $HERE/bin/mqttverif . ) || exit 2
# a private copy of the checker, so that a rebuild during the (long) run does not change it half-way
BIN=$(mktemp /tmp/matrix_bin_XXXX); cp $HERE/bin/mqttverif $BIN; chmod +x $BIN
WT=$(mktemp -d /tmp/matrix_XXXX); rmdir "$WT"
git -C /repo worktree add -q "$WT" HEAD || exit 2
EV=$(mktemp -d /tmp/matrix_ev_XXXX)
trap 'git -C /repo worktree remove --force "$WT" 2>/dev/null; rm -rf "$WT" "$EV" "$BIN"' EXIT
if [ $# -gt 0 ]; then SEEDS="$*"; else SEEDS=$(ls $HERE/seeded | grep -E '^C[0-9]+-[0-9]+$' | sort -V); fi
OUT=/tmp/matrix_rows.txt
TAG=all
if [ -n "${MATRIX_SHARD:-}" ]; then
  K=${MATRIX_SHARD%/*}; N=${MATRIX_SHARD#*/}
  SEEDS=$(echo $SEEDS | tr ' ' '\n' | awk -v k=$K -v n=$N 'NR % n == k')
  OUT=/tmp/matrix_rows_$K.txt
  TAG=$K
fi
# baseline: the unchanged worktree must be silent
$BIN -repo "$WT" -prop all -known $HERE/known_findings.json -evidence $EV > /tmp/matrix_base_$TAG.log 2>&1
if [ "$(grep -c 'exit=0' /tmp/matrix_base_$TAG.log)" -lt 42 ]; then echo "baseline run incomplete" >&2; tail -3 /tmp/matrix_base_$TAG.log >&2; exit 2; fi
if grep -q '^VIOLATION' /tmp/matrix_base_$TAG.log; then echo "baseline not silent" >&2; grep '^VIOLATION' /tmp/matrix_base_$TAG.log >&2; exit 1; fi
: > $OUT
for s in $SEEDS; do
  ( cd "$WT" && git checkout -q -- . && git clean -fdq && git apply $HERE/seeded/$s/patch.diff ) || { echo "$s: patch does not apply" >&2; echo "$s|PATCH-FAILED|" >> $OUT; continue; }
  $BIN -repo "$WT" -prop all -known $HERE/known_findings.json -evidence $EV > /tmp/matrix_$s.log 2>&1
  own=${s%%-*}
  hits=$(grep '^VIOLATION' /tmp/matrix_$s.log | sed -E 's/.*property=(C[0-9]+).*/\1/' | sort -u | tr '\n' ' ')
  rules=$(grep -A1 '^VIOLATION' /tmp/matrix_$s.log | grep 'rule=' | sed -E 's/^ +rule=([^ ]+ [^ ]*) .*/\1/' | sort -u | tr '\n' ';')
  broke=$(grep -c 'exit=2' /tmp/matrix_$s.log)
  echo "$s|$hits|$rules|$broke" >> $OUT
  echo "$s -> ${hits:-MISSED} (machinery failures: $broke)"
  rm -f /tmp/matrix_$s.log
done
[ -n "${MATRIX_SHARD:-}" ] && exit 0
merge "$OUT"
