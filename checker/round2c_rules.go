package main

// Rules added after the second round of seeded changes, part 3.

import (
	"fmt"
	"strings"

	"golang.org/x/tools/go/ssa"
)

func round2Hooks3(c *Ctx, id string) {
	switch id {
	case "C13":
		protocolNameLevelPairs(c, "C13.e protocol-name-level")
		noHookBetweenAddAndConnack(c, "C13.f no-hook-before-connack")
	}
}

// protocolNameLevelPairs: ConnectValidate accepts a CONNECT only for the pairs (MQIsdp, 3), (MQTT, 4), (MQTT, 5): for
// every other combination of the two legal names with a level no path reaches the success return.
func protocolNameLevelPairs(c *Ctx, rule string) {
	f := c.fn("packets", "(*Packet).ConnectValidate")
	if f == nil {
		return
	}
	isOld := func(t string) bool {
		return strings.HasPrefix(t, "bytes.Equal(pk.Connect.ProtocolName,") && strings.Contains(t, `[]byte("MQIsdp")`)
	}
	isNew := func(t string) bool {
		return strings.HasPrefix(t, "bytes.Equal(pk.Connect.ProtocolName,") && strings.Contains(t, `[]byte("MQTT")`)
	}
	nOld, nNew := 0, 0
	for _, b := range f.Blocks {
		if t, _, ok := condOf(b); ok {
			if isOld(t) {
				nOld++
			}
			if isNew(t) {
				nNew++
			}
		}
	}
	c.ob(rule, "(*packets.Packet).ConnectValidate compares the protocol name with both legal names", c.pos(f.Pos()), nOld > 0 && nNew > 0,
		fmt.Sprintf("%d tests of MQIsdp, %d tests of MQTT recognised", nOld, nNew))
	success := func(x ssa.Instruction) bool {
		r, ok := x.(*ssa.Return)
		return ok && len(r.Results) == 1 && describe(rvs(r)[0]) == "packets.CodeSuccess"
	}
	ver := func(k int, truth bool) Assume { return assumeEq(fmt.Sprintf("pk.ProtocolVersion == %d", k), truth) }
	for _, cs := range []struct {
		what string
		as   []Assume
	}{
		{"name MQIsdp with a level other than 3", []Assume{{Match: isOld, Truth: true}, {Match: isNew, Truth: false}, ver(3, false)}},
		{"name MQTT with a level other than 4 or 5", []Assume{{Match: isNew, Truth: true}, {Match: isOld, Truth: false}, ver(4, false), ver(5, false)}},
	} {
		_, hit := (&PathQuery{Fn: f, Target: success, Assume: cs.as}).Find()
		c.ob(rule, "(*packets.Packet).ConnectValidate never accepts "+cs.what, c.pos(f.Pos()), hit == nil,
			"a CONNECT whose protocol name and level do not belong together gets a session [MQTT-3.1.2-2]")
	}
}

// noHookBetweenAddAndConnack: from the moment the connecting client is published in Clients (other goroutines can
// deliver to it) until its CONNACK is written, attachClient calls no hook: a hook may block for any time, and every
// message routed in that window goes out before the CONNACK. (That the client is published before the CONNACK at all
// is the known finding C13.a; this clause keeps the window free of external code.)
func noHookBetweenAddAndConnack(c *Ctx, rule string) {
	f := c.fn("mqtt", "(*Server).attachClient")
	if f == nil {
		return
	}
	add := c.call1(f, fnClientsAdd)
	if add == nil {
		c.ob(rule, "(*mqtt.Server).attachClient publishes the client with Clients.Add", c.pos(f.Pos()), false, "site not found")
		return
	}
	_, hit := (&PathQuery{Fn: f, From: add, Target: func(x ssa.Instruction) bool {
		cc := callOf(x)
		if cc == nil {
			return false
		}
		if _, isDefer := x.(*ssa.Defer); isDefer {
			return false
		}
		return strings.HasPrefix(cname(cc), "(*mqtt.Hooks).On")
	}, Barrier: isNamed(fnSendConnack)}).Find()
	what := ""
	if hit != nil {
		what = cname(callOf(hit)) + " at " + c.pos(hit.Pos())
	}
	c.ob(rule, "(*mqtt.Server).attachClient calls no hook between Clients.Add and the CONNACK write", c.pos(add.Pos()), hit == nil,
		"a slow hook ("+what+") holds the connection in the state 'deliverable but not yet acknowledged': publishes routed meanwhile precede the CONNACK")
}
