package main

// Renamed functions. The rules name their anchors by function ("(*mqtt.TopicsIndex).trim"). When a function of the
// reference tree no longer resolves and the tree has exactly one function the reference tree does not know with the
// same receiver and parameter types, the two are taken to be the same function under a new name: in the overlay the
// new name is changed back to the reference name (declaration and every use), so the rules find their anchor and
// judge its body. Where several candidates have the same parameter types the one whose name shares the longest run of
// characters with the reference name wins, if that winner is unique. If the pairing is wrong (the function was
// deleted and an unrelated one with the same signature was added) the rules judge the unrelated body under the old
// name and report what they find — never less than the anchor-drift report they would have made anyway.

import (
	"bytes"
	"go/ast"
	"go/format"
	"go/types"
	"sort"
	"strings"

	"golang.org/x/tools/go/packages"
)

type renamePair struct {
	obj      *types.Func
	from, to string // current key, reference key
	newName  string // bare identifier to restore
}

func sigTypes(f *types.Func) []string {
	sig := f.Type().(*types.Signature)
	var out []string
	if r := sig.Recv(); r != nil {
		out = append(out, typeKey(r.Type()))
	}
	for i := 0; i < sig.Params().Len(); i++ {
		out = append(out, typeKey(sig.Params().At(i).Type()))
	}
	return out
}

func refSigTypes(r refFn) []string {
	var out []string
	for _, p := range r.Params {
		out = append(out, p.Type)
	}
	return out
}

func longestCommonRun(a, b string) int {
	best := 0
	for i := range a {
		for j := range b {
			k := 0
			for i+k < len(a) && j+k < len(b) && a[i+k] == b[j+k] {
				k++
			}
			if k > best {
				best = k
			}
		}
	}
	return best
}

// bareName: "(*mqtt.TopicsIndex).trim" -> "trim"; "packets.encodeLength" -> "encodeLength".
func bareName(key string) string {
	if i := strings.LastIndexByte(key, '.'); i >= 0 {
		return key[i+1:]
	}
	return key
}

// ownerOf: everything before the bare name (package or receiver), which must agree between the two names.
func ownerOf(key string) string {
	if i := strings.LastIndexByte(key, '.'); i >= 0 {
		return key[:i]
	}
	return ""
}

// matchRenamed pairs reference functions that no longer resolve with functions the reference tree does not have.
func matchRenamed(pkgs []*packages.Package, ref map[string]refFn) []renamePair {
	cur := map[string]*types.Func{}
	for _, p := range pkgs {
		if !isModPkg(p.PkgPath) || p.TypesInfo == nil {
			continue
		}
		for _, f := range p.Syntax {
			for _, d := range f.Decls {
				if fd, ok := d.(*ast.FuncDecl); ok {
					if obj, ok := p.TypesInfo.Defs[fd.Name].(*types.Func); ok {
						cur[funcKey(obj)] = obj
					}
				}
			}
		}
	}
	var missing []string
	for k := range ref {
		if strings.Contains(k, "$") || bareName(k) == "init" || strings.HasPrefix(k, "examples/") || strings.HasPrefix(k, "cmd") {
			continue
		}
		if _, ok := cur[k]; !ok {
			missing = append(missing, k)
		}
	}
	sort.Strings(missing)
	if len(missing) == 0 {
		return nil
	}
	var fresh []string
	for k := range cur {
		if _, known := ref[k]; !known {
			fresh = append(fresh, k)
		}
	}
	sort.Strings(fresh)
	same := func(a, b []string) bool {
		if len(a) != len(b) {
			return false
		}
		for i := range a {
			if a[i] != b[i] {
				return false
			}
		}
		return true
	}
	// candidate lists in both directions
	cand := map[string][]string{}
	for _, m := range missing {
		for _, n := range fresh {
			if ownerOf(m) == ownerOf(n) && same(refSigTypes(ref[m]), sigTypes(cur[n])) {
				cand[m] = append(cand[m], n)
			}
		}
	}
	pick := func(m string) string {
		cs := cand[m]
		if len(cs) == 1 {
			return cs[0]
		}
		best, bestN, tie := "", -1, false
		for _, n := range cs {
			k := longestCommonRun(strings.ToLower(bareName(m)), strings.ToLower(bareName(n)))
			if k > bestN {
				best, bestN, tie = n, k, false
			} else if k == bestN {
				tie = true
			}
		}
		if tie || bestN < 4 {
			return ""
		}
		return best
	}
	taken := map[string]string{}
	var out []renamePair
	for _, m := range missing {
		n := pick(m)
		if n == "" {
			continue
		}
		if prev, dup := taken[n]; dup {
			// two reference functions claim the same new function: neither is restored
			for i := range out {
				if out[i].to == prev {
					out = append(out[:i], out[i+1:]...)
					break
				}
			}
			continue
		}
		taken[n] = m
		out = append(out, renamePair{obj: cur[n], from: n, to: m, newName: bareName(m)})
	}
	return out
}

// nameImplicitImports writes out the package name of every import whose name differs from the last element of its
// path (`import "github.com/mochi-mqtt/server/v2"` declares mqtt); returns the changed files.
func nameImplicitImports(pkgs []*packages.Package) map[string][]byte {
	out := map[string][]byte{}
	for _, p := range pkgs {
		if !isModPkg(p.PkgPath) || p.TypesInfo == nil {
			continue
		}
		for i, f := range p.Syntax {
			n := 0
			for _, spec := range f.Imports {
				if spec.Name != nil {
					continue
				}
				pn, ok := p.TypesInfo.Implicits[spec].(*types.PkgName)
				if !ok {
					continue
				}
				path := strings.Trim(spec.Path.Value, "\"`")
				last := path
				if j := strings.LastIndexByte(path, '/'); j >= 0 {
					last = path[j+1:]
				}
				if pn.Imported().Name() != last {
					spec.Name = ast.NewIdent(pn.Imported().Name())
					n++
				}
			}
			if n == 0 {
				continue
			}
			var buf bytes.Buffer
			if err := format.Node(&buf, p.Fset, f); err != nil {
				continue
			}
			out[p.CompiledGoFiles[i]] = buf.Bytes()
		}
	}
	return out
}

// applyRenames rewrites declaration and uses of each paired function to the reference name; returns the changed files.
func applyRenames(pkgs []*packages.Package, pairs []renamePair, content func(string) []byte) map[string][]byte {
	want := map[*types.Func]string{}
	for _, pr := range pairs {
		want[pr.obj] = pr.newName
	}
	out := map[string][]byte{}
	for _, p := range pkgs {
		if !isModPkg(p.PkgPath) || p.TypesInfo == nil {
			continue
		}
		for i, f := range p.Syntax {
			n := 0
			ast.Inspect(f, func(nd ast.Node) bool {
				id, ok := nd.(*ast.Ident)
				if !ok {
					return true
				}
				var fo *types.Func
				if o, ok := p.TypesInfo.Defs[id].(*types.Func); ok {
					fo = o
				} else if o, ok := p.TypesInfo.Uses[id].(*types.Func); ok {
					fo = o
				}
				if fo == nil {
					return true
				}
				if name, ok := want[fo.Origin()]; ok {
					id.Name = name
					n++
				}
				return true
			})
			if n == 0 {
				continue
			}
			var buf bytes.Buffer
			if err := format.Node(&buf, p.Fset, f); err != nil {
				return nil
			}
			out[p.CompiledGoFiles[i]] = buf.Bytes()
		}
	}
	_ = content
	return out
}
