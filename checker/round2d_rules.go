package main

// Rules added after the second round of seeded changes, part 4.

import (
	"fmt"
	"go/token"
	"strings"

	"golang.org/x/tools/go/ssa"
)

func round2Hooks4(c *Ctx, id string) {
	switch id {
	case "C11":
		ackReturnsSendQuota(c, "C11.f ack-returns-send-quota")
		deliveredQosDecides(c, "C11.g delivered-qos-decides")
		ownExpiryStrictlyPositive(c, "C11.h own-expiry-strictly-positive")
	case "C04":
		deliveredQosDecides(c, "C04.i delivered-qos-decides")
	case "C25":
		ownExpiryStrictlyPositive(c, "C25.f own-expiry-strictly-positive")
	}
}

// ackReturnsSendQuota: in the handlers that end an outbound exchange (processPuback, processPubcomp), removing the
// record and returning the send slot go together: from the found-and-deleted edge of Inflight.Delete every path to a
// return passes IncreaseSendQuota, whatever reason code the acknowledgement carries.
func ackReturnsSendQuota(c *Ctx, rule string) {
	n := 0
	for _, name := range []string{"(*Server).processPuback", "(*Server).processPubcomp"} {
		f := c.fn("mqtt", name)
		if f == nil {
			continue
		}
		for _, ci := range c.callsNamed(f, fnInflDelete) {
			call := asCall(ci)
			if call == nil {
				continue
			}
			n++
			okText := describe(call)
			before := false
			for _, inc := range c.callsNamed(f, "(*mqtt.Inflight).IncreaseSendQuota") {
				if domInstr(inc, ci) {
					before = true
				}
			}
			if before {
				c.ob(rule, fmt.Sprintf("%s: once the record is removed the send slot is returned on every path (%s)", fname(f), guardKey(ci)), c.pos(ci.Pos()), true, "the slot is returned unconditionally before the removal")
				continue
			}
			c.noPath(rule, fmt.Sprintf("%s: once the record is removed the send slot is returned on every path (%s)", fname(f), guardKey(ci)), f, ci, anyReturn, isNamed("(*mqtt.Inflight).IncreaseSendQuota"),
				[]Assume{assumeEq(okText, true)}, "an acknowledgement that removes the record without returning the slot leaks send quota: after Receive Maximum of them nothing is sent to the client any more")
		}
	}
	c.floor(rule+" record removals in the acknowledgement handlers", n, 2)
}

// deliveredQosDecides: in publishToClient every QoS-dependent decision after the per-subscriber copy was made reads
// the copy's (delivered, clamped) QoS; the published packet's QoS is not consulted again.
func deliveredQosDecides(c *Ctx, rule string) {
	f := c.fn("mqtt", "(*Server).publishToClient")
	if f == nil {
		return
	}
	nOut, bad := 0, ""
	for _, fn := range withAnon(f) {
		for _, b := range fn.Blocks {
			t, _, ok := condOf(b)
			if !ok {
				continue
			}
			if strings.Contains(t, "out.FixedHeader.Qos") {
				nOut++
			}
			if strings.Contains(t, "pk.FixedHeader.Qos") {
				bad = t + " at " + c.pos(b.Instrs[len(b.Instrs)-1].Pos())
			}
		}
	}
	c.ob(rule, "(*mqtt.Server).publishToClient: QoS-dependent decisions read the delivered QoS (out), never the published packet's", c.pos(f.Pos()), bad == "" && nOut >= 3,
		"condition "+bad+": a QoS 0 delivery of a QoS 1/2 publish is then treated as tracked (or vice versa) — the rollback returns a send slot that was never taken")
}

// ownExpiryStrictlyPositive: the comparison of a record's own Expiry with the clock is made only for Expiry > 0:
// 0 means "none" and -1 marks a message parked behind the receive maximum.
func ownExpiryStrictlyPositive(c *Ctx, rule string) {
	n := 0
	for _, spec := range []struct{ pkg, fn string }{{"mqtt", "(*Client).ClearExpiredInflights"}, {"mqtt", "(*Server).clearExpiredRetainedMessages"}} {
		f := c.fn(spec.pkg, spec.fn)
		if f == nil {
			continue
		}
		for _, ins := range instrs(f) {
			b, ok := ins.(*ssa.BinOp)
			if !ok || (b.Op != token.LSS && b.Op != token.GTR && b.Op != token.LEQ && b.Op != token.GEQ) {
				continue
			}
			dx, dy := describe(b.X), describe(b.Y)
			if !((strings.HasSuffix(dx, ".Expiry") && dy == "now") || (strings.HasSuffix(dy, ".Expiry") && dx == "now")) {
				continue
			}
			n++
			c.ob(rule, fmt.Sprintf("%s: the record's Expiry is compared with the clock only when it is > 0", fname(f)), c.pos(b.Pos()),
				dominatedByFact(b, textHas(".Expiry > 0"), true), "Expiry 0 means no expiry and -1 marks a message parked behind the receive maximum: both would be swept as 'expired'")
		}
	}
	c.floor(rule+" comparisons of Expiry with the clock", n, 2)
}
