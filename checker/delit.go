package main

// De-literalisation: the inliner (normalize.go) falls back to `func() T { S…; return e }()` when the callee has several
// statements and a result. A function literal that is invoked on the spot, takes no parameters, has a single `return`
// as its last statement (or none), and contains no defer/recover is equivalent to a block; in the statement contexts
// where it is the first thing evaluated it is rewritten into one, so that the rules see plain control flow:
//
//   IIFE                         ->  { S…; _ = e }
//   x := IIFE      / x = IIFE    ->  var t T; { S…; t = e }; x := t
//   if x := IIFE; c { … }        ->  { var t T; { S…; t = e }; if x := t; c { … } }
//   if IIFE { … } / if !IIFE     ->  { var t bool; { S…; t = e }; if t { … } }
//   return IIFE                  ->  { S…; return e }
//
// Every other occurrence is left as the inliner produced it.

import (
	"bytes"
	"fmt"
	"go/ast"
	"go/format"
	"go/parser"
	"go/token"

	"golang.org/x/tools/go/ast/astutil"
)

type delit struct {
	n    int // temporaries created
	done int // literals rewritten
}

// iife returns the literal if e is `func() (…) {…}()` in rewritable form, with its leading statements and result expressions.
func (d *delit) iife(e ast.Expr) (lit *ast.FuncLit, body []ast.Stmt, results []ast.Expr, ok bool) {
	call, isCall := e.(*ast.CallExpr)
	if !isCall || len(call.Args) != 0 {
		return nil, nil, nil, false
	}
	fl, isLit := call.Fun.(*ast.FuncLit)
	if !isLit {
		if p, isP := call.Fun.(*ast.ParenExpr); isP {
			fl, isLit = p.X.(*ast.FuncLit)
		}
	}
	if !isLit || fl.Type.Params != nil && len(fl.Type.Params.List) > 0 || fl.Type.TypeParams != nil {
		return nil, nil, nil, false
	}
	stmts := fl.Body.List
	nres := 0
	if fl.Type.Results != nil {
		for _, f := range fl.Type.Results.List {
			if len(f.Names) > 0 {
				return nil, nil, nil, false // named results: a bare return would need them
			}
			nres++
		}
	}
	var res []ast.Expr
	if nres > 0 {
		if len(stmts) == 0 {
			return nil, nil, nil, false
		}
		r, isRet := stmts[len(stmts)-1].(*ast.ReturnStmt)
		if !isRet || len(r.Results) == 0 {
			return nil, nil, nil, false
		}
		res = r.Results
		stmts = stmts[:len(stmts)-1]
	} else if len(stmts) > 0 {
		if r, isRet := stmts[len(stmts)-1].(*ast.ReturnStmt); isRet && len(r.Results) == 0 {
			stmts = stmts[:len(stmts)-1]
		}
	}
	// no other return, no defer, no recover in the remaining statements (nested literals are their own world)
	bad := false
	for _, s := range stmts {
		ast.Inspect(s, func(n ast.Node) bool {
			switch x := n.(type) {
			case *ast.FuncLit:
				return false
			case *ast.ReturnStmt, *ast.DeferStmt:
				bad = true
			case *ast.CallExpr:
				if id, ok := x.Fun.(*ast.Ident); ok && id.Name == "recover" {
					bad = true
				}
			}
			return !bad
		})
	}
	if bad {
		return nil, nil, nil, false
	}
	return fl, stmts, res, true
}

func (d *delit) tmp() *ast.Ident {
	d.n++
	return ast.NewIdent(fmt.Sprintf("inl%d", d.n))
}

// declTemps returns `var t1 T1; var t2 T2 …` for the literal's result types and the temporaries.
func (d *delit) declTemps(fl *ast.FuncLit) ([]ast.Stmt, []ast.Expr) {
	var decls []ast.Stmt
	var ids []ast.Expr
	for _, f := range fl.Type.Results.List {
		t := d.tmp()
		ids = append(ids, t)
		decls = append(decls, &ast.DeclStmt{Decl: &ast.GenDecl{Tok: token.VAR, Specs: []ast.Spec{&ast.ValueSpec{Names: []*ast.Ident{t}, Type: f.Type}}}})
	}
	return decls, ids
}

func assign(lhs []ast.Expr, tok token.Token, rhs []ast.Expr) ast.Stmt {
	return &ast.AssignStmt{Lhs: lhs, Tok: tok, Rhs: rhs}
}

func blanks(n int) []ast.Expr {
	var out []ast.Expr
	for i := 0; i < n; i++ {
		out = append(out, ast.NewIdent("_"))
	}
	return out
}

func nResults(fl *ast.FuncLit) int {
	if fl.Type.Results == nil {
		return 0
	}
	return len(fl.Type.Results.List)
}

// lower recognises a rewritable literal call and returns a generator of the statements that replace it: given the
// expressions that receive its results (nil: results discarded) it yields the literal's body as plain statements.
// The simple form (one trailing return) becomes `S…; targets = e`. A body with several returns becomes
//   L: switch { default: S… }   with every `return e` replaced by `{ targets = e; break L }`.
func (d *delit) lower(e ast.Expr) (*ast.FuncLit, func(targets []ast.Expr) []ast.Stmt, bool) {
	if fl, body, res, ok := d.iife(e); ok {
		return fl, func(targets []ast.Expr) []ast.Stmt {
			out := append([]ast.Stmt{}, body...)
			if len(res) > 0 {
				if targets == nil {
					targets = blanks(nResults(fl))
				}
				out = append(out, assign(targets, token.ASSIGN, res))
			}
			return out
		}, true
	}
	fl, ok := d.iifeMulti(e)
	if !ok {
		return nil, nil, false
	}
	return fl, func(targets []ast.Expr) []ast.Stmt {
		d.n++
		label := ast.NewIdent(fmt.Sprintf("inlL%d", d.n))
		body := &ast.BlockStmt{List: fl.Body.List}
		astutil.Apply(body, func(cur *astutil.Cursor) bool {
			switch x := cur.Node().(type) {
			case *ast.FuncLit:
				return false
			case *ast.ReturnStmt:
				var blk []ast.Stmt
				if len(x.Results) > 0 {
					t := targets
					if t == nil {
						t = blanks(nResults(fl))
					}
					blk = append(blk, assign(t, token.ASSIGN, x.Results))
				}
				blk = append(blk, &ast.BranchStmt{Tok: token.BREAK, Label: label})
				cur.Replace(&ast.BlockStmt{List: blk})
				return false
			}
			return true
		}, nil)
		sw := &ast.SwitchStmt{Body: &ast.BlockStmt{List: []ast.Stmt{&ast.CaseClause{List: nil, Body: body.List}}}}
		return []ast.Stmt{&ast.LabeledStmt{Label: label, Stmt: sw}}
	}, true
}

// iifeMulti: a parameterless literal called on the spot, without named results, defer or recover, with at least one
// return (any number, anywhere outside nested literals).
func (d *delit) iifeMulti(e ast.Expr) (*ast.FuncLit, bool) {
	call, isCall := e.(*ast.CallExpr)
	if !isCall || len(call.Args) != 0 {
		return nil, false
	}
	fl, isLit := call.Fun.(*ast.FuncLit)
	if !isLit {
		if p, isP := call.Fun.(*ast.ParenExpr); isP {
			fl, isLit = p.X.(*ast.FuncLit)
		}
	}
	if !isLit || fl.Type.Params != nil && len(fl.Type.Params.List) > 0 || fl.Type.TypeParams != nil {
		return nil, false
	}
	if fl.Type.Results != nil {
		for _, f := range fl.Type.Results.List {
			if len(f.Names) > 0 {
				return nil, false
			}
		}
	}
	bad, nret := false, 0
	ast.Inspect(fl.Body, func(n ast.Node) bool {
		switch x := n.(type) {
		case *ast.FuncLit:
			return false
		case *ast.ReturnStmt:
			nret++
		case *ast.DeferStmt:
			bad = true
		case *ast.BranchStmt:
			if x.Tok == token.GOTO {
				bad = true
			}
		case *ast.CallExpr:
			if id, ok := x.Fun.(*ast.Ident); ok && id.Name == "recover" {
				bad = true
			}
		}
		return !bad
	})
	if bad || nret == 0 {
		return nil, false
	}
	// a literal with results must end in a return (otherwise it would not compile), so falling out of the switch is
	// impossible for it; a literal without results may fall out — that is the normal end of the block
	return fl, true
}

// rewriteStmt returns the replacement statements for s, or nil when s is left alone.
func (d *delit) rewriteStmt(s ast.Stmt) []ast.Stmt {
	switch x := s.(type) {
	case *ast.ExprStmt:
		if _, gen, ok := d.lower(x.X); ok {
			d.done++
			return []ast.Stmt{&ast.BlockStmt{List: gen(nil)}}
		}
	case *ast.AssignStmt:
		if len(x.Rhs) == 1 && (x.Tok == token.DEFINE || x.Tok == token.ASSIGN) {
			if fl, gen, ok := d.lower(x.Rhs[0]); ok && nResults(fl) == len(x.Lhs) && nResults(fl) > 0 {
				d.done++
				decls, ids := d.declTemps(fl)
				out := append(decls, &ast.BlockStmt{List: gen(ids)})
				return append(out, assign(x.Lhs, x.Tok, ids))
			}
		}
	case *ast.ReturnStmt:
		if len(x.Results) == 1 {
			if fl, gen, ok := d.lower(x.Results[0]); ok && nResults(fl) > 0 {
				d.done++
				decls, ids := d.declTemps(fl)
				out := append(decls, &ast.BlockStmt{List: gen(ids)}, &ast.ReturnStmt{Results: ids})
				return []ast.Stmt{&ast.BlockStmt{List: out}}
			}
		}
	case *ast.IfStmt:
		// if x := IIFE; cond { … }
		if as, isAs := x.Init.(*ast.AssignStmt); isAs && len(as.Rhs) == 1 && as.Tok == token.DEFINE {
			if fl, gen, ok := d.lower(as.Rhs[0]); ok && nResults(fl) == len(as.Lhs) && nResults(fl) > 0 {
				d.done++
				decls, ids := d.declTemps(fl)
				blk := &ast.BlockStmt{List: gen(ids)}
				as.Rhs = ids
				out := append(decls, blk, x)
				return []ast.Stmt{&ast.BlockStmt{List: out}}
			}
		}
		if x.Init == nil {
			cond := x.Cond
			neg := false
			if u, isU := cond.(*ast.UnaryExpr); isU && u.Op == token.NOT {
				cond, neg = u.X, true
			}
			if fl, gen, ok := d.lower(cond); ok && nResults(fl) == 1 {
				d.done++
				decls, ids := d.declTemps(fl)
				blk := &ast.BlockStmt{List: gen(ids)}
				if neg {
					x.Cond = &ast.UnaryExpr{Op: token.NOT, X: ids[0]}
				} else {
					x.Cond = ids[0]
				}
				out := append(decls, blk, x)
				return []ast.Stmt{&ast.BlockStmt{List: out}}
			}
		}
	}
	return nil
}

func (d *delit) rewriteList(list []ast.Stmt) []ast.Stmt {
	var out []ast.Stmt
	for _, s := range list {
		if r := d.rewriteStmt(s); r != nil {
			out = append(out, r...)
		} else {
			out = append(out, s)
		}
	}
	return out
}

// deliteralize rewrites src; returns the new source and the number of literals turned into blocks.
func deliteralize(filename string, src []byte) ([]byte, int) {
	total := 0
	d := &delit{}
	for round := 0; round < 8; round++ {
		fset := token.NewFileSet()
		f, err := parser.ParseFile(fset, filename, src, parser.ParseComments)
		if err != nil {
			return src, total
		}
		before := d.done
		ast.Inspect(f, func(n ast.Node) bool {
			switch x := n.(type) {
			case *ast.BlockStmt:
				x.List = d.rewriteList(x.List)
			case *ast.CaseClause:
				x.Body = d.rewriteList(x.Body)
			case *ast.CommClause:
				x.Body = d.rewriteList(x.Body)
			}
			return true
		})
		if d.done == before {
			break
		}
		total += d.done - before
		// comments are dropped: their positions no longer fit the rewritten statements
		f.Comments = nil
		var buf bytes.Buffer
		if err := format.Node(&buf, fset, f); err != nil {
			return src, 0
		}
		src = buf.Bytes()
	}
	return src, total
}
