package main

// De-literalisation: the inliner (normalize.go) falls back to `func() T { S…; return e }()` when the callee has several
// statements and a result. A function literal that is invoked on the spot, takes no parameters, has a single `return`
// as its last statement (or none), and contains no defer/recover is equivalent to a block; in the statement contexts
// where it is the first thing evaluated it is rewritten into one, so that the rules see plain control flow:
//
//   IIFE                         ->  { S…; _ = e }
//   x := IIFE      / x = IIFE    ->  var t T; { S…; t = e }; x := t
//   if x := IIFE; c { … }        ->  { var t T; { S…; t = e }; if x := t; c { … } }
//   if IIFE { … } / if !IIFE     ->  { var t bool; { S…; t = e }; if t { … } }
//   return IIFE                  ->  { S…; return e }
//
// Every other occurrence is left as the inliner produced it.

import (
	"bytes"
	"fmt"
	"go/ast"
	"go/format"
	"go/parser"
	"go/token"

	"golang.org/x/tools/go/ast/astutil"
)

type delit struct {
	n     int    // temporaries created
	done  int    // literals rewritten
	curFn string // "package|receiver|name" of the declaration being rewritten
	bare  []ast.Expr // named results of the literal being lowered (what a bare return yields)

	importsMaps bool // the file imports the standard library's "maps" under its own name
}

func (d *delit) tmp() *ast.Ident {
	d.n++
	return ast.NewIdent(fmt.Sprintf("inl%d", d.n))
}

// declTemps returns `var t1 T1; var t2 T2 …` for the literal's result types and the temporaries.
func (d *delit) declTemps(fl *ast.FuncLit) ([]ast.Stmt, []ast.Expr) {
	var decls []ast.Stmt
	var ids []ast.Expr
	for _, f := range fl.Type.Results.List {
		k := len(f.Names)
		if k == 0 {
			k = 1
		}
		for ; k > 0; k-- {
			t := d.tmp()
			ids = append(ids, t)
			decls = append(decls, &ast.DeclStmt{Decl: &ast.GenDecl{Tok: token.VAR, Specs: []ast.Spec{&ast.ValueSpec{Names: []*ast.Ident{t}, Type: f.Type}}}})
		}
	}
	return decls, ids
}

func assign(lhs []ast.Expr, tok token.Token, rhs []ast.Expr) ast.Stmt {
	return &ast.AssignStmt{Lhs: lhs, Tok: tok, Rhs: rhs}
}

func blanks(n int) []ast.Expr {
	var out []ast.Expr
	for i := 0; i < n; i++ {
		out = append(out, ast.NewIdent("_"))
	}
	return out
}

func nResults(fl *ast.FuncLit) int {
	if fl.Type.Results == nil {
		return 0
	}
	n := 0
	for _, f := range fl.Type.Results.List {
		if len(f.Names) == 0 {
			n++
		} else {
			n += len(f.Names)
		}
	}
	return n
}

// rewriteStmt returns the replacement statements for s, or nil when s is left alone.
func (d *delit) rewriteStmt(s ast.Stmt) []ast.Stmt {
	switch x := s.(type) {
	case *ast.ForStmt:
		if r := d.canonLoop(x); r != nil {
			d.done++
			return []ast.Stmt{r}
		}
	case *ast.LabeledStmt:
		if fs, isFor := x.Stmt.(*ast.ForStmt); isFor {
			if r := d.canonLoop(fs); r != nil {
				d.done++
				x.Stmt = r
				return []ast.Stmt{x}
			}
		}
	case *ast.ExprStmt:
		if r := d.canonMapsCopy(x); r != nil {
			d.done++
			return []ast.Stmt{r}
		}
		if _, gen, ok := d.lower(x.X); ok {
			d.done++
			return []ast.Stmt{&ast.BlockStmt{List: gen(nil)}}
		}
	case *ast.AssignStmt:
		if r := d.canonMinMax(x); r != nil {
			d.done++
			return r
		}
		if len(x.Rhs) == 1 && (x.Tok == token.DEFINE || x.Tok == token.ASSIGN) {
			if fl, gen, ok := d.lower(x.Rhs[0]); ok && nResults(fl) == len(x.Lhs) && nResults(fl) > 0 {
				d.done++
				decls, ids := d.declTemps(fl)
				out := append(decls, &ast.BlockStmt{List: gen(ids)})
				return append(out, assign(x.Lhs, x.Tok, ids))
			}
		}
	case *ast.ReturnStmt:
		if len(x.Results) == 1 {
			if fl, gen, ok := d.lower(x.Results[0]); ok && nResults(fl) > 0 {
				d.done++
				decls, ids := d.declTemps(fl)
				out := append(decls, &ast.BlockStmt{List: gen(ids)}, &ast.ReturnStmt{Results: ids})
				return []ast.Stmt{&ast.BlockStmt{List: out}}
			}
		}
	case *ast.IfStmt:
		// if x := IIFE; cond { … }
		if as, isAs := x.Init.(*ast.AssignStmt); isAs && len(as.Rhs) == 1 && (as.Tok == token.DEFINE || as.Tok == token.ASSIGN) {
			if fl, gen, ok := d.lower(as.Rhs[0]); ok && nResults(fl) == len(as.Lhs) && nResults(fl) > 0 {
				d.done++
				decls, ids := d.declTemps(fl)
				blk := &ast.BlockStmt{List: gen(ids)}
				as.Rhs = ids
				out := append(decls, blk, x)
				return []ast.Stmt{&ast.BlockStmt{List: out}}
			}
		}
		// if A && <literal call> { S }  (no else)  ->  if A { if <literal call> { S } }: same evaluation order, and
		// the inner statement has the form handled below
		if x.Init == nil && x.Else == nil {
			if be, isBin := x.Cond.(*ast.BinaryExpr); isBin && be.Op == token.LAND {
				isLit := func(e ast.Expr) bool {
					if u, isU := e.(*ast.UnaryExpr); isU && u.Op == token.NOT {
						e = u.X
					}
					if p, isP := e.(*ast.ParenExpr); isP {
						e = p.X
					}
					_, ok := d.candidate(e)
					return ok
				}
				if isLit(be.X) || isLit(be.Y) {
					d.done++
					inner := &ast.IfStmt{Cond: be.Y, Body: x.Body}
					x.Cond = be.X
					x.Body = &ast.BlockStmt{List: []ast.Stmt{inner}}
					return []ast.Stmt{x}
				}
			}
		}
		if x.Init == nil {
			cond := x.Cond
			neg := false
			if u, isU := cond.(*ast.UnaryExpr); isU && u.Op == token.NOT {
				cond, neg = u.X, true
			}
			if fl, gen, ok := d.lower(cond); ok && nResults(fl) == 1 {
				d.done++
				decls, ids := d.declTemps(fl)
				blk := &ast.BlockStmt{List: gen(ids)}
				if neg {
					x.Cond = &ast.UnaryExpr{Op: token.NOT, X: ids[0]}
				} else {
					x.Cond = ids[0]
				}
				out := append(decls, blk, x)
				return []ast.Stmt{&ast.BlockStmt{List: out}}
			}
		}
	}
	return nil
}

func (d *delit) rewriteList(list []ast.Stmt) []ast.Stmt {
	var out []ast.Stmt
	for _, s := range list {
		if r := d.rewriteStmt(s); r != nil {
			out = append(out, r...)
		} else {
			out = append(out, s)
		}
	}
	return out
}

// deliteralize rewrites src; returns the new source and the number of literals turned into blocks.
func deliteralize(filename string, src []byte) ([]byte, int) {
	total := 0
	d := &delit{}
	for round := 0; round < 8; round++ {
		fset := token.NewFileSet()
		f, err := parser.ParseFile(fset, filename, src, parser.ParseComments)
		if err != nil {
			return src, total
		}
		before := d.done
		d.importsMaps = false
		for _, im := range f.Imports {
			if im.Path.Value == `"maps"` && im.Name == nil {
				d.importsMaps = true
			}
		}
		ast.Inspect(f, func(n ast.Node) bool {
			switch x := n.(type) {
			case *ast.FuncDecl:
				d.curFn = f.Name.Name + "|" + recvName(x) + "|" + x.Name.Name
			case *ast.BlockStmt:
				x.List = d.rewriteList(x.List)
			case *ast.CaseClause:
				x.Body = d.rewriteList(x.Body)
			case *ast.CommClause:
				x.Body = d.rewriteList(x.Body)
			}
			return true
		})
		if d.done == before {
			break
		}
		total += d.done - before
		if d.importsMaps && !astutil.UsesImport(f, "maps") {
			astutil.DeleteImport(fset, f, "maps")
		}
		// comments are dropped: their positions no longer fit the rewritten statements
		f.Comments = nil
		var buf bytes.Buffer
		if err := format.Node(&buf, fset, f); err != nil {
			return src, 0
		}
		src = buf.Bytes()
	}
	return src, total
}
