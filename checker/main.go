// mqttverif: repository-specific static checker for mochi-mqtt/server.
// Decides structural clauses of the properties in /verif/properties.jsonl from /repo's current source.
package main

import (
	"encoding/json"
	"flag"
	"fmt"
	"os"
	"runtime/debug"
	"sort"
	"strconv"
	"strings"
	"time"

	"golang.org/x/tools/go/ssa"
)

func main() {
	repo := flag.String("repo", "/repo", "repository root")
	prop := flag.String("prop", "", "property id (C01..C42)")
	tier := flag.String("tier", "quick", "quick|thorough")
	known := flag.String("known", "/verif/known_findings.json", "known findings file")
	evPath := flag.String("evidence", "", "evidence file to write")
	dump := flag.String("dump", "", "debug: dump SSA of pkg:func, e.g. mqtt:(*Server).processPublish")
	list := flag.Bool("list", false, "list registered properties")
	meta := flag.Bool("meta", false, "print registered properties as JSON")
	genRef := flag.Bool("gen-refnames", false, "print the reference variable-name table of the loaded tree (checker/refnames.json)")
	flag.Parse()

	if *meta {
		var out []map[string]interface{}
		var ids []string
		for id := range props {
			ids = append(ids, id)
		}
		sort.Strings(ids)
		for _, id := range ids {
			p := props[id]
			out = append(out, map[string]interface{}{"id": id, "title": p.Title, "technique": p.Technique,
				"explanation": fullExplanation(p), "not_decided": p.NotDecided, "assumptions": p.Assumptions})
		}
		b, _ := json.MarshalIndent(out, "", " ")
		fmt.Println(string(b))
		return
	}

	if *list {
		var ids []string
		for id := range props {
			ids = append(ids, id)
		}
		sort.Strings(ids)
		for _, id := range ids {
			fmt.Printf("%s\t%s\n", id, props[id].Title)
		}
		return
	}
	start := time.Now()
	seed := 0
	if s := os.Getenv("VERIF_SEED"); s != "" {
		seed, _ = strconv.Atoi(s)
	}
	c, err := load(*repo, *tier)
	if err != nil {
		fmt.Fprintln(os.Stderr, "mqttverif: load failed:", err)
		os.Exit(2)
	}
	theCtx = c
	if *genRef {
		c.canon = nil
		os.Stdout.Write(genRefNames(c))
		return
	}
	if *dump == "dyn" {
		debugDyn(c)
		return
	}
	if *dump != "" {
		parts := strings.SplitN(*dump, ":", 2)
		f := c.fn(parts[0], parts[1])
		if f == nil {
			fmt.Println("not found")
			os.Exit(2)
		}
		dumpFn(f)
		for _, a := range f.AnonFuncs {
			dumpFn(a)
		}
		return
	}
	if *prop == "all" {
		// development aid (seed matrix): one load, every property; evidence goes to the directory *evPath
		kf, err := loadKnown(*known)
		if err != nil {
			fmt.Fprintln(os.Stderr, "mqttverif: known findings:", err)
			os.Exit(2)
		}
		if *evPath == "" {
			*evPath = os.TempDir() + "/mqttverif_all"
		}
		os.MkdirAll(*evPath, 0o755)
		var ids []string
		for id := range props {
			ids = append(ids, id)
		}
		sort.Strings(ids)
		worst := 0
		for _, id := range ids {
			p := props[id]
			c.obs, c.floors, c.fnsSeen, c.sites = nil, map[string][2]int{}, map[*ssa.Function]bool{}, 0
			code := func() (code int) {
				defer func() {
					if r := recover(); r != nil {
						fmt.Fprintf(os.Stderr, "mqttverif: internal panic in rule for %s: %v\n%s\n", p.ID, r, debug.Stack())
						code = 2
					}
				}()
				p.Run(c)
				round2Hooks(c, p.ID)
				return c.finish(p, kf, *evPath+"/"+p.ID+".json", seed, time.Now(), nil)
			}()
			fmt.Printf("== %s exit=%d\n", id, code)
			if code > worst {
				worst = code
			}
		}
		os.Exit(worst)
	}
	p := props[*prop]
	if p == nil {
		fmt.Fprintf(os.Stderr, "mqttverif: unknown property %q\n", *prop)
		os.Exit(2)
	}
	kf, err := loadKnown(*known)
	if err != nil {
		fmt.Fprintln(os.Stderr, "mqttverif: known findings:", err)
		os.Exit(2)
	}
	if *evPath == "" {
		*evPath = "/verif/evidence/" + p.ID + ".json"
	}
	code := func() (code int) {
		defer func() {
			if r := recover(); r != nil {
				fmt.Fprintf(os.Stderr, "mqttverif: internal panic in rule for %s: %v\n%s\n", p.ID, r, debug.Stack())
				code = 2
			}
		}()
		p.Run(c)
		round2Hooks(c, p.ID)
		return c.finish(p, kf, *evPath, seed, start, nil)
	}()
	os.Exit(code)
}

func dumpFn(f *ssa.Function) {
	fmt.Printf("=== %s\n", fname(f))
	for _, b := range f.Blocks {
		fmt.Printf("b%d: (%s) preds=%d\n", b.Index, b.Comment, len(b.Preds))
		for _, ins := range b.Instrs {
			s := ins.String()
			if v, ok := ins.(ssa.Value); ok {
				fmt.Printf("   %s = %-60s  // %s\n", v.Name(), s, describe(v))
			} else {
				extra := ""
				if ifi, ok := ins.(*ssa.If); ok {
					t, n := normCond(ifi.Cond)
					extra = fmt.Sprintf("  // cond %q neg=%v -> b%d b%d", t, n, b.Succs[0].Index, b.Succs[1].Index)
				}
				if st, ok := ins.(*ssa.Store); ok {
					extra = fmt.Sprintf("  // %s <- %s", describe(st.Addr), describe(st.Val))
				}
				fmt.Printf("   %s%s\n", s, extra)
			}
		}
	}
}
