package main

// Rules added after the second round of seeded changes, part 8.

import (
	"fmt"
	"strings"
)

func round2Hooks8(c *Ctx, id string) {
	switch id {
	case "C31":
		retainedStoreUnderRootLock(c, "C31.f retained-store-under-root-lock")
		if f := c.fn("mqtt", "(*TopicsIndex).Subscribe"); f != nil {
			c.noPath("C31.g subscribe-replaces", "(*mqtt.TopicsIndex).Subscribe stores the given subscription on every path (a repeated subscribe replaces the options)", f, nil, anyReturn,
				isNamed("(*mqtt.Subscriptions).Add", "(*mqtt.SharedSubscriptions).Add"), nil, "the index keeps answering with the stale options of the first subscription")
		}
	case "C02", "C05":
		retainedStoreUnderRootLock(c, id+".h retained-store-under-root-lock")
	}
}

// retainedStoreUnderRootLock: RetainMessage changes the retained store (Retained.Add/Delete) and the node's
// retainPath in one critical section of the index lock: a store update outside it can interleave with a clear of the
// same topic and leave path and store disagreeing (exact filters find the message, wildcard filters do not).
func retainedStoreUnderRootLock(c *Ctx, rule string) {
	f := c.fn("mqtt", "(*TopicsIndex).RetainMessage")
	if f == nil {
		return
	}
	lf := lockFlowOf(f)
	n := 0
	for _, ci := range c.callsNamed(f, "(*packets.Packets).Add", "(*packets.Packets).Delete", "(*packets.Packets).Get") {
		if !strings.HasSuffix(describe(ci.Common().Args[0]), "x.Retained") {
			continue
		}
		n++
		held := false
		for k := range lf.before[ci] {
			if strings.HasPrefix(k, "x.root") {
				held = true
			}
		}
		c.ob(rule, fmt.Sprintf("(*mqtt.TopicsIndex).RetainMessage: %s on the retained store under the index root lock (%s)", strings.TrimPrefix(cname(ci.Common()), "(*packets.Packets)."), guardKey(ci)), c.pos(ci.Pos()), held,
			"the store is changed outside the critical section that changes the node's retainPath")
	}
	c.floor(rule+" retained-store operations in RetainMessage", n, 2)
}
