package main

import (
	"fmt"
	"go/constant"
	"go/token"
	"go/types"
	"sort"
	"strconv"
	"strings"

	"golang.org/x/tools/go/ssa"
)

// E5 offsets: bounds typestate for the decoders.
//
// Obligations are all IndexAddr / Index / Slice / string-Lookup instructions of the functions in
// scope. An access is discharged by (i) array types with constant in-range indices, (ii) a
// dominating comparison fact that implies the bound (facts are collected from every If edge that
// every path to the access must take), (iii) the SAFE typestate: an int value v is SAFE(b) —
// 0 <= v <= len(b) — if it is constant 0, the offset result of a checked helper applied to b
// (helpers return 0 or a checked offset on every return, which is itself an obligation), a φ of
// SAFE values, or SAFE+n where n is the byte count of Properties.Decode / DecodeLength applied to
// a buffer built from b[SAFE:] on their nil-error edge (their contracts are obligations too).

type fact struct{ l, rel, r string } // rel is "<" or "<="

type edgeDom struct {
	b     *ssa.BasicBlock
	truth bool // the If condition's truth on the edge every path takes
}

// edgeDoms lists, for every If block, the edge (if any) that every path from entry to ins takes.
func edgeDoms(ins ssa.Instruction) []edgeDom {
	fn := ins.Parent()
	var out []edgeDom
	for _, b := range fn.Blocks {
		if len(b.Instrs) == 0 {
			continue
		}
		if _, ok := b.Instrs[len(b.Instrs)-1].(*ssa.If); !ok {
			continue
		}
		if !(b == ins.Block() || b.Dominates(ins.Block())) {
			continue
		}
		if b == ins.Block() {
			continue // the If is the last instruction of its own block
		}
		for si := 0; si < 2; si++ {
			q := &PathQuery{Fn: fn, Target: func(x ssa.Instruction) bool { return x == ins },
				EdgeOK: func(bb *ssa.BasicBlock, i int) bool { return !(bb == b && i == si) }}
			if _, hit := q.Find(); hit == nil {
				out = append(out, edgeDom{b, si == 0})
			}
		}
	}
	return out
}

func factsOfCond(v ssa.Value, truth bool) []fact {
	for {
		if u, ok := v.(*ssa.UnOp); ok && u.Op == token.NOT {
			truth = !truth
			v = u.X
			continue
		}
		break
	}
	b, ok := v.(*ssa.BinOp)
	if !ok {
		return nil
	}
	l, r := describe(b.X), describe(b.Y)
	switch b.Op {
	case token.LSS:
		if truth {
			return []fact{{l, "<", r}}
		}
		return []fact{{r, "<=", l}}
	case token.LEQ:
		if truth {
			return []fact{{l, "<=", r}}
		}
		return []fact{{r, "<", l}}
	case token.GTR:
		if truth {
			return []fact{{r, "<", l}}
		}
		return []fact{{l, "<=", r}}
	case token.GEQ:
		if truth {
			return []fact{{r, "<=", l}}
		}
		return []fact{{l, "<", r}}
	case token.EQL:
		if truth {
			return []fact{{l, "<=", r}, {r, "<=", l}, {l, "==", r}}
		}
		return []fact{{l, "!=", r}}
	case token.NEQ:
		if !truth {
			return []fact{{l, "<=", r}, {r, "<=", l}, {l, "==", r}}
		}
		return []fact{{l, "!=", r}}
	}
	return nil
}

func factsAt(ins ssa.Instruction) []fact {
	var fs []fact
	for _, ed := range edgeDoms(ins) {
		ifi := ed.b.Instrs[len(ed.b.Instrs)-1].(*ssa.If)
		fs = append(fs, factsOfCond(ifi.Cond, ed.truth)...)
	}
	return fs
}

// pure reports whether a value's expression tree contains no memory load that a store could change.
func pure(v ssa.Value, depth int) bool {
	if depth > 12 {
		return false
	}
	switch x := v.(type) {
	case *ssa.Const, *ssa.Parameter, *ssa.Extract, *ssa.Phi, *ssa.Call, *ssa.FreeVar:
		return true
	case *ssa.BinOp:
		return pure(x.X, depth+1) && pure(x.Y, depth+1)
	case *ssa.Convert:
		return pure(x.X, depth+1)
	case *ssa.ChangeType:
		return pure(x.X, depth+1)
	case *ssa.UnOp:
		if x.Op == token.MUL {
			return false
		}
		return pure(x.X, depth+1)
	case *ssa.Slice, *ssa.Field:
		return true
	}
	return false
}

func lenOf(x ssa.Value) string { return "builtin.len(" + describe(x) + ")" }

func constInt(v ssa.Value) (int64, bool) {
	if k, ok := v.(*ssa.Const); ok && k.Value != nil && k.Value.Kind() == constant.Int {
		n, ok := constant.Int64Val(k.Value)
		return n, ok
	}
	return 0, false
}

// splitPlusConst parses "E + c" descriptions.
func splitPlusConst(s string) (string, int64, bool) {
	i := strings.LastIndex(s, " + ")
	if i < 0 {
		return s, 0, false
	}
	n, err := strconv.ParseInt(s[i+3:], 10, 64)
	if err != nil {
		return s, 0, false
	}
	return s[:i], n, true
}

// proveLess: idx < L from facts.
func proveLess(idx, L string, fs []fact) (bool, string) {
	for _, f := range fs {
		if f.r == L {
			if f.l == idx && f.rel == "<" {
				return true, fmt.Sprintf("fact %s < %s", f.l, f.r)
			}
			if base, c, ok := splitPlusConst(f.l); ok && base == idx {
				if (f.rel == "<=" && c >= 1) || (f.rel == "<" && c >= 0) {
					return true, fmt.Sprintf("fact %s %s %s", f.l, f.rel, f.r)
				}
			}
		}
	}
	return false, ""
}

// proveLeq: v <= L from facts.
func proveLeq(v, L string, fs []fact) (bool, string) {
	for _, f := range fs {
		if f.r == L && (f.rel == "<" || f.rel == "<=") {
			if f.l == v {
				return true, fmt.Sprintf("fact %s %s %s", f.l, f.rel, f.r)
			}
			if base, c, ok := splitPlusConst(f.l); ok && base == v && c >= 0 {
				return true, fmt.Sprintf("fact %s %s %s", f.l, f.rel, f.r)
			}
		}
	}
	return false, ""
}

var decodeHelpers = map[string]bool{
	"packets.decodeByte": true, "packets.decodeByteBool": true, "packets.decodeUint16": true,
	"packets.decodeUint32": true, "packets.decodeBytes": true, "packets.decodeString": true,
}

type boundsProver struct {
	c       *Ctx
	safeMem map[string]int // value|buf -> 0 visiting, 1 safe, 2 unsafe
}

// safe: is v SAFE with respect to buffer description buf, at instruction use?
func (bp *boundsProver) safe(v ssa.Value, buf string, use ssa.Instruction) (bool, string) {
	key := fmt.Sprintf("%p|%s", v, buf)
	if st, ok := bp.safeMem[key]; ok {
		return st != 2, "memo"
	}
	bp.safeMem[key] = 0 // coinductive assumption for φ cycles
	ok, why := bp.safe1(v, buf, use)
	if ok {
		bp.safeMem[key] = 1
	} else {
		bp.safeMem[key] = 2
	}
	return ok, why
}

func (bp *boundsProver) safe1(v ssa.Value, buf string, use ssa.Instruction) (bool, string) {
	if n, ok := constInt(v); ok {
		if n == 0 {
			return true, "constant 0"
		}
		return false, fmt.Sprintf("constant %d is not known to be within %s", n, buf)
	}
	switch x := v.(type) {
	case *ssa.Phi:
		for _, e := range x.Edges {
			if ok, why := bp.safe(e, buf, use); !ok {
				return false, "φ operand: " + why
			}
		}
		return true, "φ of SAFE values"
	case *ssa.Extract:
		if call, ok := x.Tuple.(*ssa.Call); ok {
			n := cname(&call.Call)
			if decodeHelpers[n] && x.Index == 1 && len(call.Call.Args) >= 1 && describe(call.Call.Args[0]) == buf {
				return true, "offset result of checked helper " + n
			}
		}
	case *ssa.BinOp:
		if x.Op == token.ADD {
			if ok, _ := bp.safe(x.X, buf, use); ok {
				if ok2, why := bp.consumedCount(x.Y, x.X, buf, x); ok2 {
					return true, why
				}
				// SAFE + const k under a dominating fact
				if k, isC := constInt(x.Y); isC && k >= 0 {
					fs := factsAt(x)
					if ok3, why := proveLeq(describe(x), "builtin.len("+buf+")", fs); ok3 {
						return true, why
					}
					if k == 1 {
						if ok3, why := proveLess(describe(x.X), "builtin.len("+buf+")", fs); ok3 {
							return true, why
						}
					}
				}
			}
		}
	}
	// a dominating fact v <= len(buf)
	if pure(v, 0) {
		if ok, why := proveLeq(describe(v), "builtin.len("+buf+")", factsAt(use)); ok {
			return true, why
		}
	}
	return false, fmt.Sprintf("%s is not a checked offset into %s", describe(v), buf)
}

// consumedCount: n is the number of bytes that Properties.Decode / DecodeLength consumed from a
// reader over buf[base:], used on the callee's nil-error edge.
func (bp *boundsProver) consumedCount(n ssa.Value, base ssa.Value, buf string, add *ssa.BinOp) (bool, string) {
	ex, ok := n.(*ssa.Extract)
	if !ok {
		return false, ""
	}
	call, ok := ex.Tuple.(*ssa.Call)
	if !ok {
		return false, ""
	}
	name := cname(&call.Call)
	var reader ssa.Value
	errIdx := 0
	switch {
	case name == "(*packets.Properties).Decode" && ex.Index == 0:
		reader = call.Call.Args[2]
		errIdx = 1
	case name == "packets.DecodeLength" && ex.Index == 1:
		reader = call.Call.Args[0]
		errIdx = 2
	default:
		return false, ""
	}
	// reader must be bytes.NewBuffer(buf[base:]) (possibly wrapped in an interface)
	if mi, ok := reader.(*ssa.MakeInterface); ok {
		reader = mi.X
	}
	nb, ok := reader.(*ssa.Call)
	if !ok || cname(&nb.Call) != "bytes.NewBuffer" {
		return false, ""
	}
	sl, ok := nb.Call.Args[0].(*ssa.Slice)
	if !ok || sl.High != nil || describe(sl.X) != buf || sl.Low == nil || describe(sl.Low) != describe(base) {
		return false, ""
	}
	errText := describe(call) + "#" + fmt.Sprint(errIdx) + " == nil"
	if !dominatedByFact(add, func(t string) bool { return t == errText }, true) {
		return false, ""
	}
	return true, "SAFE + bytes consumed by " + name + " from " + buf + "[SAFE:] on its nil-error edge"
}

// accessOb checks one Index/IndexAddr/Slice/Lookup instruction.
func (bp *boundsProver) accessOb(rule string, fn *ssa.Function, ins ssa.Instruction) {
	c := bp.c
	report := func(kind string, ok bool, detail string) {
		c.ob(rule, fmt.Sprintf("%s: %s %s", fname(fn), kind, describe(ins.(ssa.Value))), c.pos(ins.Pos()), ok, detail)
	}
	arrLen := func(t types.Type) (int64, bool) {
		if p, ok := t.Underlying().(*types.Pointer); ok {
			t = p.Elem()
		}
		if a, ok := t.Underlying().(*types.Array); ok {
			return a.Len(), true
		}
		return 0, false
	}
	switch x := ins.(type) {
	case *ssa.IndexAddr:
		if n, isArr := arrLen(x.X.Type()); isArr {
			if k, isC := constInt(x.Index); isC && k >= 0 && k < n {
				return // statically in range; not an obligation
			}
		}
		fs := factsAt(ins)
		if ok, why := proveLess(describe(x.Index), lenOf(x.X), fs); ok {
			report("index", true, why)
			return
		}
		report("index", false, fmt.Sprintf("no dominating guard establishes %s < %s", describe(x.Index), lenOf(x.X)))
	case *ssa.Index:
		if n, isArr := arrLen(x.X.Type()); isArr {
			if k, isC := constInt(x.Index); isC && k >= 0 && k < n {
				return
			}
		}
		// strings are indexed with Index in current go/ssa
		fs := factsAt(ins)
		if ok, why := proveLess(describe(x.Index), lenOf(x.X), fs); ok {
			report("index", true, why)
			return
		}
		report("index", false, fmt.Sprintf("no dominating guard establishes %s < %s", describe(x.Index), lenOf(x.X)))
	case *ssa.Lookup:
		if _, isMap := x.X.Type().Underlying().(*types.Map); isMap {
			return
		}
		fs := factsAt(ins)
		if ok, why := proveLess(describe(x.Index), lenOf(x.X), fs); ok {
			report("string index", true, why)
			return
		}
		report("string index", false, fmt.Sprintf("no dominating guard establishes %s < %s", describe(x.Index), lenOf(x.X)))
	case *ssa.Slice:
		if _, isArr := arrLen(x.X.Type()); isArr {
			lowOK := x.Low == nil
			if k, isC := constInt(x.Low); x.Low != nil && isC && k == 0 {
				lowOK = true
			}
			if x.High == nil && lowOK {
				return
			}
			if n, _ := arrLen(x.X.Type()); x.High != nil && lowOK {
				if k, isC := constInt(x.High); isC && k <= n {
					return
				}
			}
		}
		buf := describe(x.X)
		if x.High == nil {
			if x.Low == nil {
				return
			}
			if ok, why := bp.safe(x.Low, buf, ins); ok {
				report("slice", true, "low bound "+describe(x.Low)+": "+why)
				return
			} else {
				report("slice", false, "low bound: "+why)
			}
			return
		}
		fs := factsAt(ins)
		hi := describe(x.High)
		ok, why := proveLeq(hi, "builtin.len("+buf+")", fs)
		if !ok {
			// string(s)[:IndexRune] style contracts are handled by callers' tables; fail here
			report("slice", false, fmt.Sprintf("no dominating guard establishes %s <= len(%s)", hi, buf))
			return
		}
		// low <= high: low nil/0, or high == low + non-negative
		if x.Low != nil {
			lo := describe(x.Low)
			if k, isC := constInt(x.Low); !(isC && k == 0) {
				if !(strings.HasPrefix(hi, lo+" + ")) {
					if ok2, _ := proveLeq(lo, hi, fs); !ok2 {
						report("slice", false, fmt.Sprintf("%s <= %s not established", lo, hi))
						return
					}
				}
			}
		}
		report("slice", true, why)
	}
}

func isAccess(ins ssa.Instruction) bool {
	switch x := ins.(type) {
	case *ssa.IndexAddr, *ssa.Index, *ssa.Slice:
		return true
	case *ssa.Lookup:
		_, isMap := x.X.Type().Underlying().(*types.Map)
		return !isMap
	}
	return false
}

// helperContract: every return of a decode helper yields offset 0 or a value proved <= len(buf).
func (bp *boundsProver) helperContract(rule string, fn *ssa.Function) {
	c := bp.c
	if fn == nil {
		return
	}
	buf := fn.Params[0]
	for i, r := range returns(fn) {
		off := rvs(r)[1]
		construct := fmt.Sprintf("%s: return#%d offset %s", fname(fn), i+1, describe(off))
		if k, isC := constInt(off); isC && k == 0 {
			c.ob(rule, construct, c.pos(r.Pos()), true, "constant 0")
			continue
		}
		// result of another helper on the same buffer
		if ok, why := bp.safe(off, describe(buf), r); ok {
			c.ob(rule, construct, c.pos(r.Pos()), true, why)
			continue
		}
		if ok, why := proveLeq(describe(off), lenOf(buf), factsAt(r)); ok {
			c.ob(rule, construct, c.pos(r.Pos()), true, why)
			continue
		}
		c.ob(rule, construct, c.pos(r.Pos()), false, "the helper can return an offset that was not compared with len(buf)")
	}
}

// decodeScope: functions of package packets reachable from the decode entry points.
func (c *Ctx) decodeScope() []*ssa.Function {
	sp := c.SSA[modPath+"/packets"]
	if sp == nil {
		c.drift("package packets")
		return nil
	}
	var roots []*ssa.Function
	pkT := c.namedType("packets", "Packet")
	if pkT != nil {
		ms := c.Prog.MethodSets.MethodSet(types.NewPointer(pkT))
		for i := 0; i < ms.Len(); i++ {
			n := ms.At(i).Obj().Name()
			if strings.HasSuffix(n, "Decode") || n == "decodePubAckRelRecComp" {
				if f := c.Prog.MethodValue(ms.At(i)); f != nil && f.Blocks != nil {
					roots = append(roots, f)
				}
			}
		}
	}
	for _, n := range []string{"(*FixedHeader).Decode", "(*Properties).Decode"} {
		if f := c.fn("packets", n); f != nil {
			roots = append(roots, f)
		}
	}
	if f := c.fn("packets", "DecodeLength"); f != nil {
		roots = append(roots, f)
	}
	seen := map[*ssa.Function]bool{}
	var out []*ssa.Function
	var walk func(f *ssa.Function)
	walk = func(f *ssa.Function) {
		if seen[f] || f.Blocks == nil || fnPkgPath(f) != modPath+"/packets" {
			return
		}
		seen[f] = true
		out = append(out, f)
		for g := range c.cg.out[f] {
			walk(g)
		}
	}
	for _, r := range roots {
		walk(r)
	}
	sort.Slice(out, func(i, j int) bool { return out[i].String() < out[j].String() })
	return out
}

func init() {
	register(&Prop{
		ID:        "C27",
		Title:     "Packet decoding is total: no input makes it panic or overread",
		Technique: "bounds typestate over SSA for decoder offsets + dominating-guard facts; panic-site enumeration",
		Explanation: "E5 offsets over every function of package packets reachable from the *Decode methods, FixedHeader.Decode, " +
			"Properties.Decode and DecodeLength: (a) every decode helper returns offset 0 or an offset it compared with len(buf) on every return; " +
			"(b) every index/slice of a buffer is discharged by a dominating length comparison or by the SAFE typestate of its offset " +
			"(helper results, φ of SAFE, SAFE + bytes consumed by Properties.Decode/DecodeLength from buf[SAFE:] on the nil-error edge); " +
			"Properties.Decode's and DecodeLength's consumed-count contracts are checked structurally; " +
			"(c) no unchecked type assertion, division by a non-constant, make sized by input, or explicit panic in scope.",
		NotDecided: []string{"allocation size (C28)", "nil-pointer dereferences of receiver/arguments supplied by callers outside the decoders", "the values decoded"},
		Assumptions: []string{"offsets are non-negative and do not overflow int (they are sums of checked lengths of a buffer that fits in memory)",
			"bytes.Buffer, encoding/binary and unicode/utf8 do not panic on the slices they are given"},
		Run: runC27,
	})
}

func runC27(c *Ctx) {
	bp := &boundsProver{c: c, safeMem: map[string]int{}}
	scope := c.decodeScope()
	nDecode := 0
	for _, f := range scope {
		c.fnsSeen[f] = true
		if strings.HasSuffix(f.Name(), "Decode") {
			nDecode++
		}
	}
	c.floor("C27 decode functions in scope", nDecode, 17)
	// (a) helper contracts
	nh := 0
	for n := range decodeHelpers {
		if f := c.fn("packets", strings.TrimPrefix(n, "packets.")); f != nil {
			bp.helperContract("C27.a helper-contract", f)
			nh++
		}
	}
	c.floor("C27.a helpers", nh, 6)
	// (b) accesses
	nacc := 0
	for _, f := range scope {
		for _, ins := range instrs(f) {
			if isAccess(ins) {
				nacc++
				bp.accessOb("C27.b access-in-bounds", f, ins)
			}
		}
	}
	c.floor("C27.b buffer accesses examined", nacc, 20)
	c.consumedContracts("C27.b consumed-count contract")
	// (c) other panic sources
	for _, f := range scope {
		c.otherPanics("C27.c no-other-panic", f)
	}
}

// otherPanics reports unchecked type assertions, division by non-constants, explicit panics and
// input-sized allocations in f.
func (c *Ctx) otherPanics(rule string, f *ssa.Function) {
	clean := true
	for _, ins := range instrs(f) {
		switch x := ins.(type) {
		case *ssa.TypeAssert:
			if !x.CommaOk {
				clean = false
				c.ob(rule, fmt.Sprintf("%s: unchecked type assertion %s", fname(f), describe(x)), c.pos(x.Pos()), false, "a single-value type assertion panics when the dynamic type differs")
			}
		case *ssa.BinOp:
			if x.Op == token.QUO || x.Op == token.REM {
				if _, isC := constInt(x.Y); !isC {
					if b, ok := x.Y.Type().Underlying().(*types.Basic); ok && b.Info()&types.IsInteger != 0 {
						clean = false
						c.ob(rule, fmt.Sprintf("%s: integer division by non-constant %s", fname(f), describe(x.Y)), c.pos(x.Pos()), false, "division by zero panics")
					}
				}
			}
		case *ssa.Panic:
			clean = false
			c.ob(rule, fmt.Sprintf("%s: explicit panic", fname(f)), c.pos(x.Pos()), false, "explicit panic on a decoding path")
		case *ssa.MakeSlice:
			if _, isC := constInt(x.Len); !isC {
				clean = false
				c.ob(rule, fmt.Sprintf("%s: make sized by %s", fname(f), describe(x.Len)), c.pos(x.Pos()), false, "allocation sized by a decoded value")
			}
		case *ssa.MapUpdate:
			// map writes on a map that may be nil
			if _, ok := x.Map.(*ssa.MakeMap); !ok {
				if !c.mapNonNil(x.Map) {
					clean = false
					c.ob(rule, fmt.Sprintf("%s: write to possibly-nil map %s", fname(f), describe(x.Map)), c.pos(x.Pos()), false, "assignment to entry in nil map panics")
				}
			}
		}
	}
	if clean {
		c.ob(rule, fmt.Sprintf("%s: no unchecked assertion, division, panic, input-sized make or nil-map write", fname(f)), c.pos(f.Pos()), true, "")
	}
}

func (c *Ctx) mapNonNil(v ssa.Value) bool {
	switch x := v.(type) {
	case *ssa.MakeMap:
		return true
	case *ssa.Phi:
		for _, e := range x.Edges {
			if !c.mapNonNil(e) {
				return false
			}
		}
		return true
	}
	return false
}

// consumedContracts checks the two summaries the SAFE-additive rule relies on.
func (c *Ctx) consumedContracts(rule string) {
	// DecodeLength: on nil error, bu == number of successful ReadByte calls.
	if f := c.fn("packets", "DecodeLength"); f != nil {
		reads := c.callsIn(f, func(n string, cc *ssa.CallCommon) bool { return cc.IsInvoke() && cc.Method.Name() == "ReadByte" })
		ok := len(reads) == 1
		detail := ""
		var bu *ssa.Phi
		for _, ins := range instrs(f) {
			if p, isPhi := ins.(*ssa.Phi); isPhi && canonName(p, p.Comment) == "bu" {
				bu = p
			}
		}
		if bu == nil {
			ok = false
			detail = "no loop-carried byte counter bu"
		} else {
			for _, e := range bu.Edges {
				if k, isC := constInt(e); isC && k == 1 {
					continue
				}
				if b, isB := e.(*ssa.BinOp); isB && b.Op == token.ADD && b.X == ssa.Value(bu) {
					if k, isC := constInt(b.Y); isC && k == 1 {
						// the increment must be in the loop iteration after the read: dominated by the read
						if len(reads) == 1 && domInstr(reads[0], b) {
							continue
						}
					}
				}
				ok = false
				detail = "bu is not 1 + number of loop iterations: edge " + describe(e)
			}
			// every nil-error return returns this counter
			for _, r := range returns(f) {
				if isNilConst(rvs(r)[2]) && rvs(r)[1] != ssa.Value(bu) {
					ok = false
					detail = "a nil-error return yields a byte count other than the loop counter"
				}
			}
		}
		if len(reads) == 1 {
			// the read's error must return
			call := reads[0].(*ssa.Call)
			errText := describe(call) + "#1 == nil"
			if !dominatedByFact(bu0(bu, f), func(t string) bool { return t == errText }, true) && bu != nil {
				// the loop continuation must be on the nil-error edge of ReadByte
				var incr ssa.Instruction
				for _, e := range bu.Edges {
					if b, isB := e.(*ssa.BinOp); isB {
						incr = b
					}
				}
				if incr == nil || !dominatedByFact(incr, func(t string) bool { return t == errText }, true) {
					ok = false
					detail = "the counter is advanced although ReadByte failed"
				}
			}
		} else {
			detail = fmt.Sprintf("%d ReadByte call sites in DecodeLength, expected exactly 1 per iteration", len(reads))
		}
		c.ob(rule, "packets.DecodeLength: on nil error, bu = number of bytes read from the reader", c.pos(f.Pos()), ok, detail)
	}
	// Properties.Decode: on nil error, result <= len(input).
	if f := c.fn("packets", "(*Properties).Decode"); f != nil {
		bp := &boundsProver{c: c, safeMem: map[string]int{}}
		var dl *ssa.Call
		var bt *ssa.Call
		for _, ci := range c.callsNamed(f, "packets.DecodeLength") {
			if call, ok := ci.(*ssa.Call); ok && dl == nil && describe(call.Call.Args[0]) == "b" {
				dl = call
			}
		}
		for _, ci := range c.callsNamed(f, "(*bytes.Buffer).Bytes") {
			if call, ok := ci.(*ssa.Call); ok && describe(call.Call.Args[0]) == "b" {
				bt = call
			}
		}
		if dl == nil || bt == nil {
			c.ob(rule, "(*packets.Properties).Decode: length prefix read from b and body taken from b.Bytes()", c.pos(f.Pos()), false, "DecodeLength(b) / b.Bytes() not found")
			return
		}
		c.ob(rule, "(*packets.Properties).Decode: body slice b.Bytes() is taken after DecodeLength(b) consumed the prefix", c.pos(bt.Pos()), domInstr(dl, bt),
			"so len(bt) = len(input) - bu")
		nDesc := describe(dl) + "#0"
		buDesc := describe(dl) + "#1"
		for i, r := range returns(f) {
			if !isNilConst(rvs(r)[1]) {
				continue
			}
			construct := fmt.Sprintf("(*packets.Properties).Decode: nil-error return#%d yields a count within the input", i+1)
			res := describe(rvs(r)[0])
			if k, isC := constInt(rvs(r)[0]); isC && k == 0 {
				c.ob(rule, construct, c.pos(r.Pos()), true, "returns 0")
				continue
			}
			if res != nDesc+" + "+buDesc {
				c.ob(rule, construct, c.pos(r.Pos()), false, "returns "+res+", expected n + bu of the length prefix")
				continue
			}
			fs := factsAt(r)
			// either n == 0, or the loop was left with n <= offset where offset is SAFE(bt)
			okc := false
			why := ""
			for _, ft := range fs {
				if ft.rel == "==" && ((ft.l == nDesc && ft.r == "0") || (ft.r == nDesc && ft.l == "0")) {
					okc, why = true, "n == 0"
				}
			}
			if !okc {
				for _, ed := range edgeDoms(r) {
					ifi := ed.b.Instrs[len(ed.b.Instrs)-1].(*ssa.If)
					for _, ft := range factsOfCond(ifi.Cond, ed.truth) {
						if ft.l == nDesc && (ft.rel == "<=" || ft.rel == "<") {
							// ft.r must be the description of a SAFE(bt) value: find the compared value
							if b, isB := ifi.Cond.(*ssa.BinOp); isB {
								for _, side := range []ssa.Value{b.X, b.Y} {
									if describe(side) == ft.r {
										if s, w := bp.safe(side, describe(bt), r); s {
											okc, why = true, "loop left with n <= offset, offset "+w
										} else {
											why = "offset not SAFE: " + w
										}
									}
								}
							}
						}
					}
				}
			}
			c.ob(rule, construct, c.pos(r.Pos()), okc, why)
		}
	}
}

func bu0(bu *ssa.Phi, f *ssa.Function) ssa.Instruction {
	if bu != nil {
		return bu
	}
	return f.Blocks[0].Instrs[0]
}
