package main

// Path-sensitive pruning of tests on merged values ("jump threading").
//
// A helper with early returns that is inlined back into its caller (normalize.go/delit.go), or a hand-written flag
// variable, yields
//
//	L: switch { default: if c { …; err = ErrX; break L }; err = nil }
//	if err != nil { return err }
//
// In SSA the test reads a φ whose operands are constants (or values known not to be nil). On a path that entered the
// φ's block through a given predecessor the outcome of the test is fixed, so the other edge is infeasible. PathQuery
// carries, per path, the predecessor through which each block with such φ-nodes was entered last, and drops the
// infeasible edges. Only infeasible paths are pruned; nothing is assumed.

import (
	"fmt"
	"go/constant"
	"go/token"
	"go/types"
	"sort"
	"strings"

	"golang.org/x/tools/go/ssa"
)

// phiEnv: block index -> index into Preds of the edge the path entered through (keys >= 0); and, under key
// -(1+n), what the path has learnt about the n-th tracked operand value of the function: +1 tested not nil, -1 nil.
type phiEnv map[int]int

func (e phiEnv) key() string {
	if len(e) == 0 {
		return ""
	}
	ks := make([]int, 0, len(e))
	for k := range e {
		ks = append(ks, k)
	}
	sort.Ints(ks)
	var sb strings.Builder
	for _, k := range ks {
		fmt.Fprintf(&sb, "%d:%d,", k, e[k])
	}
	return sb.String()
}

var threadCache = map[*ssa.Function]map[*ssa.BasicBlock]bool{}

// tracked operands: values that flow into a threaded φ and whose nil-ness a path may have tested before
var trackedVals = map[*ssa.Function][]ssa.Value{}

func trackedIndex(v ssa.Value) int {
	if v == nil || v.Parent() == nil {
		return -1
	}
	for i, t := range trackedVals[v.Parent()] {
		if t == v {
			return i
		}
	}
	return -1
}

// threadBlocks: blocks holding a φ that (through !, ==, != and further φ) feeds an If and has at least one operand
// whose truth or nil-ness is known.
func threadBlocks(fn *ssa.Function) map[*ssa.BasicBlock]bool {
	if m, ok := threadCache[fn]; ok {
		return m
	}
	m := map[*ssa.BasicBlock]bool{}
	var visit func(v ssa.Value, depth int)
	visit = func(v ssa.Value, depth int) {
		if depth > 4 {
			return
		}
		v = loadSource(v)
		switch x := v.(type) {
		case *ssa.UnOp:
			if x.Op == token.NOT {
				visit(x.X, depth+1)
			}
		case *ssa.BinOp:
			if x.Op == token.EQL || x.Op == token.NEQ {
				visit(x.X, depth+1)
				visit(x.Y, depth+1)
			}
		case *ssa.ChangeInterface:
			visit(x.X, depth+1)
		case *ssa.Phi:
			known := false
			for _, e := range x.Edges {
				if _, isC := e.(*ssa.Const); isC || nilness(e, nil, 0) != 0 {
					known = true
				}
			}
			// every φ that feeds a test is followed per path: even when no operand is a constant, the test then
			// reads the operand that flowed in (resolvedCond), e.g. the error of the call made on this path
			known = true
			m[x.Block()] = true
			for _, e := range x.Edges {
				if p, isPhi := e.(*ssa.Phi); isPhi && p != x {
					visit(p, depth+1)
				}
				if _, isC := e.(*ssa.Const); !isC && known && nilness(e, nil, 0) == 0 && nilable(e) && trackedIndex(e) < 0 {
					trackedVals[fn] = append(trackedVals[fn], e)
				}
			}
		}
	}
	for _, b := range fn.Blocks {
		if len(b.Instrs) == 0 {
			continue
		}
		if ifi, ok := b.Instrs[len(b.Instrs)-1].(*ssa.If); ok {
			visit(ifi.Cond, 0)
		}
	}
	threadCache[fn] = m
	return m
}

// nilness: +1 certainly not nil, -1 certainly nil, 0 unknown.
func nilness(v ssa.Value, env phiEnv, depth int) int {
	if depth > 6 {
		return 0
	}
	v = loadSource(v)
	switch x := v.(type) {
	case *ssa.Const:
		if x.Value == nil {
			return -1 // nil (or the zero value of a type that has no constant form; only compared with nil here)
		}
		return 0
	case *ssa.MakeInterface, *ssa.Alloc, *ssa.MakeMap, *ssa.MakeSlice, *ssa.MakeChan, *ssa.MakeClosure, *ssa.Function, *ssa.Global, *ssa.FieldAddr, *ssa.IndexAddr:
		return 1
	case *ssa.ChangeInterface:
		return nilness(x.X, env, depth+1)
	case *ssa.ChangeType:
		return nilness(x.X, env, depth+1)
	case *ssa.UnOp:
		// a sentinel error variable of a package (`var ErrX = errors.New(…)`) is not nil
		if g, isG := x.X.(*ssa.Global); isG && x.Op == token.MUL && strings.HasPrefix(g.Name(), "Err") {
			if _, isIface := x.Type().Underlying().(*types.Interface); isIface {
				return 1
			}
		}
	case *ssa.Call:
		// constructors that never return nil
		if f := x.Call.StaticCallee(); f != nil {
			switch f.String() {
			case "fmt.Errorf", "errors.New":
				return 1
			}
		}
	}
	if env != nil {
		if i := trackedIndex(v); i >= 0 {
			if k, ok := env[-(1 + i)]; ok {
				return k
			}
		}
	}
	switch x := v.(type) {
	case *ssa.Phi:
		if env != nil {
			if p, ok := env[x.Block().Index]; ok && p < len(x.Edges) {
				return nilness(x.Edges[p], env, depth+1)
			}
		}
	}
	return 0
}

func resolveConst(v ssa.Value, env phiEnv, depth int) *ssa.Const {
	if depth > 6 {
		return nil
	}
	v = loadSource(v)
	switch x := v.(type) {
	case *ssa.Const:
		return x
	case *ssa.Phi:
		if p, ok := env[x.Block().Index]; ok && p < len(x.Edges) {
			return resolveConst(x.Edges[p], env, depth+1)
		}
	case *ssa.ChangeType:
		return resolveConst(x.X, env, depth+1)
	}
	return nil
}

// evalUnder evaluates a condition on a path with the given φ choices.
func evalUnder(v ssa.Value, env phiEnv, depth int) (val, known bool) {
	if depth > 6 || len(env) == 0 {
		return false, false
	}
	v = loadSource(v)
	switch x := v.(type) {
	case *ssa.Const:
		if x.Value != nil && x.Value.Kind() == constant.Bool {
			return constant.BoolVal(x.Value), true
		}
	case *ssa.UnOp:
		if x.Op == token.NOT {
			if r, ok := evalUnder(x.X, env, depth+1); ok {
				return !r, true
			}
		}
	case *ssa.Phi:
		if p, ok := env[x.Block().Index]; ok && p < len(x.Edges) {
			if x.Edges[p] == ssa.Value(x) {
				return false, false
			}
			return evalUnder(x.Edges[p], env, depth+1)
		}
	case *ssa.BinOp:
		if x.Op != token.EQL && x.Op != token.NEQ {
			return false, false
		}
		// only worth deciding when a φ under env is involved
		if !mentionsPhiOf(x.X, env, 0) && !mentionsPhiOf(x.Y, env, 0) {
			return false, false
		}
		a, b := nilness(x.X, env, 0), nilness(x.Y, env, 0)
		if a != 0 && b != 0 && (a == -1 || b == -1) {
			eq := a == b
			return eq == (x.Op == token.EQL), true
		}
		ca, cb := resolveConst(x.X, env, 0), resolveConst(x.Y, env, 0)
		if ca != nil && cb != nil && ca.Value != nil && cb.Value != nil && ca.Value.Kind() == cb.Value.Kind() && ca.Value.Kind() != constant.Unknown {
			eq := constant.Compare(ca.Value, token.EQL, cb.Value)
			return eq == (x.Op == token.EQL), true
		}
	}
	return false, false
}

func mentionsPhiOf(v ssa.Value, env phiEnv, depth int) bool {
	if depth > 4 {
		return false
	}
	v = loadSource(v)
	switch x := v.(type) {
	case *ssa.Phi:
		_, ok := env[x.Block().Index]
		return ok
	case *ssa.ChangeInterface:
		return mentionsPhiOf(x.X, env, depth+1)
	case *ssa.ChangeType:
		return mentionsPhiOf(x.X, env, depth+1)
	}
	return false
}

// threadEdgeFeasible: may a path with choices env leave b through successor si?
func threadEdgeFeasible(b *ssa.BasicBlock, si int, env phiEnv) bool {
	if len(env) == 0 || len(b.Instrs) == 0 {
		return true
	}
	ifi, ok := b.Instrs[len(b.Instrs)-1].(*ssa.If)
	if !ok {
		return true
	}
	if v, known := evalUnder(ifi.Cond, env, 0); known {
		return v == (si == 0)
	}
	return true
}

// threadEnter returns the choices after taking edge b→s (the si-th successor of b).
func threadEnter(b *ssa.BasicBlock, si int, env phiEnv, tb map[*ssa.BasicBlock]bool) phiEnv {
	s := b.Succs[si]
	if len(env) == 0 && !tb[s] && len(trackedVals[b.Parent()]) == 0 {
		return env
	}
	out := phiEnv{}
	tv := trackedVals[b.Parent()]
	for k, v := range env {
		if k < 0 {
			// a fact about a value holds until the value is computed anew (its block is entered again) or goes out of scope
			if vb := valueBlock(tv[-k-1]); vb == nil || vb != s && vb.Dominates(s) {
				out[k] = v
			}
			continue
		}
		kb := b.Parent().Blocks[k]
		if kb != s && kb.Dominates(s) {
			out[k] = v
		}
	}
	if len(tv) > 0 && len(b.Instrs) > 0 {
		if ifi, ok := b.Instrs[len(b.Instrs)-1].(*ssa.If); ok {
			cond, neg := stripNot(ifi.Cond)
			if bo, ok := cond.(*ssa.BinOp); ok && (bo.Op == token.EQL || bo.Op == token.NEQ) {
				var other ssa.Value
				if isNilConst(bo.Y) {
					other = bo.X
				} else if isNilConst(bo.X) {
					other = bo.Y
				}
				if i := trackedIndex(other); other != nil && i >= 0 {
					isNil := (bo.Op == token.EQL) == ((si == 0) != neg)
					if vb := valueBlock(other); vb == nil || vb != s && vb.Dominates(s) {
						if isNil {
							out[-(1 + i)] = -1
						} else {
							out[-(1 + i)] = 1
						}
					}
				}
			}
		}
	}
	if tb[s] {
		// the si-th successor edge: when both successors are s, the i-th occurrence of b in s.Preds
		occ := 0
		for j := 0; j < si; j++ {
			if b.Succs[j] == s {
				occ++
			}
		}
		for pi, p := range s.Preds {
			if p == b {
				if occ == 0 {
					out[s.Index] = pi
					break
				}
				occ--
			}
		}
	}
	return out
}

func valueBlock(v ssa.Value) *ssa.BasicBlock {
	if ins, ok := v.(ssa.Instruction); ok {
		return ins.Block()
	}
	return nil // parameters, free variables: defined once
}

func nilable(v ssa.Value) bool {
	switch v.Type().Underlying().(type) {
	case *types.Interface, *types.Pointer, *types.Map, *types.Slice, *types.Chan, *types.Signature:
		return true
	}
	return false
}

// loadSource: a load from a local variable cell directly after the store that filled it (same block, no call and no
// other store to the cell in between) is the stored value. go/ssa keeps a variable in a cell when a closure captures it.
func loadSource(v ssa.Value) ssa.Value {
	u, ok := v.(*ssa.UnOp)
	if !ok || u.Op != token.MUL {
		return v
	}
	cell, ok := u.X.(*ssa.Alloc)
	if !ok || u.Block() == nil {
		return v
	}
	is := u.Block().Instrs
	for i := idxIn(u) - 1; i >= 0; i-- {
		switch x := is[i].(type) {
		case *ssa.Store:
			if x.Addr == ssa.Value(cell) {
				return x.Val
			}
		case ssa.CallInstruction:
			return v
		}
	}
	return v
}
