package main

// Rules added after the second round of seeded changes, part 9.

import (
	"fmt"
	"go/constant"
	"sort"
	"strings"

	"golang.org/x/tools/go/ssa"
)

func round2Hooks9(c *Ctx, id string) {
	switch id {
	case "C37":
		keepaliveFromConnect(c, "C37.d keepalive-from-connect")
	case "C41":
		cappedPoolOwnsItsPool(c, "C41.c capped-pool-owns-its-pool")
	case "C42":
		flagMeansFieldDecoded(c, "C42.f flag-means-field-decoded")
		freshHeaderPerPacket(c, "C42.g fresh-header-per-packet")
		propertyTableMatchesSpec(c, "C42.h property-table")
	case "C26":
		propertyTableMatchesSpec(c, "C26.h property-table")
	case "C23":
		propertyTableMatchesSpec(c, "C23.j property-table")
	case "C38":
		decrementUnderDeleteResult(c, "C38 inflight-counter")
	case "C40":
		retainStoresACopy(c, "C40.f retain-stores-a-copy")
	case "C05":
		retainStoresACopy(c, "C05.i retain-stores-a-copy")
	}
}

// keepaliveFromConnect: the keepalive that drives a connection's deadline is the one of ITS CONNECT packet: the only
// store to Client.State.Keepalive is ParseConnect's (from pk.Connect.Keepalive); a resumed session does not bring
// the previous connection's value along.
func keepaliveFromConnect(c *Ctx, rule string) {
	n := 0
	for _, fn := range c.ModFns {
		if fnPkgPath(fn) != modPath {
			continue
		}
		for _, ins := range instrs(fn) {
			st, ok := ins.(*ssa.Store)
			if !ok {
				continue
			}
			p, isCl := clientPath(st.Addr)
			if !isCl || (p != "State.Keepalive" && p != "State.ServerKeepalive") {
				continue
			}
			if unpublished(fn, st.Addr) && fname(rootFn(fn)) != "(*mqtt.Server).inheritClientSession" && fname(rootFn(fn)) != "(*mqtt.Client).ParseConnect" {
				continue // constructors set the default
			}
			n++
			owner := fname(rootFn(fn))
			ok2 := owner == "(*mqtt.Client).ParseConnect" && (p != "State.Keepalive" || describe(st.Val) == "pk.Connect.Keepalive")
			c.ob(rule, fmt.Sprintf("%s stores Client.%s (only ParseConnect sets it, from the CONNECT packet)", owner, p), c.pos(st.Pos()), ok2,
				"value "+describe(st.Val)+": the connection is then timed against another connection's keepalive")
		}
	}
	c.floor(rule+" stores to the client's keepalive", n, 1)
}

// cappedPoolOwnsItsPool: a capped buffer pool checks the capacity only on Put, so its inner pool must be its own:
// newBufferWithCap builds it with newBuffer() and passes the cap through unchanged; NewBuffer hands its argument on.
func cappedPoolOwnsItsPool(c *Ctx, rule string) {
	if f := c.fn("mempool", "newBufferWithCap"); f != nil {
		okBp, okMax := false, false
		for _, ins := range instrs(f) {
			st, ok := ins.(*ssa.Store)
			if !ok {
				continue
			}
			fa, ok := st.Addr.(*ssa.FieldAddr)
			if !ok {
				continue
			}
			switch fieldName(fa.X.Type(), fa.Field) {
			case "bp":
				okBp = describe(st.Val) == "mempool.newBuffer()"
			case "max":
				okMax = describe(st.Val) == "max"
			}
		}
		c.ob(rule, "mempool.newBufferWithCap gives the capped pool an inner pool of its own (newBuffer())", c.pos(f.Pos()), okBp,
			"a shared inner pool hands the capped pool's users buffers that other users returned without the capacity test")
		c.ob(rule, "mempool.newBufferWithCap stores the cap it was given", c.pos(f.Pos()), okMax, "")
	}
	if f := c.fn("mempool", "NewBuffer"); f != nil {
		ci := c.call1(f, "mempool.newBufferWithCap")
		c.ob(rule, "mempool.NewBuffer passes the requested cap on unchanged", c.pos(f.Pos()), ci != nil && describe(ci.Common().Args[0]) == "max",
			"a cap that is rounded or clamped makes the pool keep buffers above the cap the caller asked for")
	}
}

// flagMeansFieldDecoded: in ConnectDecode a field whose connect flag is set is decoded on every non-failing path,
// whatever the other flags say (MQTT 5 allows a password without a user name).
func flagMeansFieldDecoded(c *Ctx, rule string) {
	f := c.fn("packets", "(*Packet).ConnectDecode")
	if f == nil {
		return
	}
	for _, fld := range []struct{ flag, field string }{{"pk.Connect.UsernameFlag", "pk.Connect.Username"}, {"pk.Connect.PasswordFlag", "pk.Connect.Password"}, {"pk.Connect.WillFlag", "pk.Connect.WillTopic"}} {
		var sts []*ssa.Store
		for _, st := range storesTo(f, fld.field) {
			sts = append(sts, st)
		}
		if len(sts) == 0 {
			c.ob(rule, fmt.Sprintf("(*packets.Packet).ConnectDecode decodes %s", fld.field), c.pos(f.Pos()), false, "store not found")
			continue
		}
		isStore := func(x ssa.Instruction) bool {
			for _, st := range sts {
				if x == ssa.Instruction(st) {
					return true
				}
			}
			return false
		}
		c.noPath(rule, fmt.Sprintf("(*packets.Packet).ConnectDecode: with %s set, %s is decoded on every non-failing path (independent of the other flags)", fld.flag, fld.field), f, nil, nilErrReturn, isStore,
			[]Assume{assumeEq(fld.flag, true)}, "the flag is set but the field stays empty: the CONNECT is then refused as a protocol violation although it is valid")
	}
}

// freshHeaderPerPacket: Client.Read decodes every packet's fixed header into a fresh FixedHeader: FixedHeader.Decode
// assigns the flag fields only for the packet types that have them, so a re-used header leaks DUP/QoS/RETAIN of an
// earlier PUBLISH into the next packet.
func freshHeaderPerPacket(c *Ctx, rule string) {
	f := c.fn("mqtt", "(*Client).Read")
	if f == nil {
		return
	}
	rh := c.call1(f, "(*mqtt.Client).ReadFixedHeader")
	if rh == nil {
		c.ob(rule, "(*mqtt.Client).Read calls ReadFixedHeader", c.pos(f.Pos()), false, "site not found")
		return
	}
	al, ok := rh.Common().Args[1].(*ssa.Alloc)
	fresh := ok
	if ok {
		_, hit := (&PathQuery{Fn: f, From: rh, Target: isIns(rh), Barrier: func(x ssa.Instruction) bool { return x == ssa.Instruction(al) }}).Find()
		fresh = hit == nil
	}
	c.ob(rule, "(*mqtt.Client).Read decodes each packet into a fresh FixedHeader (allocated inside the read loop)", c.pos(rh.Pos()), fresh,
		"header "+describe(rh.Common().Args[1])+" is re-used: a PUBACK/PINGREQ after a QoS>0 or retained PUBLISH is decoded with that PUBLISH's flags")
}

// specProps: MQTT 5.0 table 2-4 — property identifier -> packet types that may carry it (99 = will properties).
var specProps = map[int][]int{
	1: {3, 99}, 2: {3, 99}, 3: {3, 99}, 8: {3, 99}, 9: {3, 99}, 11: {3, 8},
	17: {1, 2, 14}, 18: {2}, 19: {2}, 21: {1, 2, 15}, 22: {1, 2, 15}, 23: {1}, 24: {99}, 25: {1}, 26: {2}, 28: {2, 14},
	31: {2, 4, 5, 6, 7, 9, 11, 14, 15}, 33: {1, 2}, 34: {1, 2}, 35: {3}, 36: {2}, 37: {2},
	38: {1, 2, 3, 4, 5, 6, 7, 8, 9, 10, 11, 14, 15, 99}, 39: {1, 2}, 40: {2}, 41: {2}, 42: {2},
}

// propertyTableMatchesSpec: packets.validPacketProperties (which property is accepted and emitted for which packet
// type) equals table 2-4 of the MQTT 5.0 specification.
func propertyTableMatchesSpec(c *Ctx, rule string) {
	sp := c.SSA[modPath+"/packets"]
	if sp == nil {
		return
	}
	initf := sp.Func("init")
	if initf == nil {
		return
	}
	// inner maps: value -> set of keys; outer map updates: key -> inner map value
	inner := map[ssa.Value]map[int]bool{}
	var outer ssa.Value
	for _, ins := range instrs(initf) {
		if st, ok := ins.(*ssa.Store); ok && describe(st.Addr) == "packets.validPacketProperties" {
			outer = st.Val
		}
	}
	if outer == nil {
		c.ob(rule, "packets.validPacketProperties is initialised in package init", "", false, "store not found")
		return
	}
	intOf := func(v ssa.Value) (int, bool) {
		k, ok := v.(*ssa.Const)
		if !ok || k.Value == nil || k.Value.Kind() != constant.Int {
			return 0, false
		}
		n, exact := constant.Int64Val(k.Value)
		return int(n), exact
	}
	got := map[int]map[int]bool{}
	for _, ins := range instrs(initf) {
		mu, ok := ins.(*ssa.MapUpdate)
		if !ok {
			continue
		}
		if mu.Map == outer {
			if k, isK := intOf(mu.Key); isK {
				if inner[mu.Value] == nil {
					inner[mu.Value] = map[int]bool{}
				}
				got[k] = inner[mu.Value]
			}
			continue
		}
		if k, isK := intOf(mu.Key); isK {
			if v, isV := intOf(mu.Value); isV && v == 1 {
				if inner[mu.Map] == nil {
					inner[mu.Map] = map[int]bool{}
				}
				inner[mu.Map][k] = true
			}
		}
	}
	var ids []int
	for k := range specProps {
		ids = append(ids, k)
	}
	sort.Ints(ids)
	for _, id := range ids {
		want := map[int]bool{}
		for _, p := range specProps[id] {
			want[p] = true
		}
		g := got[id]
		var diff []string
		for p := range want {
			if !g[p] {
				diff = append(diff, fmt.Sprintf("missing packet type %d", p))
			}
		}
		for p := range g {
			if !want[p] {
				diff = append(diff, fmt.Sprintf("extra packet type %d", p))
			}
		}
		sort.Strings(diff)
		c.ob(rule, fmt.Sprintf("packets.validPacketProperties[%d] equals MQTT 5.0 table 2-4", id), "", len(diff) == 0, strings.Join(diff, ", ")+": a valid property is refused as malformed (or an invalid one accepted) for that packet type")
	}
	for id := range got {
		if _, ok := specProps[id]; !ok {
			c.ob(rule, fmt.Sprintf("packets.validPacketProperties[%d] is a property of MQTT 5.0", id), "", false, "unknown property identifier")
		}
	}
	c.floor(rule+" properties in validPacketProperties", len(got), 27)
}

// decrementUnderDeleteResult: Info.Inflight is decremented only on the edge where an Inflight.Delete reported that
// it removed a record (or in the tabled functions that receive the removed ids): an unconditional decrement counts a
// record that a concurrent sweep already removed and counted.
func decrementUnderDeleteResult(c *Ctx, rule string) {
	n := 0
	for _, fn := range c.ModFns {
		if fnPkgPath(fn) != modPath {
			continue
		}
		for _, ins := range instrs(fn) {
			cc := callOf(ins)
			if cc == nil || cname(cc) != "sync/atomic.AddInt64" || !strings.HasSuffix(describe(cc.Args[0]), "nfo.Inflight") && !strings.HasSuffix(describe(cc.Args[0]), "info.Inflight") {
				continue
			}
			if describe(cc.Args[1]) != "-1" {
				continue
			}
			n++
			guarded := dominatedByFact(ins, func(t string) bool { return strings.HasPrefix(t, "(*mqtt.Inflight).Delete(") }, true)
			c.ob(rule, fmt.Sprintf("%s: Info.Inflight -1 under %s happens only when Inflight.Delete reported a removal", fname(rootFn(fn)), guardKey(ins)), c.pos(ins.Pos()), guarded,
				"the decrement is not tied to the result of the removal: a record removed meanwhile by the expiry sweep is subtracted twice and $SYS shows a negative in-flight count")
		}
	}
	c.floor(rule+" decrements of Info.Inflight", n, 6)
}

// retainStoresACopy: Server.retainMessage hands Topics.RetainMessage a copy of the packet (Packet.Copy): the retained
// store must not share the payload slice of the caller (an embedding application publishing through Server.Publish
// from a buffer it re-uses).
func retainStoresACopy(c *Ctx, rule string) {
	f := c.fn("mqtt", "(*Server).retainMessage")
	if f == nil {
		return
	}
	ci := c.call1(f, "(*mqtt.TopicsIndex).RetainMessage")
	if ci == nil {
		c.ob(rule, "(*mqtt.Server).retainMessage stores through Topics.RetainMessage", c.pos(f.Pos()), false, "site not found")
		return
	}
	d := describe(ci.Common().Args[1])
	c.ob(rule, "(*mqtt.Server).retainMessage stores a copy of the packet (Packet.Copy)", c.pos(ci.Pos()), strings.HasPrefix(d, "(packets.Packet).Copy(") || strings.HasPrefix(d, "(*packets.Packet).Copy("),
		"stored value "+d+": the retained message aliases the publisher's payload buffer and changes when the caller re-uses it")
}
