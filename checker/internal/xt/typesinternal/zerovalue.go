// Copyright 2024 The Go Authors. All rights reserved.
// Use of this source code is governed by a BSD-style
// license that can be found in the LICENSE file.

package typesinternal

import (
	"fmt"
	"go/ast"
	"go/token"
	"go/types"
	"strings"
)

// ZeroString returns the string representation of the zero value for any type t.
// The boolean result indicates whether the type is or contains an invalid type
// or a non-basic (constraint) interface type.
//
// Even for invalid input types, ZeroString may return a partially correct
// string representation. The caller should use the returned isValid boolean
// to determine the validity of the expression.
//
// When assigning to a wider type (such as 'any'), it's the caller's
// responsibility to handle any necessary type conversions.
//
// This string can be used on the right-hand side of an assignment where the
// left-hand side has that explicit type.
// References to named types are qualified by an appropriate (optional)
// qualifier function.
// Exception: This does not apply to tuples. Their string representation is
// informational only and cannot be used in an assignment.
//
// See [ZeroExpr] for a variant that returns an [ast.Expr].
func ZeroString(t types.Type, qual types.Qualifier) (_ string, isValid bool) {
	switch t := t.(type) {
	case *types.Basic:
		switch {
		case t.Info()&types.IsBoolean != 0:
			return "false", true
		case t.Info()&types.IsNumeric != 0:
			return "0", true
		case t.Info()&types.IsString != 0:
			return `""`, true
		case t.Kind() == types.UnsafePointer:
			fallthrough
		case t.Kind() == types.UntypedNil:
			return "nil", true
		case t.Kind() == types.Invalid:
			return "invalid", false
		default:
			panic(fmt.Sprintf("ZeroString for unexpected type %v", t))
		}

	case *types.Pointer, *types.Slice, *types.Chan, *types.Map, *types.Signature:
		return "nil", true

	case *types.Interface:
		if !t.IsMethodSet() {
			return "invalid", false
		}
		return "nil", true

	case *types.Named:
		switch under := t.Underlying().(type) {
		case *types.Struct, *types.Array:
			return types.TypeString(t, qual) + "{}", true
		default:
			return ZeroString(under, qual)
		}

	case *types.Alias:
		switch t.Underlying().(type) {
		case *types.Struct, *types.Array:
			return types.TypeString(t, qual) + "{}", true
		default:
			// A type parameter can have alias but alias type's underlying type
			// can never be a type parameter.
			// Use types.Unalias to preserve the info of type parameter instead
			// of call Underlying() going right through and get the underlying
			// type of the type parameter which is always an interface.
			return ZeroString(types.Unalias(t), qual)
		}

	case *types.Array, *types.Struct:
		return types.TypeString(t, qual) + "{}", true

	case *types.TypeParam:
		// Assumes func new is not shadowed.
		return "*new(" + types.TypeString(t, qual) + ")", true

	case *types.Tuple:
		// Tuples are not normal values.
		// We are currently format as "(t[0], ..., t[n])". Could be something else.
		isValid := true
		components := make([]string, t.Len())
		for i := 0; i < t.Len(); i++ {
			comp, ok := ZeroString(t.At(i).Type(), qual)

			components[i] = comp
			isValid = isValid && ok
		}
		return "(" + strings.Join(components, ", ") + ")", isValid

	case *types.Union:
		// Variables of these types cannot be created, so it makes
		// no sense to ask for their zero value.
		panic(fmt.Sprintf("invalid type for a variable: %v", t))

	default:
		panic(t) // unreachable.
	}
}

// ZeroExpr returns the ast.Expr representation of the zero value for any type t.
// The boolean result indicates whether the type is or contains an invalid type
// or a non-basic (constraint) interface type.
//
// Even for invalid input types, ZeroExpr may return a partially correct ast.Expr
// representation. The caller should use the returned isValid boolean to determine
// the validity of the expression.
//
// This function is designed for types suitable for variables and should not be
// used with Tuple or Union types.References to named types are qualified by an
// appropriate (optional) qualifier function.
//
// See [ZeroString] for a variant that returns a string.
func ZeroExpr(t types.Type, qual types.Qualifier) (_ ast.Expr, isValid bool) {
	switch t := t.(type) {
	case *types.Basic:
		switch {
		case t.Info()&types.IsBoolean != 0:
			return &ast.Ident{Name: "false"}, true
		case t.Info()&types.IsNumeric != 0:
			return &ast.BasicLit{Kind: token.INT, Value: "0"}, true
		case t.Info()&types.IsString != 0:
			return &ast.BasicLit{Kind: token.STRING, Value: `""`}, true
		case t.Kind() == types.UnsafePointer:
			fallthrough
		case t.Kind() == types.UntypedNil:
			return ast.NewIdent("nil"), true
		case t.Kind() == types.Invalid:
			return &ast.BasicLit{Kind: token.STRING, Value: `"invalid"`}, false
		default:
			panic(fmt.Sprintf("ZeroExpr for unexpected type %v", t))
		}

	case *types.Pointer, *types.Slice, *types.Chan, *types.Map, *types.Signature:
		return ast.NewIdent("nil"), true

	case *types.Interface:
		if !t.IsMethodSet() {
			return &ast.BasicLit{Kind: token.STRING, Value: `"invalid"`}, false
		}
		return ast.NewIdent("nil"), true

	case *types.Named:
		switch under := t.Underlying().(type) {
		case *types.Struct, *types.Array:
			return &ast.CompositeLit{
				Type: TypeExpr(t, qual),
			}, true
		default:
			return ZeroExpr(under, qual)
		}

	case *types.Alias:
		switch t.Underlying().(type) {
		case *types.Struct, *types.Array:
			return &ast.CompositeLit{
				Type: TypeExpr(t, qual),
			}, true
		default:
			return ZeroExpr(types.Unalias(t), qual)
		}

	case *types.Array, *types.Struct:
		return &ast.CompositeLit{
			Type: TypeExpr(t, qual),
		}, true

	case *types.TypeParam:
		return &ast.StarExpr{ // *new(T)
			X: &ast.CallExpr{
				// Assumes func new is not shadowed.
				Fun: ast.NewIdent("new"),
				Args: []ast.Expr{
					ast.NewIdent(t.Obj().Name()),
				},
			},
		}, true

	case *types.Tuple:
		// Unlike ZeroString, there is no ast.Expr can express tuple by
		// "(t[0], ..., t[n])".
		panic(fmt.Sprintf("invalid type for a variable: %v", t))

	case *types.Union:
		// Variables of these types cannot be created, so it makes
		// no sense to ask for their zero value.
		panic(fmt.Sprintf("invalid type for a variable: %v", t))

	default:
		panic(t) // unreachable.
	}
}

// IsZeroExpr uses simple syntactic heuristics to report whether expr
// is a obvious zero value, such as 0, "", nil, or false.
// It cannot do better without type information.
func IsZeroExpr(expr ast.Expr) bool {
	switch e := expr.(type) {
	case *ast.BasicLit:
		return e.Value == "0" || e.Value == `""`
	case *ast.Ident:
		return e.Name == "nil" || e.Name == "false"
	default:
		return false
	}
}

// TypeExpr returns syntax for the specified type. References to named types
// are qualified by an appropriate (optional) qualifier function.
// It may panic for types such as Tuple or Union.
func TypeExpr(t types.Type, qual types.Qualifier) ast.Expr {
	switch t := t.(type) {
	case *types.Basic:
		switch t.Kind() {
		case types.UnsafePointer:
			return &ast.SelectorExpr{X: ast.NewIdent(qual(types.NewPackage("unsafe", "unsafe"))), Sel: ast.NewIdent("Pointer")}
		default:
			return ast.NewIdent(t.Name())
		}

	case *types.Pointer:
		return &ast.UnaryExpr{
			Op: token.MUL,
			X:  TypeExpr(t.Elem(), qual),
		}

	case *types.Array:
		return &ast.ArrayType{
			Len: &ast.BasicLit{
				Kind:  token.INT,
				Value: fmt.Sprintf("%d", t.Len()),
			},
			Elt: TypeExpr(t.Elem(), qual),
		}

	case *types.Slice:
		return &ast.ArrayType{
			Elt: TypeExpr(t.Elem(), qual),
		}

	case *types.Map:
		return &ast.MapType{
			Key:   TypeExpr(t.Key(), qual),
			Value: TypeExpr(t.Elem(), qual),
		}

	case *types.Chan:
		dir := ast.ChanDir(t.Dir())
		if t.Dir() == types.SendRecv {
			dir = ast.SEND | ast.RECV
		}
		return &ast.ChanType{
			Dir:   dir,
			Value: TypeExpr(t.Elem(), qual),
		}

	case *types.Signature:
		var params []*ast.Field
		for i := 0; i < t.Params().Len(); i++ {
			params = append(params, &ast.Field{
				Type: TypeExpr(t.Params().At(i).Type(), qual),
				Names: []*ast.Ident{
					{
						Name: t.Params().At(i).Name(),
					},
				},
			})
		}
		if t.Variadic() {
			last := params[len(params)-1]
			last.Type = &ast.Ellipsis{Elt: last.Type.(*ast.ArrayType).Elt}
		}
		var returns []*ast.Field
		for i := 0; i < t.Results().Len(); i++ {
			returns = append(returns, &ast.Field{
				Type: TypeExpr(t.Results().At(i).Type(), qual),
			})
		}
		return &ast.FuncType{
			Params: &ast.FieldList{
				List: params,
			},
			Results: &ast.FieldList{
				List: returns,
			},
		}

	case *types.TypeParam:
		pkgName := qual(t.Obj().Pkg())
		if pkgName == "" || t.Obj().Pkg() == nil {
			return ast.NewIdent(t.Obj().Name())
		}
		return &ast.SelectorExpr{
			X:   ast.NewIdent(pkgName),
			Sel: ast.NewIdent(t.Obj().Name()),
		}

	// types.TypeParam also implements interface NamedOrAlias. To differentiate,
	// case TypeParam need to be present before case NamedOrAlias.
	// TODO(hxjiang): remove this comment once TypeArgs() is added to interface
	// NamedOrAlias.
	case NamedOrAlias:
		var expr ast.Expr = ast.NewIdent(t.Obj().Name())
		if pkgName := qual(t.Obj().Pkg()); pkgName != "." && pkgName != "" {
			expr = &ast.SelectorExpr{
				X:   ast.NewIdent(pkgName),
				Sel: expr.(*ast.Ident),
			}
		}

		// TODO(hxjiang): call t.TypeArgs after adding method TypeArgs() to
		// typesinternal.NamedOrAlias.
		if hasTypeArgs, ok := t.(interface{ TypeArgs() *types.TypeList }); ok {
			if typeArgs := hasTypeArgs.TypeArgs(); typeArgs != nil && typeArgs.Len() > 0 {
				var indices []ast.Expr
				for i := range typeArgs.Len() {
					indices = append(indices, TypeExpr(typeArgs.At(i), qual))
				}
				expr = &ast.IndexListExpr{
					X:       expr,
					Indices: indices,
				}
			}
		}

		return expr

	case *types.Struct:
		return ast.NewIdent(t.String())

	case *types.Interface:
		return ast.NewIdent(t.String())

	case *types.Union:
		if t.Len() == 0 {
			panic("Union type should have at least one term")
		}
		// Same as go/ast, the return expression will put last term in the
		// Y field at topmost level of BinaryExpr.
		// For union of type "float32 | float64 | int64", the structure looks
		// similar to:
		// {
		// 	X: {
		// 		X: float32,
		// 		Op: |
		// 		Y: float64,
		// 	}
		// 	Op: |,
		// 	Y: int64,
		// }
		var union ast.Expr
		for i := range t.Len() {
			term := t.Term(i)
			termExpr := TypeExpr(term.Type(), qual)
			if term.Tilde() {
				termExpr = &ast.UnaryExpr{
					Op: token.TILDE,
					X:  termExpr,
				}
			}
			if i == 0 {
				union = termExpr
			} else {
				union = &ast.BinaryExpr{
					X:  union,
					Op: token.OR,
					Y:  termExpr,
				}
			}
		}
		return union

	case *types.Tuple:
		panic("invalid input type types.Tuple")

	default:
		panic("unreachable")
	}
}
