// Copyright 2024 The Go Authors. All rights reserved.
// Use of this source code is governed by a BSD-style
// license that can be found in the LICENSE file.

package typesinternal

import (
	"go/types"
)

// ReceiverNamed returns the named type (if any) associated with the
// type of recv, which may be of the form N or *N, or aliases thereof.
// It also reports whether a Pointer was present.
//
// The named result may be nil in ill-typed code.
func ReceiverNamed(recv *types.Var) (isPtr bool, named *types.Named) {
	t := recv.Type()
	if ptr, ok := types.Unalias(t).(*types.Pointer); ok {
		isPtr = true
		t = ptr.Elem()
	}
	named, _ = types.Unalias(t).(*types.Named)
	return
}

// Unpointer returns T given *T or an alias thereof.
// For all other types it is the identity function.
// It does not look at underlying types.
// The result may be an alias.
//
// Use this function to strip off the optional pointer on a receiver
// in a field or method selection, without losing the named type
// (which is needed to compute the method set).
//
// See also [typeparams.MustDeref], which removes one level of
// indirection from the type, regardless of named types (analogous to
// a LOAD instruction).
func Unpointer(t types.Type) types.Type {
	if ptr, ok := types.Unalias(t).(*types.Pointer); ok {
		return ptr.Elem()
	}
	return t
}
