// Copyright 2024 The Go Authors. All rights reserved.
// Use of this source code is governed by a BSD-style
// license that can be found in the LICENSE file.

package typesinternal

import (
	"fmt"
	"go/types"

	"golang.org/x/tools/go/types/typeutil"
)

// ForEachElement calls f for type T and each type reachable from its
// type through reflection. It does this by recursively stripping off
// type constructors; in addition, for each named type N, the type *N
// is added to the result as it may have additional methods.
//
// The caller must provide an initially empty set used to de-duplicate
// identical types, potentially across multiple calls to ForEachElement.
// (Its final value holds all the elements seen, matching the arguments
// passed to f.)
//
// TODO(adonovan): share/harmonize with go/callgraph/rta.
func ForEachElement(rtypes *typeutil.Map, msets *typeutil.MethodSetCache, T types.Type, f func(types.Type)) {
	var visit func(T types.Type, skip bool)
	visit = func(T types.Type, skip bool) {
		if !skip {
			if seen, _ := rtypes.Set(T, true).(bool); seen {
				return // de-dup
			}

			f(T) // notify caller of new element type
		}

		// Recursion over signatures of each method.
		tmset := msets.MethodSet(T)
		for i := 0; i < tmset.Len(); i++ {
			sig := tmset.At(i).Type().(*types.Signature)
			// It is tempting to call visit(sig, false)
			// but, as noted in golang.org/cl/65450043,
			// the Signature.Recv field is ignored by
			// types.Identical and typeutil.Map, which
			// is confusing at best.
			//
			// More importantly, the true signature rtype
			// reachable from a method using reflection
			// has no receiver but an extra ordinary parameter.
			// For the Read method of io.Reader we want:
			//   func(Reader, []byte) (int, error)
			// but here sig is:
			//   func([]byte) (int, error)
			// with .Recv = Reader (though it is hard to
			// notice because it doesn't affect Signature.String
			// or types.Identical).
			//
			// TODO(adonovan): construct and visit the correct
			// non-method signature with an extra parameter
			// (though since unnamed func types have no methods
			// there is essentially no actual demand for this).
			//
			// TODO(adonovan): document whether or not it is
			// safe to skip non-exported methods (as RTA does).
			visit(sig.Params(), true)  // skip the Tuple
			visit(sig.Results(), true) // skip the Tuple
		}

		switch T := T.(type) {
		case *types.Alias:
			visit(types.Unalias(T), skip) // emulates the pre-Alias behavior

		case *types.Basic:
			// nop

		case *types.Interface:
			// nop---handled by recursion over method set.

		case *types.Pointer:
			visit(T.Elem(), false)

		case *types.Slice:
			visit(T.Elem(), false)

		case *types.Chan:
			visit(T.Elem(), false)

		case *types.Map:
			visit(T.Key(), false)
			visit(T.Elem(), false)

		case *types.Signature:
			if T.Recv() != nil {
				panic(fmt.Sprintf("Signature %s has Recv %s", T, T.Recv()))
			}
			visit(T.Params(), true)  // skip the Tuple
			visit(T.Results(), true) // skip the Tuple

		case *types.Named:
			// A pointer-to-named type can be derived from a named
			// type via reflection.  It may have methods too.
			visit(types.NewPointer(T), false)

			// Consider 'type T struct{S}' where S has methods.
			// Reflection provides no way to get from T to struct{S},
			// only to S, so the method set of struct{S} is unwanted,
			// so set 'skip' flag during recursion.
			visit(T.Underlying(), true) // skip the unnamed type

		case *types.Array:
			visit(T.Elem(), false)

		case *types.Struct:
			for i, n := 0, T.NumFields(); i < n; i++ {
				// TODO(adonovan): document whether or not
				// it is safe to skip non-exported fields.
				visit(T.Field(i).Type(), false)
			}

		case *types.Tuple:
			for i, n := 0, T.Len(); i < n; i++ {
				visit(T.At(i).Type(), false)
			}

		case *types.TypeParam, *types.Union:
			// forEachReachable must not be called on parameterized types.
			panic(T)

		default:
			panic(T)
		}
	}
	visit(T, false)
}
