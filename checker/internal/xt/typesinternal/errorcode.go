// Copyright 2020 The Go Authors. All rights reserved.
// Use of this source code is governed by a BSD-style
// license that can be found in the LICENSE file.

package typesinternal

//go:generate stringer -type=ErrorCode

type ErrorCode int

// This file defines the error codes that can be produced during type-checking.
// Collectively, these codes provide an identifier that may be used to
// implement special handling for certain types of errors.
//
// Error codes should be fine-grained enough that the exact nature of the error
// can be easily determined, but coarse enough that they are not an
// implementation detail of the type checking algorithm. As a rule-of-thumb,
// errors should be considered equivalent if there is a theoretical refactoring
// of the type checker in which they are emitted in exactly one place. For
// example, the type checker emits different error messages for "too many
// arguments" and "too few arguments", but one can imagine an alternative type
// checker where this check instead just emits a single "wrong number of
// arguments", so these errors should have the same code.
//
// Error code names should be as brief as possible while retaining accuracy and
// distinctiveness. In most cases names should start with an adjective
// describing the nature of the error (e.g. "invalid", "unused", "misplaced"),
// and end with a noun identifying the relevant language object. For example,
// "DuplicateDecl" or "InvalidSliceExpr". For brevity, naming follows the
// convention that "bad" implies a problem with syntax, and "invalid" implies a
// problem with types.

const (
	// InvalidSyntaxTree occurs if an invalid syntax tree is provided
	// to the type checker. It should never happen.
	InvalidSyntaxTree ErrorCode = -1
)

const (
	_ ErrorCode = iota

	// Test is reserved for errors that only apply while in self-test mode.
	Test

	/* package names */

	// BlankPkgName occurs when a package name is the blank identifier "_".
	//
	// Per the spec:
	//  "The PackageName must not be the blank identifier."
	BlankPkgName

	// MismatchedPkgName occurs when a file's package name doesn't match the
	// package name already established by other files.
	MismatchedPkgName

	// InvalidPkgUse occurs when a package identifier is used outside of a
	// selector expression.
	//
	// Example:
	//  import "fmt"
	//
	//  var _ = fmt
	InvalidPkgUse

	/* imports */

	// BadImportPath occurs when an import path is not valid.
	BadImportPath

	// BrokenImport occurs when importing a package fails.
	//
	// Example:
	//  import "amissingpackage"
	BrokenImport

	// ImportCRenamed occurs when the special import "C" is renamed. "C" is a
	// pseudo-package, and must not be renamed.
	//
	// Example:
	//  import _ "C"
	ImportCRenamed

	// UnusedImport occurs when an import is unused.
	//
	// Example:
	//  import "fmt"
	//
	//  func main() {}
	UnusedImport

	/* initialization */

	// InvalidInitCycle occurs when an invalid cycle is detected within the
	// initialization graph.
	//
	// Example:
	//  var x int = f()
	//
	//  func f() int { return x }
	InvalidInitCycle

	/* decls */

	// DuplicateDecl occurs when an identifier is declared multiple times.
	//
	// Example:
	//  var x = 1
	//  var x = 2
	DuplicateDecl

	// InvalidDeclCycle occurs when a declaration cycle is not valid.
	//
	// Example:
	//  import "unsafe"
	//
	//  type T struct {
	//  	a [n]int
	//  }
	//
	//  var n = unsafe.Sizeof(T{})
	InvalidDeclCycle

	// InvalidTypeCycle occurs when a cycle in type definitions results in a
	// type that is not well-defined.
	//
	// Example:
	//  import "unsafe"
	//
	//  type T [unsafe.Sizeof(T{})]int
	InvalidTypeCycle

	/* decls > const */

	// InvalidConstInit occurs when a const declaration has a non-constant
	// initializer.
	//
	// Example:
	//  var x int
	//  const _ = x
	InvalidConstInit

	// InvalidConstVal occurs when a const value cannot be converted to its
	// target type.
	//
	// TODO(findleyr): this error code and example are not very clear. Consider
	// removing it.
	//
	// Example:
	//  const _ = 1 << "hello"
	InvalidConstVal

	// InvalidConstType occurs when the underlying type in a const declaration
	// is not a valid constant type.
	//
	// Example:
	//  const c *int = 4
	InvalidConstType

	/* decls > var (+ other variable assignment codes) */

	// UntypedNilUse occurs when the predeclared (untyped) value nil is used to
	// initialize a variable declared without an explicit type.
	//
	// Example:
	//  var x = nil
	UntypedNilUse

	// WrongAssignCount occurs when the number of values on the right-hand side
	// of an assignment or initialization expression does not match the number
	// of variables on the left-hand side.
	//
	// Example:
	//  var x = 1, 2
	WrongAssignCount

	// UnassignableOperand occurs when the left-hand side of an assignment is
	// not assignable.
	//
	// Example:
	//  func f() {
	//  	const c = 1
	//  	c = 2
	//  }
	UnassignableOperand

	// NoNewVar occurs when a short variable declaration (':=') does not declare
	// new variables.
	//
	// Example:
	//  func f() {
	//  	x := 1
	//  	x := 2
	//  }
	NoNewVar

	// MultiValAssignOp occurs when an assignment operation (+=, *=, etc) does
	// not have single-valued left-hand or right-hand side.
	//
	// Per the spec:
	//  "In assignment operations, both the left- and right-hand expression lists
	//  must contain exactly one single-valued expression"
	//
	// Example:
	//  func f() int {
	//  	x, y := 1, 2
	//  	x, y += 1
	//  	return x + y
	//  }
	MultiValAssignOp

	// InvalidIfaceAssign occurs when a value of type T is used as an
	// interface, but T does not implement a method of the expected interface.
	//
	// Example:
	//  type I interface {
	//  	f()
	//  }
	//
	//  type T int
	//
	//  var x I = T(1)
	InvalidIfaceAssign

	// InvalidChanAssign occurs when a chan assignment is invalid.
	//
	// Per the spec, a value x is assignable to a channel type T if:
	//  "x is a bidirectional channel value, T is a channel type, x's type V and
	//  T have identical element types, and at least one of V or T is not a
	//  defined type."
	//
	// Example:
	//  type T1 chan int
	//  type T2 chan int
	//
	//  var x T1
	//  // Invalid assignment because both types are named
	//  var _ T2 = x
	InvalidChanAssign

	// IncompatibleAssign occurs when the type of the right-hand side expression
	// in an assignment cannot be assigned to the type of the variable being
	// assigned.
	//
	// Example:
	//  var x []int
	//  var _ int = x
	IncompatibleAssign

	// UnaddressableFieldAssign occurs when trying to assign to a struct field
	// in a map value.
	//
	// Example:
	//  func f() {
	//  	m := make(map[string]struct{i int})
	//  	m["foo"].i = 42
	//  }
	UnaddressableFieldAssign

	/* decls > type (+ other type expression codes) */

	// NotAType occurs when the identifier used as the underlying type in a type
	// declaration or the right-hand side of a type alias does not denote a type.
	//
	// Example:
	//  var S = 2
	//
	//  type T S
	NotAType

	// InvalidArrayLen occurs when an array length is not a constant value.
	//
	// Example:
	//  var n = 3
	//  var _ = [n]int{}
	InvalidArrayLen

	// BlankIfaceMethod occurs when a method name is '_'.
	//
	// Per the spec:
	//  "The name of each explicitly specified method must be unique and not
	//  blank."
	//
	// Example:
	//  type T interface {
	//  	_(int)
	//  }
	BlankIfaceMethod

	// IncomparableMapKey occurs when a map key type does not support the == and
	// != operators.
	//
	// Per the spec:
	//  "The comparison operators == and != must be fully defined for operands of
	//  the key type; thus the key type must not be a function, map, or slice."
	//
	// Example:
	//  var x map[T]int
	//
	//  type T []int
	IncomparableMapKey

	// InvalidIfaceEmbed occurs when a non-interface type is embedded in an
	// interface.
	//
	// Example:
	//  type T struct {}
	//
	//  func (T) m()
	//
	//  type I interface {
	//  	T
	//  }
	InvalidIfaceEmbed

	// InvalidPtrEmbed occurs when an embedded field is of the pointer form *T,
	// and T itself is itself a pointer, an unsafe.Pointer, or an interface.
	//
	// Per the spec:
	//  "An embedded field must be specified as a type name T or as a pointer to
	//  a non-interface type name *T, and T itself may not be a pointer type."
	//
	// Example:
	//  type T *int
	//
	//  type S struct {
	//  	*T
	//  }
	InvalidPtrEmbed

	/* decls > func and method */

	// BadRecv occurs when a method declaration does not have exactly one
	// receiver parameter.
	//
	// Example:
	//  func () _() {}
	BadRecv

	// InvalidRecv occurs when a receiver type expression is not of the form T
	// or *T, or T is a pointer type.
	//
	// Example:
	//  type T struct {}
	//
	//  func (**T) m() {}
	InvalidRecv

	// DuplicateFieldAndMethod occurs when an identifier appears as both a field
	// and method name.
	//
	// Example:
	//  type T struct {
	//  	m int
	//  }
	//
	//  func (T) m() {}
	DuplicateFieldAndMethod

	// DuplicateMethod occurs when two methods on the same receiver type have
	// the same name.
	//
	// Example:
	//  type T struct {}
	//  func (T) m() {}
	//  func (T) m(i int) int { return i }
	DuplicateMethod

	/* decls > special */

	// InvalidBlank occurs when a blank identifier is used as a value or type.
	//
	// Per the spec:
	//  "The blank identifier may appear as an operand only on the left-hand side
	//  of an assignment."
	//
	// Example:
	//  var x = _
	InvalidBlank

	// InvalidIota occurs when the predeclared identifier iota is used outside
	// of a constant declaration.
	//
	// Example:
	//  var x = iota
	InvalidIota

	// MissingInitBody occurs when an init function is missing its body.
	//
	// Example:
	//  func init()
	MissingInitBody

	// InvalidInitSig occurs when an init function declares parameters or
	// results.
	//
	// Example:
	//  func init() int { return 1 }
	InvalidInitSig

	// InvalidInitDecl occurs when init is declared as anything other than a
	// function.
	//
	// Example:
	//  var init = 1
	InvalidInitDecl

	// InvalidMainDecl occurs when main is declared as anything other than a
	// function, in a main package.
	InvalidMainDecl

	/* exprs */

	// TooManyValues occurs when a function returns too many values for the
	// expression context in which it is used.
	//
	// Example:
	//  func ReturnTwo() (int, int) {
	//  	return 1, 2
	//  }
	//
	//  var x = ReturnTwo()
	TooManyValues

	// NotAnExpr occurs when a type expression is used where a value expression
	// is expected.
	//
	// Example:
	//  type T struct {}
	//
	//  func f() {
	//  	T
	//  }
	NotAnExpr

	/* exprs > const */

	// TruncatedFloat occurs when a float constant is truncated to an integer
	// value.
	//
	// Example:
	//  var _ int = 98.6
	TruncatedFloat

	// NumericOverflow occurs when a numeric constant overflows its target type.
	//
	// Example:
	//  var x int8 = 1000
	NumericOverflow

	/* exprs > operation */

	// UndefinedOp occurs when an operator is not defined for the type(s) used
	// in an operation.
	//
	// Example:
	//  var c = "a" - "b"
	UndefinedOp

	// MismatchedTypes occurs when operand types are incompatible in a binary
	// operation.
	//
	// Example:
	//  var a = "hello"
	//  var b = 1
	//  var c = a - b
	MismatchedTypes

	// DivByZero occurs when a division operation is provable at compile
	// time to be a division by zero.
	//
	// Example:
	//  const divisor = 0
	//  var x int = 1/divisor
	DivByZero

	// NonNumericIncDec occurs when an increment or decrement operator is
	// applied to a non-numeric value.
	//
	// Example:
	//  func f() {
	//  	var c = "c"
	//  	c++
	//  }
	NonNumericIncDec

	/* exprs > ptr */

	// UnaddressableOperand occurs when the & operator is applied to an
	// unaddressable expression.
	//
	// Example:
	//  var x = &1
	UnaddressableOperand

	// InvalidIndirection occurs when a non-pointer value is indirected via the
	// '*' operator.
	//
	// Example:
	//  var x int
	//  var y = *x
	InvalidIndirection

	/* exprs > [] */

	// NonIndexableOperand occurs when an index operation is applied to a value
	// that cannot be indexed.
	//
	// Example:
	//  var x = 1
	//  var y = x[1]
	NonIndexableOperand

	// InvalidIndex occurs when an index argument is not of integer type,
	// negative, or out-of-bounds.
	//
	// Example:
	//  var s = [...]int{1,2,3}
	//  var x = s[5]
	//
	// Example:
	//  var s = []int{1,2,3}
	//  var _ = s[-1]
	//
	// Example:
	//  var s = []int{1,2,3}
	//  var i string
	//  var _ = s[i]
	InvalidIndex

	// SwappedSliceIndices occurs when constant indices in a slice expression
	// are decreasing in value.
	//
	// Example:
	//  var _ = []int{1,2,3}[2:1]
	SwappedSliceIndices

	/* operators > slice */

	// NonSliceableOperand occurs when a slice operation is applied to a value
	// whose type is not sliceable, or is unaddressable.
	//
	// Example:
	//  var x = [...]int{1, 2, 3}[:1]
	//
	// Example:
	//  var x = 1
	//  var y = 1[:1]
	NonSliceableOperand

	// InvalidSliceExpr occurs when a three-index slice expression (a[x:y:z]) is
	// applied to a string.
	//
	// Example:
	//  var s = "hello"
	//  var x = s[1:2:3]
	InvalidSliceExpr

	/* exprs > shift */

	// InvalidShiftCount occurs when the right-hand side of a shift operation is
	// either non-integer, negative, or too large.
	//
	// Example:
	//  var (
	//  	x string
	//  	y int = 1 << x
	//  )
	InvalidShiftCount

	// InvalidShiftOperand occurs when the shifted operand is not an integer.
	//
	// Example:
	//  var s = "hello"
	//  var x = s << 2
	InvalidShiftOperand

	/* exprs > chan */

	// InvalidReceive occurs when there is a channel receive from a value that
	// is either not a channel, or is a send-only channel.
	//
	// Example:
	//  func f() {
	//  	var x = 1
	//  	<-x
	//  }
	InvalidReceive

	// InvalidSend occurs when there is a channel send to a value that is not a
	// channel, or is a receive-only channel.
	//
	// Example:
	//  func f() {
	//  	var x = 1
	//  	x <- "hello!"
	//  }
	InvalidSend

	/* exprs > literal */

	// DuplicateLitKey occurs when an index is duplicated in a slice, array, or
	// map literal.
	//
	// Example:
	//  var _ = []int{0:1, 0:2}
	//
	// Example:
	//  var _ = map[string]int{"a": 1, "a": 2}
	DuplicateLitKey

	// MissingLitKey occurs when a map literal is missing a key expression.
	//
	// Example:
	//  var _ = map[string]int{1}
	MissingLitKey

	// InvalidLitIndex occurs when the key in a key-value element of a slice or
	// array literal is not an integer constant.
	//
	// Example:
	//  var i = 0
	//  var x = []string{i: "world"}
	InvalidLitIndex

	// OversizeArrayLit occurs when an array literal exceeds its length.
	//
	// Example:
	//  var _ = [2]int{1,2,3}
	OversizeArrayLit

	// MixedStructLit occurs when a struct literal contains a mix of positional
	// and named elements.
	//
	// Example:
	//  var _ = struct{i, j int}{i: 1, 2}
	MixedStructLit

	// InvalidStructLit occurs when a positional struct literal has an incorrect
	// number of values.
	//
	// Example:
	//  var _ = struct{i, j int}{1,2,3}
	InvalidStructLit

	// MissingLitField occurs when a struct literal refers to a field that does
	// not exist on the struct type.
	//
	// Example:
	//  var _ = struct{i int}{j: 2}
	MissingLitField

	// DuplicateLitField occurs when a struct literal contains duplicated
	// fields.
	//
	// Example:
	//  var _ = struct{i int}{i: 1, i: 2}
	DuplicateLitField

	// UnexportedLitField occurs when a positional struct literal implicitly
	// assigns an unexported field of an imported type.
	UnexportedLitField

	// InvalidLitField occurs when a field name is not a valid identifier.
	//
	// Example:
	//  var _ = struct{i int}{1: 1}
	InvalidLitField

	// UntypedLit occurs when a composite literal omits a required type
	// identifier.
	//
	// Example:
	//  type outer struct{
	//  	inner struct { i int }
	//  }
	//
	//  var _ = outer{inner: {1}}
	UntypedLit

	// InvalidLit occurs when a composite literal expression does not match its
	// type.
	//
	// Example:
	//  type P *struct{
	//  	x int
	//  }
	//  var _ = P {}
	InvalidLit

	/* exprs > selector */

	// AmbiguousSelector occurs when a selector is ambiguous.
	//
	// Example:
	//  type E1 struct { i int }
	//  type E2 struct { i int }
	//  type T struct { E1; E2 }
	//
	//  var x T
	//  var _ = x.i
	AmbiguousSelector

	// UndeclaredImportedName occurs when a package-qualified identifier is
	// undeclared by the imported package.
	//
	// Example:
	//  import "go/types"
	//
	//  var _ = types.NotAnActualIdentifier
	UndeclaredImportedName

	// UnexportedName occurs when a selector refers to an unexported identifier
	// of an imported package.
	//
	// Example:
	//  import "reflect"
	//
	//  type _ reflect.flag
	UnexportedName

	// UndeclaredName occurs when an identifier is not declared in the current
	// scope.
	//
	// Example:
	//  var x T
	UndeclaredName

	// MissingFieldOrMethod occurs when a selector references a field or method
	// that does not exist.
	//
	// Example:
	//  type T struct {}
	//
	//  var x = T{}.f
	MissingFieldOrMethod

	/* exprs > ... */

	// BadDotDotDotSyntax occurs when a "..." occurs in a context where it is
	// not valid.
	//
	// Example:
	//  var _ = map[int][...]int{0: {}}
	BadDotDotDotSyntax

	// NonVariadicDotDotDot occurs when a "..." is used on the final argument to
	// a non-variadic function.
	//
	// Example:
	//  func printArgs(s []string) {
	//  	for _, a := range s {
	//  		println(a)
	//  	}
	//  }
	//
	//  func f() {
	//  	s := []string{"a", "b", "c"}
	//  	printArgs(s...)
	//  }
	NonVariadicDotDotDot

	// MisplacedDotDotDot occurs when a "..." is used somewhere other than the
	// final argument to a function call.
	//
	// Example:
	//  func printArgs(args ...int) {
	//  	for _, a := range args {
	//  		println(a)
	//  	}
	//  }
	//
	//  func f() {
	//  	a := []int{1,2,3}
	//  	printArgs(0, a...)
	//  }
	MisplacedDotDotDot

	// InvalidDotDotDotOperand occurs when a "..." operator is applied to a
	// single-valued operand.
	//
	// Example:
	//  func printArgs(args ...int) {
	//  	for _, a := range args {
	//  		println(a)
	//  	}
	//  }
	//
	//  func f() {
	//  	a := 1
	//  	printArgs(a...)
	//  }
	//
	// Example:
	//  func args() (int, int) {
	//  	return 1, 2
	//  }
	//
	//  func printArgs(args ...int) {
	//  	for _, a := range args {
	//  		println(a)
	//  	}
	//  }
	//
	//  func g() {
	//  	printArgs(args()...)
	//  }
	InvalidDotDotDotOperand

	// InvalidDotDotDot occurs when a "..." is used in a non-variadic built-in
	// function.
	//
	// Example:
	//  var s = []int{1, 2, 3}
	//  var l = len(s...)
	InvalidDotDotDot

	/* exprs > built-in */

	// UncalledBuiltin occurs when a built-in function is used as a
	// function-valued expression, instead of being called.
	//
	// Per the spec:
	//  "The built-in functions do not have standard Go types, so they can only
	//  appear in call expressions; they cannot be used as function values."
	//
	// Example:
	//  var _ = copy
	UncalledBuiltin

	// InvalidAppend occurs when append is called with a first argument that is
	// not a slice.
	//
	// Example:
	//  var _ = append(1, 2)
	InvalidAppend

	// InvalidCap occurs when an argument to the cap built-in function is not of
	// supported type.
	//
	// See https://golang.org/ref/spec#Length_and_capacity for information on
	// which underlying types are supported as arguments to cap and len.
	//
	// Example:
	//  var s = 2
	//  var x = cap(s)
	InvalidCap

	// InvalidClose occurs when close(...) is called with an argument that is
	// not of channel type, or that is a receive-only channel.
	//
	// Example:
	//  func f() {
	//  	var x int
	//  	close(x)
	//  }
	InvalidClose

	// InvalidCopy occurs when the arguments are not of slice type or do not
	// have compatible type.
	//
	// See https://golang.org/ref/spec#Appending_and_copying_slices for more
	// information on the type requirements for the copy built-in.
	//
	// Example:
	//  func f() {
	//  	var x []int
	//  	y := []int64{1,2,3}
	//  	copy(x, y)
	//  }
	InvalidCopy

	// InvalidComplex occurs when the complex built-in function is called with
	// arguments with incompatible types.
	//
	// Example:
	//  var _ = complex(float32(1), float64(2))
	InvalidComplex

	// InvalidDelete occurs when the delete built-in function is called with a
	// first argument that is not a map.
	//
	// Example:
	//  func f() {
	//  	m := "hello"
	//  	delete(m, "e")
	//  }
	InvalidDelete

	// InvalidImag occurs when the imag built-in function is called with an
	// argument that does not have complex type.
	//
	// Example:
	//  var _ = imag(int(1))
	InvalidImag

	// InvalidLen occurs when an argument to the len built-in function is not of
	// supported type.
	//
	// See https://golang.org/ref/spec#Length_and_capacity for information on
	// which underlying types are supported as arguments to cap and len.
	//
	// Example:
	//  var s = 2
	//  var x = len(s)
	InvalidLen

	// SwappedMakeArgs occurs when make is called with three arguments, and its
	// length argument is larger than its capacity argument.
	//
	// Example:
	//  var x = make([]int, 3, 2)
	SwappedMakeArgs

	// InvalidMake occurs when make is called with an unsupported type argument.
	//
	// See https://golang.org/ref/spec#Making_slices_maps_and_channels for
	// information on the types that may be created using make.
	//
	// Example:
	//  var x = make(int)
	InvalidMake

	// InvalidReal occurs when the real built-in function is called with an
	// argument that does not have complex type.
	//
	// Example:
	//  var _ = real(int(1))
	InvalidReal

	/* exprs > assertion */

	// InvalidAssert occurs when a type assertion is applied to a
	// value that is not of interface type.
	//
	// Example:
	//  var x = 1
	//  var _ = x.(float64)
	InvalidAssert

	// ImpossibleAssert occurs for a type assertion x.(T) when the value x of
	// interface cannot have dynamic type T, due to a missing or mismatching
	// method on T.
	//
	// Example:
	//  type T int
	//
	//  func (t *T) m() int { return int(*t) }
	//
	//  type I interface { m() int }
	//
	//  var x I
	//  var _ = x.(T)
	ImpossibleAssert

	/* exprs > conversion */

	// InvalidConversion occurs when the argument type cannot be converted to the
	// target.
	//
	// See https://golang.org/ref/spec#Conversions for the rules of
	// convertibility.
	//
	// Example:
	//  var x float64
	//  var _ = string(x)
	InvalidConversion

	// InvalidUntypedConversion occurs when an there is no valid implicit
	// conversion from an untyped value satisfying the type constraints of the
	// context in which it is used.
	//
	// Example:
	//  var _ = 1 + ""
	InvalidUntypedConversion

	/* offsetof */

	// BadOffsetofSyntax occurs when unsafe.Offsetof is called with an argument
	// that is not a selector expression.
	//
	// Example:
	//  import "unsafe"
	//
	//  var x int
	//  var _ = unsafe.Offsetof(x)
	BadOffsetofSyntax

	// InvalidOffsetof occurs when unsafe.Offsetof is called with a method
	// selector, rather than a field selector, or when the field is embedded via
	// a pointer.
	//
	// Per the spec:
	//
	//  "If f is an embedded field, it must be reachable without pointer
	//  indirections through fields of the struct. "
	//
	// Example:
	//  import "unsafe"
	//
	//  type T struct { f int }
	//  type S struct { *T }
	//  var s S
	//  var _ = unsafe.Offsetof(s.f)
	//
	// Example:
	//  import "unsafe"
	//
	//  type S struct{}
	//
	//  func (S) m() {}
	//
	//  var s S
	//  var _ = unsafe.Offsetof(s.m)
	InvalidOffsetof

	/* control flow > scope */

	// UnusedExpr occurs when a side-effect free expression is used as a
	// statement. Such a statement has no effect.
	//
	// Example:
	//  func f(i int) {
	//  	i*i
	//  }
	UnusedExpr

	// UnusedVar occurs when a variable is declared but unused.
	//
	// Example:
	//  func f() {
	//  	x := 1
	//  }
	UnusedVar

	// MissingReturn occurs when a function with results is missing a return
	// statement.
	//
	// Example:
	//  func f() int {}
	MissingReturn

	// WrongResultCount occurs when a return statement returns an incorrect
	// number of values.
	//
	// Example:
	//  func ReturnOne() int {
	//  	return 1, 2
	//  }
	WrongResultCount

	// OutOfScopeResult occurs when the name of a value implicitly returned by
	// an empty return statement is shadowed in a nested scope.
	//
	// Example:
	//  func factor(n int) (i int) {
	//  	for i := 2; i < n; i++ {
	//  		if n%i == 0 {
	//  			return
	//  		}
	//  	}
	//  	return 0
	//  }
	OutOfScopeResult

	/* control flow > if */

	// InvalidCond occurs when an if condition is not a boolean expression.
	//
	// Example:
	//  func checkReturn(i int) {
	//  	if i {
	//  		panic("non-zero return")
	//  	}
	//  }
	InvalidCond

	/* control flow > for */

	// InvalidPostDecl occurs when there is a declaration in a for-loop post
	// statement.
	//
	// Example:
	//  func f() {
	//  	for i := 0; i < 10; j := 0 {}
	//  }
	InvalidPostDecl

	// InvalidChanRange occurs when a send-only channel used in a range
	// expression.
	//
	// Example:
	//  func sum(c chan<- int) {
	//  	s := 0
	//  	for i := range c {
	//  		s += i
	//  	}
	//  }
	InvalidChanRange

	// InvalidIterVar occurs when two iteration variables are used while ranging
	// over a channel.
	//
	// Example:
	//  func f(c chan int) {
	//  	for k, v := range c {
	//  		println(k, v)
	//  	}
	//  }
	InvalidIterVar

	// InvalidRangeExpr occurs when the type of a range expression is not array,
	// slice, string, map, or channel.
	//
	// Example:
	//  func f(i int) {
	//  	for j := range i {
	//  		println(j)
	//  	}
	//  }
	InvalidRangeExpr

	/* control flow > switch */

	// MisplacedBreak occurs when a break statement is not within a for, switch,
	// or select statement of the innermost function definition.
	//
	// Example:
	//  func f() {
	//  	break
	//  }
	MisplacedBreak

	// MisplacedContinue occurs when a continue statement is not within a for
	// loop of the innermost function definition.
	//
	// Example:
	//  func sumeven(n int) int {
	//  	proceed := func() {
	//  		continue
	//  	}
	//  	sum := 0
	//  	for i := 1; i <= n; i++ {
	//  		if i % 2 != 0 {
	//  			proceed()
	//  		}
	//  		sum += i
	//  	}
	//  	return sum
	//  }
	MisplacedContinue

	// MisplacedFallthrough occurs when a fallthrough statement is not within an
	// expression switch.
	//
	// Example:
	//  func typename(i interface{}) string {
	//  	switch i.(type) {
	//  	case int64:
	//  		fallthrough
	//  	case int:
	//  		return "int"
	//  	}
	//  	return "unsupported"
	//  }
	MisplacedFallthrough

	// DuplicateCase occurs when a type or expression switch has duplicate
	// cases.
	//
	// Example:
	//  func printInt(i int) {
	//  	switch i {
	//  	case 1:
	//  		println("one")
	//  	case 1:
	//  		println("One")
	//  	}
	//  }
	DuplicateCase

	// DuplicateDefault occurs when a type or expression switch has multiple
	// default clauses.
	//
	// Example:
	//  func printInt(i int) {
	//  	switch i {
	//  	case 1:
	//  		println("one")
	//  	default:
	//  		println("One")
	//  	default:
	//  		println("1")
	//  	}
	//  }
	DuplicateDefault

	// BadTypeKeyword occurs when a .(type) expression is used anywhere other
	// than a type switch.
	//
	// Example:
	//  type I interface {
	//  	m()
	//  }
	//  var t I
	//  var _ = t.(type)
	BadTypeKeyword

	// InvalidTypeSwitch occurs when .(type) is used on an expression that is
	// not of interface type.
	//
	// Example:
	//  func f(i int) {
	//  	switch x := i.(type) {}
	//  }
	InvalidTypeSwitch

	// InvalidExprSwitch occurs when a switch expression is not comparable.
	//
	// Example:
	//  func _() {
	//  	var a struct{ _ func() }
	//  	switch a /* ERROR cannot switch on a */ {
	//  	}
	//  }
	InvalidExprSwitch

	/* control flow > select */

	// InvalidSelectCase occurs when a select case is not a channel send or
	// receive.
	//
	// Example:
	//  func checkChan(c <-chan int) bool {
	//  	select {
	//  	case c:
	//  		return true
	//  	default:
	//  		return false
	//  	}
	//  }
	InvalidSelectCase

	/* control flow > labels and jumps */

	// UndeclaredLabel occurs when an undeclared label is jumped to.
	//
	// Example:
	//  func f() {
	//  	goto L
	//  }
	UndeclaredLabel

	// DuplicateLabel occurs when a label is declared more than once.
	//
	// Example:
	//  func f() int {
	//  L:
	//  L:
	//  	return 1
	//  }
	DuplicateLabel

	// MisplacedLabel occurs when a break or continue label is not on a for,
	// switch, or select statement.
	//
	// Example:
	//  func f() {
	//  L:
	//  	a := []int{1,2,3}
	//  	for _, e := range a {
	//  		if e > 10 {
	//  			break L
	//  		}
	//  		println(a)
	//  	}
	//  }
	MisplacedLabel

	// UnusedLabel occurs when a label is declared but not used.
	//
	// Example:
	//  func f() {
	//  L:
	//  }
	UnusedLabel

	// JumpOverDecl occurs when a label jumps over a variable declaration.
	//
	// Example:
	//  func f() int {
	//  	goto L
	//  	x := 2
	//  L:
	//  	x++
	//  	return x
	//  }
	JumpOverDecl

	// JumpIntoBlock occurs when a forward jump goes to a label inside a nested
	// block.
	//
	// Example:
	//  func f(x int) {
	//  	goto L
	//  	if x > 0 {
	//  	L:
	//  		print("inside block")
	//  	}
	// }
	JumpIntoBlock

	/* control flow > calls */

	// InvalidMethodExpr occurs when a pointer method is called but the argument
	// is not addressable.
	//
	// Example:
	//  type T struct {}
	//
	//  func (*T) m() int { return 1 }
	//
	//  var _ = T.m(T{})
	InvalidMethodExpr

	// WrongArgCount occurs when too few or too many arguments are passed by a
	// function call.
	//
	// Example:
	//  func f(i int) {}
	//  var x = f()
	WrongArgCount

	// InvalidCall occurs when an expression is called that is not of function
	// type.
	//
	// Example:
	//  var x = "x"
	//  var y = x()
	InvalidCall

	/* control flow > suspended */

	// UnusedResults occurs when a restricted expression-only built-in function
	// is suspended via go or defer. Such a suspension discards the results of
	// these side-effect free built-in functions, and therefore is ineffectual.
	//
	// Example:
	//  func f(a []int) int {
	//  	defer len(a)
	//  	return i
	//  }
	UnusedResults

	// InvalidDefer occurs when a deferred expression is not a function call,
	// for example if the expression is a type conversion.
	//
	// Example:
	//  func f(i int) int {
	//  	defer int32(i)
	//  	return i
	//  }
	InvalidDefer

	// InvalidGo occurs when a go expression is not a function call, for example
	// if the expression is a type conversion.
	//
	// Example:
	//  func f(i int) int {
	//  	go int32(i)
	//  	return i
	//  }
	InvalidGo

	// All codes below were added in Go 1.17.

	/* decl */

	// BadDecl occurs when a declaration has invalid syntax.
	BadDecl

	// RepeatedDecl occurs when an identifier occurs more than once on the left
	// hand side of a short variable declaration.
	//
	// Example:
	//  func _() {
	//  	x, y, y := 1, 2, 3
	//  }
	RepeatedDecl

	/* unsafe */

	// InvalidUnsafeAdd occurs when unsafe.Add is called with a
	// length argument that is not of integer type.
	//
	// Example:
	//  import "unsafe"
	//
	//  var p unsafe.Pointer
	//  var _ = unsafe.Add(p, float64(1))
	InvalidUnsafeAdd

	// InvalidUnsafeSlice occurs when unsafe.Slice is called with a
	// pointer argument that is not of pointer type or a length argument
	// that is not of integer type, negative, or out of bounds.
	//
	// Example:
	//  import "unsafe"
	//
	//  var x int
	//  var _ = unsafe.Slice(x, 1)
	//
	// Example:
	//  import "unsafe"
	//
	//  var x int
	//  var _ = unsafe.Slice(&x, float64(1))
	//
	// Example:
	//  import "unsafe"
	//
	//  var x int
	//  var _ = unsafe.Slice(&x, -1)
	//
	// Example:
	//  import "unsafe"
	//
	//  var x int
	//  var _ = unsafe.Slice(&x, uint64(1) << 63)
	InvalidUnsafeSlice

	// All codes below were added in Go 1.18.

	/* features */

	// UnsupportedFeature occurs when a language feature is used that is not
	// supported at this Go version.
	UnsupportedFeature

	/* type params */

	// NotAGenericType occurs when a non-generic type is used where a generic
	// type is expected: in type or function instantiation.
	//
	// Example:
	//  type T int
	//
	//  var _ T[int]
	NotAGenericType

	// WrongTypeArgCount occurs when a type or function is instantiated with an
	// incorrect number of type arguments, including when a generic type or
	// function is used without instantiation.
	//
	// Errors involving failed type inference are assigned other error codes.
	//
	// Example:
	//  type T[p any] int
	//
	//  var _ T[int, string]
	//
	// Example:
	//  func f[T any]() {}
	//
	//  var x = f
	WrongTypeArgCount

	// CannotInferTypeArgs occurs when type or function type argument inference
	// fails to infer all type arguments.
	//
	// Example:
	//  func f[T any]() {}
	//
	//  func _() {
	//  	f()
	//  }
	//
	// Example:
	//   type N[P, Q any] struct{}
	//
	//   var _ N[int]
	CannotInferTypeArgs

	// InvalidTypeArg occurs when a type argument does not satisfy its
	// corresponding type parameter constraints.
	//
	// Example:
	//  type T[P ~int] struct{}
	//
	//  var _ T[string]
	InvalidTypeArg // arguments? InferenceFailed

	// InvalidInstanceCycle occurs when an invalid cycle is detected
	// within the instantiation graph.
	//
	// Example:
	//  func f[T any]() { f[*T]() }
	InvalidInstanceCycle

	// InvalidUnion occurs when an embedded union or approximation element is
	// not valid.
	//
	// Example:
	//  type _ interface {
	//   	~int | interface{ m() }
	//  }
	InvalidUnion

	// MisplacedConstraintIface occurs when a constraint-type interface is used
	// outside of constraint position.
	//
	// Example:
	//   type I interface { ~int }
	//
	//   var _ I
	MisplacedConstraintIface

	// InvalidMethodTypeParams occurs when methods have type parameters.
	//
	// It cannot be encountered with an AST parsed using go/parser.
	InvalidMethodTypeParams

	// MisplacedTypeParam occurs when a type parameter is used in a place where
	// it is not permitted.
	//
	// Example:
	//  type T[P any] P
	//
	// Example:
	//  type T[P any] struct{ *P }
	MisplacedTypeParam

	// InvalidUnsafeSliceData occurs when unsafe.SliceData is called with
	// an argument that is not of slice type. It also occurs if it is used
	// in a package compiled for a language version before go1.20.
	//
	// Example:
	//  import "unsafe"
	//
	//  var x int
	//  var _ = unsafe.SliceData(x)
	InvalidUnsafeSliceData

	// InvalidUnsafeString occurs when unsafe.String is called with
	// a length argument that is not of integer type, negative, or
	// out of bounds. It also occurs if it is used in a package
	// compiled for a language version before go1.20.
	//
	// Example:
	//  import "unsafe"
	//
	//  var b [10]byte
	//  var _ = unsafe.String(&b[0], -1)
	InvalidUnsafeString

	// InvalidUnsafeStringData occurs if it is used in a package
	// compiled for a language version before go1.20.
	_ // not used anymore

)
