// Copyright 2024 The Go Authors. All rights reserved.
// Use of this source code is governed by a BSD-style
// license that can be found in the LICENSE file.

package typesinternal

import (
	"go/ast"
	"go/types"
	"strconv"
)

// FileQualifier returns a [types.Qualifier] function that qualifies
// imported symbols appropriately based on the import environment of a given
// file.
// If the same package is imported multiple times, the last appearance is
// recorded.
func FileQualifier(f *ast.File, pkg *types.Package) types.Qualifier {
	// Construct mapping of import paths to their defined names.
	// It is only necessary to look at renaming imports.
	imports := make(map[string]string)
	for _, imp := range f.Imports {
		if imp.Name != nil && imp.Name.Name != "_" {
			path, _ := strconv.Unquote(imp.Path.Value)
			imports[path] = imp.Name.Name
		}
	}

	// Define qualifier to replace full package paths with names of the imports.
	return func(p *types.Package) string {
		if p == nil || p == pkg {
			return ""
		}

		if name, ok := imports[p.Path()]; ok {
			if name == "." {
				return ""
			} else {
				return name
			}
		}

		// If there is no local renaming, fall back to the package name.
		return p.Name()
	}
}
