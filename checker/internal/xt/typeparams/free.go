// Copyright 2024 The Go Authors. All rights reserved.
// Use of this source code is governed by a BSD-style
// license that can be found in the LICENSE file.

package typeparams

import (
	"go/types"

	"mqttverif/internal/xt/aliases"
)

// Free is a memoization of the set of free type parameters within a
// type. It makes a sequence of calls to [Free.Has] for overlapping
// types more efficient. The zero value is ready for use.
//
// NOTE: Adapted from go/types/infer.go. If it is later exported, factor.
type Free struct {
	seen map[types.Type]bool
}

// Has reports whether the specified type has a free type parameter.
func (w *Free) Has(typ types.Type) (res bool) {
	// detect cycles
	if x, ok := w.seen[typ]; ok {
		return x
	}
	if w.seen == nil {
		w.seen = make(map[types.Type]bool)
	}
	w.seen[typ] = false
	defer func() {
		w.seen[typ] = res
	}()

	switch t := typ.(type) {
	case nil, *types.Basic: // TODO(gri) should nil be handled here?
		break

	case *types.Alias:
		if aliases.TypeParams(t).Len() > aliases.TypeArgs(t).Len() {
			return true // This is an uninstantiated Alias.
		}
		// The expansion of an alias can have free type parameters,
		// whether or not the alias itself has type parameters:
		//
		//   func _[K comparable]() {
		//     type Set      = map[K]bool // free(Set)      = {K}
		//     type MapTo[V] = map[K]V    // free(Map[foo]) = {V}
		//   }
		//
		// So, we must Unalias.
		return w.Has(types.Unalias(t))

	case *types.Array:
		return w.Has(t.Elem())

	case *types.Slice:
		return w.Has(t.Elem())

	case *types.Struct:
		for i, n := 0, t.NumFields(); i < n; i++ {
			if w.Has(t.Field(i).Type()) {
				return true
			}
		}

	case *types.Pointer:
		return w.Has(t.Elem())

	case *types.Tuple:
		n := t.Len()
		for i := 0; i < n; i++ {
			if w.Has(t.At(i).Type()) {
				return true
			}
		}

	case *types.Signature:
		// t.tparams may not be nil if we are looking at a signature
		// of a generic function type (or an interface method) that is
		// part of the type we're testing. We don't care about these type
		// parameters.
		// Similarly, the receiver of a method may declare (rather than
		// use) type parameters, we don't care about those either.
		// Thus, we only need to look at the input and result parameters.
		return w.Has(t.Params()) || w.Has(t.Results())

	case *types.Interface:
		for i, n := 0, t.NumMethods(); i < n; i++ {
			if w.Has(t.Method(i).Type()) {
				return true
			}
		}
		terms, err := InterfaceTermSet(t)
		if err != nil {
			return false // ill typed
		}
		for _, term := range terms {
			if w.Has(term.Type()) {
				return true
			}
		}

	case *types.Map:
		return w.Has(t.Key()) || w.Has(t.Elem())

	case *types.Chan:
		return w.Has(t.Elem())

	case *types.Named:
		args := t.TypeArgs()
		if params := t.TypeParams(); params.Len() > args.Len() {
			return true // this is an uninstantiated named type.
		}
		for i, n := 0, args.Len(); i < n; i++ {
			if w.Has(args.At(i)) {
				return true
			}
		}
		return w.Has(t.Underlying()) // recurse for types local to parameterized functions

	case *types.TypeParam:
		return true

	default:
		panic(t) // unreachable
	}

	return false
}
