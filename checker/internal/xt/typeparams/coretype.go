// Copyright 2022 The Go Authors. All rights reserved.
// Use of this source code is governed by a BSD-style
// license that can be found in the LICENSE file.

package typeparams

import (
	"fmt"
	"go/types"
)

// CoreType returns the core type of T or nil if T does not have a core type.
//
// See https://go.dev/ref/spec#Core_types for the definition of a core type.
func CoreType(T types.Type) types.Type {
	U := T.Underlying()
	if _, ok := U.(*types.Interface); !ok {
		return U // for non-interface types,
	}

	terms, err := NormalTerms(U)
	if len(terms) == 0 || err != nil {
		// len(terms) -> empty type set of interface.
		// err != nil => U is invalid, exceeds complexity bounds, or has an empty type set.
		return nil // no core type.
	}

	U = terms[0].Type().Underlying()
	var identical int // i in [0,identical) => Identical(U, terms[i].Type().Underlying())
	for identical = 1; identical < len(terms); identical++ {
		if !types.Identical(U, terms[identical].Type().Underlying()) {
			break
		}
	}

	if identical == len(terms) {
		// https://go.dev/ref/spec#Core_types
		// "There is a single type U which is the underlying type of all types in the type set of T"
		return U
	}
	ch, ok := U.(*types.Chan)
	if !ok {
		return nil // no core type as identical < len(terms) and U is not a channel.
	}
	// https://go.dev/ref/spec#Core_types
	// "the type chan E if T contains only bidirectional channels, or the type chan<- E or
	// <-chan E depending on the direction of the directional channels present."
	for chans := identical; chans < len(terms); chans++ {
		curr, ok := terms[chans].Type().Underlying().(*types.Chan)
		if !ok {
			return nil
		}
		if !types.Identical(ch.Elem(), curr.Elem()) {
			return nil // channel elements are not identical.
		}
		if ch.Dir() == types.SendRecv {
			// ch is bidirectional. We can safely always use curr's direction.
			ch = curr
		} else if curr.Dir() != types.SendRecv && ch.Dir() != curr.Dir() {
			// ch and curr are not bidirectional and not the same direction.
			return nil
		}
	}
	return ch
}

// NormalTerms returns a slice of terms representing the normalized structural
// type restrictions of a type, if any.
//
// For all types other than *types.TypeParam, *types.Interface, and
// *types.Union, this is just a single term with Tilde() == false and
// Type() == typ. For *types.TypeParam, *types.Interface, and *types.Union, see
// below.
//
// Structural type restrictions of a type parameter are created via
// non-interface types embedded in its constraint interface (directly, or via a
// chain of interface embeddings). For example, in the declaration type
// T[P interface{~int; m()}] int the structural restriction of the type
// parameter P is ~int.
//
// With interface embedding and unions, the specification of structural type
// restrictions may be arbitrarily complex. For example, consider the
// following:
//
//	type A interface{ ~string|~[]byte }
//
//	type B interface{ int|string }
//
//	type C interface { ~string|~int }
//
//	type T[P interface{ A|B; C }] int
//
// In this example, the structural type restriction of P is ~string|int: A|B
// expands to ~string|~[]byte|int|string, which reduces to ~string|~[]byte|int,
// which when intersected with C (~string|~int) yields ~string|int.
//
// NormalTerms computes these expansions and reductions, producing a
// "normalized" form of the embeddings. A structural restriction is normalized
// if it is a single union containing no interface terms, and is minimal in the
// sense that removing any term changes the set of types satisfying the
// constraint. It is left as a proof for the reader that, modulo sorting, there
// is exactly one such normalized form.
//
// Because the minimal representation always takes this form, NormalTerms
// returns a slice of tilde terms corresponding to the terms of the union in
// the normalized structural restriction. An error is returned if the type is
// invalid, exceeds complexity bounds, or has an empty type set. In the latter
// case, NormalTerms returns ErrEmptyTypeSet.
//
// NormalTerms makes no guarantees about the order of terms, except that it
// is deterministic.
func NormalTerms(typ types.Type) ([]*types.Term, error) {
	switch typ := typ.Underlying().(type) {
	case *types.TypeParam:
		return StructuralTerms(typ)
	case *types.Union:
		return UnionTermSet(typ)
	case *types.Interface:
		return InterfaceTermSet(typ)
	default:
		return []*types.Term{types.NewTerm(false, typ)}, nil
	}
}

// Deref returns the type of the variable pointed to by t,
// if t's core type is a pointer; otherwise it returns t.
//
// Do not assume that Deref(T)==T implies T is not a pointer:
// consider "type T *T", for example.
//
// TODO(adonovan): ideally this would live in typesinternal, but that
// creates an import cycle. Move there when we melt this package down.
func Deref(t types.Type) types.Type {
	if ptr, ok := CoreType(t).(*types.Pointer); ok {
		return ptr.Elem()
	}
	return t
}

// MustDeref returns the type of the variable pointed to by t.
// It panics if t's core type is not a pointer.
//
// TODO(adonovan): ideally this would live in typesinternal, but that
// creates an import cycle. Move there when we melt this package down.
func MustDeref(t types.Type) types.Type {
	if ptr, ok := CoreType(t).(*types.Pointer); ok {
		return ptr.Elem()
	}
	panic(fmt.Sprintf("%v is not a pointer", t))
}
