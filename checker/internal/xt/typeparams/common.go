// Copyright 2021 The Go Authors. All rights reserved.
// Use of this source code is governed by a BSD-style
// license that can be found in the LICENSE file.

// Package typeparams contains common utilities for writing tools that
// interact with generic Go code, as introduced with Go 1.18. It
// supplements the standard library APIs. Notably, the StructuralTerms
// API computes a minimal representation of the structural
// restrictions on a type parameter.
//
// An external version of these APIs is available in the
// golang.org/x/exp/typeparams module.
package typeparams

import (
	"go/ast"
	"go/token"
	"go/types"
)

// UnpackIndexExpr extracts data from AST nodes that represent index
// expressions.
//
// For an ast.IndexExpr, the resulting indices slice will contain exactly one
// index expression. For an ast.IndexListExpr (go1.18+), it may have a variable
// number of index expressions.
//
// For nodes that don't represent index expressions, the first return value of
// UnpackIndexExpr will be nil.
func UnpackIndexExpr(n ast.Node) (x ast.Expr, lbrack token.Pos, indices []ast.Expr, rbrack token.Pos) {
	switch e := n.(type) {
	case *ast.IndexExpr:
		return e.X, e.Lbrack, []ast.Expr{e.Index}, e.Rbrack
	case *ast.IndexListExpr:
		return e.X, e.Lbrack, e.Indices, e.Rbrack
	}
	return nil, token.NoPos, nil, token.NoPos
}

// PackIndexExpr returns an *ast.IndexExpr or *ast.IndexListExpr, depending on
// the cardinality of indices. Calling PackIndexExpr with len(indices) == 0
// will panic.
func PackIndexExpr(x ast.Expr, lbrack token.Pos, indices []ast.Expr, rbrack token.Pos) ast.Expr {
	switch len(indices) {
	case 0:
		panic("empty indices")
	case 1:
		return &ast.IndexExpr{
			X:      x,
			Lbrack: lbrack,
			Index:  indices[0],
			Rbrack: rbrack,
		}
	default:
		return &ast.IndexListExpr{
			X:       x,
			Lbrack:  lbrack,
			Indices: indices,
			Rbrack:  rbrack,
		}
	}
}

// IsTypeParam reports whether t is a type parameter (or an alias of one).
func IsTypeParam(t types.Type) bool {
	_, ok := types.Unalias(t).(*types.TypeParam)
	return ok
}
