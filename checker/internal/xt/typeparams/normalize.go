// Copyright 2021 The Go Authors. All rights reserved.
// Use of this source code is governed by a BSD-style
// license that can be found in the LICENSE file.

package typeparams

import (
	"errors"
	"fmt"
	"go/types"
	"os"
	"strings"
)

//go:generate go run copytermlist.go

const debug = false

var ErrEmptyTypeSet = errors.New("empty type set")

// StructuralTerms returns a slice of terms representing the normalized
// structural type restrictions of a type parameter, if any.
//
// Structural type restrictions of a type parameter are created via
// non-interface types embedded in its constraint interface (directly, or via a
// chain of interface embeddings). For example, in the declaration
//
//	type T[P interface{~int; m()}] int
//
// the structural restriction of the type parameter P is ~int.
//
// With interface embedding and unions, the specification of structural type
// restrictions may be arbitrarily complex. For example, consider the
// following:
//
//	type A interface{ ~string|~[]byte }
//
//	type B interface{ int|string }
//
//	type C interface { ~string|~int }
//
//	type T[P interface{ A|B; C }] int
//
// In this example, the structural type restriction of P is ~string|int: A|B
// expands to ~string|~[]byte|int|string, which reduces to ~string|~[]byte|int,
// which when intersected with C (~string|~int) yields ~string|int.
//
// StructuralTerms computes these expansions and reductions, producing a
// "normalized" form of the embeddings. A structural restriction is normalized
// if it is a single union containing no interface terms, and is minimal in the
// sense that removing any term changes the set of types satisfying the
// constraint. It is left as a proof for the reader that, modulo sorting, there
// is exactly one such normalized form.
//
// Because the minimal representation always takes this form, StructuralTerms
// returns a slice of tilde terms corresponding to the terms of the union in
// the normalized structural restriction. An error is returned if the
// constraint interface is invalid, exceeds complexity bounds, or has an empty
// type set. In the latter case, StructuralTerms returns ErrEmptyTypeSet.
//
// StructuralTerms makes no guarantees about the order of terms, except that it
// is deterministic.
func StructuralTerms(tparam *types.TypeParam) ([]*types.Term, error) {
	constraint := tparam.Constraint()
	if constraint == nil {
		return nil, fmt.Errorf("%s has nil constraint", tparam)
	}
	iface, _ := constraint.Underlying().(*types.Interface)
	if iface == nil {
		return nil, fmt.Errorf("constraint is %T, not *types.Interface", constraint.Underlying())
	}
	return InterfaceTermSet(iface)
}

// InterfaceTermSet computes the normalized terms for a constraint interface,
// returning an error if the term set cannot be computed or is empty. In the
// latter case, the error will be ErrEmptyTypeSet.
//
// See the documentation of StructuralTerms for more information on
// normalization.
func InterfaceTermSet(iface *types.Interface) ([]*types.Term, error) {
	return computeTermSet(iface)
}

// UnionTermSet computes the normalized terms for a union, returning an error
// if the term set cannot be computed or is empty. In the latter case, the
// error will be ErrEmptyTypeSet.
//
// See the documentation of StructuralTerms for more information on
// normalization.
func UnionTermSet(union *types.Union) ([]*types.Term, error) {
	return computeTermSet(union)
}

func computeTermSet(typ types.Type) ([]*types.Term, error) {
	tset, err := computeTermSetInternal(typ, make(map[types.Type]*termSet), 0)
	if err != nil {
		return nil, err
	}
	if tset.terms.isEmpty() {
		return nil, ErrEmptyTypeSet
	}
	if tset.terms.isAll() {
		return nil, nil
	}
	var terms []*types.Term
	for _, term := range tset.terms {
		terms = append(terms, types.NewTerm(term.tilde, term.typ))
	}
	return terms, nil
}

// A termSet holds the normalized set of terms for a given type.
//
// The name termSet is intentionally distinct from 'type set': a type set is
// all types that implement a type (and includes method restrictions), whereas
// a term set just represents the structural restrictions on a type.
type termSet struct {
	complete bool
	terms    termlist
}

func indentf(depth int, format string, args ...interface{}) {
	fmt.Fprintf(os.Stderr, strings.Repeat(".", depth)+format+"\n", args...)
}

func computeTermSetInternal(t types.Type, seen map[types.Type]*termSet, depth int) (res *termSet, err error) {
	if t == nil {
		panic("nil type")
	}

	if debug {
		indentf(depth, "%s", t.String())
		defer func() {
			if err != nil {
				indentf(depth, "=> %s", err)
			} else {
				indentf(depth, "=> %s", res.terms.String())
			}
		}()
	}

	const maxTermCount = 100
	if tset, ok := seen[t]; ok {
		if !tset.complete {
			return nil, fmt.Errorf("cycle detected in the declaration of %s", t)
		}
		return tset, nil
	}

	// Mark the current type as seen to avoid infinite recursion.
	tset := new(termSet)
	defer func() {
		tset.complete = true
	}()
	seen[t] = tset

	switch u := t.Underlying().(type) {
	case *types.Interface:
		// The term set of an interface is the intersection of the term sets of its
		// embedded types.
		tset.terms = allTermlist
		for i := 0; i < u.NumEmbeddeds(); i++ {
			embedded := u.EmbeddedType(i)
			if _, ok := embedded.Underlying().(*types.TypeParam); ok {
				return nil, fmt.Errorf("invalid embedded type %T", embedded)
			}
			tset2, err := computeTermSetInternal(embedded, seen, depth+1)
			if err != nil {
				return nil, err
			}
			tset.terms = tset.terms.intersect(tset2.terms)
		}
	case *types.Union:
		// The term set of a union is the union of term sets of its terms.
		tset.terms = nil
		for i := 0; i < u.Len(); i++ {
			t := u.Term(i)
			var terms termlist
			switch t.Type().Underlying().(type) {
			case *types.Interface:
				tset2, err := computeTermSetInternal(t.Type(), seen, depth+1)
				if err != nil {
					return nil, err
				}
				terms = tset2.terms
			case *types.TypeParam, *types.Union:
				// A stand-alone type parameter or union is not permitted as union
				// term.
				return nil, fmt.Errorf("invalid union term %T", t)
			default:
				if t.Type() == types.Typ[types.Invalid] {
					continue
				}
				terms = termlist{{t.Tilde(), t.Type()}}
			}
			tset.terms = tset.terms.union(terms)
			if len(tset.terms) > maxTermCount {
				return nil, fmt.Errorf("exceeded max term count %d", maxTermCount)
			}
		}
	case *types.TypeParam:
		panic("unreachable")
	default:
		// For all other types, the term set is just a single non-tilde term
		// holding the type itself.
		if u != types.Typ[types.Invalid] {
			tset.terms = termlist{{false, t}}
		}
	}
	return tset, nil
}

// under is a facade for the go/types internal function of the same name. It is
// used by typeterm.go.
func under(t types.Type) types.Type {
	return t.Underlying()
}
