// Copyright 2024 The Go Authors. All rights reserved.
// Use of this source code is governed by a BSD-style
// license that can be found in the LICENSE file.

package aliases

import (
	"go/ast"
	"go/parser"
	"go/token"
	"go/types"
)

// Rhs returns the type on the right-hand side of the alias declaration.
func Rhs(alias *types.Alias) types.Type {
	if alias, ok := any(alias).(interface{ Rhs() types.Type }); ok {
		return alias.Rhs() // go1.23+
	}

	// go1.22's Alias didn't have the Rhs method,
	// so Unalias is the best we can do.
	return types.Unalias(alias)
}

// TypeParams returns the type parameter list of the alias.
func TypeParams(alias *types.Alias) *types.TypeParamList {
	if alias, ok := any(alias).(interface{ TypeParams() *types.TypeParamList }); ok {
		return alias.TypeParams() // go1.23+
	}
	return nil
}

// SetTypeParams sets the type parameters of the alias type.
func SetTypeParams(alias *types.Alias, tparams []*types.TypeParam) {
	if alias, ok := any(alias).(interface {
		SetTypeParams(tparams []*types.TypeParam)
	}); ok {
		alias.SetTypeParams(tparams) // go1.23+
	} else if len(tparams) > 0 {
		panic("cannot set type parameters of an Alias type in go1.22")
	}
}

// TypeArgs returns the type arguments used to instantiate the Alias type.
func TypeArgs(alias *types.Alias) *types.TypeList {
	if alias, ok := any(alias).(interface{ TypeArgs() *types.TypeList }); ok {
		return alias.TypeArgs() // go1.23+
	}
	return nil // empty (go1.22)
}

// Origin returns the generic Alias type of which alias is an instance.
// If alias is not an instance of a generic alias, Origin returns alias.
func Origin(alias *types.Alias) *types.Alias {
	if alias, ok := any(alias).(interface{ Origin() *types.Alias }); ok {
		return alias.Origin() // go1.23+
	}
	return alias // not an instance of a generic alias (go1.22)
}

// Enabled reports whether [NewAlias] should create [types.Alias] types.
//
// This function is expensive! Call it sparingly.
func Enabled() bool {
	// The only reliable way to compute the answer is to invoke go/types.
	// We don't parse the GODEBUG environment variable, because
	// (a) it's tricky to do so in a manner that is consistent
	//     with the godebug package; in particular, a simple
	//     substring check is not good enough. The value is a
	//     rightmost-wins list of options. But more importantly:
	// (b) it is impossible to detect changes to the effective
	//     setting caused by os.Setenv("GODEBUG"), as happens in
	//     many tests. Therefore any attempt to cache the result
	//     is just incorrect.
	fset := token.NewFileSet()
	f, _ := parser.ParseFile(fset, "a.go", "package p; type A = int", parser.SkipObjectResolution)
	pkg, _ := new(types.Config).Check("p", fset, []*ast.File{f}, nil)
	_, enabled := pkg.Scope().Lookup("A").Type().(*types.Alias)
	return enabled
}
