// Copyright 2024 The Go Authors. All rights reserved.
// Use of this source code is governed by a BSD-style
// license that can be found in the LICENSE file.

package aliases

import (
	"go/token"
	"go/types"
)

// Package aliases defines backward compatible shims
// for the types.Alias type representation added in 1.22.
// This defines placeholders for x/tools until 1.26.

// NewAlias creates a new TypeName in Package pkg that
// is an alias for the type rhs.
//
// The enabled parameter determines whether the resulting [TypeName]'s
// type is an [types.Alias]. Its value must be the result of a call to
// [Enabled], which computes the effective value of
// GODEBUG=gotypesalias=... by invoking the type checker. The Enabled
// function is expensive and should be called once per task (e.g.
// package import), not once per call to NewAlias.
//
// Precondition: enabled || len(tparams)==0.
// If materialized aliases are disabled, there must not be any type parameters.
func NewAlias(enabled bool, pos token.Pos, pkg *types.Package, name string, rhs types.Type, tparams []*types.TypeParam) *types.TypeName {
	if enabled {
		tname := types.NewTypeName(pos, pkg, name, nil)
		SetTypeParams(types.NewAlias(tname, rhs), tparams)
		return tname
	}
	if len(tparams) > 0 {
		panic("cannot create an alias with type parameters when gotypesalias is not enabled")
	}
	return types.NewTypeName(pos, pkg, name, rhs)
}
