// Copyright 2023 The Go Authors. All rights reserved.
// Use of this source code is governed by a BSD-style
// license that can be found in the LICENSE file.

package inline

// This file defines various common helpers.

import (
	"go/ast"
	"go/constant"
	"go/token"
	"go/types"
	"reflect"
	"strings"

	"mqttverif/internal/xt/typeparams"
)

func is[T any](x any) bool {
	_, ok := x.(T)
	return ok
}

// TODO(adonovan): use go1.21's slices.Index.
func index[T comparable](slice []T, x T) int {
	for i, elem := range slice {
		if elem == x {
			return i
		}
	}
	return -1
}

func btoi(b bool) int {
	if b {
		return 1
	} else {
		return 0
	}
}

func offsetOf(fset *token.FileSet, pos token.Pos) int {
	return fset.PositionFor(pos, false).Offset
}

// objectKind returns an object's kind (e.g. var, func, const, typename).
func objectKind(obj types.Object) string {
	return strings.TrimPrefix(strings.ToLower(reflect.TypeOf(obj).String()), "*types.")
}

// within reports whether pos is within the half-open interval [n.Pos, n.End).
func within(pos token.Pos, n ast.Node) bool {
	return n.Pos() <= pos && pos < n.End()
}

// trivialConversion reports whether it is safe to omit the implicit
// value-to-variable conversion that occurs in argument passing or
// result return. The only case currently allowed is converting from
// untyped constant to its default type (e.g. 0 to int).
//
// The reason for this check is that converting from A to B to C may
// yield a different result than converting A directly to C: consider
// 0 to int32 to any.
//
// trivialConversion under-approximates trivial conversions, as unfortunately
// go/types does not record the type of an expression *before* it is implicitly
// converted, and therefore it cannot distinguish typed constant
// expressions from untyped constant expressions. For example, in the
// expression `c + 2`, where c is a uint32 constant, trivialConversion does not
// detect that the default type of this expression is actually uint32, not untyped
// int.
//
// We could, of course, do better here by reverse engineering some of go/types'
// constant handling. That may or may not be worthwhile.
//
// Example: in func f() int32 { return 0 },
// the type recorded for 0 is int32, not untyped int;
// although it is Identical to the result var,
// the conversion is non-trivial.
func trivialConversion(fromValue constant.Value, from, to types.Type) bool {
	if fromValue != nil {
		var defaultType types.Type
		switch fromValue.Kind() {
		case constant.Bool:
			defaultType = types.Typ[types.Bool]
		case constant.String:
			defaultType = types.Typ[types.String]
		case constant.Int:
			defaultType = types.Typ[types.Int]
		case constant.Float:
			defaultType = types.Typ[types.Float64]
		case constant.Complex:
			defaultType = types.Typ[types.Complex128]
		default:
			return false
		}
		return types.Identical(defaultType, to)
	}
	return types.Identical(from, to)
}

func checkInfoFields(info *types.Info) {
	assert(info.Defs != nil, "types.Info.Defs is nil")
	assert(info.Implicits != nil, "types.Info.Implicits is nil")
	assert(info.Scopes != nil, "types.Info.Scopes is nil")
	assert(info.Selections != nil, "types.Info.Selections is nil")
	assert(info.Types != nil, "types.Info.Types is nil")
	assert(info.Uses != nil, "types.Info.Uses is nil")
}

func funcHasTypeParams(decl *ast.FuncDecl) bool {
	// generic function?
	if decl.Type.TypeParams != nil {
		return true
	}
	// method on generic type?
	if decl.Recv != nil {
		t := decl.Recv.List[0].Type
		if u, ok := t.(*ast.StarExpr); ok {
			t = u.X
		}
		return is[*ast.IndexExpr](t) || is[*ast.IndexListExpr](t)
	}
	return false
}

// intersects reports whether the maps' key sets intersect.
func intersects[K comparable, T1, T2 any](x map[K]T1, y map[K]T2) bool {
	if len(x) > len(y) {
		return intersects(y, x)
	}
	for k := range x {
		if _, ok := y[k]; ok {
			return true
		}
	}
	return false
}

// convert returns syntax for the conversion T(x).
func convert(T, x ast.Expr) *ast.CallExpr {
	// The formatter generally adds parens as needed,
	// but before go1.22 it had a bug (#63362) for
	// channel types that requires this workaround.
	if ch, ok := T.(*ast.ChanType); ok && ch.Dir == ast.RECV {
		T = &ast.ParenExpr{X: T}
	}
	return &ast.CallExpr{
		Fun:  T,
		Args: []ast.Expr{x},
	}
}

// isPointer reports whether t's core type is a pointer.
func isPointer(t types.Type) bool {
	return is[*types.Pointer](typeparams.CoreType(t))
}

// indirectSelection is like seln.Indirect() without bug #8353.
func indirectSelection(seln *types.Selection) bool {
	// Work around bug #8353 in Selection.Indirect when Kind=MethodVal.
	if seln.Kind() == types.MethodVal {
		tArg, indirect := effectiveReceiver(seln)
		if indirect {
			return true
		}

		tParam := seln.Obj().Type().Underlying().(*types.Signature).Recv().Type()
		return isPointer(tArg) && !isPointer(tParam) // implicit *
	}

	return seln.Indirect()
}

// effectiveReceiver returns the effective type of the method
// receiver after all implicit field selections (but not implicit * or
// & operations) have been applied.
//
// The boolean indicates whether any implicit field selection was indirect.
func effectiveReceiver(seln *types.Selection) (types.Type, bool) {
	assert(seln.Kind() == types.MethodVal, "not MethodVal")
	t := seln.Recv()
	indices := seln.Index()
	indirect := false
	for _, index := range indices[:len(indices)-1] {
		if isPointer(t) {
			indirect = true
			t = typeparams.MustDeref(t)
		}
		t = typeparams.CoreType(t).(*types.Struct).Field(index).Type()
	}
	return t, indirect
}
