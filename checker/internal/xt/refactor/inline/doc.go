// Copyright 2023 The Go Authors. All rights reserved.
// Use of this source code is governed by a BSD-style
// license that can be found in the LICENSE file.

/*
Package inline implements inlining of Go function calls.

The client provides information about the caller and callee,
including the source text, syntax tree, and type information, and
the inliner returns the modified source file for the caller, or an
error if the inlining operation is invalid (for example because the
function body refers to names that are inaccessible to the caller).

Although this interface demands more information from the client
than might seem necessary, it enables smoother integration with
existing batch and interactive tools that have their own ways of
managing the processes of reading, parsing, and type-checking
packages. In particular, this package does not assume that the
caller and callee belong to the same token.FileSet or
types.Importer realms.

There are many aspects to a function call. It is the only construct
that can simultaneously bind multiple variables of different
explicit types, with implicit assignment conversions. (Neither var
nor := declarations can do that.) It defines the scope of control
labels, of return statements, and of defer statements. Arguments
and results of function calls may be tuples even though tuples are
not first-class values in Go, and a tuple-valued call expression
may be "spread" across the argument list of a call or the operands
of a return statement. All these unique features mean that in the
general case, not everything that can be expressed by a function
call can be expressed without one.

So, in general, inlining consists of modifying a function or method
call expression f(a1, ..., an) so that the name of the function f
is replaced ("literalized") by a literal copy of the function
declaration, with free identifiers suitably modified to use the
locally appropriate identifiers or perhaps constant argument
values.

Inlining must not change the semantics of the call. Semantics
preservation is crucial for clients such as codebase maintenance
tools that automatically inline all calls to designated functions
on a large scale. Such tools must not introduce subtle behavior
changes. (Fully inlining a call is dynamically observable using
reflection over the call stack, but this exception to the rule is
explicitly allowed.)

In many cases it is possible to entirely replace ("reduce") the
call by a copy of the function's body in which parameters have been
replaced by arguments. The inliner supports a number of reduction
strategies, and we expect this set to grow. Nonetheless, sound
reduction is surprisingly tricky.

The inliner is in some ways like an optimizing compiler. A compiler
is considered correct if it doesn't change the meaning of the
program in translation from source language to target language. An
optimizing compiler exploits the particulars of the input to
generate better code, where "better" usually means more efficient.
When a case is found in which it emits suboptimal code, the
compiler is improved to recognize more cases, or more rules, and
more exceptions to rules; this process has no end. Inlining is
similar except that "better" code means tidier code. The baseline
translation (literalization) is correct, but there are endless
rules--and exceptions to rules--by which the output can be
improved.

The following section lists some of the challenges, and ways in
which they can be addressed.

  - All effects of the call argument expressions must be preserved,
    both in their number (they must not be eliminated or repeated),
    and in their order (both with respect to other arguments, and any
    effects in the callee function).

    This must be the case even if the corresponding parameters are
    never referenced, are referenced multiple times, referenced in
    a different order from the arguments, or referenced within a
    nested function that may be executed an arbitrary number of
    times.

    Currently, parameter replacement is not applied to arguments
    with effects, but with further analysis of the sequence of
    strict effects within the callee we could relax this constraint.

  - When not all parameters can be substituted by their arguments
    (e.g. due to possible effects), if the call appears in a
    statement context, the inliner may introduce a var declaration
    that declares the parameter variables (with the correct types)
    and assigns them to their corresponding argument values.
    The rest of the function body may then follow.
    For example, the call

    f(1, 2)

    to the function

    func f(x, y int32) { stmts }

    may be reduced to

    { var x, y int32 = 1, 2; stmts }.

    There are many reasons why this is not always possible. For
    example, true parameters are statically resolved in the same
    scope, and are dynamically assigned their arguments in
    parallel; but each spec in a var declaration is statically
    resolved in sequence and dynamically executed in sequence, so
    earlier parameters may shadow references in later ones.

  - Even an argument expression as simple as ptr.x may not be
    referentially transparent, because another argument may have the
    effect of changing the value of ptr.

    This constraint could be relaxed by some kind of alias or
    escape analysis that proves that ptr cannot be mutated during
    the call.

  - Although constants are referentially transparent, as a matter of
    style we do not wish to duplicate literals that are referenced
    multiple times in the body because this undoes proper factoring.
    Also, string literals may be arbitrarily large.

  - If the function body consists of statements other than just
    "return expr", in some contexts it may be syntactically
    impossible to reduce the call. Consider:

    if x := f(); cond { ... }

    Go has no equivalent to Lisp's progn or Rust's blocks,
    nor ML's let expressions (let param = arg in body);
    its closest equivalent is func(param){body}(arg).
    Reduction strategies must therefore consider the syntactic
    context of the call.

    In such situations we could work harder to extract a statement
    context for the call, by transforming it to:

    { x := f(); if cond { ... } }

  - Similarly, without the equivalent of Rust-style blocks and
    first-class tuples, there is no general way to reduce a call
    to a function such as

    func(params)(args)(results) { stmts; return expr }

    to an expression such as

    { var params = args; stmts; expr }

    or even a statement such as

    results = { var params = args; stmts; expr }

    Consequently the declaration and scope of the result variables,
    and the assignment and control-flow implications of the return
    statement, must be dealt with by cases.

  - A standalone call statement that calls a function whose body is
    "return expr" cannot be simply replaced by the body expression
    if it is not itself a call or channel receive expression; it is
    necessary to explicitly discard the result using "_ = expr".

    Similarly, if the body is a call expression, only calls to some
    built-in functions with no result (such as copy or panic) are
    permitted as statements, whereas others (such as append) return
    a result that must be used, even if just by discarding.

  - If a parameter or result variable is updated by an assignment
    within the function body, it cannot always be safely replaced
    by a variable in the caller. For example, given

    func f(a int) int { a++; return a }

    The call y = f(x) cannot be replaced by { x++; y = x } because
    this would change the value of the caller's variable x.
    Only if the caller is finished with x is this safe.

    A similar argument applies to parameter or result variables
    that escape: by eliminating a variable, inlining would change
    the identity of the variable that escapes.

  - If the function body uses 'defer' and the inlined call is not a
    tail-call, inlining may delay the deferred effects.

  - Because the scope of a control label is the entire function, a
    call cannot be reduced if the caller and callee have intersecting
    sets of control labels. (It is possible to α-rename any
    conflicting ones, but our colleagues building C++ refactoring
    tools report that, when tools must choose new identifiers, they
    generally do a poor job.)

  - Given

    func f() uint8 { return 0 }

    var x any = f()

    reducing the call to var x any = 0 is unsound because it
    discards the implicit conversion to uint8. We may need to make
    each argument-to-parameter conversion explicit if the types
    differ. Assignments to variadic parameters may need to
    explicitly construct a slice.

    An analogous problem applies to the implicit assignments in
    return statements:

    func g() any { return f() }

    Replacing the call f() with 0 would silently lose a
    conversion to uint8 and change the behavior of the program.

  - When inlining a call f(1, x, g()) where those parameters are
    unreferenced, we should be able to avoid evaluating 1 and x
    since they are pure and thus have no effect. But x may be the
    last reference to a local variable in the caller, so removing
    it would cause a compilation error. Parameter substitution must
    avoid making the caller's local variables unreferenced (or must
    be prepared to eliminate the declaration too---this is where an
    iterative framework for simplification would really help).

  - An expression such as s[i] may be valid if s and i are
    variables but invalid if either or both of them are constants.
    For example, a negative constant index s[-1] is always out of
    bounds, and even a non-negative constant index may be out of
    bounds depending on the particular string constant (e.g.
    "abc"[4]).

    So, if a parameter participates in any expression that is
    subject to additional compile-time checks when its operands are
    constant, it may be unsafe to substitute that parameter by a
    constant argument value (#62664).

More complex callee functions are inlinable with more elaborate and
invasive changes to the statements surrounding the call expression.

TODO(adonovan): future work:

  - Handle more of the above special cases by careful analysis,
    thoughtful factoring of the large design space, and thorough
    test coverage.

  - Compute precisely (not conservatively) when parameter
    substitution would remove the last reference to a caller local
    variable, and blank out the local instead of retreating from
    the substitution.

  - Afford the client more control such as a limit on the total
    increase in line count, or a refusal to inline using the
    general approach (replacing name by function literal). This
    could be achieved by returning metadata alongside the result
    and having the client conditionally discard the change.

  - Support inlining of generic functions, replacing type parameters
    by their instantiations.

  - Support inlining of calls to function literals ("closures").
    But note that the existing algorithm makes widespread assumptions
    that the callee is a package-level function or method.

  - Eliminate explicit conversions of "untyped" literals inserted
    conservatively when they are redundant. For example, the
    conversion int32(1) is redundant when this value is used only as a
    slice index; but it may be crucial if it is used in x := int32(1)
    as it changes the type of x, which may have further implications.
    The conversions may also be important to the falcon analysis.

  - Allow non-'go' build systems such as Bazel/Blaze a chance to
    decide whether an import is accessible using logic other than
    "/internal/" path segments. This could be achieved by returning
    the list of added import paths instead of a text diff.

  - Inlining a function from another module may change the
    effective version of the Go language spec that governs it. We
    should probably make the client responsible for rejecting
    attempts to inline from newer callees to older callers, since
    there's no way for this package to access module versions.

  - Use an alternative implementation of the import-organizing
    operation that doesn't require operating on a complete file
    (and reformatting). Then return the results in a higher-level
    form as a set of import additions and deletions plus a single
    diff that encloses the call expression. This interface could
    perhaps be implemented atop imports.Process by post-processing
    its result to obtain the abstract import changes and discarding
    its formatted output.
*/
package inline
