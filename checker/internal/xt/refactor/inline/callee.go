// Copyright 2023 The Go Authors. All rights reserved.
// Use of this source code is governed by a BSD-style
// license that can be found in the LICENSE file.

package inline

// This file defines the analysis of the callee function.

import (
	"bytes"
	"encoding/gob"
	"fmt"
	"go/ast"
	"go/parser"
	"go/token"
	"go/types"
	"strings"

	"golang.org/x/tools/go/types/typeutil"
	"mqttverif/internal/xt/typeparams"
	"mqttverif/internal/xt/typesinternal"
)

// A Callee holds information about an inlinable function. Gob-serializable.
type Callee struct {
	impl gobCallee
}

func (callee *Callee) String() string { return callee.impl.Name }

type gobCallee struct {
	Content []byte // file content, compacted to a single func decl

	// results of type analysis (does not reach go/types data structures)
	PkgPath          string                 // package path of declaring package
	Name             string                 // user-friendly name for error messages
	Unexported       []string               // names of free objects that are unexported
	FreeRefs         []freeRef              // locations of references to free objects
	FreeObjs         []object               // descriptions of free objects
	ValidForCallStmt bool                   // function body is "return expr" where expr is f() or <-ch
	NumResults       int                    // number of results (according to type, not ast.FieldList)
	Params           []*paramInfo           // information about parameters (incl. receiver)
	Results          []*paramInfo           // information about result variables
	Effects          []int                  // order in which parameters are evaluated (see calleefx)
	HasDefer         bool                   // uses defer
	HasBareReturn    bool                   // uses bare return in non-void function
	Returns          [][]returnOperandFlags // metadata about result expressions for each return
	Labels           []string               // names of all control labels
	Falcon           falconResult           // falcon constraint system
}

// returnOperandFlags records metadata about a single result expression in a return
// statement.
type returnOperandFlags int

const (
	nonTrivialResult returnOperandFlags = 1 << iota // return operand has non-trivial conversion to result type
	untypedNilResult                                // return operand is nil literal
)

// A freeRef records a reference to a free object. Gob-serializable.
// (This means free relative to the FuncDecl as a whole, i.e. excluding parameters.)
type freeRef struct {
	Offset int // byte offset of the reference relative to the FuncDecl
	Object int // index into Callee.freeObjs
}

// An object abstracts a free types.Object referenced by the callee. Gob-serializable.
type object struct {
	Name    string // Object.Name()
	Kind    string // one of {var,func,const,type,pkgname,nil,builtin}
	PkgPath string // path of object's package (or imported package if kind="pkgname")
	PkgName string // name of object's package (or imported package if kind="pkgname")
	// TODO(rfindley): should we also track LocalPkgName here? Do we want to
	// preserve the local package name?
	ValidPos bool      // Object.Pos().IsValid()
	Shadow   shadowMap // shadowing info for the object's refs
}

// AnalyzeCallee analyzes a function that is a candidate for inlining
// and returns a Callee that describes it. The Callee object, which is
// serializable, can be passed to one or more subsequent calls to
// Inline, each with a different Caller.
//
// This design allows separate analysis of callers and callees in the
// golang.org/x/tools/go/analysis framework: the inlining information
// about a callee can be recorded as a "fact".
//
// The content should be the actual input to the compiler, not the
// apparent source file according to any //line directives that
// may be present within it.
func AnalyzeCallee(logf func(string, ...any), fset *token.FileSet, pkg *types.Package, info *types.Info, decl *ast.FuncDecl, content []byte) (*Callee, error) {
	checkInfoFields(info)

	// The client is expected to have determined that the callee
	// is a function with a declaration (not a built-in or var).
	fn := info.Defs[decl.Name].(*types.Func)
	sig := fn.Type().(*types.Signature)

	logf("analyzeCallee %v @ %v", fn, fset.PositionFor(decl.Pos(), false))

	// Create user-friendly name ("pkg.Func" or "(pkg.T).Method")
	var name string
	if sig.Recv() == nil {
		name = fmt.Sprintf("%s.%s", fn.Pkg().Name(), fn.Name())
	} else {
		name = fmt.Sprintf("(%s).%s", types.TypeString(sig.Recv().Type(), (*types.Package).Name), fn.Name())
	}

	if decl.Body == nil {
		return nil, fmt.Errorf("cannot inline function %s as it has no body", name)
	}

	// TODO(adonovan): support inlining of instantiated generic
	// functions by replacing each occurrence of a type parameter
	// T by its instantiating type argument (e.g. int). We'll need
	// to wrap the instantiating type in parens when it's not an
	// ident or qualified ident to prevent "if x == struct{}"
	// parsing ambiguity, or "T(x)" where T = "*int" or "func()"
	// from misparsing.
	if funcHasTypeParams(decl) {
		return nil, fmt.Errorf("cannot inline generic function %s: type parameters are not yet supported", name)
	}

	// Record the location of all free references in the FuncDecl.
	// (Parameters are not free by this definition.)
	var (
		fieldObjs    = fieldObjs(sig)
		freeObjIndex = make(map[types.Object]int)
		freeObjs     []object
		freeRefs     []freeRef // free refs that may need renaming
		unexported   []string  // free refs to unexported objects, for later error checks
	)
	var f func(n ast.Node) bool
	visit := func(n ast.Node) { ast.Inspect(n, f) }
	var stack []ast.Node
	stack = append(stack, decl.Type) // for scope of function itself
	f = func(n ast.Node) bool {
		if n != nil {
			stack = append(stack, n) // push
		} else {
			stack = stack[:len(stack)-1] // pop
		}
		switch n := n.(type) {
		case *ast.SelectorExpr:
			// Check selections of free fields/methods.
			if sel, ok := info.Selections[n]; ok &&
				!within(sel.Obj().Pos(), decl) &&
				!n.Sel.IsExported() {
				sym := fmt.Sprintf("(%s).%s", info.TypeOf(n.X), n.Sel.Name)
				unexported = append(unexported, sym)
			}

			// Don't recur into SelectorExpr.Sel.
			visit(n.X)
			return false

		case *ast.CompositeLit:
			// Check for struct literals that refer to unexported fields,
			// whether keyed or unkeyed. (Logic assumes well-typedness.)
			litType := typeparams.Deref(info.TypeOf(n))
			if s, ok := typeparams.CoreType(litType).(*types.Struct); ok {
				if n.Type != nil {
					visit(n.Type)
				}
				for i, elt := range n.Elts {
					var field *types.Var
					var value ast.Expr
					if kv, ok := elt.(*ast.KeyValueExpr); ok {
						field = info.Uses[kv.Key.(*ast.Ident)].(*types.Var)
						value = kv.Value
					} else {
						field = s.Field(i)
						value = elt
					}
					if !within(field.Pos(), decl) && !field.Exported() {
						sym := fmt.Sprintf("(%s).%s", litType, field.Name())
						unexported = append(unexported, sym)
					}

					// Don't recur into KeyValueExpr.Key.
					visit(value)
				}
				return false
			}

		case *ast.Ident:
			if obj, ok := info.Uses[n]; ok {
				// Methods and fields are handled by SelectorExpr and CompositeLit.
				if isField(obj) || isMethod(obj) {
					panic(obj)
				}
				// Inv: id is a lexical reference.

				// A reference to an unexported package-level declaration
				// cannot be inlined into another package.
				if !n.IsExported() &&
					obj.Pkg() != nil && obj.Parent() == obj.Pkg().Scope() {
					unexported = append(unexported, n.Name)
				}

				// Record free reference (incl. self-reference).
				if obj == fn || !within(obj.Pos(), decl) {
					objidx, ok := freeObjIndex[obj]
					if !ok {
						objidx = len(freeObjIndex)
						var pkgPath, pkgName string
						if pn, ok := obj.(*types.PkgName); ok {
							pkgPath = pn.Imported().Path()
							pkgName = pn.Imported().Name()
						} else if obj.Pkg() != nil {
							pkgPath = obj.Pkg().Path()
							pkgName = obj.Pkg().Name()
						}
						freeObjs = append(freeObjs, object{
							Name:     obj.Name(),
							Kind:     objectKind(obj),
							PkgName:  pkgName,
							PkgPath:  pkgPath,
							ValidPos: obj.Pos().IsValid(),
						})
						freeObjIndex[obj] = objidx
					}

					freeObjs[objidx].Shadow = freeObjs[objidx].Shadow.add(info, fieldObjs, obj.Name(), stack)

					freeRefs = append(freeRefs, freeRef{
						Offset: int(n.Pos() - decl.Pos()),
						Object: objidx,
					})
				}
			}
		}
		return true
	}
	visit(decl)

	// Analyze callee body for "return expr" form,
	// where expr is f() or <-ch. These forms are
	// safe to inline as a standalone statement.
	validForCallStmt := false
	if len(decl.Body.List) != 1 {
		// not just a return statement
	} else if ret, ok := decl.Body.List[0].(*ast.ReturnStmt); ok && len(ret.Results) == 1 {
		validForCallStmt = func() bool {
			switch expr := ast.Unparen(ret.Results[0]).(type) {
			case *ast.CallExpr: // f(x)
				callee := typeutil.Callee(info, expr)
				if callee == nil {
					return false // conversion T(x)
				}

				// The only non-void built-in functions that may be
				// called as a statement are copy and recover
				// (though arguably a call to recover should never
				// be inlined as that changes its behavior).
				if builtin, ok := callee.(*types.Builtin); ok {
					return builtin.Name() == "copy" ||
						builtin.Name() == "recover"
				}

				return true // ordinary call f()

			case *ast.UnaryExpr: // <-x
				return expr.Op == token.ARROW // channel receive <-ch
			}

			// No other expressions are valid statements.
			return false
		}()
	}

	// Record information about control flow in the callee
	// (but not any nested functions).
	var (
		hasDefer      = false
		hasBareReturn = false
		returnInfo    [][]returnOperandFlags
		labels        []string
	)
	ast.Inspect(decl.Body, func(n ast.Node) bool {
		switch n := n.(type) {
		case *ast.FuncLit:
			return false // prune traversal
		case *ast.DeferStmt:
			hasDefer = true
		case *ast.LabeledStmt:
			labels = append(labels, n.Label.Name)
		case *ast.ReturnStmt:

			// Are implicit assignment conversions
			// to result variables all trivial?
			var resultInfo []returnOperandFlags
			if len(n.Results) > 0 {
				argInfo := func(i int) (ast.Expr, types.Type) {
					expr := n.Results[i]
					return expr, info.TypeOf(expr)
				}
				if len(n.Results) == 1 && sig.Results().Len() > 1 {
					// Spread return: return f() where f.Results > 1.
					tuple := info.TypeOf(n.Results[0]).(*types.Tuple)
					argInfo = func(i int) (ast.Expr, types.Type) {
						return nil, tuple.At(i).Type()
					}
				}
				for i := 0; i < sig.Results().Len(); i++ {
					expr, typ := argInfo(i)
					var flags returnOperandFlags
					if typ == types.Typ[types.UntypedNil] { // untyped nil is preserved by go/types
						flags |= untypedNilResult
					}
					if !trivialConversion(info.Types[expr].Value, typ, sig.Results().At(i).Type()) {
						flags |= nonTrivialResult
					}
					resultInfo = append(resultInfo, flags)
				}
			} else if sig.Results().Len() > 0 {
				hasBareReturn = true
			}
			returnInfo = append(returnInfo, resultInfo)
		}
		return true
	})

	// Reject attempts to inline cgo-generated functions.
	for _, obj := range freeObjs {
		// There are others (iconst fconst sconst fpvar macro)
		// but this is probably sufficient.
		if strings.HasPrefix(obj.Name, "_Cfunc_") ||
			strings.HasPrefix(obj.Name, "_Ctype_") ||
			strings.HasPrefix(obj.Name, "_Cvar_") {
			return nil, fmt.Errorf("cannot inline cgo-generated functions")
		}
	}

	// Compact content to just the FuncDecl.
	//
	// As a space optimization, we don't retain the complete
	// callee file content; all we need is "package _; func f() { ... }".
	// This reduces the size of analysis facts.
	//
	// Offsets in the callee information are "relocatable"
	// since they are all relative to the FuncDecl.

	content = append([]byte("package _\n"),
		content[offsetOf(fset, decl.Pos()):offsetOf(fset, decl.End())]...)
	// Sanity check: re-parse the compacted content.
	if _, _, err := parseCompact(content); err != nil {
		return nil, err
	}

	params, results, effects, falcon := analyzeParams(logf, fset, info, decl)
	return &Callee{gobCallee{
		Content:          content,
		PkgPath:          pkg.Path(),
		Name:             name,
		Unexported:       unexported,
		FreeObjs:         freeObjs,
		FreeRefs:         freeRefs,
		ValidForCallStmt: validForCallStmt,
		NumResults:       sig.Results().Len(),
		Params:           params,
		Results:          results,
		Effects:          effects,
		HasDefer:         hasDefer,
		HasBareReturn:    hasBareReturn,
		Returns:          returnInfo,
		Labels:           labels,
		Falcon:           falcon,
	}}, nil
}

// parseCompact parses a Go source file of the form "package _\n func f() { ... }"
// and returns the sole function declaration.
func parseCompact(content []byte) (*token.FileSet, *ast.FuncDecl, error) {
	fset := token.NewFileSet()
	const mode = parser.ParseComments | parser.SkipObjectResolution | parser.AllErrors
	f, err := parser.ParseFile(fset, "callee.go", content, mode)
	if err != nil {
		return nil, nil, fmt.Errorf("internal error: cannot compact file: %v", err)
	}
	return fset, f.Decls[0].(*ast.FuncDecl), nil
}

// A paramInfo records information about a callee receiver, parameter, or result variable.
type paramInfo struct {
	Name        string    // parameter name (may be blank, or even "")
	Index       int       // index within signature
	IsResult    bool      // false for receiver or parameter, true for result variable
	IsInterface bool      // parameter has a (non-type parameter) interface type
	Assigned    bool      // parameter appears on left side of an assignment statement
	Escapes     bool      // parameter has its address taken
	Refs        []refInfo // information about references to parameter within body
	Shadow      shadowMap // shadowing info for the above refs; see [shadowMap]
	FalconType  string    // name of this parameter's type (if basic) in the falcon system
}

type refInfo struct {
	Offset           int  // FuncDecl-relative byte offset of parameter ref within body
	Assignable       bool // ref appears in context of assignment to known type
	IfaceAssignment  bool // ref is being assigned to an interface
	AffectsInference bool // ref type may affect type inference
	// IsSelectionOperand indicates whether the parameter reference is the
	// operand of a selection (param.f). If so, and param's argument is itself
	// a receiver parameter (a common case), we don't need to desugar (&v or *ptr)
	// the selection: if param.Method is a valid selection, then so is param.fieldOrMethod.
	IsSelectionOperand bool
}

// analyzeParams computes information about parameters of function fn,
// including a simple "address taken" escape analysis.
//
// It returns two new arrays, one of the receiver and parameters, and
// the other of the result variables of function fn.
//
// The input must be well-typed.
func analyzeParams(logf func(string, ...any), fset *token.FileSet, info *types.Info, decl *ast.FuncDecl) (params, results []*paramInfo, effects []int, _ falconResult) {
	fnobj, ok := info.Defs[decl.Name]
	if !ok {
		panic(fmt.Sprintf("%s: no func object for %q",
			fset.PositionFor(decl.Name.Pos(), false), decl.Name)) // ill-typed?
	}
	sig := fnobj.Type().(*types.Signature)

	paramInfos := make(map[*types.Var]*paramInfo)
	{
		newParamInfo := func(param *types.Var, isResult bool) *paramInfo {
			info := &paramInfo{
				Name:        param.Name(),
				IsResult:    isResult,
				Index:       len(paramInfos),
				IsInterface: isNonTypeParamInterface(param.Type()),
			}
			paramInfos[param] = info
			return info
		}
		if sig.Recv() != nil {
			params = append(params, newParamInfo(sig.Recv(), false))
		}
		for i := 0; i < sig.Params().Len(); i++ {
			params = append(params, newParamInfo(sig.Params().At(i), false))
		}
		for i := 0; i < sig.Results().Len(); i++ {
			results = append(results, newParamInfo(sig.Results().At(i), true))
		}
	}

	// Search function body for operations &x, x.f(), and x = y
	// where x is a parameter, and record it.
	escape(info, decl, func(v *types.Var, escapes bool) {
		if info := paramInfos[v]; info != nil {
			if escapes {
				info.Escapes = true
			} else {
				info.Assigned = true
			}
		}
	})

	// Record locations of all references to parameters.
	// And record the set of intervening definitions for each parameter.
	//
	// TODO(adonovan): combine this traversal with the one that computes
	// FreeRefs. The tricky part is that calleefx needs this one first.
	fieldObjs := fieldObjs(sig)
	var stack []ast.Node
	stack = append(stack, decl.Type) // for scope of function itself
	ast.Inspect(decl.Body, func(n ast.Node) bool {
		if n != nil {
			stack = append(stack, n) // push
		} else {
			stack = stack[:len(stack)-1] // pop
		}

		if id, ok := n.(*ast.Ident); ok {
			if v, ok := info.Uses[id].(*types.Var); ok {
				if pinfo, ok := paramInfos[v]; ok {
					// Record ref information, and any intervening (shadowing) names.
					//
					// If the parameter v has an interface type, and the reference id
					// appears in a context where assignability rules apply, there may be
					// an implicit interface-to-interface widening. In that case it is
					// not necessary to insert an explicit conversion from the argument
					// to the parameter's type.
					//
					// Contrapositively, if param is not an interface type, then the
					// assignment may lose type information, for example in the case that
					// the substituted expression is an untyped constant or unnamed type.
					assignable, ifaceAssign, affectsInference := analyzeAssignment(info, stack)
					ref := refInfo{
						Offset:             int(n.Pos() - decl.Pos()),
						Assignable:         assignable,
						IfaceAssignment:    ifaceAssign,
						AffectsInference:   affectsInference,
						IsSelectionOperand: isSelectionOperand(stack),
					}
					pinfo.Refs = append(pinfo.Refs, ref)
					pinfo.Shadow = pinfo.Shadow.add(info, fieldObjs, pinfo.Name, stack)
				}
			}
		}
		return true
	})

	// Compute subset and order of parameters that are strictly evaluated.
	// (Depends on Refs computed above.)
	effects = calleefx(info, decl.Body, paramInfos)
	logf("effects list = %v", effects)

	falcon := falcon(logf, fset, paramInfos, info, decl)

	return params, results, effects, falcon
}

// -- callee helpers --

// analyzeAssignment looks at the the given stack, and analyzes certain
// attributes of the innermost expression.
//
// In all cases we 'fail closed' when we cannot detect (or for simplicity
// choose not to detect) the condition in question, meaning we err on the side
// of the more restrictive rule. This is noted for each result below.
//
//   - assignable reports whether the expression is used in a position where
//     assignability rules apply, such as in an actual assignment, as call
//     argument, or in a send to a channel. Defaults to 'false'. If assignable
//     is false, the other two results are irrelevant.
//   - ifaceAssign reports whether that assignment is to an interface type.
//     This is important as we want to preserve the concrete type in that
//     assignment. Defaults to 'true'. Notably, if the assigned type is a type
//     parameter, we assume that it could have interface type.
//   - affectsInference is (somewhat vaguely) defined as whether or not the
//     type of the operand may affect the type of the surrounding syntax,
//     through type inference. It is infeasible to completely reverse engineer
//     type inference, so we over approximate: if the expression is an argument
//     to a call to a generic function (but not method!) that uses type
//     parameters, assume that unification of that argument may affect the
//     inferred types.
func analyzeAssignment(info *types.Info, stack []ast.Node) (assignable, ifaceAssign, affectsInference bool) {
	remaining, parent, expr := exprContext(stack)
	if parent == nil {
		return false, false, false
	}

	// TODO(golang/go#70638): simplify when types.Info records implicit conversions.

	// Types do not need to match for assignment to a variable.
	if assign, ok := parent.(*ast.AssignStmt); ok {
		for i, v := range assign.Rhs {
			if v == expr {
				if i >= len(assign.Lhs) {
					return false, false, false // ill typed
				}
				// Check to see if the assignment is to an interface type.
				if i < len(assign.Lhs) {
					// TODO: We could handle spread calls here, but in current usage expr
					// is an ident.
					if id, _ := assign.Lhs[i].(*ast.Ident); id != nil && info.Defs[id] != nil {
						// Types must match for a defining identifier in a short variable
						// declaration.
						return false, false, false
					}
					// In all other cases, types should be known.
					typ := info.TypeOf(assign.Lhs[i])
					return true, typ == nil || types.IsInterface(typ), false
				}
				// Default:
				return assign.Tok == token.ASSIGN, true, false
			}
		}
	}

	// Types do not need to match for an initializer with known type.
	if spec, ok := parent.(*ast.ValueSpec); ok && spec.Type != nil {
		for _, v := range spec.Values {
			if v == expr {
				typ := info.TypeOf(spec.Type)
				return true, typ == nil || types.IsInterface(typ), false
			}
		}
	}

	// Types do not need to match for index expresions.
	if ix, ok := parent.(*ast.IndexExpr); ok {
		if ix.Index == expr {
			typ := info.TypeOf(ix.X)
			if typ == nil {
				return true, true, false
			}
			m, _ := typeparams.CoreType(typ).(*types.Map)
			return true, m == nil || types.IsInterface(m.Key()), false
		}
	}

	// Types do not need to match for composite literal keys, values, or
	// fields.
	if kv, ok := parent.(*ast.KeyValueExpr); ok {
		var under types.Type
		if len(remaining) > 0 {
			if complit, ok := remaining[len(remaining)-1].(*ast.CompositeLit); ok {
				if typ := info.TypeOf(complit); typ != nil {
					// Unpointer to allow for pointers to slices or arrays, which are
					// permitted as the types of nested composite literals without a type
					// name.
					under = typesinternal.Unpointer(typeparams.CoreType(typ))
				}
			}
		}
		if kv.Key == expr { // M{expr: ...}: assign to map key
			m, _ := under.(*types.Map)
			return true, m == nil || types.IsInterface(m.Key()), false
		}
		if kv.Value == expr {
			switch under := under.(type) {
			case interface{ Elem() types.Type }: // T{...: expr}: assign to map/array/slice element
				return true, types.IsInterface(under.Elem()), false
			case *types.Struct: // Struct{k: expr}
				if id, _ := kv.Key.(*ast.Ident); id != nil {
					for fi := 0; fi < under.NumFields(); fi++ {
						field := under.Field(fi)
						if info.Uses[id] == field {
							return true, types.IsInterface(field.Type()), false
						}
					}
				}
			default:
				return true, true, false
			}
		}
	}
	if lit, ok := parent.(*ast.CompositeLit); ok {
		for i, v := range lit.Elts {
			if v == expr {
				typ := info.TypeOf(lit)
				if typ == nil {
					return true, true, false
				}
				// As in the KeyValueExpr case above, unpointer to handle pointers to
				// array/slice literals.
				under := typesinternal.Unpointer(typeparams.CoreType(typ))
				switch under := under.(type) {
				case interface{ Elem() types.Type }: // T{expr}: assign to map/array/slice element
					return true, types.IsInterface(under.Elem()), false
				case *types.Struct: // Struct{expr}: assign to unkeyed struct field
					if i < under.NumFields() {
						return true, types.IsInterface(under.Field(i).Type()), false
					}
				}
				return true, true, false
			}
		}
	}

	// Types do not need to match for values sent to a channel.
	if send, ok := parent.(*ast.SendStmt); ok {
		if send.Value == expr {
			typ := info.TypeOf(send.Chan)
			if typ == nil {
				return true, true, false
			}
			ch, _ := typeparams.CoreType(typ).(*types.Chan)
			return true, ch == nil || types.IsInterface(ch.Elem()), false
		}
	}

	// Types do not need to match for an argument to a call, unless the
	// corresponding parameter has type parameters, as in that case the
	// argument type may affect inference.
	if call, ok := parent.(*ast.CallExpr); ok {
		if _, ok := isConversion(info, call); ok {
			return false, false, false // redundant conversions are handled at the call site
		}
		// Ordinary call. Could be a call of a func, builtin, or function value.
		for i, arg := range call.Args {
			if arg == expr {
				typ := info.TypeOf(call.Fun)
				if typ == nil {
					return true, true, false
				}
				sig, _ := typeparams.CoreType(typ).(*types.Signature)
				if sig != nil {
					// Find the relevant parameter type, accounting for variadics.
					paramType := paramTypeAtIndex(sig, call, i)
					ifaceAssign := paramType == nil || types.IsInterface(paramType)
					affectsInference := false
					if fn := typeutil.StaticCallee(info, call); fn != nil {
						if sig2 := fn.Type().(*types.Signature); sig2.Recv() == nil {
							originParamType := paramTypeAtIndex(sig2, call, i)
							affectsInference = originParamType == nil || new(typeparams.Free).Has(originParamType)
						}
					}
					return true, ifaceAssign, affectsInference
				}
			}
		}
	}

	return false, false, false
}

// paramTypeAtIndex returns the effective parameter type at the given argument
// index in call, if valid.
func paramTypeAtIndex(sig *types.Signature, call *ast.CallExpr, index int) types.Type {
	if plen := sig.Params().Len(); sig.Variadic() && index >= plen-1 && !call.Ellipsis.IsValid() {
		if s, ok := sig.Params().At(plen - 1).Type().(*types.Slice); ok {
			return s.Elem()
		}
	} else if index < plen {
		return sig.Params().At(index).Type()
	}
	return nil // ill typed
}

// exprContext returns the innermost parent->child expression nodes for the
// given outer-to-inner stack, after stripping parentheses, along with the
// remaining stack up to the parent node.
//
// If no such context exists, returns (nil, nil).
func exprContext(stack []ast.Node) (remaining []ast.Node, parent ast.Node, expr ast.Expr) {
	expr, _ = stack[len(stack)-1].(ast.Expr)
	if expr == nil {
		return nil, nil, nil
	}
	i := len(stack) - 2
	for ; i >= 0; i-- {
		if pexpr, ok := stack[i].(*ast.ParenExpr); ok {
			expr = pexpr
		} else {
			parent = stack[i]
			break
		}
	}
	if parent == nil {
		return nil, nil, nil
	}
	// inv: i is the index of parent in the stack.
	return stack[:i], parent, expr
}

// isSelectionOperand reports whether the innermost node of stack is operand
// (x) of a selection x.f.
func isSelectionOperand(stack []ast.Node) bool {
	_, parent, expr := exprContext(stack)
	if parent == nil {
		return false
	}
	sel, ok := parent.(*ast.SelectorExpr)
	return ok && sel.X == expr
}

// A shadowMap records information about shadowing at any of the parameter's
// references within the callee decl.
//
// For each name shadowed at a reference to the parameter within the callee
// body, shadow map records the 1-based index of the callee decl parameter
// causing the shadowing, or -1, if the shadowing is not due to a callee decl.
// A value of zero (or missing) indicates no shadowing. By convention,
// self-shadowing is excluded from the map.
//
// For example, in the following callee
//
//	func f(a, b int) int {
//		c := 2 + b
//		return a + c
//	}
//
// the shadow map of a is {b: 2, c: -1}, because b is shadowed by the 2nd
// parameter. The shadow map of b is {a: 1}, because c is not shadowed at the
// use of b.
type shadowMap map[string]int

// add returns the [shadowMap] augmented by the set of names
// locally shadowed at the location of the reference in the callee
// (identified by the stack). The name of the reference itself is
// excluded.
//
// These shadowed names may not be used in a replacement expression
// for the reference.
func (s shadowMap) add(info *types.Info, paramIndexes map[types.Object]int, exclude string, stack []ast.Node) shadowMap {
	for _, n := range stack {
		if scope := scopeFor(info, n); scope != nil {
			for _, name := range scope.Names() {
				if name != exclude {
					if s == nil {
						s = make(shadowMap)
					}
					obj := scope.Lookup(name)
					if idx, ok := paramIndexes[obj]; ok {
						s[name] = idx + 1
					} else {
						s[name] = -1
					}
				}
			}
		}
	}
	return s
}

// fieldObjs returns a map of each types.Object defined by the given signature
// to its index in the parameter list. Parameters with missing or blank name
// are skipped.
func fieldObjs(sig *types.Signature) map[types.Object]int {
	m := make(map[types.Object]int)
	for i := range sig.Params().Len() {
		if p := sig.Params().At(i); p.Name() != "" && p.Name() != "_" {
			m[p] = i
		}
	}
	return m
}

func isField(obj types.Object) bool {
	if v, ok := obj.(*types.Var); ok && v.IsField() {
		return true
	}
	return false
}

func isMethod(obj types.Object) bool {
	if f, ok := obj.(*types.Func); ok && f.Type().(*types.Signature).Recv() != nil {
		return true
	}
	return false
}

// -- serialization --

var (
	_ gob.GobEncoder = (*Callee)(nil)
	_ gob.GobDecoder = (*Callee)(nil)
)

func (callee *Callee) GobEncode() ([]byte, error) {
	var out bytes.Buffer
	if err := gob.NewEncoder(&out).Encode(callee.impl); err != nil {
		return nil, err
	}
	return out.Bytes(), nil
}

func (callee *Callee) GobDecode(data []byte) error {
	return gob.NewDecoder(bytes.NewReader(data)).Decode(&callee.impl)
}
