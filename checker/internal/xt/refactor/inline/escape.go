// Copyright 2023 The Go Authors. All rights reserved.
// Use of this source code is governed by a BSD-style
// license that can be found in the LICENSE file.

package inline

import (
	"fmt"
	"go/ast"
	"go/token"
	"go/types"
)

// escape implements a simple "address-taken" escape analysis. It
// calls f for each local variable that appears on the left side of an
// assignment (escapes=false) or has its address taken (escapes=true).
// The initialization of a variable by its declaration does not count
// as an assignment.
func escape(info *types.Info, root ast.Node, f func(v *types.Var, escapes bool)) {

	// lvalue is called for each address-taken expression or LHS of assignment.
	// Supported forms are: x, (x), x[i], x.f, *x, T{}.
	var lvalue func(e ast.Expr, escapes bool)
	lvalue = func(e ast.Expr, escapes bool) {
		switch e := e.(type) {
		case *ast.Ident:
			if v, ok := info.Uses[e].(*types.Var); ok {
				if !isPkgLevel(v) {
					f(v, escapes)
				}
			}
		case *ast.ParenExpr:
			lvalue(e.X, escapes)
		case *ast.IndexExpr:
			// TODO(adonovan): support generics without assuming e.X has a core type.
			// Consider:
			//
			// func Index[T interface{ [3]int | []int }](t T, i int) *int {
			//     return &t[i]
			// }
			//
			// We must traverse the normal terms and check
			// whether any of them is an array.
			//
			// We assume TypeOf returns non-nil.
			if _, ok := info.TypeOf(e.X).Underlying().(*types.Array); ok {
				lvalue(e.X, escapes) // &a[i] on array
			}
		case *ast.SelectorExpr:
			// We assume TypeOf returns non-nil.
			if _, ok := info.TypeOf(e.X).Underlying().(*types.Struct); ok {
				lvalue(e.X, escapes) // &s.f on struct
			}
		case *ast.StarExpr:
			// *ptr indirects an existing pointer
		case *ast.CompositeLit:
			// &T{...} creates a new variable
		default:
			panic(fmt.Sprintf("&x on %T", e)) // unreachable in well-typed code
		}
	}

	// Search function body for operations &x, x.f(), x++, and x = y
	// where x is a parameter. Each of these treats x as an address.
	ast.Inspect(root, func(n ast.Node) bool {
		switch n := n.(type) {
		case *ast.UnaryExpr:
			if n.Op == token.AND {
				lvalue(n.X, true) // &x
			}

		case *ast.CallExpr:
			// implicit &x in method call x.f(),
			// where x has type T and method is (*T).f
			if sel, ok := n.Fun.(*ast.SelectorExpr); ok {
				if seln, ok := info.Selections[sel]; ok &&
					seln.Kind() == types.MethodVal &&
					isPointer(seln.Obj().Type().Underlying().(*types.Signature).Recv().Type()) {
					tArg, indirect := effectiveReceiver(seln)
					if !indirect && !isPointer(tArg) {
						lvalue(sel.X, true) // &x.f
					}
				}
			}

		case *ast.AssignStmt:
			for _, lhs := range n.Lhs {
				if id, ok := lhs.(*ast.Ident); ok &&
					info.Defs[id] != nil &&
					n.Tok == token.DEFINE {
					// declaration: doesn't count
				} else {
					lvalue(lhs, false)
				}
			}

		case *ast.IncDecStmt:
			lvalue(n.X, false)
		}
		return true
	})
}
