// Copyright 2023 The Go Authors. All rights reserved.
// Use of this source code is governed by a BSD-style
// license that can be found in the LICENSE file.

package inline

// This file defines the analysis of callee effects.

import (
	"go/ast"
	"go/token"
	"go/types"
)

const (
	rinf = -1 //  R∞: arbitrary read from memory
	winf = -2 //  W∞: arbitrary write to memory (or unknown control)
)

// calleefx returns a list of parameter indices indicating the order
// in which parameters are first referenced during evaluation of the
// callee, relative both to each other and to other effects of the
// callee (if any), such as arbitrary reads (rinf) and arbitrary
// effects (winf), including unknown control flow. Each parameter
// that is referenced appears once in the list.
//
// For example, the effects list of this function:
//
//	func f(x, y, z int) int {
//	    return y + x + g() + z
//	}
//
// is [1 0 -2 2], indicating reads of y and x, followed by the unknown
// effects of the g() call. and finally the read of parameter z. This
// information is used during inlining to ascertain when it is safe
// for parameter references to be replaced by their corresponding
// argument expressions. Such substitutions are permitted only when
// they do not cause "write" operations (those with effects) to
// commute with "read" operations (those that have no effect but are
// not pure). Impure operations may be reordered with other impure
// operations, and pure operations may be reordered arbitrarily.
//
// The analysis ignores the effects of runtime panics, on the
// assumption that well-behaved programs shouldn't encounter them.
func calleefx(info *types.Info, body *ast.BlockStmt, paramInfos map[*types.Var]*paramInfo) []int {
	// This traversal analyzes the callee's statements (in syntax
	// form, though one could do better with SSA) to compute the
	// sequence of events of the following kinds:
	//
	// 1  read of a parameter variable.
	// 2. reads from other memory.
	// 3. writes to memory

	var effects []int // indices of parameters, or rinf/winf (-ve)
	seen := make(map[int]bool)
	effect := func(i int) {
		if !seen[i] {
			seen[i] = true
			effects = append(effects, i)
		}
	}

	// unknown is called for statements of unknown effects (or control).
	unknown := func() {
		effect(winf)

		// Ensure that all remaining parameters are "seen"
		// after we go into the unknown (unless they are
		// unreferenced by the function body). This lets us
		// not bother implementing the complete traversal into
		// control structures.
		//
		// TODO(adonovan): add them in a deterministic order.
		// (This is not a bug but determinism is good.)
		for _, pinfo := range paramInfos {
			if !pinfo.IsResult && len(pinfo.Refs) > 0 {
				effect(pinfo.Index)
			}
		}
	}

	var visitExpr func(n ast.Expr)
	var visitStmt func(n ast.Stmt) bool
	visitExpr = func(n ast.Expr) {
		switch n := n.(type) {
		case *ast.Ident:
			if v, ok := info.Uses[n].(*types.Var); ok && !v.IsField() {
				// Use of global?
				if v.Parent() == v.Pkg().Scope() {
					effect(rinf) // read global var
				}

				// Use of parameter?
				if pinfo, ok := paramInfos[v]; ok && !pinfo.IsResult {
					effect(pinfo.Index) // read parameter var
				}

				// Use of local variables is ok.
			}

		case *ast.BasicLit:
			// no effect

		case *ast.FuncLit:
			// A func literal has no read or write effect
			// until called, and (most) function calls are
			// considered to have arbitrary effects.
			// So, no effect.

		case *ast.CompositeLit:
			for _, elt := range n.Elts {
				visitExpr(elt) // note: visits KeyValueExpr
			}

		case *ast.ParenExpr:
			visitExpr(n.X)

		case *ast.SelectorExpr:
			if seln, ok := info.Selections[n]; ok {
				visitExpr(n.X)

				// See types.SelectionKind for background.
				switch seln.Kind() {
				case types.MethodExpr:
					// A method expression T.f acts like a
					// reference to a func decl,
					// so it doesn't read x until called.

				case types.MethodVal, types.FieldVal:
					// A field or method value selection x.f
					// reads x if the selection indirects a pointer.

					if indirectSelection(seln) {
						effect(rinf)
					}
				}
			} else {
				// qualified identifier: treat like unqualified
				visitExpr(n.Sel)
			}

		case *ast.IndexExpr:
			if tv := info.Types[n.Index]; tv.IsType() {
				// no effect (G[T] instantiation)
			} else {
				visitExpr(n.X)
				visitExpr(n.Index)
				switch tv.Type.Underlying().(type) {
				case *types.Slice, *types.Pointer: // []T, *[n]T (not string, [n]T)
					effect(rinf) // indirect read of slice/array element
				}
			}

		case *ast.IndexListExpr:
			// no effect (M[K,V] instantiation)

		case *ast.SliceExpr:
			visitExpr(n.X)
			visitExpr(n.Low)
			visitExpr(n.High)
			visitExpr(n.Max)

		case *ast.TypeAssertExpr:
			visitExpr(n.X)

		case *ast.CallExpr:
			if info.Types[n.Fun].IsType() {
				// conversion T(x)
				visitExpr(n.Args[0])
			} else {
				// call f(args)
				visitExpr(n.Fun)
				for i, arg := range n.Args {
					if i == 0 && info.Types[arg].IsType() {
						continue // new(T), make(T, n)
					}
					visitExpr(arg)
				}

				// The pure built-ins have no effects beyond
				// those of their operands (not even memory reads).
				// All other calls have unknown effects.
				if !callsPureBuiltin(info, n) {
					unknown() // arbitrary effects
				}
			}

		case *ast.StarExpr:
			visitExpr(n.X)
			effect(rinf) // *ptr load or store depends on state of heap

		case *ast.UnaryExpr: // + - ! ^ & ~ <-
			visitExpr(n.X)
			if n.Op == token.ARROW {
				unknown() // effect: channel receive
			}

		case *ast.BinaryExpr:
			visitExpr(n.X)
			visitExpr(n.Y)

		case *ast.KeyValueExpr:
			visitExpr(n.Key) // may be a struct field
			visitExpr(n.Value)

		case *ast.BadExpr:
			// no effect

		case nil:
			// optional subtree

		default:
			// type syntax: unreachable given traversal
			panic(n)
		}
	}

	// visitStmt's result indicates the continuation:
	// false for return, true for the next statement.
	//
	// We could treat return as an unknown, but this way
	// yields definite effects for simple sequences like
	// {S1; S2; return}, so unreferenced parameters are
	// not spuriously added to the effects list, and thus
	// not spuriously disqualified from elimination.
	visitStmt = func(n ast.Stmt) bool {
		switch n := n.(type) {
		case *ast.DeclStmt:
			decl := n.Decl.(*ast.GenDecl)
			for _, spec := range decl.Specs {
				switch spec := spec.(type) {
				case *ast.ValueSpec:
					for _, v := range spec.Values {
						visitExpr(v)
					}

				case *ast.TypeSpec:
					// no effect
				}
			}

		case *ast.LabeledStmt:
			return visitStmt(n.Stmt)

		case *ast.ExprStmt:
			visitExpr(n.X)

		case *ast.SendStmt:
			visitExpr(n.Chan)
			visitExpr(n.Value)
			unknown() // effect: channel send

		case *ast.IncDecStmt:
			visitExpr(n.X)
			unknown() // effect: variable increment

		case *ast.AssignStmt:
			for _, lhs := range n.Lhs {
				visitExpr(lhs)
			}
			for _, rhs := range n.Rhs {
				visitExpr(rhs)
			}
			for _, lhs := range n.Lhs {
				id, _ := lhs.(*ast.Ident)
				if id != nil && id.Name == "_" {
					continue // blank assign has no effect
				}
				if n.Tok == token.DEFINE && id != nil && info.Defs[id] != nil {
					continue // new var declared by := has no effect
				}
				unknown() // assignment to existing var
				break
			}

		case *ast.GoStmt:
			visitExpr(n.Call.Fun)
			for _, arg := range n.Call.Args {
				visitExpr(arg)
			}
			unknown() // effect: create goroutine

		case *ast.DeferStmt:
			visitExpr(n.Call.Fun)
			for _, arg := range n.Call.Args {
				visitExpr(arg)
			}
			unknown() // effect: push defer

		case *ast.ReturnStmt:
			for _, res := range n.Results {
				visitExpr(res)
			}
			return false

		case *ast.BlockStmt:
			for _, stmt := range n.List {
				if !visitStmt(stmt) {
					return false
				}
			}

		case *ast.BranchStmt:
			unknown() // control flow

		case *ast.IfStmt:
			visitStmt(n.Init)
			visitExpr(n.Cond)
			unknown() // control flow

		case *ast.SwitchStmt:
			visitStmt(n.Init)
			visitExpr(n.Tag)
			unknown() // control flow

		case *ast.TypeSwitchStmt:
			visitStmt(n.Init)
			visitStmt(n.Assign)
			unknown() // control flow

		case *ast.SelectStmt:
			unknown() // control flow

		case *ast.ForStmt:
			visitStmt(n.Init)
			visitExpr(n.Cond)
			unknown() // control flow

		case *ast.RangeStmt:
			visitExpr(n.X)
			unknown() // control flow

		case *ast.EmptyStmt, *ast.BadStmt:
			// no effect

		case nil:
			// optional subtree

		default:
			panic(n)
		}
		return true
	}
	visitStmt(body)

	return effects
}
