// Copyright 2023 The Go Authors. All rights reserved.
// Use of this source code is governed by a BSD-style
// license that can be found in the LICENSE file.

package inline

// This file defines the callee side of the "fallible constant" analysis.

import (
	"fmt"
	"go/ast"
	"go/constant"
	"go/format"
	"go/token"
	"go/types"
	"strconv"
	"strings"

	"golang.org/x/tools/go/types/typeutil"
	"mqttverif/internal/xt/typeparams"
)

// falconResult is the result of the analysis of the callee.
type falconResult struct {
	Types       []falconType // types for falcon constraint environment
	Constraints []string     // constraints (Go expressions) on values of fallible constants
}

// A falconType specifies the name and underlying type of a synthetic
// defined type for use in falcon constraints.
//
// Unique types from callee code are bijectively mapped onto falcon
// types so that constraints are independent of callee type
// information but preserve type equivalence classes.
//
// Fresh names are deliberately obscure to avoid shadowing even if a
// callee parameter has a nanme like "int" or "any".
type falconType struct {
	Name string
	Kind types.BasicKind // string/number/bool
}

// falcon identifies "fallible constant" expressions, which are
// expressions that may fail to compile if one or more of their
// operands is changed from non-constant to constant.
//
// Consider:
//
//	func sub(s string, i, j int) string { return s[i:j] }
//
// If parameters are replaced by constants, the compiler is
// required to perform these additional checks:
//
//   - if i is constant, 0 <= i.
//   - if s and i are constant, i <= len(s).
//   - ditto for j.
//   - if i and j are constant, i <= j.
//
// s[i:j] is thus a "fallible constant" expression dependent on {s, i,
// j}. Each falcon creates a set of conditional constraints across one
// or more parameter variables.
//
//   - When inlining a call such as sub("abc", -1, 2), the parameter i
//     cannot be eliminated by substitution as its argument value is
//     negative.
//
//   - When inlining sub("", 2, 1), all three parameters cannot be
//     simultaneously eliminated by substitution without violating i
//     <= len(s) and j <= len(s), but the parameters i and j could be
//     safely eliminated without s.
//
// Parameters that cannot be eliminated must remain non-constant,
// either in the form of a binding declaration:
//
//	{ var i int = -1; return "abc"[i:2] }
//
// or a parameter of a literalization:
//
//	func (i int) string { return "abc"[i:2] }(-1)
//
// These example expressions are obviously doomed to fail at run
// time, but in realistic cases such expressions are dominated by
// appropriate conditions that make them reachable only when safe:
//
//	if 0 <= i && i <= j && j <= len(s) { _ = s[i:j] }
//
// (In principle a more sophisticated inliner could entirely eliminate
// such unreachable blocks based on the condition being always-false
// for the given parameter substitution, but this is tricky to do safely
// because the type-checker considers only a single configuration.
// Consider: if runtime.GOOS == "linux" { ... }.)
//
// We believe this is an exhaustive list of "fallible constant" operations:
//
//   - switch z { case x: case y } 	// duplicate case values
//   - s[i], s[i:j], s[i:j:k]		// index out of bounds (0 <= i <= j <= k <= len(s))
//   - T{x: 0}				// index out of bounds, duplicate index
//   - x/y, x%y, x/=y, x%=y		// integer division by zero; minint/-1 overflow
//   - x+y, x-y, x*y			// arithmetic overflow
//   - x<<y				// shift out of range
//   - -x				// negation of minint
//   - T(x)				// value out of range
//
// The fundamental reason for this elaborate algorithm is that the
// "separate analysis" of callee and caller, as required when running
// in an environment such as unitchecker, means that there is no way
// for us to simply invoke the type checker on the combination of
// caller and callee code, as by the time we analyze the caller, we no
// longer have access to type information for the callee (and, in
// particular, any of its direct dependencies that are not direct
// dependencies of the caller). So, in effect, we are forced to map
// the problem in a neutral (callee-type-independent) constraint
// system that can be verified later.
func falcon(logf func(string, ...any), fset *token.FileSet, params map[*types.Var]*paramInfo, info *types.Info, decl *ast.FuncDecl) falconResult {

	st := &falconState{
		logf:   logf,
		fset:   fset,
		params: params,
		info:   info,
		decl:   decl,
	}

	// type mapping
	st.int = st.typename(types.Typ[types.Int])
	st.any = "interface{}" // don't use "any" as it may be shadowed
	for obj, info := range st.params {
		if isBasic(obj.Type(), types.IsConstType) {
			info.FalconType = st.typename(obj.Type())
		}
	}

	st.stmt(st.decl.Body)

	return st.result
}

type falconState struct {
	// inputs
	logf   func(string, ...any)
	fset   *token.FileSet
	params map[*types.Var]*paramInfo
	info   *types.Info
	decl   *ast.FuncDecl

	// working state
	int       string
	any       string
	typenames typeutil.Map

	result falconResult
}

// typename returns the name in the falcon constraint system
// of a given string/number/bool type t. Falcon types are
// specified directly in go/types data structures rather than
// by name, avoiding potential shadowing conflicts with
// confusing parameter names such as "int".
//
// Also, each distinct type (as determined by types.Identical)
// is mapped to a fresh type in the falcon system so that we
// can map the types in the callee code into a neutral form
// that does not depend on imports, allowing us to detect
// potential conflicts such as
//
//	map[any]{T1(1): 0, T2(1): 0}
//
// where T1=T2.
func (st *falconState) typename(t types.Type) string {
	name, ok := st.typenames.At(t).(string)
	if !ok {
		basic := t.Underlying().(*types.Basic)

		// That dot ۰ is an Arabic zero numeral U+06F0.
		// It is very unlikely to appear in a real program.
		// TODO(adonovan): use a non-heuristic solution.
		name = fmt.Sprintf("%s۰%d", basic, st.typenames.Len())
		st.typenames.Set(t, name)
		st.logf("falcon: emit type %s %s // %q", name, basic, t)
		st.result.Types = append(st.result.Types, falconType{
			Name: name,
			Kind: basic.Kind(),
		})
	}
	return name
}

// -- constraint emission --

// emit emits a Go expression that must have a legal type.
// In effect, we let the go/types constant folding algorithm
// do most of the heavy lifting (though it may be hard to
// believe from the complexity of this algorithm!).
func (st *falconState) emit(constraint ast.Expr) {
	var out strings.Builder
	if err := format.Node(&out, st.fset, constraint); err != nil {
		panic(err) // can't happen
	}
	syntax := out.String()
	st.logf("falcon: emit constraint %s", syntax)
	st.result.Constraints = append(st.result.Constraints, syntax)
}

// emitNonNegative emits an []T{}[index] constraint,
// which ensures index is non-negative if constant.
func (st *falconState) emitNonNegative(index ast.Expr) {
	st.emit(&ast.IndexExpr{
		X: &ast.CompositeLit{
			Type: &ast.ArrayType{
				Elt: makeIdent(st.int),
			},
		},
		Index: index,
	})
}

// emitMonotonic emits an []T{}[i:j] constraint,
// which ensures i <= j if both are constant.
func (st *falconState) emitMonotonic(i, j ast.Expr) {
	st.emit(&ast.SliceExpr{
		X: &ast.CompositeLit{
			Type: &ast.ArrayType{
				Elt: makeIdent(st.int),
			},
		},
		Low:  i,
		High: j,
	})
}

// emitUnique emits a T{elem1: 0, ... elemN: 0} constraint,
// which ensures that all constant elems are unique.
// T may be a map, slice, or array depending
// on the desired check semantics.
func (st *falconState) emitUnique(typ ast.Expr, elems []ast.Expr) {
	if len(elems) > 1 {
		var elts []ast.Expr
		for _, elem := range elems {
			elts = append(elts, &ast.KeyValueExpr{
				Key:   elem,
				Value: makeIntLit(0),
			})
		}
		st.emit(&ast.CompositeLit{
			Type: typ,
			Elts: elts,
		})
	}
}

// -- traversal --

// The traversal functions scan the callee body for expressions that
// are not constant but would become constant if the parameter vars
// were redeclared as constants, and emits for each one a constraint
// (a Go expression) with the property that it will not type-check
// (using types.CheckExpr) if the particular argument values are
// unsuitable.
//
// These constraints are checked by Inline with the actual
// constant argument values. Violations cause it to reject
// parameters as candidates for substitution.

func (st *falconState) stmt(s ast.Stmt) {
	ast.Inspect(s, func(n ast.Node) bool {
		switch n := n.(type) {
		case ast.Expr:
			_ = st.expr(n)
			return false // skip usual traversal

		case *ast.AssignStmt:
			switch n.Tok {
			case token.QUO_ASSIGN, token.REM_ASSIGN:
				// x /= y
				// Possible "integer division by zero"
				// Emit constraint: 1/y.
				_ = st.expr(n.Lhs[0])
				kY := st.expr(n.Rhs[0])
				if kY, ok := kY.(ast.Expr); ok {
					op := token.QUO
					if n.Tok == token.REM_ASSIGN {
						op = token.REM
					}
					st.emit(&ast.BinaryExpr{
						Op: op,
						X:  makeIntLit(1),
						Y:  kY,
					})
				}
				return false // skip usual traversal
			}

		case *ast.SwitchStmt:
			if n.Init != nil {
				st.stmt(n.Init)
			}
			tBool := types.Type(types.Typ[types.Bool])
			tagType := tBool // default: true
			if n.Tag != nil {
				st.expr(n.Tag)
				tagType = st.info.TypeOf(n.Tag)
			}

			// Possible "duplicate case value".
			// Emit constraint map[T]int{v1: 0, ..., vN:0}
			// to ensure all maybe-constant case values are unique
			// (unless switch tag is boolean, which is relaxed).
			var unique []ast.Expr
			for _, clause := range n.Body.List {
				clause := clause.(*ast.CaseClause)
				for _, caseval := range clause.List {
					if k := st.expr(caseval); k != nil {
						unique = append(unique, st.toExpr(k))
					}
				}
				for _, stmt := range clause.Body {
					st.stmt(stmt)
				}
			}
			if unique != nil && !types.Identical(tagType.Underlying(), tBool) {
				tname := st.any
				if !types.IsInterface(tagType) {
					tname = st.typename(tagType)
				}
				t := &ast.MapType{
					Key:   makeIdent(tname),
					Value: makeIdent(st.int),
				}
				st.emitUnique(t, unique)
			}
		}
		return true
	})
}

// fieldTypes visits the .Type of each field in the list.
func (st *falconState) fieldTypes(fields *ast.FieldList) {
	if fields != nil {
		for _, field := range fields.List {
			_ = st.expr(field.Type)
		}
	}
}

// expr visits the expression (or type) and returns a
// non-nil result if the expression is constant or would
// become constant if all suitable function parameters were
// redeclared as constants.
//
// If the expression is constant, st.expr returns its type
// and value (types.TypeAndValue). If the expression would
// become constant, st.expr returns an ast.Expr tree whose
// leaves are literals and parameter references, and whose
// interior nodes are operations that may become constant,
// such as -x, x+y, f(x), and T(x). We call these would-be
// constant expressions "fallible constants", since they may
// fail to type-check for some values of x, i, and j. (We
// refer to the non-nil cases collectively as "maybe
// constant", and the nil case as "definitely non-constant".)
//
// As a side effect, st.expr emits constraints for each
// fallible constant expression; this is its main purpose.
//
// Consequently, st.expr must visit the entire subtree so
// that all necessary constraints are emitted. It may not
// short-circuit the traversal when it encounters a constant
// subexpression as constants may contain arbitrary other
// syntax that may impose constraints. Consider (as always)
// this contrived but legal example of a type parameter (!)
// that contains statement syntax:
//
//	func f[T [unsafe.Sizeof(func() { stmts })]int]()
//
// There is no need to emit constraints for (e.g.) s[i] when s
// and i are already constants, because we know the expression
// is sound, but it is sometimes easier to emit these
// redundant constraints than to avoid them.
func (st *falconState) expr(e ast.Expr) (res any) { // = types.TypeAndValue | ast.Expr
	tv := st.info.Types[e]
	if tv.Value != nil {
		// A constant value overrides any other result.
		defer func() { res = tv }()
	}

	switch e := e.(type) {
	case *ast.Ident:
		if v, ok := st.info.Uses[e].(*types.Var); ok {
			if _, ok := st.params[v]; ok && isBasic(v.Type(), types.IsConstType) {
				return e // reference to constable parameter
			}
		}
		// (References to *types.Const are handled by the defer.)

	case *ast.BasicLit:
		// constant

	case *ast.ParenExpr:
		return st.expr(e.X)

	case *ast.FuncLit:
		_ = st.expr(e.Type)
		st.stmt(e.Body)
		// definitely non-constant

	case *ast.CompositeLit:
		// T{k: v, ...}, where T ∈ {array,*array,slice,map},
		// imposes a constraint that all constant k are
		// distinct and, for arrays [n]T, within range 0-n.
		//
		// Types matter, not just values. For example,
		// an interface-keyed map may contain keys
		// that are numerically equal so long as they
		// are of distinct types. For example:
		//
		//   type myint int
		//   map[any]bool{1: true, 1:        true} // error: duplicate key
		//   map[any]bool{1: true, int16(1): true} // ok
		//   map[any]bool{1: true, myint(1): true} // ok
		//
		// This can be asserted by emitting a
		// constraint of the form T{k1: 0, ..., kN: 0}.
		if e.Type != nil {
			_ = st.expr(e.Type)
		}
		t := types.Unalias(typeparams.Deref(tv.Type))
		var uniques []ast.Expr
		for _, elt := range e.Elts {
			if kv, ok := elt.(*ast.KeyValueExpr); ok {
				if !is[*types.Struct](t) {
					if k := st.expr(kv.Key); k != nil {
						uniques = append(uniques, st.toExpr(k))
					}
				}
				_ = st.expr(kv.Value)
			} else {
				_ = st.expr(elt)
			}
		}
		if uniques != nil {
			// Inv: not a struct.

			// The type T in constraint T{...} depends on the CompLit:
			// - for a basic-keyed map, use map[K]int;
			// - for an interface-keyed map, use map[any]int;
			// - for a slice, use []int;
			// - for an array or *array, use [n]int.
			// The last two entail progressively stronger index checks.
			var ct ast.Expr // type syntax for constraint
			switch t := typeparams.CoreType(t).(type) {
			case *types.Map:
				if types.IsInterface(t.Key()) {
					ct = &ast.MapType{
						Key:   makeIdent(st.any),
						Value: makeIdent(st.int),
					}
				} else {
					ct = &ast.MapType{
						Key:   makeIdent(st.typename(t.Key())),
						Value: makeIdent(st.int),
					}
				}
			case *types.Array: // or *array
				ct = &ast.ArrayType{
					Len: makeIntLit(t.Len()),
					Elt: makeIdent(st.int),
				}
			default:
				panic(fmt.Sprintf("%T: %v", t, t))
			}
			st.emitUnique(ct, uniques)
		}
		// definitely non-constant

	case *ast.SelectorExpr:
		_ = st.expr(e.X)
		_ = st.expr(e.Sel)
		// The defer is sufficient to handle
		// qualified identifiers (pkg.Const).
		// All other cases are definitely non-constant.

	case *ast.IndexExpr:
		if tv.IsType() {
			// type C[T]
			_ = st.expr(e.X)
			_ = st.expr(e.Index)
		} else {
			// term x[i]
			//
			// Constraints (if x is slice/string/array/*array, not map):
			// - i >= 0
			//     if i is a fallible constant
			// - i < len(x)
			//     if x is array/*array and
			//     i is a fallible constant;
			//  or if s is a string and both i,
			//     s are maybe-constants,
			//     but not both are constants.
			kX := st.expr(e.X)
			kI := st.expr(e.Index)
			if kI != nil && !is[*types.Map](st.info.TypeOf(e.X).Underlying()) {
				if kI, ok := kI.(ast.Expr); ok {
					st.emitNonNegative(kI)
				}
				// Emit constraint to check indices against known length.
				// TODO(adonovan): factor with SliceExpr logic.
				var x ast.Expr
				if kX != nil {
					// string
					x = st.toExpr(kX)
				} else if arr, ok := typeparams.CoreType(typeparams.Deref(st.info.TypeOf(e.X))).(*types.Array); ok {
					// array, *array
					x = &ast.CompositeLit{
						Type: &ast.ArrayType{
							Len: makeIntLit(arr.Len()),
							Elt: makeIdent(st.int),
						},
					}
				}
				if x != nil {
					st.emit(&ast.IndexExpr{
						X:     x,
						Index: st.toExpr(kI),
					})
				}
			}
		}
		// definitely non-constant

	case *ast.SliceExpr:
		// x[low:high:max]
		//
		// Emit non-negative constraints for each index,
		// plus low <= high <= max <= len(x)
		// for each pair that are maybe-constant
		// but not definitely constant.

		kX := st.expr(e.X)
		var kLow, kHigh, kMax any
		if e.Low != nil {
			kLow = st.expr(e.Low)
			if kLow != nil {
				if kLow, ok := kLow.(ast.Expr); ok {
					st.emitNonNegative(kLow)
				}
			}
		}
		if e.High != nil {
			kHigh = st.expr(e.High)
			if kHigh != nil {
				if kHigh, ok := kHigh.(ast.Expr); ok {
					st.emitNonNegative(kHigh)
				}
				if kLow != nil {
					st.emitMonotonic(st.toExpr(kLow), st.toExpr(kHigh))
				}
			}
		}
		if e.Max != nil {
			kMax = st.expr(e.Max)
			if kMax != nil {
				if kMax, ok := kMax.(ast.Expr); ok {
					st.emitNonNegative(kMax)
				}
				if kHigh != nil {
					st.emitMonotonic(st.toExpr(kHigh), st.toExpr(kMax))
				}
			}
		}

		// Emit constraint to check indices against known length.
		var x ast.Expr
		if kX != nil {
			// string
			x = st.toExpr(kX)
		} else if arr, ok := typeparams.CoreType(typeparams.Deref(st.info.TypeOf(e.X))).(*types.Array); ok {
			// array, *array
			x = &ast.CompositeLit{
				Type: &ast.ArrayType{
					Len: makeIntLit(arr.Len()),
					Elt: makeIdent(st.int),
				},
			}
		}
		if x != nil {
			// Avoid slice[::max] if kHigh is nonconstant (nil).
			high, max := st.toExpr(kHigh), st.toExpr(kMax)
			if high == nil {
				high = max // => slice[:max:max]
			}
			st.emit(&ast.SliceExpr{
				X:    x,
				Low:  st.toExpr(kLow),
				High: high,
				Max:  max,
			})
		}
		// definitely non-constant

	case *ast.TypeAssertExpr:
		_ = st.expr(e.X)
		if e.Type != nil {
			_ = st.expr(e.Type)
		}

	case *ast.CallExpr:
		_ = st.expr(e.Fun)
		if tv, ok := st.info.Types[e.Fun]; ok && tv.IsType() {
			// conversion T(x)
			//
			// Possible "value out of range".
			kX := st.expr(e.Args[0])
			if kX != nil && isBasic(tv.Type, types.IsConstType) {
				conv := convert(makeIdent(st.typename(tv.Type)), st.toExpr(kX))
				if is[ast.Expr](kX) {
					st.emit(conv)
				}
				return conv
			}
			return nil // definitely non-constant
		}

		// call f(x)

		all := true // all args are possibly-constant
		kArgs := make([]ast.Expr, len(e.Args))
		for i, arg := range e.Args {
			if kArg := st.expr(arg); kArg != nil {
				kArgs[i] = st.toExpr(kArg)
			} else {
				all = false
			}
		}

		// Calls to built-ins with fallibly constant arguments
		// may become constant. All other calls are either
		// constant or non-constant
		if id, ok := e.Fun.(*ast.Ident); ok && all && tv.Value == nil {
			if builtin, ok := st.info.Uses[id].(*types.Builtin); ok {
				switch builtin.Name() {
				case "len", "imag", "real", "complex", "min", "max":
					return &ast.CallExpr{
						Fun:      id,
						Args:     kArgs,
						Ellipsis: e.Ellipsis,
					}
				}
			}
		}

	case *ast.StarExpr: // *T, *ptr
		_ = st.expr(e.X)

	case *ast.UnaryExpr:
		// + - ! ^ & <- ~
		//
		// Possible "negation of minint".
		// Emit constraint: -x
		kX := st.expr(e.X)
		if kX != nil && !is[types.TypeAndValue](kX) {
			if e.Op == token.SUB {
				st.emit(&ast.UnaryExpr{
					Op: e.Op,
					X:  st.toExpr(kX),
				})
			}

			return &ast.UnaryExpr{
				Op: e.Op,
				X:  st.toExpr(kX),
			}
		}

	case *ast.BinaryExpr:
		kX := st.expr(e.X)
		kY := st.expr(e.Y)
		switch e.Op {
		case token.QUO, token.REM:
			// x/y, x%y
			//
			// Possible "integer division by zero" or
			// "minint / -1" overflow.
			// Emit constraint: x/y or 1/y
			if kY != nil {
				if kX == nil {
					kX = makeIntLit(1)
				}
				st.emit(&ast.BinaryExpr{
					Op: e.Op,
					X:  st.toExpr(kX),
					Y:  st.toExpr(kY),
				})
			}

		case token.ADD, token.SUB, token.MUL:
			// x+y, x-y, x*y
			//
			// Possible "arithmetic overflow".
			// Emit constraint: x+y
			if kX != nil && kY != nil {
				st.emit(&ast.BinaryExpr{
					Op: e.Op,
					X:  st.toExpr(kX),
					Y:  st.toExpr(kY),
				})
			}

		case token.SHL, token.SHR:
			// x << y, x >> y
			//
			// Possible "constant shift too large".
			// Either operand may be too large individually,
			// and they may be too large together.
			// Emit constraint:
			//    x << y (if both maybe-constant)
			//    x << 0 (if y is non-constant)
			//    1 << y (if x is non-constant)
			if kX != nil || kY != nil {
				x := st.toExpr(kX)
				if x == nil {
					x = makeIntLit(1)
				}
				y := st.toExpr(kY)
				if y == nil {
					y = makeIntLit(0)
				}
				st.emit(&ast.BinaryExpr{
					Op: e.Op,
					X:  x,
					Y:  y,
				})
			}

		case token.LSS, token.GTR, token.EQL, token.NEQ, token.LEQ, token.GEQ:
			// < > == != <= <=
			//
			// A "x cmp y" expression with constant operands x, y is
			// itself constant, but I can't see how a constant bool
			// could be fallible: the compiler doesn't reject duplicate
			// boolean cases in a switch, presumably because boolean
			// switches are less like n-way branches and more like
			// sequential if-else chains with possibly overlapping
			// conditions; and there is (sadly) no way to convert a
			// boolean constant to an int constant.
		}
		if kX != nil && kY != nil {
			return &ast.BinaryExpr{
				Op: e.Op,
				X:  st.toExpr(kX),
				Y:  st.toExpr(kY),
			}
		}

	// types
	//
	// We need to visit types (and even type parameters)
	// in order to reach all the places where things could go wrong:
	//
	// 	const (
	// 		s = ""
	// 		i = 0
	// 	)
	// 	type C[T [unsafe.Sizeof(func() { _ = s[i] })]int] bool

	case *ast.IndexListExpr:
		_ = st.expr(e.X)
		for _, expr := range e.Indices {
			_ = st.expr(expr)
		}

	case *ast.Ellipsis:
		if e.Elt != nil {
			_ = st.expr(e.Elt)
		}

	case *ast.ArrayType:
		if e.Len != nil {
			_ = st.expr(e.Len)
		}
		_ = st.expr(e.Elt)

	case *ast.StructType:
		st.fieldTypes(e.Fields)

	case *ast.FuncType:
		st.fieldTypes(e.TypeParams)
		st.fieldTypes(e.Params)
		st.fieldTypes(e.Results)

	case *ast.InterfaceType:
		st.fieldTypes(e.Methods)

	case *ast.MapType:
		_ = st.expr(e.Key)
		_ = st.expr(e.Value)

	case *ast.ChanType:
		_ = st.expr(e.Value)
	}
	return
}

// toExpr converts the result of visitExpr to a falcon expression.
// (We don't do this in visitExpr as we first need to discriminate
// constants from maybe-constants.)
func (st *falconState) toExpr(x any) ast.Expr {
	switch x := x.(type) {
	case nil:
		return nil

	case types.TypeAndValue:
		lit := makeLiteral(x.Value)
		if !isBasic(x.Type, types.IsUntyped) {
			// convert to "typed" type
			lit = &ast.CallExpr{
				Fun:  makeIdent(st.typename(x.Type)),
				Args: []ast.Expr{lit},
			}
		}
		return lit

	case ast.Expr:
		return x

	default:
		panic(x)
	}
}

func makeLiteral(v constant.Value) ast.Expr {
	switch v.Kind() {
	case constant.Bool:
		// Rather than refer to the true or false built-ins,
		// which could be shadowed by poorly chosen parameter
		// names, we use 0 == 0 for true and 0 != 0 for false.
		op := token.EQL
		if !constant.BoolVal(v) {
			op = token.NEQ
		}
		return &ast.BinaryExpr{
			Op: op,
			X:  makeIntLit(0),
			Y:  makeIntLit(0),
		}

	case constant.String:
		return &ast.BasicLit{
			Kind:  token.STRING,
			Value: v.ExactString(),
		}

	case constant.Int:
		return &ast.BasicLit{
			Kind:  token.INT,
			Value: v.ExactString(),
		}

	case constant.Float:
		return &ast.BasicLit{
			Kind:  token.FLOAT,
			Value: v.ExactString(),
		}

	case constant.Complex:
		// The components could be float or int.
		y := makeLiteral(constant.Imag(v))
		y.(*ast.BasicLit).Value += "i" // ugh
		if re := constant.Real(v); !consteq(re, kZeroInt) {
			// complex: x + yi
			y = &ast.BinaryExpr{
				Op: token.ADD,
				X:  makeLiteral(re),
				Y:  y,
			}
		}
		return y

	default:
		panic(v.Kind())
	}
}

func makeIntLit(x int64) *ast.BasicLit {
	return &ast.BasicLit{
		Kind:  token.INT,
		Value: strconv.FormatInt(x, 10),
	}
}

func isBasic(t types.Type, info types.BasicInfo) bool {
	basic, ok := t.Underlying().(*types.Basic)
	return ok && basic.Info()&info != 0
}
