// Copyright 2023 The Go Authors. All rights reserved.
// Use of this source code is governed by a BSD-style
// license that can be found in the LICENSE file.

package astutil

import (
	"go/ast"
	"reflect"
)

// CloneNode returns a deep copy of a Node.
// It omits pointers to ast.{Scope,Object} variables.
func CloneNode[T ast.Node](n T) T {
	return cloneNode(n).(T)
}

func cloneNode(n ast.Node) ast.Node {
	var clone func(x reflect.Value) reflect.Value
	set := func(dst, src reflect.Value) {
		src = clone(src)
		if src.IsValid() {
			dst.Set(src)
		}
	}
	clone = func(x reflect.Value) reflect.Value {
		switch x.Kind() {
		case reflect.Ptr:
			if x.IsNil() {
				return x
			}
			// Skip fields of types potentially involved in cycles.
			switch x.Interface().(type) {
			case *ast.Object, *ast.Scope:
				return reflect.Zero(x.Type())
			}
			y := reflect.New(x.Type().Elem())
			set(y.Elem(), x.Elem())
			return y

		case reflect.Struct:
			y := reflect.New(x.Type()).Elem()
			for i := 0; i < x.Type().NumField(); i++ {
				set(y.Field(i), x.Field(i))
			}
			return y

		case reflect.Slice:
			if x.IsNil() {
				return x
			}
			y := reflect.MakeSlice(x.Type(), x.Len(), x.Cap())
			for i := 0; i < x.Len(); i++ {
				set(y.Index(i), x.Index(i))
			}
			return y

		case reflect.Interface:
			y := reflect.New(x.Type()).Elem()
			set(y, x.Elem())
			return y

		case reflect.Array, reflect.Chan, reflect.Func, reflect.Map, reflect.UnsafePointer:
			panic(x) // unreachable in AST

		default:
			return x // bool, string, number
		}
	}
	return clone(reflect.ValueOf(n)).Interface().(ast.Node)
}
