package main

// Loop canonicalisation (part of the source normalisation, applied by delit.go's statement walker).
//
// `for i := 0; i < len(X); i++ { … }` and `for i := range X { … }` visit the same indices when the body changes
// neither i nor the length of X. The rules are written for the form the reference tree uses. A counted loop whose
// counter the reference version of the function does not have (refnames.json records the function's φ-nodes, i.e. its
// loop variables) is a loop that was rewritten; it is turned into the range form:
//
//	for i := 0; i < len(X); i++ { B }   ->   for i := range X { B }
//
// provided X is a plain name or field path, and B does not assign to i, take its address, assign to X or a prefix of
// it, or append to X.

import (
	"go/ast"
	"go/token"
	"go/types"
	"strings"
)

// refLoopVars: "package|receiver|function" -> names of the integer φ-nodes the reference function has.
var refLoopVars = map[string]map[string]bool{}

// delitKey turns a refnames key ("(*storage/bolt.Hook).setKv", "packets.encodeLength") into the key delit.go uses.
func delitKey(k string) string {
	recv := ""
	name := k
	pkg := ""
	if strings.HasPrefix(k, "(") {
		end := strings.Index(k, ").")
		if end < 0 {
			return ""
		}
		owner := strings.TrimPrefix(strings.TrimPrefix(k[:end], "("), "*")
		name = k[end+2:]
		dot := strings.LastIndexByte(owner, '.')
		if dot < 0 {
			return ""
		}
		pkg, recv = owner[:dot], owner[dot+1:]
		if i := strings.IndexByte(recv, '['); i >= 0 {
			recv = recv[:i]
		}
	} else {
		dot := strings.LastIndexByte(k, '.')
		if dot < 0 {
			return ""
		}
		pkg, name = k[:dot], k[dot+1:]
	}
	if i := strings.LastIndexByte(pkg, '/'); i >= 0 {
		pkg = pkg[i+1:]
	}
	return pkg + "|" + recv + "|" + name
}

func setRefLoopVars(ref map[string]refFn) {
	refLoopVars = map[string]map[string]bool{}
	for k, r := range ref {
		if strings.Contains(k, "$") {
			continue
		}
		dk := delitKey(k)
		if dk == "" {
			continue
		}
		for _, p := range r.Phis {
			if p.Type == "int" {
				if refLoopVars[dk] == nil {
					refLoopVars[dk] = map[string]bool{}
				}
				refLoopVars[dk][p.Name] = true
			}
		}
	}
}

func rootIdent(e ast.Expr) *ast.Ident {
	for {
		switch x := e.(type) {
		case *ast.Ident:
			return x
		case *ast.SelectorExpr:
			e = x.X
		case *ast.ParenExpr:
			e = x.X
		case *ast.StarExpr:
			e = x.X
		case *ast.IndexExpr:
			e = x.X
		default:
			return nil
		}
	}
}

// canonLoop returns the range form of fs, or nil when fs is not a counted loop over len(X) that may be rewritten.
func (d *delit) canonLoop(fs *ast.ForStmt) ast.Stmt {
	init, ok := fs.Init.(*ast.AssignStmt)
	if !ok || init.Tok != token.DEFINE || len(init.Lhs) != 1 || len(init.Rhs) != 1 {
		return nil
	}
	iv, ok := init.Lhs[0].(*ast.Ident)
	if !ok || iv.Name == "_" {
		return nil
	}
	if lit, ok := init.Rhs[0].(*ast.BasicLit); !ok || lit.Value != "0" {
		return nil
	}
	cond, ok := fs.Cond.(*ast.BinaryExpr)
	if !ok || cond.Op != token.LSS {
		return nil
	}
	if id, ok := cond.X.(*ast.Ident); !ok || id.Name != iv.Name {
		return nil
	}
	lc, ok := cond.Y.(*ast.CallExpr)
	if !ok || len(lc.Args) != 1 {
		return nil
	}
	if fn, ok := lc.Fun.(*ast.Ident); !ok || fn.Name != "len" {
		return nil
	}
	x := lc.Args[0]
	if !simpleOperand(x) {
		return nil
	}
	post, ok := fs.Post.(*ast.IncDecStmt)
	if !ok || post.Tok != token.INC {
		return nil
	}
	if id, ok := post.X.(*ast.Ident); !ok || id.Name != iv.Name {
		return nil
	}
	if refLoopVars[d.curFn][iv.Name] {
		return nil // the reference function has this counted loop itself
	}
	xs := types.ExprString(x)
	root := rootIdent(x)
	if root == nil {
		return nil
	}
	bad := false
	touches := func(e ast.Expr) bool {
		if id, ok := e.(*ast.Ident); ok && (id.Name == iv.Name || id.Name == root.Name) {
			return true
		}
		s := types.ExprString(e)
		return s == xs || strings.HasPrefix(xs, s+".")
	}
	ast.Inspect(fs.Body, func(n ast.Node) bool {
		switch s := n.(type) {
		case *ast.AssignStmt:
			for _, l := range s.Lhs {
				if touches(l) {
					bad = true
				}
			}
		case *ast.IncDecStmt:
			if touches(s.X) {
				bad = true
			}
		case *ast.UnaryExpr:
			if s.Op == token.AND && touches(s.X) {
				bad = true
			}
		case *ast.RangeStmt:
			if s.Tok == token.ASSIGN && (s.Key != nil && touches(s.Key) || s.Value != nil && touches(s.Value)) {
				bad = true
			}
		case *ast.CallExpr:
			if id, ok := s.Fun.(*ast.Ident); ok && id.Name == "append" && len(s.Args) > 0 && types.ExprString(s.Args[0]) == xs {
				bad = true
			}
		}
		return !bad
	})
	if bad {
		return nil
	}
	return &ast.RangeStmt{Key: ast.NewIdent(iv.Name), Tok: token.DEFINE, X: x, Body: fs.Body}
}

// canonMinMax: the builtin clamp is written back as the comparison the reference tree uses.
//
//	X = min(X, M)  /  X = min(M, X)   ->   if X > M { X = M }
//	X = min(A, M)                     ->   X = A; if X > M { X = M }        (max: with <)
//	v := min(A, M), A not a plain operand  ->   v := A; if v > M { v = M }
//
// X, M must be plain names, field paths or literals (evaluating them twice changes nothing) and M must not mention X.
// For integers and strings the two forms compute the same value.
func (d *delit) canonMinMax(as *ast.AssignStmt) []ast.Stmt {
	if len(as.Lhs) != 1 || len(as.Rhs) != 1 || (as.Tok != token.ASSIGN && as.Tok != token.DEFINE) {
		return nil
	}
	call, ok := as.Rhs[0].(*ast.CallExpr)
	if !ok || len(call.Args) < 2 || call.Ellipsis != token.NoPos {
		return nil
	}
	fn, ok := call.Fun.(*ast.Ident)
	if !ok || (fn.Name != "min" && fn.Name != "max") {
		return nil
	}
	x := as.Lhs[0]
	if !simpleOperand(x) {
		return nil
	}
	if id, isID := x.(*ast.Ident); isID && id.Name == "_" {
		return nil
	}
	xs := types.ExprString(x)
	if len(call.Args) > 2 {
		// X = min(X, A, B, …): one clamp per further operand, in order
		if as.Tok != token.ASSIGN {
			return nil
		}
		op := token.GTR
		if fn.Name == "max" {
			op = token.LSS
		}
		self := 0
		var out []ast.Stmt
		for _, a := range call.Args {
			if types.ExprString(a) == xs {
				self++
				continue
			}
			if !simpleOperand(a) || strings.Contains(types.ExprString(a), xs) {
				return nil
			}
			out = append(out, &ast.IfStmt{Cond: &ast.BinaryExpr{X: x, Op: op, Y: a}, Body: &ast.BlockStmt{List: []ast.Stmt{assign([]ast.Expr{x}, token.ASSIGN, []ast.Expr{a})}}})
		}
		if self != 1 {
			return nil
		}
		return out
	}
	a, m := call.Args[0], call.Args[1]
	if types.ExprString(m) == xs && as.Tok == token.ASSIGN {
		a, m = m, a
	}
	if !simpleOperand(m) || strings.Contains(types.ExprString(m), xs) {
		return nil
	}
	op := token.GTR
	if fn.Name == "max" {
		op = token.LSS
	}
	clamp := &ast.IfStmt{Cond: &ast.BinaryExpr{X: x, Op: op, Y: m}, Body: &ast.BlockStmt{List: []ast.Stmt{assign([]ast.Expr{x}, token.ASSIGN, []ast.Expr{m})}}}
	if as.Tok == token.ASSIGN {
		if types.ExprString(a) == xs {
			return []ast.Stmt{clamp}
		}
		return []ast.Stmt{assign([]ast.Expr{x}, token.ASSIGN, []ast.Expr{a}), clamp}
	}
	if simpleOperand(a) {
		return nil // `v := min(x, m)` of two plain operands stays a min: nothing is gained by unfolding it
	}
	return []ast.Stmt{assign([]ast.Expr{x}, token.DEFINE, []ast.Expr{a}), clamp}
}

// canonMapsCopy: `maps.Copy(D, S)` (package maps of the standard library) is the loop it abbreviates,
//
//	for k, v := range S { D[k] = v }
//
// for a destination D that is a plain name or field path. deliteralize drops the import when nothing else uses it.
func (d *delit) canonMapsCopy(es *ast.ExprStmt) ast.Stmt {
	call, ok := es.X.(*ast.CallExpr)
	if !ok || len(call.Args) != 2 || !d.importsMaps {
		return nil
	}
	sel, ok := call.Fun.(*ast.SelectorExpr)
	if !ok || sel.Sel.Name != "Copy" {
		return nil
	}
	if pk, ok := sel.X.(*ast.Ident); !ok || pk.Name != "maps" || pk.Obj != nil {
		return nil
	}
	dst, src := call.Args[0], call.Args[1]
	if !simpleOperand(dst) {
		return nil
	}
	k, v := d.tmp(), d.tmp()
	body := assign([]ast.Expr{&ast.IndexExpr{X: dst, Index: ast.NewIdent(k.Name)}}, token.ASSIGN, []ast.Expr{ast.NewIdent(v.Name)})
	return &ast.RangeStmt{Key: k, Value: v, Tok: token.DEFINE, X: src, Body: &ast.BlockStmt{List: []ast.Stmt{body}}}
}
