package main

// Rules added after the second round of seeded changes, part 7.

import (
	"fmt"
	"go/token"
	"go/types"
	"strings"

	"golang.org/x/tools/go/ssa"
)

func round2Hooks7(c *Ctx, id string) {
	switch id {
	case "C27":
		helperResultsOnSuccess(c, "C27.c helper-results-on-success")
	case "C28":
		helperResultsOnSuccess(c, "C28.f helper-results-on-success")
	case "C29":
		lengthRejectionsTabled(c, "C29.c rejections-tabled")
	case "C42":
		lengthRejectionsTabled(c, "C42.e rejections-tabled")
	case "C32":
		stopNeverWaitsForWriter(c, "C32.e stop-never-waits-for-writer")
		noLockCopies(c, "C32.f no-lock-copies")
	case "C33":
		flushOwner(c, "C33.e flush-owner")
		noLockCopies(c, "C33.f no-lock-copies")
	case "C34":
		flushOwner(c, "C34.c flush-owner")
	}
}

// helperResultsOnSuccess: in package packets the offset returned by a checked codec helper (decodeString, decodeBytes,
// decodeUint16/32, decodeByte, decodeByteBool) is fed to the next decoding step only on the helper's err == nil edge.
// On failure the helpers return offset 0: continuing with it re-reads the buffer from the start — a crafted packet can
// make a property loop revisit the same bytes forever.
func helperResultsOnSuccess(c *Ctx, rule string) {
	isHelper := func(n string) bool {
		switch n {
		case "packets.decodeString", "packets.decodeBytes", "packets.decodeUint16", "packets.decodeUint32", "packets.decodeByte", "packets.decodeByteBool":
			return true
		}
		return false
	}
	n := 0
	for _, fn := range c.ModFns {
		if fnPkgPath(fn) != modPath+"/packets" {
			continue
		}
		for _, ins := range instrs(fn) {
			call, ok := ins.(*ssa.Call)
			if !ok || !isHelper(cname(&call.Call)) || isHelper(fname(fn)) {
				continue
			}
			// is the helper's offset result used at all?
			used := false
			for _, ref := range *call.Referrers() {
				if off, isEx := ref.(*ssa.Extract); isEx && off.Index == 1 && len(*off.Referrers()) > 0 {
					used = true
				}
			}
			if !used {
				continue
			}
			n++
			// from this call, the next decoding step (another helper call, or this one again in a loop) is reached
			// only across an error check that succeeded: `<call>#2 == nil`, or the test of the error variable the
			// result was assigned to (`err == nil` / `φerr == nil`)
			isErrOK := func(t string) bool {
				// (φinlN: the temporary that carries an inlined helper's error result, delit.go)
				return strings.HasSuffix(t, " == nil") && (strings.Contains(t, "err") || strings.HasSuffix(t, "#2 == nil") || strings.HasPrefix(t, "φinl") || strings.HasPrefix(t, "inl"))
			}
			_, hit := (&PathQuery{Fn: fn, From: call, Target: func(x ssa.Instruction) bool {
				c2, isCall := x.(*ssa.Call)
				return isCall && isHelper(cname(&c2.Call))
			}, EdgeOK: func(b *ssa.BasicBlock, i int) bool { return !edgeEstablishes(b, i, isErrOK, true) }}).Find()
			c.ob(rule, fmt.Sprintf("%s: after %s (%s) the next decoding step runs only once the error was checked", fname(fn), strings.TrimPrefix(cname(&call.Call), "packets."), guardKey(call)), c.pos(call.Pos()), hit == nil,
				"on failure the helper returns offset 0: decoding continues from the start of the buffer (wrong values, or a loop that never ends)")
		}
	}
	c.floor(rule+" helper offsets fed to a next decoding step", n, 40)
}

// lengthRejectionsTabled: DecodeLength rejects an input for exactly three reasons: the reader failed, the value exceeds
// 268435455, or a fifth byte would be needed. Every other refusal shrinks the set of valid encodings the broker
// accepts (e.g. a "minimality" test that also hits values with a zero middle group).
func lengthRejectionsTabled(c *Ctx, rule string) {
	f := c.fn("packets", "DecodeLength")
	if f == nil {
		return
	}
	n := 0
	for _, r := range returns(f) {
		vs := rvs(r)
		if len(vs) != 3 || isNilConst(vs[2]) {
			continue
		}
		n++
		eds := edgeDoms(r)
		inner := ""
		// the innermost dominating condition decides the rejection
		var best *ssa.BasicBlock
		for _, ed := range eds {
			if best == nil || best.Dominates(ed.b) {
				best = ed.b
			}
		}
		if best != nil {
			inner, _, _ = condOf(best)
		}
		ok := (strings.Contains(inner, "ReadByte(") && strings.HasSuffix(inner, "#1 == nil")) || strings.HasSuffix(inner, "> 268435455") || (strings.Contains(inner, "bu") && (strings.HasSuffix(inner, "< 4") || strings.HasSuffix(inner, "> 3") || strings.HasSuffix(inner, "== 4")))
		c.ob(rule, fmt.Sprintf("packets.DecodeLength: rejection under %s is one of {reader error, value above the maximum, more than four bytes}", guardKey(r)), c.pos(r.Pos()), ok,
			"innermost condition `"+inner+"`: the decoder refuses inputs the three tabled reasons do not cover — valid encodings stop decoding")
	}
	c.floor(rule+" error returns of DecodeLength", n, 3)
}

// stopNeverWaitsForWriter: WritePacket holds the client's mutex while it is blocked in a network write, and the only
// thing that unblocks such a write is Stop closing the connection. Stop therefore reaches Conn.Close without acquiring
// the client's mutex (and calls nothing that does).
func stopNeverWaitsForWriter(c *Ctx, rule string) {
	f := c.fn("mqtt", "(*Client).Stop")
	if f == nil {
		return
	}
	bad := ""
	closes := 0
	for _, g := range withAnon(f) {
		for _, ins := range instrs(g) {
			cc := callOf(ins)
			if cc == nil {
				continue
			}
			n := cname(cc)
			if cc.IsInvoke() && cc.Method.Name() == "Close" && strings.Contains(describe(cc.Value), "Net.Conn") {
				closes++
			}
			if (n == "(*sync.RWMutex).Lock" || n == "(*sync.RWMutex).RLock") && strings.HasSuffix(describe(cc.Args[0]), "cl.RWMutex") {
				bad = n + " at " + c.pos(ins.Pos())
			}
			if n == "(*mqtt.Client).flushOutbuf" || n == "(*mqtt.Client).WritePacket" {
				bad = n + " at " + c.pos(ins.Pos())
			}
		}
	}
	c.ob(rule, "(*mqtt.Client).Stop closes the connection without taking the client's mutex or writing to the connection", c.pos(f.Pos()), bad == "" && closes >= 1,
		"Stop does "+bad+": a writer parked in Conn.Write holds that mutex until the connection is closed — Stop and the writer wait for each other, the handler never returns and shutdown hangs")
}

// flushOwner: the write buffer (Net.outbuf) is flushed only from inside WritePacket's locked section.
func flushOwner(c *Ctx, rule string) {
	c.whoCalls(rule, c.optFn("mqtt", "(*Client).flushOutbuf"), map[string]string{
		"(*mqtt.Client).WritePacket": "inside the closure that holds the client's lock",
	})
	if f := c.optFn("mqtt", "(*Client).flushOutbuf"); f != nil {
		c.ob(rule, "(*mqtt.Client).flushOutbuf has callers", c.pos(f.Pos()), len(c.callers(f)) >= 1, "")
	}
}

// noLockCopies: no value containing a sync.Mutex / sync.RWMutex is copied (loaded as a whole): a copy carries the
// lock state of the moment — a clone made under RLock starts life with a phantom reader and its first writer blocks
// forever.
func noLockCopies(c *Ctx, rule string) {
	var hasLock func(t types.Type, depth int) bool
	hasLock = func(t types.Type, depth int) bool {
		if depth > 4 {
			return false
		}
		if n, ok := t.(*types.Named); ok && n.Obj().Pkg() != nil && n.Obj().Pkg().Path() == "sync" {
			switch n.Obj().Name() {
			case "Mutex", "RWMutex", "WaitGroup", "Once", "Cond":
				return true
			}
		}
		if st, ok := t.Underlying().(*types.Struct); ok {
			for i := 0; i < st.NumFields(); i++ {
				if hasLock(st.Field(i).Type(), depth+1) {
					return true
				}
			}
		}
		return false
	}
	n, checked := 0, 0
	for _, fn := range c.ModFns {
		for _, ins := range instrs(fn) {
			u, ok := ins.(*ssa.UnOp)
			if !ok || u.Op != token.MUL {
				continue
			}
			checked++
			if _, isStruct := u.Type().Underlying().(*types.Struct); !isStruct || !hasLock(u.Type(), 0) {
				continue
			}
			if al, isAl := u.X.(*ssa.Alloc); isAl && al.Comment == "complit" {
				continue // a freshly built literal handed out by value: its lock was never used
			}
			n++
			c.ob(rule, fmt.Sprintf("%s: no value of type %s (contains a lock) is copied", fname(fn), shorten(u.Type().String())), c.pos(u.Pos()), false,
				"copy of "+describe(u.X)+": the copy takes the mutex state along")
		}
	}
	if n == 0 {
		c.ob(rule, "no struct value that contains a sync lock is copied anywhere in the module", "", checked > 1000, fmt.Sprintf("%d loads inspected", checked))
	}
}
