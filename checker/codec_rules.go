package main

import (
	"fmt"
	"go/constant"
	"go/token"
	"go/types"
	"sort"
	"strings"

	"golang.org/x/tools/go/ssa"
)

// byteConsts returns the typed byte constants of a package whose names satisfy pred, by value.
func (c *Ctx) byteConsts(pkgShort string, pred func(string) bool) map[int64]string {
	out := map[int64]string{}
	p := c.Pkgs[modPath+"/"+pkgShort]
	if pkgShort == "mqtt" {
		p = c.Pkgs[modPath]
	}
	if p == nil {
		return out
	}
	sc := p.Types.Scope()
	for _, n := range sc.Names() {
		if k, ok := sc.Lookup(n).(*types.Const); ok && pred(n) && k.Val().Kind() == constant.Int {
			v, _ := constant.Int64Val(k.Val())
			out[v] = n
		}
	}
	return out
}

func (c *Ctx) pktTypes() map[int64]string {
	names := map[string]bool{"Connect": true, "Connack": true, "Publish": true, "Puback": true, "Pubrec": true, "Pubrel": true,
		"Pubcomp": true, "Subscribe": true, "Suback": true, "Unsubscribe": true, "Unsuback": true, "Pingreq": true, "Pingresp": true,
		"Disconnect": true, "Auth": true}
	return c.byteConsts("packets", func(n string) bool { return names[n] })
}

// ---- C29 -----------------------------------------------------------------------------------

func init() {
	register(&Prop{
		ID:        "C29",
		Title:     "Variable byte integers are canonical and bounded",
		Technique: "abstract interpretation of DecodeLength's loop over a constant domain (maximum reads on any path) + structural check of the encoder loop",
		Explanation: "(a) encodeLength has the specification's loop shape: emits length%128, sets the continuation bit exactly when the quotient is non-zero, " +
			"continues exactly while the quotient is non-zero (minimal encoding follows from the shape); " +
			"(b) DecodeLength is explored over a constant domain with every data-dependent branch taken both ways: the maximum number of ReadByte calls on any path is exactly 4, " +
			"every path beyond a continuation bit in the 4th byte ends in a non-nil error, and the value test against 268435455 is on every path that returns success.",
		NotDecided: []string{"value-level round trip for all 268,435,456 values (a computation, not a shape)", "callers passing negative lengths"},
		Run:        runC29,
	})
}

func runC29(c *Ctx) {
	if f := c.fn("packets", "encodeLength"); f != nil {
		c.encodeLengthShape(f)
	}
	if f := c.fn("packets", "DecodeLength"); f != nil {
		maxReads, unbounded, okPaths := c.maxReads(f, 9)
		construct := "packets.DecodeLength: maximum ReadByte calls on any path"
		switch {
		case unbounded:
			c.ob("C29.b decoder-bounded", construct, c.pos(f.Pos()), false, "more than 8 continuation bytes are accepted: no exit of the loop is controlled by the byte counter")
		case maxReads != 4:
			c.ob("C29.b decoder-bounded", construct, c.pos(f.Pos()), false, fmt.Sprintf("the loop reads at most %d bytes; the specification allows exactly up to 4", maxReads))
		default:
			c.ob("C29.b decoder-bounded", construct, c.pos(f.Pos()), true, fmt.Sprintf("max reads = 4; %d success paths explored", okPaths))
		}
		// the maximum-value test dominates every success return
		for i, r := range returns(f) {
			if len(r.Results) == 3 && isNilConst(rvs(r)[2]) {
				ok := dominatedByFact(r, func(t string) bool { return strings.HasSuffix(t, "> 268435455") }, false)
				c.ob("C29.b value-limit", fmt.Sprintf("packets.DecodeLength: success return#%d is reached only after value <= 268435455", i+1), c.pos(r.Pos()), ok,
					"the accumulated value must be compared with the specification maximum before it is returned")
			}
		}
	}
}

// maxReads explores f with unknown branches taken both ways; phis with constant inputs are tracked.
func (c *Ctx) maxReads(f *ssa.Function, cutoff int) (max int, unbounded bool, okPaths int) {
	type env map[ssa.Value]int64
	var walk func(b, pred *ssa.BasicBlock, e env, reads int)
	steps := 0
	walk = func(b, pred *ssa.BasicBlock, e env, reads int) {
		steps++
		if steps > 20000 || unbounded {
			return
		}
		ne := env{}
		for k, v := range e {
			ne[k] = v
		}
		e = ne
		val := func(v ssa.Value) (int64, bool) {
			if k, ok := constInt(v); ok {
				return k, true
			}
			x, ok := e[v]
			return x, ok
		}
		// phis first (parallel assignment)
		upd := env{}
		for _, ins := range b.Instrs {
			p, ok := ins.(*ssa.Phi)
			if !ok {
				break
			}
			for i, pb := range b.Preds {
				if pb == pred {
					if k, ok := val(p.Edges[i]); ok {
						upd[p] = k
					} else {
						delete(e, p)
						upd[p] = -1 << 62
					}
				}
			}
		}
		for k, v := range upd {
			if v == -1<<62 {
				delete(e, k)
			} else {
				e[k] = v
			}
		}
		for _, ins := range b.Instrs {
			switch x := ins.(type) {
			case *ssa.BinOp:
				l, ok1 := val(x.X)
				r, ok2 := val(x.Y)
				if ok1 && ok2 {
					var res int64
					known := true
					switch x.Op {
					case token.ADD:
						res = l + r
					case token.SUB:
						res = l - r
					case token.MUL:
						res = l * r
					case token.SHL:
						if r < 62 {
							res = l << uint(r)
						} else {
							known = false
						}
					case token.LSS:
						res = b2i(l < r)
					case token.LEQ:
						res = b2i(l <= r)
					case token.GTR:
						res = b2i(l > r)
					case token.GEQ:
						res = b2i(l >= r)
					case token.EQL:
						res = b2i(l == r)
					case token.NEQ:
						res = b2i(l != r)
					default:
						known = false
					}
					if known {
						e[x] = res
					}
				}
			case *ssa.Convert:
				if k, ok := val(x.X); ok {
					e[x] = k
				}
			case *ssa.UnOp:
				if x.Op == token.NOT {
					if k, ok := val(x.X); ok {
						e[x] = 1 - k
					}
				}
			case *ssa.Call:
				if x.Call.IsInvoke() && x.Call.Method.Name() == "ReadByte" {
					reads++
					if reads > max {
						max = reads
					}
					if reads >= cutoff {
						unbounded = true
						return
					}
				}
			case *ssa.Return:
				if len(x.Results) > 0 && isNilConst(x.Results[len(x.Results)-1]) {
					okPaths++
				}
				return
			case *ssa.If:
				if k, ok := val(x.Cond); ok {
					if k != 0 {
						walk(b.Succs[0], b, e, reads)
					} else {
						walk(b.Succs[1], b, e, reads)
					}
				} else {
					walk(b.Succs[0], b, e, reads)
					walk(b.Succs[1], b, e, reads)
				}
				return
			case *ssa.Jump:
				walk(b.Succs[0], b, e, reads)
				return
			}
		}
	}
	walk(f.Blocks[0], nil, env{}, 0)
	return
}

func b2i(b bool) int64 {
	if b {
		return 1
	}
	return 0
}

func (c *Ctx) encodeLengthShape(f *ssa.Function) {
	var rem, quo *ssa.BinOp
	var orI *ssa.BinOp
	var write *ssa.Call
	for _, ins := range instrs(f) {
		switch x := ins.(type) {
		case *ssa.BinOp:
			k, isC := constInt(x.Y)
			switch {
			case x.Op == token.REM && isC && k == 128:
				rem = x
			case x.Op == token.QUO && isC && k == 128:
				quo = x
			case x.Op == token.OR && isC && k == 128:
				orI = x
			case x.Op == token.AND && isC && k == 127: // length & 127 is the same digit
				rem = x
			case x.Op == token.SHR && isC && k == 7:
				quo = x
			}
		case *ssa.Call:
			if cname(&x.Call) == "(*bytes.Buffer).WriteByte" {
				write = x
			}
		}
	}
	ok := rem != nil && quo != nil && orI != nil && write != nil
	c.ob("C29.a encoder-shape", "packets.encodeLength: digit = length % 128, quotient = length / 128, continuation bit 0x80, one WriteByte per digit", c.pos(f.Pos()), ok,
		"the encoder must emit base-128 digits with a continuation bit")
	if !ok {
		return
	}
	// same operand (the loop-carried length)
	c.ob("C29.a encoder-shape", "packets.encodeLength: digit and quotient are taken from the same loop-carried value", c.pos(rem.Pos()), rem.X == quo.X && isPhiOf(rem.X, quo), "")
	// continuation bit set exactly on quotient > 0 (or != 0)
	qd := describe(quo)
	setOK := dominatedByFact(orI, func(t string) bool { return t == qd+" > 0" }, true) ||
		dominatedByFact(orI, func(t string) bool { return t == qd+" == 0" }, false)
	c.ob("C29.a encoder-shape", "packets.encodeLength: continuation bit is set only when the quotient is non-zero", c.pos(orI.Pos()), setOK, "")
	// the written byte is φ(digit, digit|0x80)
	wOK := false
	if p, isPhi := write.Call.Args[1].(*ssa.Phi); isPhi && len(p.Edges) == 2 {
		has := func(v ssa.Value) bool { return stripConv(p.Edges[0]) == v || stripConv(p.Edges[1]) == v }
		wOK = has(orI) && (has(rem) || has(orI.X))
	}
	c.ob("C29.a encoder-shape", "packets.encodeLength: the byte written is the digit, with the continuation bit on the non-zero-quotient edge", c.pos(write.Pos()), wOK, "")
	// loop exit iff quotient == 0
	for _, r := range returns(f) {
		ex := dominatedByFact(r, func(t string) bool { return t == qd+" == 0" }, true) ||
			dominatedByFact(r, func(t string) bool { return t == qd+" > 0" }, false) ||
			dominatedByFact(r, func(t string) bool { return t == "φlength == 0" || t == "φlength > 0" }, true)
		c.ob("C29.a encoder-shape", "packets.encodeLength: the loop ends exactly when the quotient is zero", c.pos(r.Pos()), ex, "")
	}
	// and continues otherwise: the back edge to the loop header exists from the block testing the quotient
	back := false
	for _, b := range f.Blocks {
		if t, _, ok := condOf(b); ok && (t == qd+" == 0" || t == qd+" > 0") {
			for _, s := range b.Succs {
				if s == rem.Block() || s.Dominates(rem.Block()) && s.Index <= rem.Block().Index {
					back = true
				}
			}
		}
	}
	c.ob("C29.a encoder-shape", "packets.encodeLength: a non-zero quotient continues the loop with the quotient", c.pos(f.Pos()), back, "")
}

func stripConv(v ssa.Value) ssa.Value {
	for {
		switch x := v.(type) {
		case *ssa.Convert:
			v = x.X
		case *ssa.ChangeType:
			v = x.X
		default:
			return v
		}
	}
}

func isPhiOf(v ssa.Value, next ssa.Value) bool {
	p, ok := v.(*ssa.Phi)
	if !ok {
		return false
	}
	for _, e := range p.Edges {
		if e == next {
			return true
		}
	}
	return false
}

// ---- C42 -----------------------------------------------------------------------------------

func init() {
	register(&Prop{
		ID:        "C42",
		Title:     "Every valid encoding a client may send is decoded as the sender meant",
		Technique: "constant folding of consumed-byte offsets vs. Remaining-length guards in the optional-tail decoders; state-independence of the property switch",
		Explanation: "(a) in decodePubAckRelRecComp, DisconnectDecode and AuthDecode every read of an optional field at constant byte offset o " +
			"(offsets are folded from the fixed-size reads before it) is guarded by exactly `FixedHeader.Remaining > o` and by ProtocolVersion == 5 " +
			"where the type exists in MQTT 3; a decoder whose whole body may be omitted must not read unconditionally; " +
			"(b) Properties.Decode is a loop over a switch on the identifier whose cases read no previously decoded state except the repeatable properties; " +
			"(c) processDisconnect turns reason 0x04 into the error that makes attachClient publish the will.",
		NotDecided: []string{"equality of decoded values with the sender's values", "SUBSCRIBE/UNSUBSCRIBE/PUBLISH/CONNECT field semantics (covered structurally by C26/C27)"},
		Run:        runC42,
	})
}

func constOffset(v ssa.Value) (int64, bool) {
	if k, ok := constInt(v); ok {
		return k, true
	}
	if ex, ok := v.(*ssa.Extract); ok && ex.Index == 1 {
		if call, ok := ex.Tuple.(*ssa.Call); ok && len(call.Call.Args) == 2 {
			base, ok := constOffset(call.Call.Args[1])
			if !ok {
				return 0, false
			}
			switch cname(&call.Call) {
			case "packets.decodeByte", "packets.decodeByteBool":
				return base + 1, true
			case "packets.decodeUint16":
				return base + 2, true
			case "packets.decodeUint32":
				return base + 4, true
			}
		}
	}
	return 0, false
}

func runC42(c *Ctx) {
	type dec struct {
		name      string
		mandatory int64 // bytes that are always present
		v5guard   bool  // optional tail exists only for MQTT 5 (type also exists in MQTT 3)
	}
	n := 0
	for _, d := range []dec{{"(*Packet).decodePubAckRelRecComp", 2, true}, {"(*Packet).DisconnectDecode", 0, true}, {"(*Packet).AuthDecode", 0, false}} {
		f := c.fn("packets", d.name)
		if f == nil {
			continue
		}
		for _, ci := range c.callsNamed(f, "packets.decodeByte", "packets.decodeUint16", "(*packets.Properties).Decode") {
			call, ok := ci.(*ssa.Call)
			if !ok {
				continue
			}
			var off int64
			var known bool
			what := cname(&call.Call)
			if what == "(*packets.Properties).Decode" {
				if nb, ok := call.Call.Args[2].(*ssa.Call); ok && cname(&nb.Call) == "bytes.NewBuffer" {
					if sl, ok := nb.Call.Args[0].(*ssa.Slice); ok && sl.Low != nil {
						off, known = constOffset(sl.Low)
					}
				}
			} else {
				off, known = constOffset(call.Call.Args[1])
			}
			construct := fmt.Sprintf("%s: %s at byte offset %d", fname(f), what, off)
			if !known {
				c.ob("C42.a optional-tail-threshold", fmt.Sprintf("%s: %s at a non-constant offset", fname(f), what), c.pos(call.Pos()), false, "the offset of an optional field could not be folded to a constant")
				continue
			}
			n++
			if off < d.mandatory {
				c.ob("C42.a optional-tail-threshold", construct+" (mandatory field)", c.pos(call.Pos()), true, "")
				continue
			}
			// strongest guard c < Remaining among dominating facts
			best := int64(-1)
			for _, ft := range factsAt(call) {
				if ft.r == "pk.FixedHeader.Remaining" && ft.rel == "<" {
					if k, err := parseInt(ft.l); err == nil && k > best {
						best = k
					}
				}
				if ft.r == "pk.FixedHeader.Remaining" && ft.rel == "<=" {
					if k, err := parseInt(ft.l); err == nil && k-1 > best {
						best = k - 1
					}
				}
			}
			switch {
			case best < 0:
				c.ob("C42.a optional-tail-threshold", construct, c.pos(call.Pos()), false,
					fmt.Sprintf("optional field read unconditionally: a packet with remaining length %d (field omitted) is rejected or misread", off))
			case best != off:
				c.ob("C42.a optional-tail-threshold", construct, c.pos(call.Pos()), false,
					fmt.Sprintf("guarded by Remaining > %d but %d bytes precede the field: the field is present exactly when Remaining > %d", best, off, off))
			default:
				c.ob("C42.a optional-tail-threshold", construct, c.pos(call.Pos()), true, fmt.Sprintf("guard Remaining > %d", best))
			}
			if d.v5guard {
				ok := dominatedByFact(call, func(t string) bool { return t == "pk.ProtocolVersion == 5" }, true)
				c.ob("C42.a v5-only-tail", construct+" only for MQTT 5", c.pos(call.Pos()), ok, "reason code and properties exist only in MQTT 5 packets")
			}
		}
	}
	c.floor("C42.a optional-tail reads", n, 7)

	// (b) order independence of Properties.Decode
	if f := c.fn("packets", "(*Properties).Decode"); f != nil {
		repeatable := map[string]bool{"SubscriptionIdentifier": true, "User": true}
		cases := 0
		for _, b := range f.Blocks {
			if t, _, ok := condOf(b); ok && strings.HasPrefix(t, "packets.decodeByte(") && strings.Contains(t, "#0 == ") {
				cases++
			}
		}
		c.floor("C42.b property switch cases", cases, 27)
		bad := 0
		for _, ins := range instrs(f) {
			if u, ok := ins.(*ssa.UnOp); ok && u.Op == token.MUL {
				if fa, ok := u.X.(*ssa.FieldAddr); ok && describe(fa.X) == "p" {
					fn := fieldName(fa.X.Type(), fa.Field)
					if !repeatable[fn] {
						bad++
						c.ob("C42.b order-independent", "(*packets.Properties).Decode reads previously decoded field p."+fn, c.pos(u.Pos()), false,
							"decoding a property depends on another property's value, so the result depends on the order the sender chose")
					}
				}
			}
		}
		if bad == 0 {
			c.ob("C42.b order-independent", "(*packets.Properties).Decode: no case reads decoded state except the repeatable User / SubscriptionIdentifier", c.pos(f.Pos()), true, "")
		}
		// the loop is driven by the identifier byte at the running offset
		loopOK := false
		for _, ci := range c.callsNamed(f, "packets.decodeByte") {
			if call, ok := ci.(*ssa.Call); ok {
				if p, isPhi := call.Call.Args[1].(*ssa.Phi); isPhi && canonName(p, p.Comment) == "offset" {
					loopOK = true
				}
			}
		}
		c.ob("C42.b order-independent", "(*packets.Properties).Decode: each iteration reads the identifier at the running offset", c.pos(f.Pos()), loopOK, "")
	}
	// (c) 0x04 reaches the will path
	if f := c.fn("mqtt", "(*Server).processDisconnect"); f != nil {
		found := false
		for _, r := range returns(f) {
			if describe(rvs(r)[0]) == "packets.CodeDisconnectWillMessage" {
				found = true
				ok := dominatedByFact(r, func(t string) bool { return t == "pk.ReasonCode == packets.CodeDisconnectWillMessage.Code" }, true)
				c.ob("C42.c will-disconnect", "(*mqtt.Server).processDisconnect: returns CodeDisconnectWillMessage exactly on ReasonCode == 0x04", c.pos(r.Pos()), ok, "")
			}
		}
		if !found {
			c.ob("C42.c will-disconnect", "(*mqtt.Server).processDisconnect: returns CodeDisconnectWillMessage exactly on ReasonCode == 0x04", c.pos(f.Pos()), false, "no return of CodeDisconnectWillMessage: reason 0x04 is handled like a normal disconnect")
		}
		// the code value is 0x04
		c.codeIs("C42.c will-disconnect", "CodeDisconnectWillMessage", 0x04)
	}
}

func parseInt(s string) (int64, error) {
	var n int64
	_, err := fmt.Sscanf(s, "%d", &n)
	if err == nil && fmt.Sprint(n) != s {
		return 0, fmt.Errorf("not an int")
	}
	return n, err
}

func (c *Ctx) codeIs(rule, name string, want int64) {
	vals := c.codeValuesAST()
	got, ok := vals[name]
	c.ob(rule, fmt.Sprintf("packets.%s has code 0x%02X", name, want), "", ok && got == want, fmt.Sprintf("found 0x%02X (present=%v)", got, ok))
}

// ---- C26 -----------------------------------------------------------------------------------

func init() {
	register(&Prop{
		ID:        "C26",
		Title:     "Packet codec round-trips every well-formed packet",
		Technique: "table agreement between Properties.Encode, Properties.Decode and validPacketProperties; Encode/Decode dispatch exhaustiveness; remaining-length provenance",
		Explanation: "(a) for every Prop* identifier: one branch in Properties.Encode, one case in Properties.Decode and one entry in validPacketProperties; " +
			"both sides use the same struct field and the matching wire type (encodeUint32/decodeUint32, encodeString/decodeString, …) and a *Flag field is set on decode exactly when it is tested on encode; " +
			"(b) every per-type Encode writes FixedHeader.Remaining from the length of the body buffer it then writes; " +
			"(c) the type switches of ReadPacket and WritePacket cover packet types 1..15 with the matching Decode/Encode method.",
		NotDecided: []string{"equality of decoded and original packets (value level)", "per-type field order of the variable headers (only dispatch, properties and remaining length are decided)"},
		Run:        runC26,
	})
}

type propUse struct {
	wire  string
	field string
	flags []string
	pos   token.Pos
}

func runC26(c *Ctx) {
	propNames := c.byteConsts("packets", func(n string) bool { return strings.HasPrefix(n, "Prop") })
	c.floor("C26.a property identifiers", len(propNames), 27)
	enc := c.fn("packets", "(*Properties).Encode")
	dec := c.fn("packets", "(*Properties).Decode")
	if enc == nil || dec == nil {
		return
	}
	wireOfEnc := map[string]string{"packets.encodeUint32": "uint32", "packets.encodeUint16": "uint16", "packets.encodeString": "string",
		"packets.encodeBytes": "bytes", "packets.encodeLength": "varint"}
	wireOfDec := map[string]string{"packets.decodeUint32": "uint32", "packets.decodeUint16": "uint16", "packets.decodeString": "string",
		"packets.decodeBytes": "bytes", "packets.DecodeLength": "varint", "packets.decodeByte": "byte", "packets.decodeByteBool": "byte"}

	var fieldOf func(v ssa.Value) string
	fieldOf = func(v ssa.Value) string {
		v = stripConv(v)
		d := describe(v)
		if !strings.Contains(d, "p.") {
			// a range variable copied into a local: follow the store into the local
			var root ssa.Value = v
			for {
				switch x := root.(type) {
				case *ssa.UnOp:
					root = x.X
					continue
				case *ssa.FieldAddr:
					root = x.X
					continue
				}
				break
			}
			if a, ok := root.(*ssa.Alloc); ok {
				for _, ref := range *a.Referrers() {
					if st, ok := ref.(*ssa.Store); ok && st.Addr == ssa.Value(a) {
						if f := fieldOf(st.Val); f != "" {
							return f
						}
					}
				}
			}
			return ""
		}
		// p.Field, or element of p.Field in a range loop
		if i := strings.Index(d, "p."); i >= 0 {
			rest := d[i+2:]
			j := strings.IndexAny(rest, ".[ )")
			if j < 0 {
				j = len(rest)
			}
			return rest[:j]
		}
		return ""
	}
	// --- encoder side
	encUse := map[int64][]propUse{}
	for _, ci := range c.callsNamed(enc, "(*bytes.Buffer).WriteByte") {
		call := ci.(*ssa.Call)
		k, isC := constInt(call.Call.Args[1])
		if !isC {
			continue
		}
		if _, isProp := propNames[k]; !isProp {
			continue
		}
		// following writes to the same buffer in the same block (and, for range loops, up to the loop back edge)
		blk := call.Block()
		var uses []propUse
		for _, ins := range blk.Instrs[idxIn(call)+1:] {
			cc := callOf(ins)
			if cc == nil {
				continue
			}
			switch cname(cc) {
			case "(*bytes.Buffer).WriteByte":
				if _, again := constInt(cc.Args[1]); again {
					continue
				}
				uses = append(uses, propUse{wire: "byte", field: fieldOf(cc.Args[1]), pos: ins.Pos()})
			case "(*bytes.Buffer).Write":
				if inner, ok := cc.Args[1].(*ssa.Call); ok {
					if w, ok := wireOfEnc[cname(&inner.Call)]; ok {
						uses = append(uses, propUse{wire: w, field: fieldOf(inner.Call.Args[0]), pos: ins.Pos()})
					}
				}
			case "packets.encodeLength":
				uses = append(uses, propUse{wire: "varint", field: fieldOf(cc.Args[1]), pos: ins.Pos()})
			}
		}
		// ReasonString: encodeString is computed before the size test
		if len(uses) == 0 {
			for _, ins := range blk.Instrs[idxIn(call)+1:] {
				if cc := callOf(ins); cc != nil && cname(cc) == "(*bytes.Buffer).Write" {
					if inner, ok := stripConv(cc.Args[1]).(*ssa.Call); ok {
						if w, ok := wireOfEnc[cname(&inner.Call)]; ok {
							uses = append(uses, propUse{wire: w, field: fieldOf(inner.Call.Args[0]), pos: ins.Pos()})
						}
					}
				}
			}
		}
		// guard flags: *Flag fields of p tested on the way from canEncode(k) to this block
		var flags []string
		for _, ed := range edgeDoms(call) {
			t, _, _ := condOf(ed.b)
			if strings.HasPrefix(t, "p.") && strings.HasSuffix(strings.Fields(t)[0], "Flag") && ed.truth {
				flags = append(flags, strings.TrimPrefix(strings.Fields(t)[0], "p."))
			}
		}
		for i := range uses {
			uses[i].flags = flags
		}
		if len(uses) == 0 {
			uses = []propUse{{wire: "?", pos: call.Pos(), flags: flags}}
		}
		encUse[k] = append(encUse[k], uses...)
	}
	// canEncode(pkt, k) guards
	canEnc := map[int64]bool{}
	for _, ci := range c.callsNamed(enc, "(*packets.Properties).canEncode") {
		if k, ok := constInt(ci.Common().Args[2]); ok {
			canEnc[k] = true
		}
	}
	// --- decoder side
	decUse := map[int64][]propUse{}
	for _, b := range dec.Blocks {
		if len(b.Instrs) == 0 {
			continue
		}
		ifi, ok := b.Instrs[len(b.Instrs)-1].(*ssa.If)
		if !ok {
			continue
		}
		bo, ok := ifi.Cond.(*ssa.BinOp)
		if !ok || bo.Op != token.EQL {
			continue
		}
		k, isC := constInt(bo.Y)
		if !isC || !strings.HasPrefix(describe(bo.X), "packets.decodeByte(") {
			continue
		}
		// case body: blocks reachable from succ0 until the switch.done join (the block with the big phi)
		body := caseBody(b.Succs[0])
		var uses []propUse
		var flags []string
		for _, bb := range body {
			for _, ins := range bb.Instrs {
				if st, ok := ins.(*ssa.Store); ok {
					if fa, ok := st.Addr.(*ssa.FieldAddr); ok && describe(fa.X) == "p" {
						fn := fieldName(fa.X.Type(), fa.Field)
						if kk, isC := st.Val.(*ssa.Const); isC && kk.Value != nil && kk.Value.Kind() == constant.Bool {
							if constant.BoolVal(kk.Value) && strings.HasSuffix(fn, "Flag") {
								flags = append(flags, fn)
							}
							continue
						}
						// value provenance: extract #0 of a decode helper, or append(...) of one
						w := wireOfValue(st.Val, wireOfDec, 0)
						if w != "" {
							for _, ww := range strings.Split(w, ",") {
								uses = append(uses, propUse{wire: ww, field: fn, pos: st.Pos()})
							}
						}
					}
				}
			}
		}
		sort.Strings(flags)
		for i := range uses {
			uses[i].flags = flags
		}
		decUse[k] = uses
	}
	// --- validPacketProperties keys
	valid := map[int64]bool{}
	if sp := c.SSA[modPath+"/packets"]; sp != nil {
		if initf := sp.Func("init"); initf != nil {
			for _, ins := range instrs(initf) {
				if mu, ok := ins.(*ssa.MapUpdate); ok {
					if k, isC := constInt(mu.Key); isC {
						if _, isMap := mu.Value.Type().Underlying().(*types.Map); isMap || strings.Contains(mu.Value.Type().String(), "map[") {
							valid[k] = true
						}
					}
				}
			}
		}
	}
	var ks []int64
	for k := range propNames {
		ks = append(ks, k)
	}
	sort.Slice(ks, func(i, j int) bool { return ks[i] < ks[j] })
	for _, k := range ks {
		name := propNames[k]
		e, d := encUse[k], decUse[k]
		c.ob("C26.a property-table", fmt.Sprintf("%s (%d): branch in Properties.Encode guarded by canEncode", name, k), c.pos(enc.Pos()), len(e) > 0 && canEnc[k], "")
		c.ob("C26.a property-table", fmt.Sprintf("%s (%d): case in Properties.Decode", name, k), c.pos(dec.Pos()), len(d) > 0, "")
		c.ob("C26.a property-table", fmt.Sprintf("%s (%d): entry in validPacketProperties", name, k), "", valid[k], "")
		if len(e) == 0 || len(d) == 0 {
			continue
		}
		es, ds := useSig(e), useSig(d)
		c.ob("C26.a property-wire-agreement", fmt.Sprintf("%s (%d): encoder and decoder use the same field and wire type", name, k), c.pos(e[0].pos), es == ds,
			fmt.Sprintf("encode: %s; decode: %s", es, ds))
		ef, df := strings.Join(e[0].flags, ","), strings.Join(d[0].flags, ",")
		c.ob("C26.a property-flag-agreement", fmt.Sprintf("%s (%d): presence flag set on decode iff tested on encode", name, k), c.pos(e[0].pos), ef == df,
			fmt.Sprintf("encode tests [%s]; decode sets [%s]", ef, df))
	}

	// (b) Remaining provenance in every XEncode
	c.remainingProvenance()
	// (c) dispatch exhaustiveness
	c.dispatchExhaustive()
	// (d) the codec keeps no mutable package-level state
	c.codecStateless()
}

// codecStateless: encoders/decoders run concurrently (one goroutine per client); a package-level
// variable of package packets that is written, or whose storage is sliced/indexed in place, outside
// init is shared scratch state and corrupts concurrently encoded packets.
func (c *Ctx) codecStateless() {
	sp := c.SSA[modPath+"/packets"]
	if sp == nil {
		return
	}
	nf, bad := 0, 0
	for _, fn := range c.ModFns {
		if fnPkgPath(fn) != modPath+"/packets" || fn.Name() == "init" || strings.HasPrefix(fn.Name(), "init#") {
			continue
		}
		nf++
		for _, ins := range instrs(fn) {
			switch x := ins.(type) {
			case *ssa.Store:
				if g := rootGlobal(x.Addr); g != nil && g.Pkg == sp {
					bad++
					c.ob("C26.d codec-stateless", fmt.Sprintf("%s writes package-level variable packets.%s", fname(fn), g.Name()), c.pos(x.Pos()), false, "shared mutable state in the codec: concurrent encoders/decoders corrupt each other's packets")
				}
			case *ssa.Slice:
				if g, ok := x.X.(*ssa.Global); ok && g.Pkg == sp {
					bad++
					c.ob("C26.d codec-stateless", fmt.Sprintf("%s slices the storage of package-level variable packets.%s", fname(fn), g.Name()), c.pos(x.Pos()), false, "a package-level scratch buffer is shared by all goroutines that encode or decode")
				}
			case *ssa.IndexAddr:
				if g, ok := x.X.(*ssa.Global); ok && g.Pkg == sp {
					bad++
					c.ob("C26.d codec-stateless", fmt.Sprintf("%s takes the address of an element of package-level variable packets.%s", fname(fn), g.Name()), c.pos(x.Pos()), false, "a package-level scratch buffer is shared by all goroutines that encode or decode")
				}
			case *ssa.MapUpdate:
				if g := rootGlobal(x.Map); g != nil && g.Pkg == sp {
					bad++
					c.ob("C26.d codec-stateless", fmt.Sprintf("%s updates package-level map packets.%s", fname(fn), g.Name()), c.pos(x.Pos()), false, "shared mutable state in the codec")
				}
			}
		}
	}
	c.floor("C26.d functions of package packets examined", nf, 60)
	if bad == 0 {
		c.ob("C26.d codec-stateless", "package packets: no function outside init writes or aliases package-level storage", "", true, fmt.Sprintf("%d functions", nf))
	}
}

func rootGlobal(v ssa.Value) *ssa.Global {
	for i := 0; i < 10; i++ {
		switch x := v.(type) {
		case *ssa.Global:
			return x
		case *ssa.FieldAddr:
			v = x.X
		case *ssa.IndexAddr:
			v = x.X
		case *ssa.UnOp:
			v = x.X
		default:
			return nil
		}
	}
	return nil
}

func useSig(us []propUse) string {
	var parts []string
	for _, u := range us {
		parts = append(parts, u.wire+":"+u.field)
	}
	return strings.Join(parts, " ")
}

func caseBody(start *ssa.BasicBlock) []*ssa.BasicBlock {
	var out []*ssa.BasicBlock
	seen := map[*ssa.BasicBlock]bool{}
	var walk func(b *ssa.BasicBlock)
	walk = func(b *ssa.BasicBlock) {
		if seen[b] || b.Comment == "switch.done" || len(b.Preds) > 8 {
			return
		}
		seen[b] = true
		out = append(out, b)
		for _, s := range b.Succs {
			walk(s)
		}
	}
	walk(start)
	return out
}

func wireOfValue(v ssa.Value, table map[string]string, depth int) string {
	if depth > 6 {
		return ""
	}
	switch x := v.(type) {
	case *ssa.Extract:
		if call, ok := x.Tuple.(*ssa.Call); ok && x.Index == 0 {
			if w, ok := table[cname(&call.Call)]; ok {
				return w
			}
		}
	case *ssa.Call:
		if cname(&x.Call) == "builtin.append" && len(x.Call.Args) == 2 {
			return wireOfValue(x.Call.Args[1], table, depth+1)
		}
	case *ssa.Slice:
		return wireOfValue(x.X, table, depth+1)
	case *ssa.Alloc:
		// varargs / composite literal: collect stores into it
		var ws []string
		for _, ref := range *x.Referrers() {
			switch r := ref.(type) {
			case *ssa.IndexAddr:
				for _, rr := range *r.Referrers() {
					if st, ok := rr.(*ssa.Store); ok {
						if w := wireOfValue(st.Val, table, depth+1); w != "" {
							ws = append(ws, w)
						}
					}
				}
			case *ssa.FieldAddr:
				for _, rr := range *r.Referrers() {
					if st, ok := rr.(*ssa.Store); ok {
						if w := wireOfValue(st.Val, table, depth+1); w != "" {
							ws = append(ws, w)
						}
					}
				}
			case *ssa.Store:
				if r.Addr == ssa.Value(x) {
					if w := wireOfValue(r.Val, table, depth+1); w != "" {
						ws = append(ws, w)
					}
				}
			}
		}
		return strings.Join(ws, ",")
	case *ssa.UnOp:
		if x.Op == token.MUL {
			return wireOfValue(x.X, table, depth+1)
		}
	case *ssa.Convert:
		return wireOfValue(x.X, table, depth+1)
	case *ssa.ChangeType:
		return wireOfValue(x.X, table, depth+1)
	case *ssa.MakeInterface:
		return wireOfValue(x.X, table, depth+1)
	}
	return ""
}

func (c *Ctx) remainingProvenance() {
	pkT := c.namedType("packets", "Packet")
	if pkT == nil {
		return
	}
	ms := c.Prog.MethodSets.MethodSet(types.NewPointer(pkT))
	n := 0
	for i := 0; i < ms.Len(); i++ {
		name := ms.At(i).Obj().Name()
		if !(strings.HasSuffix(name, "Encode") || name == "encodePubAckRelRecComp") {
			continue
		}
		f := c.Prog.MethodValue(ms.At(i))
		if f == nil || f.Blocks == nil {
			continue
		}
		c.fnsSeen[f] = true
		// wrappers that just delegate
		if len(c.callsNamed(f, "(*packets.Packet).encodePubAckRelRecComp")) > 0 {
			continue
		}
		fhEnc := c.callsNamed(f, "(*packets.FixedHeader).Encode")
		if len(fhEnc) == 0 {
			c.ob("C26.b remaining-length", fname(f)+": writes the fixed header", c.pos(f.Pos()), false, "no call of FixedHeader.Encode")
			continue
		}
		if name == "PingreqEncode" || name == "PingrespEncode" {
			n++
			c.ob("C26.b remaining-length", fname(f)+": header-only packet", c.pos(f.Pos()), true, "")
			continue
		}
		n++
		// store to pk.FixedHeader.Remaining of nb.Len() [+ len(pk.Payload)] dominating FixedHeader.Encode; then buf.Write(nb.Bytes()) [+ payload]
		var st *ssa.Store
		for _, ins := range instrs(f) {
			if s, ok := ins.(*ssa.Store); ok && describe(s.Addr) == "pk.FixedHeader.Remaining" {
				st = s
			}
		}
		if st == nil {
			c.ob("C26.b remaining-length", fname(f)+": Remaining is computed from the body buffer", c.pos(f.Pos()), false, "no store to pk.FixedHeader.Remaining")
			continue
		}
		val := describe(st.Val)
		okVal := val == "(*bytes.Buffer).Len(mempool.GetBuffer())" || val == "(*bytes.Buffer).Len(mempool.GetBuffer()) + builtin.len(pk.Payload)"
		// the buffer whose Len is taken must be the one written after the header
		var lenBuf ssa.Value
		walkVal(st.Val, func(v ssa.Value) {
			if call, ok := v.(*ssa.Call); ok && cname(&call.Call) == "(*bytes.Buffer).Len" {
				lenBuf = call.Call.Args[0]
			}
		})
		wroteBody, wrotePayload := false, false
		for _, ci := range c.callsNamed(f, "(*bytes.Buffer).Write") {
			cc := ci.Common()
			if describe(cc.Args[0]) != "buf" || !domInstr(fhEnc[0], ci) {
				continue
			}
			if inner, ok := cc.Args[1].(*ssa.Call); ok && cname(&inner.Call) == "(*bytes.Buffer).Bytes" && inner.Call.Args[0] == lenBuf {
				wroteBody = true
			}
			if describe(cc.Args[1]) == "pk.Payload" {
				wrotePayload = true
			}
		}
		needPayload := strings.Contains(val, "pk.Payload")
		ok := okVal && lenBuf != nil && domInstr(st, fhEnc[0]) && wroteBody && wrotePayload == needPayload
		// nothing is written to the body buffer after its length was taken
		late := false
		for _, ins := range instrs(f) {
			if cc := callOf(ins); cc != nil && len(cc.Args) > 0 && lenBuf != nil && cc.Args[0] == lenBuf && strings.HasPrefix(cname(cc), "(*bytes.Buffer).Write") {
				if _, isDefer := ins.(*ssa.Defer); !isDefer && reachableFrom(st, ins) {
					late = true
				}
			}
		}
		c.ob("C26.b remaining-length", fname(f)+": Remaining = length of exactly the bytes written after the header", c.pos(st.Pos()), ok && !late,
			fmt.Sprintf("Remaining <- %s; body written=%v payload written=%v late body write=%v", val, wroteBody, wrotePayload, late))
	}
	c.floor("C26.b per-type encoders", n, 10)
}

func walkVal(v ssa.Value, f func(ssa.Value)) {
	seen := map[ssa.Value]bool{}
	var w func(ssa.Value, int)
	w = func(x ssa.Value, d int) {
		if x == nil || seen[x] || d > 10 {
			return
		}
		seen[x] = true
		f(x)
		if ins, ok := x.(ssa.Instruction); ok {
			for _, op := range ins.Operands(nil) {
				if *op != nil {
					w(*op, d+1)
				}
			}
		}
	}
	w(v, 0)
}

func (c *Ctx) dispatchExhaustive() {
	types_ := c.pktTypes()
	for _, spec := range []struct{ fn, suffix string }{{"(*Client).ReadPacket", "Decode"}, {"(*Client).WritePacket", "Encode"}} {
		f := c.fn("mqtt", spec.fn)
		if f == nil {
			continue
		}
		got := map[int64]string{}
		for _, b := range f.Blocks {
			if len(b.Instrs) == 0 {
				continue
			}
			ifi, ok := b.Instrs[len(b.Instrs)-1].(*ssa.If)
			if !ok {
				continue
			}
			bo, ok := ifi.Cond.(*ssa.BinOp)
			if !ok || bo.Op != token.EQL || describe(bo.X) != "pk.FixedHeader.Type" {
				continue
			}
			k, isC := constInt(bo.Y)
			if !isC {
				continue
			}
			if g, seen := got[k]; !seen || g == "-" {
				got[k] = "-"
			} else {
				continue
			}
			for _, ins := range b.Succs[0].Instrs {
				if cc := callOf(ins); cc != nil && strings.HasSuffix(cname(cc), spec.suffix) && strings.HasPrefix(cname(cc), "(*packets.Packet).") {
					got[k] = strings.TrimPrefix(cname(cc), "(*packets.Packet).")
				}
			}
		}
		var ks []int64
		for k := range types_ {
			ks = append(ks, k)
		}
		sort.Slice(ks, func(i, j int) bool { return ks[i] < ks[j] })
		for _, k := range ks {
			want := types_[k] + spec.suffix
			g, present := got[k]
			ok := present && (g == want || (spec.suffix == "Decode" && (types_[k] == "Pingreq" || types_[k] == "Pingresp") && g == "-"))
			c.ob("C26.c dispatch", fmt.Sprintf("%s: case %s → %s", fname(f), types_[k], want), c.pos(f.Pos()), ok, fmt.Sprintf("found %q", g))
		}
	}
}
