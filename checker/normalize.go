package main

// Normalisation of helper functions that do not exist in the reference tree.
//
// The rules look at the handlers' own control flow ("every path from entry to a nil return crosses WritePacket",
// "the store is guarded by the comparison"). A behaviour-preserving refactoring that extracts a condition, a
// constructor or a block of a handler into a new helper would move the construct out of sight and make the rule
// report a violation although nothing changed. Before the rules run, every static call of a module function that is
// NOT in refnames.json (i.e. a function the reference tree does not have) is therefore inlined back into its caller
// at source level, using a verbatim copy of golang.org/x/tools' gopls inliner (internal/xt/refactor/inline), which
// preserves semantics (argument evaluation order, shadowing, multiple returns — falling back to a function literal
// where necessary). Declarations that have no remaining references are dropped. The result lives only in a
// go/packages overlay; nothing is written to the repository. On a tree without new functions this is a no-op.
// If anything fails (a helper that cannot be inlined, a type error in the result) the original source is analysed
// and the failure is recorded in the evidence.

import (
	"bytes"
	"fmt"
	"go/ast"
	"go/format"
	"go/token"
	"go/types"
	"os"
	"regexp"
	"sort"
	"strings"

	"golang.org/x/tools/go/packages"
	"golang.org/x/tools/go/types/typeutil"

	"mqttverif/internal/xt/refactor/inline"
)

type normReport struct {
	NewFuncs  []string // functions of the module that the reference tree does not have
	Inlined   []string // "callee into caller-file" records
	Dropped   []string // declarations removed after their last call was inlined
	Failed    []string // why normalisation was abandoned or partial
	Overlay   map[string][]byte
	Renamed   []string // caller variables renamed because they shadowed a type name the callee needs
	FuncRenames []string // functions analysed under the name they have in the reference tree (rename.go)
	HandLits  int      // hand-written immediately-invoked literals turned into blocks
	Literal   int
	Delit     int // function literals turned back into blocks
	Rounds    int
	Abandoned bool
}

func isModPkg(path string) bool {
	if path != modPath && !strings.HasPrefix(path, modPath+"/") {
		return false
	}
	return !strings.HasPrefix(path, modPath+"/examples") && !strings.HasPrefix(path, modPath+"/cmd")
}

func funcKey(f *types.Func) string { return shorten(f.FullName()) }

// normalizeNewHelpers returns the overlay (possibly empty) to analyse instead of the files on disk.
func normalizeNewHelpers(repo string, first []*packages.Package, ref map[string]refFn) *normReport {
	rep := &normReport{Overlay: map[string][]byte{}}
	if len(ref) == 0 {
		return rep
	}
	newFuncs := func(pkgs []*packages.Package) map[string]bool {
		out := map[string]bool{}
		for _, p := range pkgs {
			if !isModPkg(p.PkgPath) || p.TypesInfo == nil {
				continue
			}
			for _, f := range p.Syntax {
				for _, d := range f.Decls {
					fd, ok := d.(*ast.FuncDecl)
					if !ok || fd.Body == nil || fd.Name.Name == "init" || fd.Name.Name == "main" {
						continue
					}
					obj, ok := p.TypesInfo.Defs[fd.Name].(*types.Func)
					if !ok {
						continue
					}
					if fd.Type.TypeParams != nil {
						continue
					}
					if sig := obj.Type().(*types.Signature); sig.Recv() != nil {
						// methods of generic types are not inlined
						if n, ok := derefNamed(sig.Recv().Type()); ok && n.TypeParams() != nil {
							continue
						}
					}
					if _, known := ref[funcKey(obj)]; !known {
						out[funcKey(obj)] = true
					}
				}
			}
		}
		return out
	}
	content := func(name string) []byte {
		if b, ok := rep.Overlay[name]; ok {
			return b
		}
		b, _ := os.ReadFile(name)
		return b
	}
	pkgs := first
	// reference functions that live on under a new name get their reference name back (rename.go)
	if pairs := matchRenamed(pkgs, ref); len(pairs) > 0 {
		if files := applyRenames(pkgs, pairs, content); len(files) > 0 {
			for name, b := range files {
				rep.Overlay[name] = b
			}
			p2, err := loadPkgs(repo, packages.LoadSyntax, rep.Overlay)
			if err != nil || hasErrors(p2) != "" {
				rep.Failed = append(rep.Failed, "restoring reference names of renamed functions broke the build ("+firstLine(hasErrors(p2))+"): names kept")
				rep.Overlay = map[string][]byte{}
			} else {
				pkgs = p2
				for _, pr := range pairs {
					rep.FuncRenames = append(rep.FuncRenames, pr.from+" analysed as "+pr.to)
				}
				sort.Strings(rep.FuncRenames)
			}
		}
	}
	nf := newFuncs(pkgs)
	for k := range nf {
		rep.NewFuncs = append(rep.NewFuncs, k)
	}
	sort.Strings(rep.NewFuncs)
	// The inliner tidies imports with goimports, which guesses a package's name from its import path and deletes
	// `import "…/server/v2"` (package mqtt) as unused. Such imports get their name written out first.
	if len(nf) > 0 {
		if files := nameImplicitImports(pkgs); len(files) > 0 {
			saved := map[string][]byte{}
			for name, b := range files {
				saved[name] = rep.Overlay[name]
				rep.Overlay[name] = b
			}
			p2, err := loadPkgs(repo, packages.LoadSyntax, rep.Overlay)
			if err != nil || hasErrors(p2) != "" {
				for name, b := range saved {
					if b == nil {
						delete(rep.Overlay, name)
					} else {
						rep.Overlay[name] = b
					}
				}
			} else {
				pkgs = p2
			}
		}
	}

	renamedOnce := map[string]bool{}
	const maxRounds = 60 // one call per file and round: a pull-request-sized refactoring brings dozens of helper calls
	for round := 0; round < maxRounds; round++ {
		rep.Rounds = round + 1
		// declarations of the new functions in this load
		type declInfo struct {
			pkg  *packages.Package
			file string
			decl *ast.FuncDecl
		}
		decls := map[string]declInfo{}
		for _, p := range pkgs {
			if !isModPkg(p.PkgPath) || p.TypesInfo == nil {
				continue
			}
			for i, f := range p.Syntax {
				for _, d := range f.Decls {
					if fd, ok := d.(*ast.FuncDecl); ok && fd.Body != nil {
						if obj, ok := p.TypesInfo.Defs[fd.Name].(*types.Func); ok && nf[funcKey(obj)] {
							decls[funcKey(obj)] = declInfo{p, p.CompiledGoFiles[i], fd}
						}
					}
				}
			}
		}
		changed := false
		for _, p := range pkgs {
			if !isModPkg(p.PkgPath) || p.TypesInfo == nil {
				continue
			}
			for i, f := range p.Syntax {
				fname := p.CompiledGoFiles[i]
				// one call per file and round: the first call of a new helper that is not inside that helper itself
				var call *ast.CallExpr
				var calleeKey string
				var enclosing string
				for _, d := range f.Decls {
					fd, ok := d.(*ast.FuncDecl)
					if !ok || fd.Body == nil || call != nil {
						continue
					}
					self := ""
					if obj, ok := p.TypesInfo.Defs[fd.Name].(*types.Func); ok {
						self = funcKey(obj)
					}
					ast.Inspect(fd.Body, func(n ast.Node) bool {
						if call != nil {
							return false
						}
						ce, ok := n.(*ast.CallExpr)
						if !ok {
							return true
						}
						if callee := typeutil.StaticCallee(p.TypesInfo, ce); callee != nil {
							k := funcKey(callee)
							if nf[k] && k != self {
								if _, have := decls[k]; have {
									call, calleeKey, enclosing = ce, k, self
									return false
								}
							}
						}
						return true
					})
				}
				if call == nil {
					continue
				}
				di := decls[calleeKey]
				callee, err := inline.AnalyzeCallee(func(string, ...any) {}, di.pkg.Fset, di.pkg.Types, di.pkg.TypesInfo, di.decl, content(di.file))
				if err != nil {
					rep.Failed = append(rep.Failed, fmt.Sprintf("analyse %s: %v", calleeKey, err))
					delete(nf, calleeKey)
					continue
				}
				res, err := inline.Inline(&inline.Caller{Fset: p.Fset, Types: p.Types, Info: p.TypesInfo, File: f, Call: call, Content: content(fname)}, callee, &inline.Options{})
				if err != nil {
					// "callee refers to typename T, which in the caller is shadowed by a var": rename that variable in
					// the caller (a pure renaming) and try again in the next round
					if m := shadowRe.FindStringSubmatch(err.Error()); m != nil && !renamedOnce[fname+"/"+m[1]] {
						if out, ok := renameShadowingVar(p, f, m[1]); ok {
							renamedOnce[fname+"/"+m[1]] = true
							rep.Overlay[fname] = out
							rep.Renamed = append(rep.Renamed, m[1]+" in "+enclosing)
							changed = true
							continue
						}
					}
					rep.Failed = append(rep.Failed, fmt.Sprintf("inline %s into %s: %v", calleeKey, enclosing, err))
					delete(nf, calleeKey)
					continue
				}
				if res.Literalized {
					rep.Literal++
				}
				rep.Overlay[fname] = res.Content
				rep.Inlined = append(rep.Inlined, calleeKey+" into "+enclosing)
				changed = true
			}
		}
		if !changed {
			break
		}
		var err error
		pkgs, err = loadPkgs(repo, packages.LoadSyntax, rep.Overlay)
		if err != nil || hasErrors(pkgs) != "" {
			rep.Failed = append(rep.Failed, "result of inlining does not type-check: "+hasErrors(pkgs))
			if d := os.Getenv("VERIF_DUMP_NORM"); d != "" {
				os.MkdirAll(d+"/failed", 0o755)
				for name, b := range rep.Overlay {
					os.WriteFile(d+"/failed/"+strings.ReplaceAll(strings.TrimPrefix(name, repo+"/"), "/", "__"), b, 0o644)
				}
			}
			rep.Abandoned = true
			rep.Overlay = map[string][]byte{}
			return rep
		}
	}
	// function literals the inliner had to produce are turned back into blocks where that is safe (delit.go)
	// … and so are hand-written ones, except those the reference tree has itself (keepLiteral in delit.go)
	{
		setRefLoopVars(ref)
		saved := map[string][]byte{}
		n := 0
		for _, p := range pkgs {
			if !isModPkg(p.PkgPath) {
				continue
			}
			for _, name := range p.CompiledGoFiles {
				src := content(name)
				if !bytes.Contains(src, []byte("}()")) && !bytes.Contains(src, []byte("++ {")) && !bytes.Contains(src, []byte("min(")) && !bytes.Contains(src, []byte("max(")) && !bytes.Contains(src, []byte("maps.Copy(")) {
					continue
				}
				if out, k := deliteralize(name, src); k > 0 {
					saved[name] = rep.Overlay[name]
					rep.Overlay[name] = out
					n += k
				}
			}
		}
		if n > 0 {
			p2, err := loadPkgs(repo, packages.LoadSyntax, rep.Overlay)
			if err != nil || hasErrors(p2) != "" {
				for name, b := range saved {
					if b == nil {
						delete(rep.Overlay, name)
					} else {
						rep.Overlay[name] = b
					}
				}
				rep.Failed = append(rep.Failed, "turning inlined function literals into blocks broke the build ("+firstLine(hasErrors(p2))+"): literals kept")
			} else {
				pkgs = p2
				rep.Delit = n
			}
		}
	}
	// drop declarations without remaining references
	used := map[string]bool{}
	for _, p := range pkgs {
		if p.TypesInfo == nil {
			continue
		}
		for _, obj := range p.TypesInfo.Uses {
			if f, ok := obj.(*types.Func); ok && nf[funcKey(f)] {
				used[funcKey(f)] = true
			}
		}
	}
	type cut struct{ from, to int }
	cuts := map[string][]cut{}
	for _, p := range pkgs {
		if !isModPkg(p.PkgPath) || p.TypesInfo == nil {
			continue
		}
		for i, f := range p.Syntax {
			for _, d := range f.Decls {
				fd, ok := d.(*ast.FuncDecl)
				if !ok || fd.Body == nil {
					continue
				}
				obj, ok := p.TypesInfo.Defs[fd.Name].(*types.Func)
				if !ok || !nf[funcKey(obj)] || used[funcKey(obj)] {
					continue
				}
				// an unreferenced method may still satisfy an interface: only plain functions and unexported methods go
				if fd.Recv != nil && ast.IsExported(fd.Name.Name) {
					continue
				}
				start := fd.Pos()
				if fd.Doc != nil {
					start = fd.Doc.Pos()
				}
				tf := p.Fset.File(start)
				cuts[p.CompiledGoFiles[i]] = append(cuts[p.CompiledGoFiles[i]], cut{tf.Offset(start), tf.Offset(fd.End())})
				rep.Dropped = append(rep.Dropped, funcKey(obj))
			}
		}
	}
	if len(cuts) > 0 {
		saved := map[string][]byte{}
		for name, cs := range cuts {
			src := content(name)
			saved[name] = rep.Overlay[name]
			sort.Slice(cs, func(i, j int) bool { return cs[i].from > cs[j].from })
			for _, c := range cs {
				if c.from >= 0 && c.to <= len(src) && c.from < c.to {
					src = append(append([]byte{}, src[:c.from]...), src[c.to:]...)
				}
			}
			rep.Overlay[name] = src
		}
		p2, err := loadPkgs(repo, packages.LoadSyntax, rep.Overlay)
		if err != nil || hasErrors(p2) != "" {
			// e.g. an import became unused: keep the declarations
			for name, b := range saved {
				if b == nil {
					delete(rep.Overlay, name)
				} else {
					rep.Overlay[name] = b
				}
			}
			rep.Failed = append(rep.Failed, "dropping the inlined declarations broke the build ("+firstLine(hasErrors(p2))+"): declarations kept")
			rep.Dropped = nil
		}
	}
	sort.Strings(rep.Dropped)
	return rep
}

var shadowRe = regexp.MustCompile(`typename "(\w+)", which in the caller is shadowed by a var`)

// renameShadowingVar renames, in the whole file, every local variable called name (all its declarations inside
// function bodies) to name+"Var": a pure renaming that frees the type name for the inliner.
func renameShadowingVar(p *packages.Package, f *ast.File, name string) ([]byte, bool) {
	fresh := name + "Var"
	n := 0
	ast.Inspect(f, func(nd ast.Node) bool {
		id, ok := nd.(*ast.Ident)
		if !ok || id.Name != name {
			return true
		}
		var obj types.Object
		if o := p.TypesInfo.Defs[id]; o != nil {
			obj = o
		} else if o := p.TypesInfo.Uses[id]; o != nil {
			obj = o
		}
		if v, isVar := obj.(*types.Var); isVar && !v.IsField() && v.Parent() != nil && v.Parent() != p.Types.Scope() {
			id.Name = fresh
			n++
		}
		return true
	})
	if n == 0 {
		return nil, false
	}
	var buf bytes.Buffer
	if err := format.Node(&buf, p.Fset, f); err != nil {
		return nil, false
	}
	return buf.Bytes(), true
}

func firstLine(s string) string {
	if i := strings.IndexByte(s, '\n'); i >= 0 {
		return s[:i]
	}
	return s
}

func derefNamed(t types.Type) (*types.Named, bool) {
	if p, ok := t.(*types.Pointer); ok {
		t = p.Elem()
	}
	n, ok := t.(*types.Named)
	return n, ok
}

func loadPkgs(repo string, mode packages.LoadMode, overlay map[string][]byte) ([]*packages.Package, error) {
	cfg := &packages.Config{Mode: mode, Dir: repo, Tests: false, Env: append(os.Environ(), "GOWORK=off"), Overlay: overlay}
	return packages.Load(cfg, "./...")
}

func hasErrors(pkgs []*packages.Package) string {
	var errs []string
	for _, p := range pkgs {
		for _, e := range p.Errors {
			errs = append(errs, p.PkgPath+": "+e.Error())
		}
	}
	return strings.Join(errs, "\n")
}

var _ = bytes.MinRead
var _ token.Pos
