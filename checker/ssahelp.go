package main

import (
	"fmt"
	"go/constant"
	"go/token"
	"go/types"
	"sort"
	"strconv"
	"strings"

	"golang.org/x/tools/go/ssa"
)

// ---- naming --------------------------------------------------------------------------------

// cname returns a canonical short name for the callee of a call, from its resolved identity.
// static:  "(*mqtt.Client).WritePacket", "mqtt.IsValidFilter", "sync/atomic.AddInt64"
// invoke:  "(mqtt.Hook).OnPublish"
// dynamic: "dyn:<description of value>"
func cname(cc *ssa.CallCommon) string {
	if cc.IsInvoke() {
		return shorten("(" + cc.Value.Type().String() + ")." + cc.Method.Name())
	}
	if f := cc.StaticCallee(); f != nil {
		return fname(f)
	}
	if b, ok := cc.Value.(*ssa.Builtin); ok {
		return "builtin." + b.Name()
	}
	return "dyn:" + describe(cc.Value)
}

func fname(f *ssa.Function) string {
	if f.Origin() != nil {
		f = f.Origin()
	}
	return shorten(f.String())
}

func callOf(i ssa.Instruction) *ssa.CallCommon {
	if ci, ok := i.(ssa.CallInstruction); ok {
		return ci.Common()
	}
	return nil
}

// recvAndArgs returns all actuals including the receiver for invoke-mode calls.
func allArgs(cc *ssa.CallCommon) []ssa.Value {
	if cc.IsInvoke() {
		return append([]ssa.Value{cc.Value}, cc.Args...)
	}
	return cc.Args
}

// ---- value description ---------------------------------------------------------------------

func (c *Ctx) spillName(a *ssa.Alloc) string {
	if n, ok := c.spill[a]; ok {
		return n
	}
	name := ""
	if a.Parent() != nil && len(a.Parent().Blocks) > 0 {
		for _, ins := range a.Parent().Blocks[0].Instrs {
			if st, ok := ins.(*ssa.Store); ok && st.Addr == a {
				if p, ok := st.Val.(*ssa.Parameter); ok {
					name = canonName(p, p.Name())
				}
				break
			}
		}
	}
	c.spill[a] = name
	return name
}

var theCtx *Ctx

// canonName returns the reference-tree name of a parameter, free variable, allocation or φ (canon.go).
func canonName(v ssa.Value, own string) string {
	if theCtx != nil && theCtx.canon != nil {
		if n, ok := theCtx.canon[v]; ok {
			return n
		}
	}
	return own
}

var descCache = map[ssa.Value]string{}

// describe renders a value as an access path / expression. SSA value graphs are acyclic except
// through φ, which is rendered by name, so the recursion terminates; results are memoised.
func describe(v ssa.Value) string {
	if v == nil {
		return "<nil>"
	}
	if s, ok := descCache[v]; ok {
		return s
	}
	s := describeN(v, 0)
	if len(s) > 600 {
		s = s[:600] + "…"
	}
	descCache[v] = s
	return s
}

func describeN(v ssa.Value, depth int) string {
	if v == nil {
		return "<nil>"
	}
	d := func(x ssa.Value) string { return describe(x) }
	switch x := v.(type) {
	case *ssa.Parameter:
		return canonName(x, x.Name())
	case *ssa.FreeVar:
		return canonName(x, x.Name())
	case *ssa.Const:
		if x.Value == nil {
			return "nil"
		}
		if x.Value.Kind() == constant.String {
			return x.Value.ExactString()
		}
		return x.Value.String()
	case *ssa.Global:
		if x.Pkg != nil {
			return shortPkg(x.Pkg.Pkg.Path()) + "." + x.Name()
		}
		return x.Name()
	case *ssa.Function:
		return fname(x)
	case *ssa.Builtin:
		return x.Name()
	case *ssa.Alloc:
		if theCtx != nil {
			if n := theCtx.spillName(x); n != "" {
				return n
			}
		}
		if x.Comment != "" {
			return canonName(x, x.Comment)
		}
		return "alloc"
	case *ssa.FieldAddr:
		return d(x.X) + "." + fieldName(x.X.Type(), x.Field)
	case *ssa.Field:
		return d(x.X) + "." + fieldName(x.X.Type(), x.Field)
	case *ssa.UnOp:
		switch x.Op {
		case token.MUL:
			return d(x.X)
		case token.NOT:
			return "!" + d(x.X)
		case token.ARROW:
			return "<-" + d(x.X)
		}
		return x.Op.String() + d(x.X)
	case *ssa.BinOp:
		return d(x.X) + " " + x.Op.String() + " " + d(x.Y)
	case *ssa.Call:
		var as []string
		for _, a := range allArgs(&x.Call) {
			as = append(as, d(a))
		}
		return cname(&x.Call) + "(" + strings.Join(as, ", ") + ")"
	case *ssa.Extract:
		return d(x.Tuple) + "#" + fmt.Sprint(x.Index)
	case *ssa.Phi:
		if x.Comment != "" {
			return "φ" + canonName(x, x.Comment)
		}
		return "φ" + x.Name()
	case *ssa.IndexAddr:
		return d(x.X) + "[" + d(x.Index) + "]"
	case *ssa.Index:
		return d(x.X) + "[" + d(x.Index) + "]"
	case *ssa.Lookup:
		return d(x.X) + "[" + d(x.Index) + "]"
	case *ssa.MakeInterface:
		return d(x.X)
	case *ssa.ChangeType:
		return d(x.X)
	case *ssa.ChangeInterface:
		return d(x.X)
	case *ssa.Convert:
		return shorten(types.TypeString(x.Type(), nil)) + "(" + d(x.X) + ")"
	case *ssa.TypeAssert:
		return d(x.X) + ".(" + shorten(types.TypeString(x.AssertedType, nil)) + ")"
	case *ssa.Slice:
		if s, ok := byteLiteral(x); ok {
			return s
		}
		lo, hi := "", ""
		if x.Low != nil {
			lo = d(x.Low)
		}
		if x.High != nil {
			hi = d(x.High)
		}
		return d(x.X) + "[" + lo + ":" + hi + "]"
	case *ssa.MakeClosure:
		return "closure:" + fname(x.Fn.(*ssa.Function))
	case *ssa.MakeMap:
		return "make(map)"
	case *ssa.MakeSlice:
		return "make([]," + d(x.Len) + ")"
	case *ssa.MakeChan:
		return "make(chan)"
	case *ssa.Next:
		return "next(" + d(x.Iter) + ")"
	case *ssa.Range:
		return "range(" + d(x.X) + ")"
	case *ssa.Select:
		var cs []string
		for _, st := range x.States {
			if st.Send != nil {
				cs = append(cs, d(st.Chan)+"<-")
			} else {
				cs = append(cs, "<-"+d(st.Chan))
			}
		}
		if !x.Blocking {
			cs = append(cs, "default")
		}
		return "select(" + strings.Join(cs, "|") + ")"
	}
	return v.Name()
}

func fieldName(t types.Type, idx int) string {
	if p, ok := t.Underlying().(*types.Pointer); ok {
		t = p.Elem()
	}
	if s, ok := t.Underlying().(*types.Struct); ok && idx < s.NumFields() {
		return s.Field(idx).Name()
	}
	return fmt.Sprintf("f%d", idx)
}

// ---- instruction helpers -------------------------------------------------------------------

func instrs(fn *ssa.Function) []ssa.Instruction {
	var out []ssa.Instruction
	for _, b := range fn.Blocks {
		out = append(out, b.Instrs...)
	}
	return out
}

// withAnon returns fn and all function literals nested in it.
func withAnon(fn *ssa.Function) []*ssa.Function {
	out := []*ssa.Function{fn}
	for _, a := range fn.AnonFuncs {
		out = append(out, withAnon(a)...)
	}
	return out
}

func (c *Ctx) callsIn(fn *ssa.Function, match func(name string, cc *ssa.CallCommon) bool) []ssa.CallInstruction {
	var out []ssa.CallInstruction
	if fn == nil {
		return nil
	}
	c.fnsSeen[fn] = true
	for _, ins := range instrs(fn) {
		if ci, ok := ins.(ssa.CallInstruction); ok {
			c.sites++
			if match(cname(ci.Common()), ci.Common()) {
				out = append(out, ci)
			}
		}
	}
	return out
}

func (c *Ctx) callsNamed(fn *ssa.Function, names ...string) []ssa.CallInstruction {
	return c.callsIn(fn, func(n string, _ *ssa.CallCommon) bool {
		for _, x := range names {
			if n == x {
				return true
			}
		}
		return false
	})
}

func idxIn(ins ssa.Instruction) int {
	for i, x := range ins.Block().Instrs {
		if x == ins {
			return i
		}
	}
	return -1
}

// domInstr reports whether a strictly dominates b (a executes before b on every path to b).
func domInstr(a, b ssa.Instruction) bool {
	if a.Block() == b.Block() {
		return idxIn(a) < idxIn(b)
	}
	return a.Block().Dominates(b.Block())
}

func returns(fn *ssa.Function) []*ssa.Return {
	var out []*ssa.Return
	for _, ins := range instrs(fn) {
		if r, ok := ins.(*ssa.Return); ok {
			out = append(out, r)
		}
	}
	return out
}

func isNilConst(v ssa.Value) bool {
	if k, ok := v.(*ssa.Const); ok {
		return k.Value == nil
	}
	if mi, ok := v.(*ssa.MakeInterface); ok {
		_ = mi
		return false
	}
	return false
}

// ---- conditions ----------------------------------------------------------------------------

// condOf returns the canonical condition text of an If-terminated block and whether the text is
// negated relative to the true edge (so that "text holds" <=> taking successor index 0 when !neg).
func condOf(b *ssa.BasicBlock) (text string, neg bool, ok bool) {
	if len(b.Instrs) == 0 {
		return "", false, false
	}
	v, n0, isIf := resolvedCond(b)
	if !isIf {
		return "", false, false
	}
	text, neg = normCond(v)
	return text, neg != n0, true
}

// curEnv: the φ choices of the path a PathQuery is extending at the moment (thread.go). A condition that is a φ of
// conditions computed on the branches (`ok = a < b` on one branch, `ok = false` on the other; `if ok`) is read as the
// condition that was computed on this path.
var curEnv phiEnv

// resolvedCond returns the If condition of b without its negations, and whether it was negated an odd number of times.
func resolvedCond(b *ssa.BasicBlock) (v ssa.Value, neg bool, ok bool) {
	if len(b.Instrs) == 0 {
		return nil, false, false
	}
	ifi, isIf := b.Instrs[len(b.Instrs)-1].(*ssa.If)
	if !isIf {
		return nil, false, false
	}
	v, neg = stripNot(ifi.Cond)
	for depth := 0; depth < 4 && len(curEnv) > 0; depth++ {
		ph, isPhi := v.(*ssa.Phi)
		if !isPhi || ph.Comment == "&&" || ph.Comment == "||" {
			break // a materialised short-circuit expression is read as a whole (phiImplied)
		}
		p, has := curEnv[ph.Block().Index]
		if !has || p >= len(ph.Edges) {
			break
		}
		if _, isC := ph.Edges[p].(*ssa.Const); isC {
			break
		}
		inner, n2 := stripNot(ph.Edges[p])
		if inner == ssa.Value(ph) {
			break
		}
		v, neg = inner, neg != n2
	}
	// a comparison whose operand is a merged value (`err` after an inlined helper): on this path the operand is the
	// value that flowed in, so the test reads e.g. `ReadPacket(…)#1 != nil`
	if bo, isBin := v.(*ssa.BinOp); isBin && len(curEnv) > 0 {
		x, y := resolveOperand(bo.X), resolveOperand(bo.Y)
		if x != bo.X || y != bo.Y {
			v = &ssa.BinOp{Op: bo.Op, X: x, Y: y}
		}
	}
	return v, neg, true
}

// resolveOperand follows a φ (not a materialised short-circuit) through the choices of the current path.
func resolveOperand(v ssa.Value) ssa.Value {
	for depth := 0; depth < 4; depth++ {
		v = loadSource(v)
		ph, isPhi := v.(*ssa.Phi)
		if !isPhi || ph.Comment == "&&" || ph.Comment == "||" {
			return v
		}
		p, has := curEnv[ph.Block().Index]
		if !has || p >= len(ph.Edges) || ph.Edges[p] == ssa.Value(ph) {
			return v
		}
		if _, isC := ph.Edges[p].(*ssa.Const); isC {
			return v
		}
		v = ph.Edges[p]
	}
	return v
}

func normCond(v ssa.Value) (string, bool) {
	neg := false
	for {
		if u, ok := v.(*ssa.UnOp); ok && u.Op == token.NOT {
			neg = !neg
			v = u.X
			continue
		}
		break
	}
	if b, ok := v.(*ssa.BinOp); ok {
		// emptiness tests of non-negative quantities have one canonical spelling, "X == 0":
		//   X > 0, X != 0, X >= 1  ≡ !(X == 0);   X < 1, X <= 0 ≡ X == 0   (also with the operands swapped)
		if x, op, k, ok := zeroOneCompare(b); ok && nonNegative(x) {
			t := describe(x) + " == 0"
			switch {
			case k == 0 && (op == token.GTR || op == token.NEQ), k == 1 && op == token.GEQ:
				nonnegTexts[t] = true
				return t, !neg
			case k == 0 && (op == token.EQL || op == token.LEQ), k == 1 && op == token.LSS:
				nonnegTexts[t] = true
				return t, neg
			}
		}
		// string(X) == "lit" for a byte slice X is bytes.Equal(X, []byte("lit")), the spelling of the reference tree
		if b.Op == token.EQL || b.Op == token.NEQ {
			for _, xy := range [][2]ssa.Value{{b.X, b.Y}, {b.Y, b.X}} {
				cv, isConv := xy[0].(*ssa.Convert)
				k, isConst := xy[1].(*ssa.Const)
				if !isConv || !isConst || k.Value == nil || k.Value.Kind() != constant.String {
					continue
				}
				if sl, isSlice := cv.X.Type().Underlying().(*types.Slice); isSlice {
					if bt, isBasic := sl.Elem().Underlying().(*types.Basic); isBasic && bt.Kind() == types.Uint8 {
						t := "bytes.Equal(" + describe(cv.X) + ", []byte(" + strconv.Quote(constant.StringVal(k.Value)) + "))"
						return t, neg != (b.Op == token.NEQ)
					}
				}
			}
		}
		// min(a, m) compared with a: `min(a, m) < a`, `min(a, m) != a` say a > m; `min(a, m) == a` says !(a > m)
		// (max: with <)
		for _, xy := range [][2]ssa.Value{{b.X, b.Y}, {b.Y, b.X}} {
			call, isCall := xy[0].(*ssa.Call)
			if !isCall || len(call.Call.Args) != 2 {
				continue
			}
			bi, isBuiltin := call.Call.Value.(*ssa.Builtin)
			if !isBuiltin || (bi.Name() != "min" && bi.Name() != "max") {
				continue
			}
			other := describe(xy[1])
			var a, m ssa.Value
			switch other {
			case describe(call.Call.Args[0]):
				a, m = call.Call.Args[0], call.Call.Args[1]
			case describe(call.Call.Args[1]):
				a, m = call.Call.Args[1], call.Call.Args[0]
			default:
				continue
			}
			rel := " > "
			if bi.Name() == "max" {
				rel = " < "
			}
			t := describe(a) + rel + describe(m)
			// orientation: is the call on the left of the operator?
			op := b.Op
			if xy[0] != b.X { // call on the right: mirror
				switch op {
				case token.LSS:
					op = token.GTR
				case token.GTR:
					op = token.LSS
				case token.LEQ:
					op = token.GEQ
				case token.GEQ:
					op = token.LEQ
				}
			}
			strict, nonStrictEq := token.LSS, token.GEQ // min(a,m) < a ; min(a,m) >= a
			if bi.Name() == "max" {
				strict, nonStrictEq = token.GTR, token.LEQ
			}
			switch op {
			case strict, token.NEQ:
				return t, neg
			case nonStrictEq, token.EQL:
				return t, !neg
			}
		}
		// a constant is written on the right: `0 < x` is `x > 0`
		x, y, op := b.X, b.Y, b.Op
		if _, xc := x.(*ssa.Const); xc {
			if _, yc := y.(*ssa.Const); !yc {
				x, y = y, x
				switch op {
				case token.LSS:
					op = token.GTR
				case token.GTR:
					op = token.LSS
				case token.LEQ:
					op = token.GEQ
				case token.GEQ:
					op = token.LEQ
				}
			}
		}
		switch op {
		case token.NEQ:
			return describe(x) + " == " + describe(y), !neg
		case token.EQL:
			return describe(x) + " == " + describe(y), neg
		case token.GEQ: // a >= b  <=> !(a < b)
			return describe(x) + " < " + describe(y), !neg
		case token.LEQ: // a <= b <=> !(a > b)
			return describe(x) + " > " + describe(y), !neg
		case token.LSS:
			return describe(x) + " < " + describe(y), neg
		case token.GTR:
			return describe(x) + " > " + describe(y), neg
		}
	}
	return describe(v), neg
}

// nonnegTexts: canonical "X == 0" texts whose X is a non-negative quantity (see normCond / factSpellings).
var nonnegTexts = map[string]bool{}

// zeroOneCompare recognises a comparison of a value with the constant 0 or 1 and returns it with the value on the
// left (operator mirrored when the constant was on the left).
func zeroOneCompare(b *ssa.BinOp) (x ssa.Value, op token.Token, k int, ok bool) {
	constOf := func(v ssa.Value) (int, bool) {
		c, isC := v.(*ssa.Const)
		if !isC || c.Value == nil || c.Value.Kind() != constant.Int {
			return 0, false
		}
		n, exact := constant.Int64Val(c.Value)
		if !exact || (n != 0 && n != 1) {
			return 0, false
		}
		return int(n), true
	}
	switch b.Op {
	case token.EQL, token.NEQ, token.LSS, token.LEQ, token.GTR, token.GEQ:
	default:
		return nil, 0, 0, false
	}
	if n, isK := constOf(b.Y); isK {
		return b.X, b.Op, n, true
	}
	if n, isK := constOf(b.X); isK {
		mirror := map[token.Token]token.Token{token.EQL: token.EQL, token.NEQ: token.NEQ, token.LSS: token.GTR, token.GTR: token.LSS, token.LEQ: token.GEQ, token.GEQ: token.LEQ}
		return b.Y, mirror[b.Op], n, true
	}
	return nil, 0, 0, false
}

// nonNegative: unsigned integers, len/cap, and the size methods of containers (Len, len, GroupLen).
func nonNegative(v ssa.Value) bool {
	if bt, ok := v.Type().Underlying().(*types.Basic); ok && bt.Info()&types.IsUnsigned != 0 {
		return true
	}
	if c, ok := v.(*ssa.Convert); ok {
		return nonNegative(c.X)
	}
	if call, ok := v.(*ssa.Call); ok {
		n := cname(&call.Call)
		if n == "builtin.len" || n == "builtin.cap" || strings.HasSuffix(n, ").Len") || strings.HasSuffix(n, ").len") || strings.HasSuffix(n, ").GroupLen") {
			return true
		}
	}
	return false
}

// factSpellings lists the equivalent ways a rule may have written the fact (text, truth): the canonical emptiness
// test "X == 0" of a non-negative X is also offered as "X > 0" / "X >= 1" (negated) and "X < 1".
func factSpellings(t string, truth bool) [][2]interface{} {
	out := [][2]interface{}{{t, truth}}
	if nonnegTexts[t] && strings.HasSuffix(t, " == 0") {
		x := strings.TrimSuffix(t, " == 0")
		out = append(out, [2]interface{}{x + " > 0", !truth}, [2]interface{}{x + " >= 1", !truth}, [2]interface{}{x + " < 1", truth})
	}
	// the empty string: `s == ""` and `len(s) == 0`
	if strings.HasPrefix(t, "builtin.len(") && strings.HasSuffix(t, ") == 0") {
		out = append(out, [2]interface{}{strings.TrimSuffix(strings.TrimPrefix(t, "builtin.len("), ") == 0") + ` == ""`, truth})
	} else if strings.HasSuffix(t, ` == ""`) {
		out = append(out, [2]interface{}{"builtin.len(" + strings.TrimSuffix(t, ` == ""`) + ") == 0", truth})
	}
	// a comparison read from the other side: "a < b" is "b > a"
	if l, op, r, ok := splitCompare(t); ok {
		m := " > "
		if op == " > " {
			m = " < "
		}
		out = append(out, [2]interface{}{r + m + l, truth})
		// … and against the neighbouring integer: x < k is !(x > k-1), x > k is !(x < k+1)
		if k, err := strconv.ParseInt(r, 0, 64); err == nil {
			if op == " < " {
				out = append(out, [2]interface{}{l + " > " + strconv.FormatInt(k-1, 10), !truth})
			} else {
				out = append(out, [2]interface{}{l + " < " + strconv.FormatInt(k+1, 10), !truth})
			}
		}
	}
	// a reason code compared with a number is also offered under the names of the packets.Code globals that have that
	// value (`reason.Code > 0x7F` is `!(reason.Code < packets.ErrUnspecifiedError.Code)`)
	if len(codeNamesByValue) > 0 {
		for _, sp := range append([][2]interface{}{}, out...) {
			st := sp[0].(string)
			for _, op := range []string{" < ", " > ", " == "} {
				i := strings.LastIndex(st, op)
				if i < 0 || !strings.HasSuffix(st[:i], "Code") {
					continue
				}
				k, err := strconv.ParseInt(st[i+len(op):], 0, 64)
				if err != nil {
					continue
				}
				for _, name := range codeNamesByValue[k] {
					out = append(out, [2]interface{}{st[:i] + op + "packets." + name + ".Code", sp[1]})
				}
			}
		}
	}
	return out
}

// codeNamesByValue: value -> names of the packets.Code globals with that code byte (set once after loading).
var codeNamesByValue = map[int64][]string{}

// splitCompare splits "L < R" / "L > R" at the only comparison operator outside brackets.
func splitCompare(t string) (l, op, r string, ok bool) {
	depth, at := 0, -1
	for i := 0; i+2 < len(t); i++ {
		switch t[i] {
		case '(', '[', '{':
			depth++
		case ')', ']', '}':
			depth--
		}
		if depth == 0 && t[i] == ' ' && (t[i+1] == '<' || t[i+1] == '>') && t[i+2] == ' ' {
			if at >= 0 {
				return "", "", "", false
			}
			at = i
		}
	}
	if at <= 0 || strings.Contains(t, " == ") && depth == 0 && strings.Contains(t[:at], " == ") {
		return "", "", "", false
	}
	return t[:at], t[at : at+3], t[at+3:], true
}

// factMatches: does the edge fact (t, tr), in any spelling, satisfy the wanted (match, truth)?
func factMatches(t string, tr bool, match func(string) bool, truth bool) bool {
	for _, sp := range factSpellings(t, tr) {
		if match(sp[0].(string)) && sp[1].(bool) == truth {
			return true
		}
	}
	return false
}

// edgeHolds reports, for the edge b -> b.Succs[i] of an If block, the condition text and its truth.
func edgeFact(b *ssa.BasicBlock, i int) (text string, truth bool, ok bool) {
	t, neg, ok := condOf(b)
	if !ok {
		return "", false, false
	}
	truth = (i == 0)
	if neg {
		truth = !truth
	}
	return t, truth, true
}

// edgeEstablishes reports whether crossing the edge b -> b.Succs[i] establishes the fact (a condition whose text
// matches, with the given truth): directly, or because the edge's condition is a call of a boolean helper of the
// module that can only return that value when the fact holds inside it (one refactoring step: a guard extracted
// into a predicate method such as `func (p *particle) isEmpty() bool`).
func edgeEstablishes(b *ssa.BasicBlock, i int, match func(string) bool, truth bool) bool {
	return edgeEstablishesD(b, i, match, truth, 0)
}

func edgeEstablishesD(b *ssa.BasicBlock, i int, match func(string) bool, truth bool, depth int) bool {
	t, tr, ok := edgeFact(b, i)
	if !ok {
		return false
	}
	if factMatches(t, tr, match, truth) {
		return true
	}
	v, neg, isIf := resolvedCond(b)
	if !isIf {
		return false
	}
	for _, f := range phiImplied(v, (i == 0) != neg, 0) {
		if factMatches(f.text, f.truth, match, truth) {
			return true
		}
		if f.val != nil && helperImplies(f.val, f.valTruth, match, truth, depth) {
			return true
		}
	}
	return helperImplies(v, (i == 0) != neg, match, truth, depth)
}

// phiImplied: a condition that go/ssa materialised as the φ of a short-circuit expression (it does so for the case
// expressions of a tagless switch and for conditions stored in a variable) still decides its operands:
// (A && B && C) == true implies every conjunct, (A || B || C) == false refutes every disjunct.
type impliedFact struct {
	text     string
	truth    bool
	val      ssa.Value // the operand, when it is a call (helper-aware matching)
	valTruth bool
}

func phiImplied(v ssa.Value, p bool, depth int) []impliedFact {
	ph, ok := v.(*ssa.Phi)
	if !ok || depth > 3 {
		return nil
	}
	var want bool // value of each operand
	switch {
	case ph.Comment == "&&" && p:
		want = true
	case ph.Comment == "||" && !p:
		want = false
	default:
		return nil
	}
	var out []impliedFact
	add := func(op ssa.Value, val bool) {
		inner, neg := stripNot(op)
		opTruth := val != neg // truth of inner
		t, n2 := normCond(inner)
		out = append(out, impliedFact{text: t, truth: opTruth != n2})
		if _, isCall := inner.(*ssa.Call); isCall {
			out[len(out)-1].val, out[len(out)-1].valTruth = inner, opTruth
		}
		out = append(out, phiImplied(inner, opTruth, depth+1)...)
	}
	for ei, e := range ph.Edges {
		if k, isK := e.(*ssa.Const); isK && k.Value != nil {
			// the short-circuit edge: the predecessor's own condition decided the result; on the other outcome
			// (the one we are on) that condition had the value `want`
			pred := ph.Block().Preds[ei]
			if ifi, isIf := pred.Instrs[len(pred.Instrs)-1].(*ssa.If); isIf && len(pred.Succs) == 2 && pred.Succs[0] != pred.Succs[1] {
				// we are on the outcome that did NOT short-circuit: the predecessor left by its other branch
				add(ifi.Cond, pred.Succs[0] != ph.Block())
			}
			continue
		}
		add(e, want)
	}
	return out
}

func stripNot(v ssa.Value) (ssa.Value, bool) {
	neg := false
	for {
		if u, ok := v.(*ssa.UnOp); ok && u.Op == token.NOT {
			neg = !neg
			v = u.X
			continue
		}
		return v, neg
	}
}

// helperImplies: v is the result of a call of a module function returning one bool; does v == p imply the fact?
func helperImplies(v ssa.Value, p bool, match func(string) bool, truth bool, depth int) bool {
	if depth > 2 {
		return false
	}
	call, ok := v.(*ssa.Call)
	if !ok {
		return false
	}
	g := call.Common().StaticCallee()
	if g == nil || len(g.Blocks) == 0 || !inModule(g) {
		return false
	}
	res := g.Signature.Results()
	if res.Len() != 1 {
		return false
	}
	if bt, ok := res.At(0).Type().Underlying().(*types.Basic); !ok || bt.Kind() != types.Bool {
		return false
	}
	return retImplies(g, p, match, truth, depth+1)
}

// retImplies: on every acyclic path of g that does not cross an edge establishing the fact, the returned value
// cannot be p (constants are resolved through phi nodes along the path; a returned condition counts as its own fact).
func retImplies(g *ssa.Function, p bool, match func(string) bool, truth bool, depth int) bool {
	budget := 20000
	okAll := true
	var path []*ssa.BasicBlock
	onPath := map[*ssa.BasicBlock]bool{}
	var resolve func(v ssa.Value, upto int) ssa.Value
	resolve = func(v ssa.Value, upto int) ssa.Value {
		ph, isPhi := v.(*ssa.Phi)
		if !isPhi {
			return v
		}
		for k := upto; k >= 1; k-- {
			if path[k] == ph.Block() {
				for ei, pred := range ph.Block().Preds {
					if pred == path[k-1] {
						return resolve(ph.Edges[ei], k-1)
					}
				}
			}
		}
		return v
	}
	var dfs func(b *ssa.BasicBlock)
	dfs = func(b *ssa.BasicBlock) {
		if !okAll {
			return
		}
		budget--
		if budget < 0 {
			okAll = false
			return
		}
		path = append(path, b)
		onPath[b] = true
		defer func() { path = path[:len(path)-1]; onPath[b] = false }()
		if r, isRet := b.Instrs[len(b.Instrs)-1].(*ssa.Return); isRet {
			if len(r.Results) != 1 {
				okAll = false
				return
			}
			leaf := resolve(r.Results[0], len(path)-1)
			if k, isK := leaf.(*ssa.Const); isK && k.Value != nil {
				if (k.Value.ExactString() == "true") == p {
					okAll = false
				}
				return
			}
			if _, isPhi := leaf.(*ssa.Phi); isPhi {
				okAll = false
				return
			}
			inner, neg := stripNot(leaf)
			t, n2 := normCond(inner)
			holds := (p != neg) != n2 // truth of the text when the returned value equals p
			if factMatches(t, holds, match, truth) {
				return
			}
			if helperImplies(inner, p != neg, match, truth, depth) {
				return
			}
			okAll = false
			return
		}
		for si, s := range b.Succs {
			if onPath[s] {
				continue
			}
			if edgeEstablishesD(b, si, match, truth, depth) {
				continue
			}
			dfs(s)
		}
	}
	dfs(g.Blocks[0])
	return okAll
}

// Assume is a path fact: edges on which cond text matches and truth differs are pruned.
type Assume struct {
	Match func(text string) bool
	Truth bool
	Eval  func(text string) (truth, applies bool) // optional: per-condition truth (overrides Match/Truth)
	Text  string                                  // set by assumeEq: the exact condition text (enables `X == c1` ⇒ ¬`X == c2`)
}

// splitEqConst splits "L == c" where c is an integer or string literal.
func splitEqConst(t string) (lhs, c string, ok bool) {
	i := strings.LastIndex(t, " == ")
	if i < 0 {
		return "", "", false
	}
	lhs, c = t[:i], t[i+4:]
	if c == "" {
		return "", "", false
	}
	if c[0] == '"' && c[len(c)-1] == '"' && len(c) >= 2 {
		return lhs, c, true
	}
	for j, r := range c {
		if !(r >= '0' && r <= '9') && !(j == 0 && r == '-') {
			return "", "", false
		}
	}
	return lhs, c, true
}

// assumeTypeIs: every test of a stored record's FixedHeader.Type against a constant is decided as if the type were k.
func assumeTypeIs(k int) Assume {
	return Assume{Eval: func(t string) (bool, bool) {
		i := strings.LastIndex(t, ".FixedHeader.Type == ")
		if i < 0 {
			return false, false
		}
		var n int
		if _, err := fmt.Sscanf(t[i+len(".FixedHeader.Type == "):], "%d", &n); err != nil {
			return false, false
		}
		return n == k, true
	}}
}

func assumeEq(text string, truth bool) Assume {
	return Assume{Match: func(t string) bool { return t == text }, Truth: truth, Text: text}
}
func assumeHas(sub string, truth bool) Assume {
	return Assume{Match: func(t string) bool { return strings.Contains(t, sub) }, Truth: truth}
}

// assumedValue: the truth of condition text t under the assumptions, when they decide it.
func assumedValue(t string, as []Assume) (val, known bool) {
	for _, sp := range factSpellings(t, true) {
		st, str := sp[0].(string), sp[1].(bool)
		for _, a := range as {
			if a.Eval != nil {
				if want, applies := a.Eval(st); applies {
					return want == str, true
				}
				continue
			}
			if a.Match != nil && a.Match(st) {
				return a.Truth == str, true
			}
		}
	}
	return false, false
}

func edgeAllowed(b *ssa.BasicBlock, i int, as []Assume) bool {
	t, truth, ok := edgeFact(b, i)
	if !ok {
		return true
	}
	// a materialised short-circuit condition (a case of a tagless switch, a condition kept in a variable) whose
	// operands the assumptions decide: all conjuncts assumed true make φ&& true, all disjuncts assumed false make φ||
	// false, and the other edge is infeasible
	if len(as) > 0 {
		if v, neg, isIf := resolvedCond(b); isIf {
			if ph, isPhi := v.(*ssa.Phi); isPhi && (ph.Comment == "&&" || ph.Comment == "||") {
				want := ph.Comment == "&&" // the value φ takes when every operand has it
				facts := phiImplied(v, want, 0)
				all := len(facts) > 0
				for _, f := range facts {
					val, known := assumedValue(f.text, as)
					if !known && strings.HasPrefix(f.text, "φ") {
						continue // a nested short-circuit value: its own operands are in the list
					}
					if !known || val != f.truth {
						all = false
						break
					}
				}
				if all && ((i == 0) != neg) != want {
					return false
				}
			}
		}
	}
	for _, a := range as {
		for _, sp := range factSpellings(t, truth) {
			st, str := sp[0].(string), sp[1].(bool)
			if a.Eval != nil {
				if want, applies := a.Eval(st); applies && want != str {
					return false
				}
				continue
			}
			if a.Match(st) && a.Truth != str {
				return false
			}
		}
		// operands decided by a materialised short-circuit condition (φ&& true / φ|| false)
		if a.Eval == nil && a.Match != nil {
			if v, neg, isIf := resolvedCond(b); isIf {
				for _, f := range phiImplied(v, (i == 0) != neg, 0) {
					for _, sp := range factSpellings(f.text, f.truth) {
						if a.Match(sp[0].(string)) && a.Truth != sp[1].(bool) {
							return false
						}
					}
				}
			}
		}
		// `X == c1` assumed true decides every other test `X == c2` of the same X (the switch form of a chain)
		if a.Text != "" && a.Truth {
			if l1, c1, ok1 := splitEqConst(a.Text); ok1 {
				if l2, c2, ok2 := splitEqConst(t); ok2 && l1 == l2 && c1 != c2 && truth {
					return false
				}
			}
		}
		// the condition is a call of a boolean helper (or of a function literal the inliner produced) whose
		// result, on this edge, implies the opposite of the assumption
		if a.Eval == nil && a.Match != nil {
			if v, neg, isIf := resolvedCond(b); isIf {
				if _, isCall := v.(*ssa.Call); isCall && helperImplies(v, (i == 0) != neg, a.Match, !a.Truth, 0) {
					return false
				}
			}
		}
	}
	return true
}

// ---- path queries --------------------------------------------------------------------------

type PathQuery struct {
	Fn      *ssa.Function
	From    ssa.Instruction            // nil: function entry; otherwise search starts after From
	Target  func(ssa.Instruction) bool // reaching one of these is a witness
	Barrier func(ssa.Instruction) bool // paths through these are cut
	Assume  []Assume                   // pruned edges
	EdgeOK  func(b *ssa.BasicBlock, i int) bool
}

// Find returns a witness (sequence of block indices and the target instruction) or nil.
func (q *PathQuery) Find() (path []int, hit ssa.Instruction) {
	if q.Fn == nil || len(q.Fn.Blocks) == 0 {
		return nil, nil
	}
	type item struct {
		b    *ssa.BasicBlock
		from int
		prev *item
		env  phiEnv
	}
	type vkey struct {
		b   *ssa.BasicBlock
		env string
	}
	tb := threadBlocks(q.Fn)
	visited := map[vkey]bool{}
	var queue []*item
	if q.From == nil {
		queue = append(queue, &item{b: q.Fn.Blocks[0], from: 0})
		visited[vkey{q.Fn.Blocks[0], ""}] = true
	} else {
		queue = append(queue, &item{b: q.From.Block(), from: idxIn(q.From) + 1})
	}
	for len(queue) > 0 {
		it := queue[0]
		queue = queue[1:]
		cut := false
		for i := it.from; i < len(it.b.Instrs); i++ {
			ins := it.b.Instrs[i]
			if q.Barrier != nil && q.Barrier(ins) {
				cut = true
				break
			}
			if q.Target != nil && q.Target(ins) {
				var p []int
				for x := it; x != nil; x = x.prev {
					p = append([]int{x.b.Index}, p...)
				}
				return p, ins
			}
		}
		if cut {
			continue
		}
		for si, s := range it.b.Succs {
			if !threadEdgeFeasible(it.b, si, it.env) {
				continue
			}
			saved := curEnv
			curEnv = it.env
			allowed := edgeAllowed(it.b, si, q.Assume) && (q.EdgeOK == nil || q.EdgeOK(it.b, si))
			curEnv = saved
			if !allowed {
				continue
			}
			env := threadEnter(it.b, si, it.env, tb)
			k := vkey{s, env.key()}
			if visited[k] {
				continue
			}
			visited[k] = true
			queue = append(queue, &item{b: s, from: 0, prev: it, env: env})
		}
	}
	return nil, nil
}

func pathStr(fn *ssa.Function, p []int) string {
	var parts []string
	for i, bi := range p {
		s := fmt.Sprintf("b%d", bi)
		if i+1 < len(p) {
			b := fn.Blocks[bi]
			for si, succ := range b.Succs {
				if succ.Index == p[i+1] {
					if t, truth, ok := edgeFact(b, si); ok {
						if len(t) > 70 {
							t = t[:70] + "…"
						}
						if truth {
							s += "[" + t + "]"
						} else {
							s += "[!(" + t + ")]"
						}
					}
					break
				}
			}
		}
		parts = append(parts, s)
	}
	if len(parts) > 14 {
		parts = append(parts[:6], append([]string{"…"}, parts[len(parts)-6:]...)...)
	}
	return strings.Join(parts, "→")
}

// dominatedByFact reports whether every path from entry to ins takes, at some If whose condition
// text matches, the edge on which the condition has the given truth. (Cut all such edges; ins must
// become unreachable.)
func dominatedByFact(ins ssa.Instruction, text func(string) bool, truth bool) bool {
	fn := ins.Parent()
	found := false
	q := &PathQuery{Fn: fn, Target: func(x ssa.Instruction) bool { return x == ins },
		EdgeOK: func(b *ssa.BasicBlock, i int) bool {
			if edgeEstablishes(b, i, text, truth) {
				found = true
				return false
			}
			return true
		}}
	_, hit := q.Find()
	return hit == nil && found
}

// reguarded reports whether ins, once executed, can only be executed again after crossing the fact edge
// anew (the guard is re-evaluated on every iteration of an enclosing loop).
func reguarded(ins ssa.Instruction, text func(string) bool, truth bool) bool {
	q := &PathQuery{Fn: ins.Parent(), From: ins, Target: func(x ssa.Instruction) bool { return x == ins },
		EdgeOK: func(b *ssa.BasicBlock, i int) bool {
			return !edgeEstablishes(b, i, text, truth)
		}}
	_, hit := q.Find()
	return hit == nil
}

// reachableFrom reports whether target is reachable from (after) instruction from.
func reachableFrom(from, target ssa.Instruction) bool {
	q := &PathQuery{Fn: from.Parent(), From: from, Target: func(x ssa.Instruction) bool { return x == target }}
	_, hit := q.Find()
	return hit != nil
}

// ---- module call graph ---------------------------------------------------------------------

type callGraph struct {
	out       map[*ssa.Function]map[*ssa.Function]bool
	impls     map[string][]*ssa.Function // "(iface).Method" -> concrete module methods
	addrTaken []*ssa.Function            // module functions used as values (closures, method values, func idents)
}

// dynCallees resolves a call through a function value: all address-taken module functions whose
// signature is identical to the called value's (function values of types declared outside the
// module, e.g. context.CancelFunc, are not resolved).
func (g *callGraph) dynCallees(cc *ssa.CallCommon) []*ssa.Function {
	if cc.IsInvoke() || cc.StaticCallee() != nil {
		return nil
	}
	if _, ok := cc.Value.(*ssa.Builtin); ok {
		return nil
	}
	if mc, ok := cc.Value.(*ssa.MakeClosure); ok {
		return []*ssa.Function{mc.Fn.(*ssa.Function)}
	}
	t := cc.Value.Type()
	if n, ok := t.(*types.Named); ok && n.Obj().Pkg() != nil {
		pp := n.Obj().Pkg().Path()
		if pp != modPath && !strings.HasPrefix(pp, modPath+"/") {
			return nil
		}
	}
	sig, ok := t.Underlying().(*types.Signature)
	if !ok {
		return nil
	}
	var out []*ssa.Function
	for _, f := range g.addrTaken {
		fs := f.Signature
		if fs.Recv() != nil {
			continue
		}
		if types.Identical(types.NewSignatureType(nil, nil, nil, fs.Params(), fs.Results(), fs.Variadic()), types.NewSignatureType(nil, nil, nil, sig.Params(), sig.Results(), sig.Variadic())) {
			out = append(out, f)
		}
	}
	return out
}

func buildCallGraph(c *Ctx) *callGraph {
	g := &callGraph{out: map[*ssa.Function]map[*ssa.Function]bool{}, impls: map[string][]*ssa.Function{}}
	// interface dispatch restricted to module named types
	var named []*types.Named
	for path, p := range c.Pkgs {
		if path != modPath && !strings.HasPrefix(path, modPath+"/") {
			continue
		}
		if strings.HasPrefix(path, modPath+"/examples") || strings.HasPrefix(path, modPath+"/cmd") {
			continue
		}
		sc := p.Types.Scope()
		for _, n := range sc.Names() {
			if tn, ok := sc.Lookup(n).(*types.TypeName); ok && !tn.IsAlias() {
				if nt, ok := tn.Type().(*types.Named); ok {
					named = append(named, nt)
				}
			}
		}
	}
	resolve := func(cc *ssa.CallCommon) []*ssa.Function {
		iface, ok := cc.Value.Type().Underlying().(*types.Interface)
		if !ok {
			return nil
		}
		key := cname(cc)
		if r, ok := g.impls[key]; ok {
			return r
		}
		var res []*ssa.Function
		for _, nt := range named {
			if _, isI := nt.Underlying().(*types.Interface); isI {
				continue
			}
			for _, t := range []types.Type{nt, types.NewPointer(nt)} {
				if types.Implements(t, iface) {
					sel := c.Prog.MethodSets.MethodSet(t).Lookup(cc.Method.Pkg(), cc.Method.Name())
					if sel != nil {
						if f := c.Prog.MethodValue(sel); f != nil {
							res = append(res, f)
						}
					}
					break
				}
			}
		}
		g.impls[key] = res
		return res
	}
	taken := map[*ssa.Function]bool{}
	for _, fn := range c.ModFns {
		for _, ins := range instrs(fn) {
			if mc, ok := ins.(*ssa.MakeClosure); ok {
				if f := mc.Fn.(*ssa.Function); inModule(f) {
					taken[f] = true
				}
			}
			cc := callOf(ins)
			for _, op := range ins.Operands(nil) {
				if f, ok := (*op).(*ssa.Function); ok && inModule(f) && f.Blocks != nil {
					if cc != nil && cc.Value == ssa.Value(f) {
						isArg := false
						for _, a := range cc.Args {
							if a == ssa.Value(f) {
								isArg = true
							}
						}
						if !isArg {
							continue
						}
					}
					taken[f] = true
				}
			}
		}
	}
	for f := range taken {
		g.addrTaken = append(g.addrTaken, f)
	}
	sort.Slice(g.addrTaken, func(i, j int) bool { return g.addrTaken[i].String() < g.addrTaken[j].String() })
	for _, fn := range c.ModFns {
		m := map[*ssa.Function]bool{}
		g.out[fn] = m
		for _, ins := range instrs(fn) {
			if mc, ok := ins.(*ssa.MakeClosure); ok {
				m[mc.Fn.(*ssa.Function)] = true
			}
			if cc := callOf(ins); cc != nil {
				for _, f := range g.dynCallees(cc) {
					m[f] = true
				}
			}
			cc := callOf(ins)
			if cc == nil {
				continue
			}
			if cc.IsInvoke() {
				for _, f := range resolve(cc) {
					m[f] = true
				}
				continue
			}
			if f := cc.StaticCallee(); f != nil {
				m[f] = true
			}
			// function values passed as arguments (method values, funcs) are treated as possibly called
			for _, a := range cc.Args {
				switch x := a.(type) {
				case *ssa.Function:
					m[x] = true
				case *ssa.MakeClosure:
					m[x.Fn.(*ssa.Function)] = true
				}
			}
		}
	}
	return g
}

// reaches reports whether target is reachable from fn in the module call graph (fn itself included).
func (c *Ctx) reaches(fn *ssa.Function, target func(*ssa.Function) bool) bool {
	seen := map[*ssa.Function]bool{}
	var walk func(f *ssa.Function) bool
	walk = func(f *ssa.Function) bool {
		if seen[f] {
			return false
		}
		seen[f] = true
		if target(f) {
			return true
		}
		var outs []*ssa.Function
		for g := range c.cg.out[f] {
			outs = append(outs, g)
		}
		sort.Slice(outs, func(i, j int) bool { return outs[i].String() < outs[j].String() })
		for _, g := range outs {
			if walk(g) {
				return true
			}
		}
		return false
	}
	return walk(fn)
}

// callReaches: does the call instruction (possibly transitively, through module functions) call a function named one of names?
func (c *Ctx) callReaches(ci ssa.CallInstruction, names ...string) bool {
	cc := ci.Common()
	n := cname(cc)
	for _, x := range names {
		if n == x {
			return true
		}
	}
	var starts []*ssa.Function
	if cc.IsInvoke() {
		starts = c.cg.impls[n]
	} else if f := cc.StaticCallee(); f != nil {
		starts = []*ssa.Function{f}
	} else if mc, ok := cc.Value.(*ssa.MakeClosure); ok {
		starts = []*ssa.Function{mc.Fn.(*ssa.Function)}
	}
	for _, s := range starts {
		if !inModule(s) {
			continue
		}
		if c.reaches(s, func(f *ssa.Function) bool {
			fn := fname(f)
			for _, x := range names {
				if fn == x {
					return true
				}
			}
			return false
		}) {
			return true
		}
	}
	return false
}

// callers returns the module functions with a direct call (or function-value reference) to target.
func (c *Ctx) callers(target *ssa.Function) []*ssa.Function {
	var out []*ssa.Function
	for _, fn := range c.ModFns {
		if c.cg.out[fn][target] {
			out = append(out, fn)
		}
	}
	return out
}

// rootFn returns the outermost enclosing function of a (possibly anonymous) function.
func rootFn(f *ssa.Function) *ssa.Function {
	for f.Parent() != nil {
		f = f.Parent()
	}
	return f
}

// guardKey names an instruction by the branch facts every path to it must take; it is stable
// under edits elsewhere in the function (unlike an ordinal or a line number).
func guardKey(ins ssa.Instruction) string {
	var parts []string
	all := edgeDoms(ins)
	// a guard whose condition is a call of a function the reference tree does not have (a freshly extracted
	// predicate, or a function literal produced by the inliner) takes no part in keys
	eds := all[:0:0]
	for _, ed := range all {
		if ifi, ok := ed.b.Instrs[len(ed.b.Instrs)-1].(*ssa.If); ok {
			v, _ := stripNot(ifi.Cond)
			if call, isCall := v.(*ssa.Call); isCall {
				if g := call.Call.StaticCallee(); g != nil && inModule(g) && theCtx != nil && theCtx.refFns != nil && !theCtx.refFns[fname(g)] {
					continue
				}
			}
		}
		eds = append(eds, ed)
	}
	// outermost guard first: a block that dominates another comes earlier
	sort.SliceStable(eds, func(i, j int) bool { return eds[i].b != eds[j].b && eds[i].b.Dominates(eds[j].b) })
	type kf struct {
		t     string
		truth bool
	}
	var facts []kf
	for _, ed := range eds {
		t, neg, ok := condOf(ed.b)
		if !ok {
			continue
		}
		truth := ed.truth
		if neg {
			truth = !truth
		}
		// a short-circuit condition that go/ssa materialised as a φ (tagless switch cases, conditions held in a
		// variable) contributes the operands it decides, exactly as the if-form's separate guards would
		if ifi, isIf := ed.b.Instrs[len(ed.b.Instrs)-1].(*ssa.If); isIf {
			v, n0 := stripNot(ifi.Cond)
			if ph, isPhi := v.(*ssa.Phi); isPhi && (ph.Comment == "&&" || ph.Comment == "||") {
				for _, f := range phiImplied(v, ed.truth != n0, 0) {
					if !strings.HasPrefix(f.text, "φ") {
						facts = append(facts, kf{f.text, f.truth})
					}
				}
				continue
			}
		}
		facts = append(facts, kf{t, truth})
	}
	if len(facts) > 3 {
		facts = facts[len(facts)-3:] // the three innermost guards identify the site
	}
	for _, f := range facts {
		t := f.t
		if len(t) > 90 {
			t = t[:90] + "…"
		}
		if f.truth {
			parts = append(parts, t)
		} else {
			parts = append(parts, "!("+t+")")
		}
	}
	if len(parts) == 0 {
		return "[always]"
	}
	return "[" + strings.Join(parts, " ∧ ") + "]"
}
