package main

import (
	"fmt"
	"go/token"
	"go/types"
	"sort"
	"strings"

	"golang.org/x/tools/go/ssa"
)

// ---- C33 -----------------------------------------------------------------------------------

func init() {
	register(&Prop{
		ID:        "C33",
		Title:     "Concurrent broker operation is free of data races",
		Technique: "three static race disciplines over the whole module: atomic-access consistency per field, guarded-by for mutex-protected containers (lock-flow), and a publication discipline for plain Client fields between goroutine roots (call-graph reachability)",
		Explanation: "Race freedom over all schedules is not decidable here; three disciplines every race-free version of this code must obey are: " +
			"(a) atomic consistency — a field accessed through sync/atomic anywhere is never read or written plainly elsewhere (a plain store to a struct containing such a field counts), except on objects that are provably unpublished (constructors, fresh literals); " +
			"(b) guarded-by — every access to the `internal` container of a mutex-carrying struct holds that struct's lock (read or write mode as needed), and fields written under the trie lock are not read lock-free; " +
			"(c) publication discipline — a plain field of Client that is written by code reachable from the per-connection packet handlers (after the client was published in Clients) must not be read or written by code reachable from the housekeeping event loop (another goroutine), and vice versa, unless both sides hold the client's lock; the expiry sweep reads plain Client property fields only after it observed a non-zero (atomic) stop time; " +
			"(d) no method of a lock-protected container lets its `internal` map, or a map/slice stored in it, escape (returned, stored into a result, boxed): accessors copy.",
		NotDecided: []string{"races that obey all three disciplines", "hooks/auth.Ledger (outside the property's 'broker memory')", "accesses from the embedding application's own goroutines"},
		Run:        runC33,
	})
}

type fieldKey struct{ owner, field string }

func fieldKeyOf(fa *ssa.FieldAddr) fieldKey {
	t := fa.X.Type()
	if p, ok := t.Underlying().(*types.Pointer); ok {
		t = p.Elem()
	}
	return fieldKey{shorten(types.TypeString(t, nil)), fieldName(fa.X.Type(), fa.Field)}
}

// rootOfAddr walks FieldAddr/IndexAddr chains to the base value.
func rootOfAddr(v ssa.Value) ssa.Value {
	for i := 0; i < 12; i++ {
		switch x := v.(type) {
		case *ssa.FieldAddr:
			v = x.X
		case *ssa.IndexAddr:
			v = x.X
		default:
			return v
		}
	}
	return v
}

// unpublished: the object is created in this function and not yet shared (fresh alloc or constructor result).
func unpublished(fn *ssa.Function, addr ssa.Value) bool {
	r := rootOfAddr(addr)
	switch x := r.(type) {
	case *ssa.Alloc:
		return true
	case *ssa.Call:
		n := cname(&x.Call)
		return strings.Contains(n, ".New") || strings.Contains(n, ".new") || strings.HasSuffix(n, ").Clone")
	case *ssa.UnOp:
		// load of a local holding a constructor result
		if a, ok := x.X.(*ssa.Alloc); ok {
			for _, ref := range *a.Referrers() {
				if st, ok := ref.(*ssa.Store); ok && st.Addr == ssa.Value(a) {
					if call, ok := st.Val.(*ssa.Call); ok && (strings.Contains(cname(&call.Call), ".New") || strings.Contains(cname(&call.Call), ".new")) {
						return true
					}
				}
			}
		}
	}
	name := fn.Name()
	if strings.HasPrefix(name, "New") || strings.HasPrefix(name, "new") {
		return true
	}
	// pre-publication code: the connecting client is private to its goroutine until Clients.Add
	// (ParseConnect and inheritClientSession run before it; checked by prePublication below)
	if p, ok := r.(*ssa.Parameter); ok && canonName(p, p.Name()) == "cl" && (name == "ParseConnect" || name == "inheritClientSession") {
		return true
	}
	if u, ok := r.(*ssa.UnOp); ok {
		if fa, ok := u.X.(*ssa.FieldAddr); ok && (name == "ParseConnect" || name == "inheritClientSession") {
			if p, ok := rootOfAddr(fa).(*ssa.Parameter); ok && canonName(p, p.Name()) == "cl" {
				return true // e.g. cl.State.Inflight.<field>: the new client's own fresh store
			}
		}
	}
	return false
}

// prePublication: the functions exempted above really run before the client is published.
func (c *Ctx) prePublication() {
	f := c.fn("mqtt", "(*Server).attachClient")
	if f == nil {
		return
	}
	add := c.call1(f, fnClientsAdd)
	for _, n := range []string{"(*mqtt.Client).ParseConnect", "(*mqtt.Server).inheritClientSession"} {
		call := c.call1(f, n)
		c.before("C33.c publication-discipline", "(*mqtt.Server).attachClient calls "+strings.TrimPrefix(n, "(*mqtt.")+" before the client is published with Clients.Add", call, add,
			"writes to the connecting client in these functions are treated as unpublished")
		if target := c.optFn("mqtt", strings.Replace(strings.Replace(n, "(*mqtt.", "(*", 1), "mqtt.", "", 1)); target != nil {
			for _, caller := range c.callers(target) {
				c.ob("C33.c publication-discipline", fmt.Sprintf("%s is only called from attachClient (found %s)", strings.TrimPrefix(n, "(*mqtt."), fname(rootFn(caller))), c.pos(caller.Pos()),
					fname(rootFn(caller)) == "(*mqtt.Server).attachClient", "")
			}
		}
	}
}

func structHasField(t types.Type, keys map[fieldKey]bool) (string, bool) {
	if p, ok := t.Underlying().(*types.Pointer); ok {
		t = p.Elem()
	}
	st, ok := t.Underlying().(*types.Struct)
	if !ok {
		return "", false
	}
	owner := shorten(types.TypeString(t, nil))
	for i := 0; i < st.NumFields(); i++ {
		if keys[fieldKey{owner, st.Field(i).Name()}] {
			return st.Field(i).Name(), true
		}
	}
	return "", false
}

func runC33(c *Ctx) {
	scope := func(fn *ssa.Function) bool {
		p := fnPkgPath(fn)
		return p == modPath || p == modPath+"/packets" || p == modPath+"/listeners" || p == modPath+"/system"
	}
	// (a) atomic fields
	atomicF := map[fieldKey]bool{}
	for _, fn := range c.ModFns {
		for _, ins := range instrs(fn) {
			cc := callOf(ins)
			if cc == nil || !strings.HasPrefix(cname(cc), "sync/atomic.") || len(cc.Args) == 0 {
				continue
			}
			if fa, ok := cc.Args[0].(*ssa.FieldAddr); ok {
				atomicF[fieldKeyOf(fa)] = true
			}
		}
	}
	c.floor("C33.a fields accessed atomically", len(atomicF), 15)
	nPlain := 0
	for _, fn := range c.ModFns {
		if !scope(fn) {
			continue
		}
		for _, ins := range instrs(fn) {
			var fa *ssa.FieldAddr
			kind := ""
			switch x := ins.(type) {
			case *ssa.Store:
				if a, ok := x.Addr.(*ssa.FieldAddr); ok {
					fa, kind = a, "plain write"
				}
			case *ssa.UnOp:
				if x.Op == token.MUL {
					if a, ok := x.X.(*ssa.FieldAddr); ok {
						fa, kind = a, "plain read"
					}
				}
			}
			if fa == nil {
				continue
			}
			k := fieldKeyOf(fa)
			if atomicF[k] {
				if unpublished(fn, fa) {
					continue
				}
				nPlain++
				c.ob("C33.a atomic-consistency", fmt.Sprintf("%s: %s of %s.%s, which is accessed through sync/atomic elsewhere", fname(rootFn(fn)), kind, k.owner, k.field), c.pos(ins.Pos()), false,
					"mixing atomic and plain accesses of one field is a data race")
				continue
			}
			// plain store to a struct that contains an atomic field
			if kind == "plain write" {
				ft := fa.Type().(*types.Pointer).Elem()
				if _, isPtr := ft.Underlying().(*types.Pointer); isPtr {
					continue // storing a pointer does not write the pointee
				}
				if inner, has := structHasField(ft, atomicF); has && !unpublished(fn, fa) {
					nPlain++
					c.ob("C33.a atomic-consistency", fmt.Sprintf("%s: plain write of %s.%s, a struct whose field %s is accessed through sync/atomic elsewhere", fname(rootFn(fn)), k.owner, k.field, inner), c.pos(ins.Pos()), false,
						"overwriting the whole struct writes the atomically accessed field non-atomically")
				}
			}
		}
	}
	if nPlain == 0 {
		c.ob("C33.a atomic-consistency", "no plain access to a field that is accessed through sync/atomic elsewhere", "", true, fmt.Sprintf("%d atomic fields", len(atomicF)))
	}
	// (b) guarded-by for `internal` containers
	nAcc := 0
	for _, fn := range c.ModFns {
		if !scope(fn) {
			continue
		}
		var lf *lockFlow
		for _, ins := range instrs(fn) {
			fa, ok := ins.(*ssa.FieldAddr)
			if !ok || fieldName(fa.X.Type(), fa.Field) != "internal" {
				continue
			}
			if _, isMap := fa.Type().(*types.Pointer).Elem().Underlying().(*types.Map); !isMap {
				continue // e.g. Hooks.internal is an atomic.Value
			}
			owner := describe(fa.X)
			if unpublished(fn, fa) {
				continue
			}
			if lf == nil {
				lf = lockFlowOf(fn)
			}
			// how is the container used?
			write := false
			for _, ref := range *fa.Referrers() {
				switch r := ref.(type) {
				case *ssa.Store:
					write = true
				case *ssa.UnOp:
					for _, rr := range *r.Referrers() {
						switch u := rr.(type) {
						case *ssa.MapUpdate:
							write = true
						case ssa.CallInstruction:
							if cname(u.Common()) == "builtin.delete" {
								write = true
							}
						}
					}
				}
			}
			nAcc++
			h := lf.before[fa]
			var held *lockOp
			for k, op := range h {
				if strings.HasPrefix(k, owner+".") {
					o := op
					held = &o
				}
			}
			mode := "read"
			if write {
				mode = "write"
			}
			ok2 := held != nil && (!write || held.mode == 'W')
			c.ob("C33.b guarded-by", fmt.Sprintf("%s: %s access to %s.internal holds the owner's lock", fname(fn), mode, owner), c.pos(fa.Pos()), ok2,
				"the container is read or written without its mutex (or written under a read lock)")
		}
	}
	c.floor("C33.b container accesses", nAcc, 45)
	// fields written under the trie lock must not be read lock-free
	for _, fn := range c.ModFns {
		if fnPkgPath(fn) != modPath {
			continue
		}
		var lf *lockFlow
		for _, ins := range instrs(fn) {
			u, ok := ins.(*ssa.UnOp)
			if !ok || u.Op != token.MUL {
				continue
			}
			fa, ok := u.X.(*ssa.FieldAddr)
			if !ok || fieldName(fa.X.Type(), fa.Field) != "retainPath" {
				continue
			}
			if lf == nil {
				lf = lockFlowOf(fn)
			}
			locked := len(lf.before[u]) > 0 || c.calledOnlyLocked(fn, 0)
			c.ob("C33.b guarded-by", fmt.Sprintf("%s reads particle.retainPath (written under the index lock) with a lock held", fname(fn)), c.pos(u.Pos()), locked,
				"RetainMessage writes retainPath under the root and node locks while this reader holds none: a torn/stale string read")
		}
	}
	// (c) publication discipline for Client fields
	c.prePublication()
	c.clientPublication()
	c.stoppedBeforeRead()
	c.internalsStayInside()
}

// stoppedBeforeRead: the session-expiry sweep on the event-loop goroutine reads plain Client property fields; the
// only thing that orders those reads after the connection goroutine's writes is the atomic stop time, so every such
// read is reached only on the edge where StopTime() != 0 was observed.
func (c *Ctx) stoppedBeforeRead() {
	f := c.fn("mqtt", "(*Server).clearExpiredClients")
	if f == nil {
		return
	}
	n := 0
	for _, ins := range instrs(f) {
		u, ok := ins.(*ssa.UnOp)
		if !ok || u.Op != token.MUL {
			continue
		}
		p, ok := clientPath(u.X)
		if !ok || !strings.HasPrefix(p, "Properties.") {
			continue
		}
		n++
		c.ob("C33.c publication-discipline", fmt.Sprintf("(*mqtt.Server).clearExpiredClients reads Client.%s only after it observed a non-zero stop time", p), c.pos(u.Pos()),
			dominatedByFact(u, textHas("StopTime", "== 0"), false),
			"for a client that is still connected nothing orders this plain read after processDisconnect / SendConnack writing the field on the connection goroutine")
	}
	c.floor("C33.c plain Client property reads in clearExpiredClients", n, 3)
}

// internalsStayInside: the maps a lock-protected container keeps (the `internal` map and the maps or slices stored
// in it) never leave its methods: accessors hand out copies. A map that escapes is iterated by the caller after the
// lock was released while Add/Delete write it.
func (c *Ctx) internalsStayInside() {
	n := 0
	for _, fn := range c.ModFns {
		if fn.Signature.Recv() == nil || fnPkgPath(fn) != modPath {
			continue
		}
		pt, ok := fn.Signature.Recv().Type().Underlying().(*types.Pointer)
		if !ok {
			continue
		}
		st, ok := pt.Elem().Underlying().(*types.Struct)
		if !ok {
			continue
		}
		hasInternal, hasLock := false, false
		for i := 0; i < st.NumFields(); i++ {
			if _, isMap := st.Field(i).Type().Underlying().(*types.Map); isMap && st.Field(i).Name() == "internal" {
				hasInternal = true
			}
			if strings.Contains(st.Field(i).Type().String(), "sync.RWMutex") || strings.Contains(st.Field(i).Type().String(), "sync.Mutex") {
				hasLock = true
			}
		}
		if !hasInternal || !hasLock {
			continue
		}
		isRef := func(t types.Type) bool {
			switch t.Underlying().(type) {
			case *types.Map, *types.Slice:
				return true
			}
			return false
		}
		// reference-typed values that denote container state
		var inner []ssa.Value
		for _, ins := range instrs(fn) {
			v, ok := ins.(ssa.Value)
			if !ok || !isRef(v.Type()) {
				continue
			}
			switch x := v.(type) {
			case *ssa.UnOp:
				if fa, ok := x.X.(*ssa.FieldAddr); ok && x.Op == token.MUL && fieldName(fa.X.Type(), fa.Field) == "internal" {
					inner = append(inner, v)
				}
			case *ssa.Lookup:
				if strings.HasSuffix(describe(x.X), ".internal") {
					inner = append(inner, v)
				}
			case *ssa.Extract:
				if strings.Contains(describe(x.Tuple), ".internal") {
					if _, isNext := x.Tuple.(*ssa.Next); isNext {
						inner = append(inner, v)
					}
					if _, isLk := x.Tuple.(*ssa.Lookup); isLk {
						inner = append(inner, v)
					}
				}
			}
		}
		for _, v := range inner {
			for _, ref := range *v.Referrers() {
				esc := ""
				switch r := ref.(type) {
				case *ssa.Return:
					esc = "is returned"
				case *ssa.MapUpdate:
					if r.Value == v && !strings.Contains(describe(r.Map), ".internal") {
						esc = "is stored into " + describe(r.Map)
					}
				case *ssa.Store:
					if r.Val == v && !strings.Contains(describe(r.Addr), ".internal") {
						esc = "is stored to " + describe(r.Addr)
					}
				case *ssa.MakeInterface:
					esc = "is boxed into an interface"
				case *ssa.Phi:
					for _, rr := range *r.Referrers() {
						if _, isRet := rr.(*ssa.Return); isRet {
							esc = "is returned"
						}
					}
				}
				if esc == "" {
					continue
				}
				n++
				c.ob("C33.d internals-stay-inside", fmt.Sprintf("%s: %s (%s, container state) does not leave the method", fname(fn), describe(v), shorten(v.Type().String())), c.pos(ref.Pos()), false,
					"the value "+esc+" and is then read without the container's lock while Add/Delete write the same map")
			}
		}
		c.fnsSeen[fn] = true
	}
	if n == 0 {
		c.ob("C33.d internals-stay-inside", "no method of a lock-protected container lets its internal map, or a map/slice stored in it, escape (accessors copy)", "", true, "")
	}
}

// calledOnlyLocked: fn is a helper whose every module call site executes with some lock held, or sits in a
// helper for which the same is true (bounded depth); at least one caller must exist.
func (c *Ctx) calledOnlyLocked(fn *ssa.Function, depth int) bool {
	if depth > 3 {
		return false
	}
	callers := c.callers(fn)
	if len(callers) == 0 {
		return false
	}
	for _, caller := range callers {
		lf := lockFlowOf(caller)
		static := 0
		for _, ins := range instrs(caller) {
			ci, ok := ins.(ssa.CallInstruction)
			if !ok || ci.Common().StaticCallee() != fn {
				continue
			}
			static++
			if len(lf.before[ins]) > 0 {
				continue
			}
			if !c.calledOnlyLocked(caller, depth+1) {
				return false
			}
		}
		if static == 0 {
			return false // reached through a function value or an interface: the call site's locks are unknown
		}
	}
	return true
}

func (c *Ctx) reachableSet(roots ...*ssa.Function) map[*ssa.Function]bool {
	seen := map[*ssa.Function]bool{}
	var walk func(f *ssa.Function)
	walk = func(f *ssa.Function) {
		if f == nil || seen[f] || !inModule(f) {
			return
		}
		seen[f] = true
		for g := range c.cg.out[f] {
			walk(g)
		}
	}
	for _, r := range roots {
		walk(r)
	}
	return seen
}

// clientPath returns the field path of an address rooted at a *Client value ("Properties.Props.SessionExpiryInterval").
func clientPath(v ssa.Value) (string, bool) {
	var parts []string
	for i := 0; i < 10; i++ {
		fa, ok := v.(*ssa.FieldAddr)
		if !ok {
			break
		}
		parts = append([]string{fieldName(fa.X.Type(), fa.Field)}, parts...)
		v = fa.X
	}
	if len(parts) == 0 {
		return "", false
	}
	t := v.Type()
	if p, ok := t.Underlying().(*types.Pointer); ok {
		if n, ok := p.Elem().(*types.Named); ok && n.Obj().Name() == "Client" && n.Obj().Pkg() != nil && n.Obj().Pkg().Path() == modPath {
			return strings.Join(parts, "."), true
		}
	}
	return "", false
}

func (c *Ctx) clientPublication() {
	conn := c.reachableSet(c.optFn("mqtt", "(*Server).receivePacket"))
	loop := c.reachableSet(c.optFn("mqtt", "(*Server).eventLoop"))
	c.floor("C33.c functions reachable from the packet handlers", len(conn), 60)
	c.floor("C33.c functions reachable from the event loop", len(loop), 30)
	type acc struct {
		fn    *ssa.Function
		pos   token.Pos
		write bool
		lock  bool
	}
	collect := func(set map[*ssa.Function]bool) map[string][]acc {
		out := map[string][]acc{}
		var fns []*ssa.Function
		for f := range set {
			fns = append(fns, f)
		}
		sort.Slice(fns, func(i, j int) bool { return fns[i].String() < fns[j].String() })
		for _, fn := range fns {
			if fnPkgPath(fn) != modPath {
				continue
			}
			var lf *lockFlow
			for _, ins := range instrs(fn) {
				var addr ssa.Value
				write := false
				switch x := ins.(type) {
				case *ssa.Store:
					addr, write = x.Addr, true
				case *ssa.UnOp:
					if x.Op == token.MUL {
						addr = x.X
					}
				}
				if addr == nil {
					continue
				}
				p, ok := clientPath(addr)
				if !ok || unpublished(fn, addr) {
					continue
				}
				if lf == nil {
					lf = lockFlowOf(fn)
				}
				locked := false
				for k := range lf.before[ins] {
					if strings.HasSuffix(k, ".RWMutex") && strings.HasPrefix(k, describe(rootOfAddr(addr))) {
						locked = true
					}
				}
				out[p] = append(out[p], acc{fn, ins.Pos(), write, locked})
			}
		}
		return out
	}
	a, b := collect(conn), collect(loop)
	// pointer-valued and immutable-after-publication fields are not data (the pointee has its own discipline)
	skip := func(p string) bool {
		for _, s := range []string{"State.Inflight", "State.Subscriptions", "State.TopicAliases", "State.outbound", "State.open", "State.cancelOpen", "State.stopCause", "State.isTakenOver", "State.endOnce", "ops", "RWMutex", "Net.Conn", "Net.bconn"} {
			if p == s || strings.HasPrefix(p, s+".") {
				return true
			}
		}
		return false
	}
	related := func(x, y string) bool { return x == y || strings.HasPrefix(x, y+".") || strings.HasPrefix(y, x+".") }
	reported := map[string]bool{}
	var paths []string
	for p := range a {
		paths = append(paths, p)
	}
	sort.Strings(paths)
	n := 0
	for _, pa := range paths {
		if skip(pa) {
			continue
		}
		for pb, accB := range b {
			if skip(pb) || !related(pa, pb) {
				continue
			}
			for _, x := range a[pa] {
				for _, y := range accB {
					if !x.write && !y.write {
						continue
					}
					if x.lock && y.lock {
						continue
					}
					// atomically accessed leaf fields are covered by (a)
					key := pa
					if len(pb) < len(pa) {
						key = pb
					}
					w, r := x, y
					wSide, rSide := "packet handlers", "event loop"
					if !x.write {
						w, r = y, x
						wSide, rSide = rSide, wSide
					}
					id := fmt.Sprintf("Client.%s: written in %s (%s) and accessed in %s (%s)", key, fname(rootFn(w.fn)), wSide, fname(rootFn(r.fn)), rSide)
					if reported[id] {
						continue
					}
					reported[id] = true
					n++
					c.ob("C33.c publication-discipline", id, c.pos(w.pos), false,
						fmt.Sprintf("plain field shared between the connection goroutine and the housekeeping goroutine without a common lock: write at %s, access at %s", c.pos(w.pos), c.pos(r.pos)))
				}
			}
		}
	}
	if n == 0 {
		c.ob("C33.c publication-discipline", "no plain Client field is written on one goroutine root and accessed on the other without a common lock", "", true, "")
	}
}

// ---- C38 -----------------------------------------------------------------------------------

func init() {
	register(&Prop{
		ID:        "C38",
		Title:     "Reported $SYS statistics match the broker's actual state",
		Technique: "effect pairing per counter: every call site of a tracked mutator must be paired with the matching counter update guarded by the mutator's result",
		Explanation: "One pairing rule per counter, every call site of the tracked mutator is an obligation: " +
			"Info.Subscriptions ↔ Topics.Subscribe / Unsubscribe results (±1 under the returned bool); " +
			"Info.Inflight ↔ Inflight.Set / Delete results (a Set whose result is discarded is accepted only when it replaces a record of the same id); transferring records with Inflight.Clone and then clearing the source subtracts them; " +
			"Info.Retained ↔ every mutation of the retained store is followed by storing Retained.Len(); " +
			"Info.ClientsConnected: the +1 is immediately followed by the deferred −1; " +
			"publishSysTopics publishes the four values from the cloned Info.",
		NotDecided: []string{"equality of counters and real state over a history", "counters restored from a persisted $SYS tick (loadServerInfo) overwriting the computed ones"},
		Run:        runC38,
	})
}

func runC38(c *Ctx) {
	isCounter := func(ins ssa.Instruction, field string, delta string) bool {
		cc := callOf(ins)
		return cc != nil && cname(cc) == "sync/atomic.AddInt64" && strings.HasSuffix(describe(cc.Args[0]), ".Inflight") == (field == "Inflight") &&
			strings.HasSuffix(describe(cc.Args[0]), "."+field) && describe(cc.Args[1]) == delta
	}
	nSub, nInf, nRet := 0, 0, 0
	for _, fn := range c.ModFns {
		if fnPkgPath(fn) != modPath {
			continue
		}
		name := fname(rootFn(fn))
		for _, ins := range instrs(fn) {
			cc := callOf(ins)
			if cc == nil {
				continue
			}
			call, _ := ins.(*ssa.Call)
			switch cname(cc) {
			case fnTopicsSub, "(*mqtt.TopicsIndex).Unsubscribe":
				nSub++
				delta, what := "1", "Subscribe"
				if cname(cc) != fnTopicsSub {
					delta, what = "-1", "Unsubscribe"
				}
				ok := false
				if call != nil {
					for _, x := range instrs(fn) {
						if isCounter(x, "Subscriptions", delta) && dominatedByFact(x, func(t string) bool { return t == describe(call) }, true) {
							ok = true
						}
					}
				}
				c.ob("C38 subscriptions-counter", fmt.Sprintf("%s: Topics.%s(%s) is paired with Info.Subscriptions %s under its result", name, what, describe(cc.Args[1]), delta), c.pos(ins.Pos()), ok,
					"the subscription count drifts from the number of subscriptions in the index")
			case fnInflSet:
				nInf++
				used := call != nil && len(*call.Referrers()) > 0
				if used {
					ok := false
					for _, x := range instrs(fn) {
						if isCounter(x, "Inflight", "1") && dominatedByFact(x, func(t string) bool { return t == describe(call) }, true) {
							ok = true
						}
					}
					c.ob("C38 inflight-counter", fmt.Sprintf("%s: Inflight.Set under %s is paired with Info.Inflight +1 under its result", name, guardKey(ins)), c.pos(ins.Pos()), ok, "")
				} else {
					// result discarded: only fine when a record with the same id certainly exists (replacement)
					repl := dominatedByFact(ins, inflGetOK, true)
					if !repl {
						for _, x := range c.callsNamed(fn, fnInflSet) {
							if x != ins && domInstr(x, ins) && describe(x.Common().Args[1]) == describe(cc.Args[1]) {
								repl = true // same value set a moment ago on this path
							}
						}
					}
					c.ob("C38 inflight-counter", fmt.Sprintf("%s: Inflight.Set under %s discards its result only when it replaces an existing record", name, guardKey(ins)), c.pos(ins.Pos()), repl,
						"a new in-flight record is stored without counting it")
				}
			case fnInflDelete:
				nInf++
				used := call != nil && len(*call.Referrers()) > 0
				ok := false
				if used {
					for _, x := range instrs(fn) {
						if isCounter(x, "Inflight", "-1") && dominatedByFact(x, func(t string) bool { return t == describe(call) }, true) {
							ok = true
						}
					}
				}
				c.ob("C38 inflight-counter", fmt.Sprintf("%s: Inflight.Delete(%s) is paired with Info.Inflight -1 under its result", name, describe(cc.Args[1])), c.pos(ins.Pos()), ok,
					"an in-flight record is removed without decrementing the counter")
			case "(*mqtt.TopicsIndex).RetainMessage":
				nRet++
				c.retainedRefreshed(fn, ins, name+": Topics.RetainMessage")
			case "(*packets.Packets).Delete", "(*packets.Packets).Add":
				if strings.Contains(describe(cc.Args[0]), "Retained") && name != "(*mqtt.TopicsIndex).RetainMessage" {
					nRet++
					c.retainedRefreshed(fn, ins, name+": "+strings.TrimPrefix(cname(cc), "(*packets.Packets).")+" on the retained store")
				}
			}
		}
	}
	c.floor("C38 subscribe/unsubscribe sites", nSub, 5)
	c.floor("C38 in-flight set/delete sites", nInf, 18)
	c.floor("C38 retained store mutation sites", nRet, 4)
	// Clone + ClearInflights of the source
	if f := c.fn("mqtt", "(*Server).inheritClientSession"); f != nil {
		clone := c.call1(f, "(*mqtt.Inflight).Clone")
		for _, ci := range c.callsNamed(f, fnClearInfl) {
			if clone != nil && reachableFrom(clone, ci) {
				c.ob("C38 inflight-counter", "(*mqtt.Server).inheritClientSession: records transferred with Inflight.Clone are not subtracted again when the superseded client is cleared", c.pos(ci.Pos()), false,
					"Clone copies the records (no counter change) and existing.ClearInflights() then decrements Info.Inflight once per record although the messages live on in the new session")
			}
		}
	}
	// ClientsConnected
	if f := c.fn("mqtt", "(*Server).attachClient"); f != nil {
		var add, dec ssa.Instruction
		for _, ins := range instrs(f) {
			cc := callOf(ins)
			if cc == nil || cname(cc) != "sync/atomic.AddInt64" || describe(cc.Args[0]) != "s.Info.ClientsConnected" {
				continue
			}
			if _, isDefer := ins.(*ssa.Defer); isDefer && describe(cc.Args[1]) == "-1" {
				dec = ins
			} else if describe(cc.Args[1]) == "1" {
				add = ins
			}
		}
		ok := add != nil && dec != nil && add.Block() == dec.Block() && idxIn(dec) > idxIn(add)
		c.ob("C38 clients-counter", "(*mqtt.Server).attachClient: ClientsConnected +1 is followed at once by the deferred -1", c.pos(f.Pos()), ok, "")
	}
	// published values
	if f := c.fn("mqtt", "(*Server).publishSysTopics"); f != nil {
		cl := c.call1(f, "(*system.Info).Clone")
		c.ob("C38 published-values", "(*mqtt.Server).publishSysTopics publishes from a consistent clone of Info", c.pos(f.Pos()), cl != nil, "")
		for _, fld := range []string{"ClientsConnected", "Subscriptions", "Retained", "Inflight"} {
			found := false
			for _, ci := range c.callsNamed(f, "mqtt.Int64toa") {
				if strings.HasSuffix(describe(ci.Common().Args[0]), "."+fld) && strings.Contains(describe(ci.Common().Args[0]), "Clone(") {
					found = true
				}
			}
			c.ob("C38 published-values", "(*mqtt.Server).publishSysTopics publishes Info."+fld, c.pos(f.Pos()), found, "")
		}
	}
	if f := c.fn("system", "(*Info).Clone"); f != nil {
		okAll := true
		n := 0
		for _, ins := range instrs(f) {
			if u, ok := ins.(*ssa.UnOp); ok && u.Op == token.MUL {
				if fa, ok := u.X.(*ssa.FieldAddr); ok && describe(fa.X) == "i" {
					if b, isB := fa.Type().(*types.Pointer).Elem().Underlying().(*types.Basic); isB && b.Kind() == types.Int64 {
						okAll = false
					}
				}
			}
			if cc := callOf(ins); cc != nil && cname(cc) == "sync/atomic.LoadInt64" {
				n++
			}
		}
		c.ob("C38 published-values", "(*system.Info).Clone reads every counter atomically", c.pos(f.Pos()), okAll && n >= 15, fmt.Sprintf("%d atomic loads", n))
	}
}

// retainedRefreshed: after a mutation of the retained store, every path to return stores Retained.Len() into Info.Retained.
func (c *Ctx) retainedRefreshed(fn *ssa.Function, at ssa.Instruction, what string) {
	isRefresh := func(x ssa.Instruction) bool {
		cc := callOf(x)
		return cc != nil && cname(cc) == "sync/atomic.StoreInt64" && strings.HasSuffix(describe(cc.Args[0]), ".Info.Retained") && strings.Contains(describe(cc.Args[1]), "Retained)")
	}
	_, hit := (&PathQuery{Fn: fn, From: at, Target: anyReturn, Barrier: isRefresh}).Find()
	c.ob("C38 retained-counter", what+" is followed by Info.Retained = Retained.Len() on every path", c.pos(at.Pos()), hit == nil,
		"the retained store changes but the reported count keeps its old value until the next client-originated retain")
}
