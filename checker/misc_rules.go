package main

import (
	"fmt"
	"go/token"
	"go/types"
	"sort"
	"strings"

	"golang.org/x/tools/go/ssa"
)

// ---- C03 -----------------------------------------------------------------------------------

func init() {
	register(&Prop{
		ID:        "C03",
		Title:     "Every published message reaches exactly the entitled subscribers, once each",
		Technique: "who-may-call + at-most-one-send path rule on publishToClient; struct-field coverage of the Copy functions; nil-return provenance",
		Explanation: "(a) publishToClient is called only from publishToSubscribers (once per entry of the client-keyed Subscriptions map) and publishRetainedToClient, and performs at most one enqueue per call; only WriteLoop receives from the queue; " +
			"(b) Properties.Copy and Packet.Copy assign every field of their struct except the fields in an explicit exclusion table (per-connection / per-hop fields), so payload, content type, correlation data, response topic and user properties are preserved; " +
			"(c) publishToClient returns a nil error only on the No-Local edge, after a successful enqueue, or after storing the message for flow-control deferral — every other non-delivery is an error return (reported by C34); " +
			"(e) trim unlinks a trie node only after testing, for that very node and again for every ancestor it climbs to, that it holds no client, shared or inline subscription (directly or inside a boolean helper).",
		NotDecided: []string{"entitlement at publish time under concurrent (un)subscribe", "loss inside WriteLoop/the network", "histories and copies on sockets"},
		Run:        runC03,
	})
}

func runC03(c *Ctx) {
	trimKeepsSubscriptions(c, "C03.e trim-keeps-subscribed-nodes", 3, 4, 5)
	listAndIndexInStep(c, "C03.f list-and-index-in-step")
	ptc := c.fn("mqtt", "(*Server).publishToClient")
	c.whoCalls("C03.a one-enqueue-per-client", ptc, map[string]string{fnPubToSubs: "live delivery: one call per entry of Subscriptions (keyed by client id)", "(*mqtt.Server).publishRetainedToClient": "retained replay"})
	if f := c.fn("mqtt", "(*Server).publishToSubscribers"); f != nil {
		calls := c.callsNamed(f, fnPubToClient)
		c.ob("C03.a one-enqueue-per-client", "(*mqtt.Server).publishToSubscribers has one delivery call site", c.pos(f.Pos()), len(calls) == 1, fmt.Sprint(len(calls)))
		if len(calls) == 1 {
			ci := calls[0]
			// inside the range over subscribers.Subscriptions; not reachable from itself without passing the loop's Next
			var next ssa.Instruction
			for _, ins := range instrs(f) {
				if n, ok := ins.(*ssa.Next); ok {
					if r, ok := n.Iter.(*ssa.Range); ok && strings.HasSuffix(describe(r.X), ".Subscriptions") {
						next = n
					}
				}
			}
			ok := next != nil
			if ok {
				_, hit := (&PathQuery{Fn: f, From: ci, Target: isIns(ci), Barrier: isIns(next)}).Find()
				ok = hit == nil && reachableFrom(next, ci)
			}
			c.ob("C03.a one-enqueue-per-client", "(*mqtt.Server).publishToSubscribers delivers once per entry of the Subscriptions map", c.pos(ci.Pos()), ok, "overlapping subscriptions of one client are merged into one entry (C06.b)")
			// the client is looked up by the map key
			c.ob("C03.a one-enqueue-per-client", "(*mqtt.Server).publishToSubscribers delivers to the client registered under the subscription's client id", c.pos(ci.Pos()),
				strings.HasPrefix(describe(ci.Common().Args[1]), fnClientsGet+"(s.Clients, next(range("), describe(ci.Common().Args[1]))
		}
	}
	if ptc != nil {
		sends := sendSites(ptc, "State.outbound")
		c.ob("C03.a one-enqueue-per-client", "(*mqtt.Server).publishToClient has one enqueue site", c.pos(ptc.Pos()), len(sends) == 1, fmt.Sprint(len(sends)))
		for _, s := range sends {
			_, hit := (&PathQuery{Fn: ptc, From: s, Target: isIns(s)}).Find()
			c.ob("C03.a one-enqueue-per-client", "(*mqtt.Server).publishToClient enqueues at most once per call", c.pos(s.Pos()), hit == nil, "")
		}
		// (c) nil returns
		okEdge := func(b *ssa.BasicBlock, i int) bool { return true }
		_ = okEdge
		for _, r := range returns(ptc) {
			if !isNilConst(rvs(r)[1]) {
				continue
			}
			// paths to this return that avoid: No-Local edge, enqueue success, deferral store
			var sel ssa.Instruction
			if len(sends) == 1 {
				sel = sends[0]
			}
			isDeferral := func(x ssa.Instruction) bool {
				return isCallTo(x, fnInflSet) && dominatedByFact(x, textEq("sync/atomic.LoadInt32(cl.State.Inflight.sendQuota) == 0"), true)
			}
			q := &PathQuery{Fn: ptc, Target: isIns(r), Barrier: func(x ssa.Instruction) bool { return x == sel || isDeferral(x) },
				Assume: []Assume{{Match: func(t string) bool { return t == "sub.NoLocal" }, Truth: false}}}
			p, hit := q.Find()
			// the NoLocal edge itself needs Origin == cl.ID
			c.ob("C03.c nil-means-delivered", fmt.Sprintf("(*mqtt.Server).publishToClient: nil-error return under %s only after an enqueue, a deferral store, or the No-Local exclusion", guardKey(r)), c.pos(r.Pos()), hit == nil,
				"a message that was not delivered is reported as delivered: "+pathStr(ptc, p))
		}
		// the enqueue success edge: the nil return after the select is on the send case
		if len(sends) == 1 {
			if sel, ok := sends[0].(*ssa.Select); ok {
				c.ob("C03.c nil-means-delivered", "(*mqtt.Server).publishToClient: the enqueue is a non-blocking select with a reported default case", c.pos(sel.Pos()), !sel.Blocking, "a full queue is a reported drop, not a stall")
			}
		}
	}
	// single consumer
	n := 0
	for _, fn := range c.ModFns {
		for _, ins := range instrs(fn) {
			recv := false
			switch x := ins.(type) {
			case *ssa.UnOp:
				recv = x.Op == token.ARROW && strings.Contains(describe(x.X), "State.outbound")
			case *ssa.Select:
				for _, st := range x.States {
					if st.Send == nil && strings.Contains(describe(st.Chan), "State.outbound") {
						recv = true
					}
				}
			}
			if recv {
				n++
				c.ob("C03.a one-enqueue-per-client", fname(rootFn(fn))+" receives from the client's outbound queue", c.pos(ins.Pos()), fname(rootFn(fn)) == "(*mqtt.Client).WriteLoop", "a second consumer would split or duplicate the stream")
			}
		}
	}
	c.floor("C03.a receive sites of the outbound queue", n, 1)
	// (b) field preservation
	c.copyCoverage("C03.b copy-preserves-fields", "packets", "(*Properties).Copy", "Properties", map[string]string{})
	c.copyCoverage("C03.b copy-preserves-fields", "packets", "(*Packet).Copy", "Packet", map[string]string{
		"Ignore": "routing flag set per hop by hooks; a copy is made only for packets that are being forwarded",
	})
	if f := c.fn("packets", "(*Packet).Copy"); f != nil {
		// nested FixedHeader fields
		want := []string{"Remaining", "Type", "Retain", "Dup", "Qos"}
		have := map[string]bool{}
		for _, ins := range instrs(f) {
			// a store to a field of a FixedHeader value (nested in the packet literal, or built in a local first)
			if st, ok := ins.(*ssa.Store); ok {
				if fa, isFA := st.Addr.(*ssa.FieldAddr); isFA && strings.HasSuffix(strings.TrimPrefix(fa.X.Type().String(), "*"), "packets.FixedHeader") {
					have[fieldName(fa.X.Type(), fa.Field)] = true
				}
			}
		}
		for _, w := range want {
			c.ob("C03.b copy-preserves-fields", "(*packets.Packet).Copy sets FixedHeader."+w, c.pos(f.Pos()), have[w], "")
		}
	}
}

// copyCoverage: the function builds a value of struct type T and assigns every field of T except the tabled ones.
func (c *Ctx) copyCoverage(rule, pkg, fn, typ string, except map[string]string) {
	f := c.fn(pkg, fn)
	t := c.namedType(pkg, typ)
	if f == nil || t == nil {
		return
	}
	st, ok := t.Underlying().(*types.Struct)
	if !ok {
		return
	}
	assigned := map[string]bool{}
	for _, ins := range instrs(f) {
		s, ok := ins.(*ssa.Store)
		if !ok {
			continue
		}
		// walk up FieldAddr chain to the root alloc of type T
		v := s.Addr
		var top string
		for {
			fa, ok := v.(*ssa.FieldAddr)
			if !ok {
				break
			}
			top = fieldName(fa.X.Type(), fa.Field)
			v = fa.X
		}
		if a, ok := v.(*ssa.Alloc); ok && top != "" {
			et := a.Type().(*types.Pointer).Elem()
			if types.Identical(et, t) {
				assigned[top] = true
			}
		}
	}
	n := 0
	for i := 0; i < st.NumFields(); i++ {
		name := st.Field(i).Name()
		n++
		if why, ex := except[name]; ex {
			c.ob(rule, fmt.Sprintf("%s: field %s is deliberately not copied", fname(f), name), c.pos(f.Pos()), !assigned[name], why)
			continue
		}
		c.ob(rule, fmt.Sprintf("%s assigns field %s", fname(f), name), c.pos(f.Pos()), assigned[name], "a field that is not copied is silently dropped from every forwarded message")
	}
	c.floor(rule+" fields of "+typ, n, 10)
}

// ---- C04 -----------------------------------------------------------------------------------

func init() {
	register(&Prop{
		ID:        "C04",
		Title:     "Delivered QoS, subscription identifiers and retain flag follow the options",
		Technique: "clamp-idiom recognition (store guarded by the matching comparison), identifier provenance, guard reachability for the retain flag",
		Explanation: "(a) in publishToClient the delivered QoS is lowered only by the two clamps `if q > sub.Qos {q = sub.Qos}` and `if q > MaximumQos {q = MaximumQos}`, both before the message is stored or enqueued; Subscription.Merge raises QoS only through the mirrored max idiom; processSubscribe grants the requested QoS clamped to the server maximum; " +
			"(b) publishToClient reads sub.Identifiers, which only Subscription.Merge fills: every caller must pass a subscription that went through Merge; " +
			"(c) the retain flag is cleared exactly when the delivery is not a retained replay and (MQTT 3 or Retain As Published is not set); " +
			"(d) at every call of Subscription.Merge the argument is a raw stored subscription, never an accumulated entry (Merge copies only the argument's scalar Identifier); (e) only Merge stores into Subscription.Identifiers, so the map a merged entry carries never aliases trie state.",
		NotDecided: []string{"the numerical minimum over several overlapping subscriptions in a history"},
		Run:        runC04,
	})
}

func runC04(c *Ctx) {
	if f := c.fn("mqtt", "(*Server).publishToClient"); f != nil {
		sts := storesTo(f, "out.FixedHeader.Qos")
		c.ob("C04.a qos-clamps", "(*mqtt.Server).publishToClient lowers the delivered QoS in exactly two places", c.pos(f.Pos()), len(sts) == 2, fmt.Sprint(len(sts)))
		seen := map[string]bool{}
		for _, st := range sts {
			v := describe(st.Val)
			guard := "out.FixedHeader.Qos > " + v
			seen[v] = true
			c.underFact("C04.a qos-clamps", "(*mqtt.Server).publishToClient: QoS <- "+v+" only when the current QoS is higher", st, textEq(guard), true, "the clamp must be a minimum, never a raise")
			for _, s := range sendSites(f, "State.outbound") {
				c.ob("C04.a qos-clamps", "(*mqtt.Server).publishToClient: the clamp to "+v+" precedes the enqueue", c.pos(st.Pos()), reachableFrom(st, s) && !reachableFrom(s, st), "")
			}
			for _, ci := range c.callsNamed(f, fnInflSet) {
				c.ob("C04.a qos-clamps", fmt.Sprintf("(*mqtt.Server).publishToClient: the clamp to %s precedes Inflight.Set under %s", v, guardKey(ci)), c.pos(st.Pos()), reachableFrom(st, ci) && !reachableFrom(ci, st), "")
			}
		}
		c.ob("C04.a qos-clamps", "(*mqtt.Server).publishToClient clamps to the subscription's QoS", c.pos(f.Pos()), seen["sub.Qos"], "")
		c.ob("C04.a qos-clamps", "(*mqtt.Server).publishToClient clamps to the server's maximum QoS", c.pos(f.Pos()), seen["s.Options.Capabilities.MaximumQos"], "")
		// (b) identifiers are read from sub.Identifiers
		reads := false
		for _, ins := range instrs(f) {
			if r, ok := ins.(*ssa.Range); ok && describe(r.X) == "sub.Identifiers" {
				reads = true
			}
		}
		c.ob("C04.b identifiers-provenance", "(*mqtt.Server).publishToClient copies the subscription identifiers from sub.Identifiers", c.pos(f.Pos()), reads, "")
		// (c) retain flag
		var clr *ssa.Store
		for _, st := range storesTo(f, "out.FixedHeader.Retain") {
			if describe(st.Val) == "false" {
				clr = st
			}
		}
		if clr == nil {
			c.ob("C04.c retain-flag", "(*mqtt.Server).publishToClient clears the retain flag on live delivery", c.pos(f.Pos()), false, "no store of false to out.FixedHeader.Retain")
		} else {
			reach := func(as ...Assume) bool {
				_, hit := (&PathQuery{Fn: f, Target: isIns(clr), Assume: as}).Find()
				return hit != nil
			}
			fwd := func(b bool) Assume { return assumeEq("sub.FwdRetainedFlag", b) }
			v5 := func(b bool) Assume { return assumeEq("cl.Properties.ProtocolVersion == 5", b) }
			v3 := func(b bool) Assume { return assumeEq("cl.Properties.ProtocolVersion < 5", b) }
			rap := func(b bool) Assume { return assumeEq("sub.RetainAsPublished", b) }
			c.ob("C04.c retain-flag", "(*mqtt.Server).publishToClient keeps the retain flag on a retained replay", c.pos(clr.Pos()), !reach(fwd(true)), "")
			c.ob("C04.c retain-flag", "(*mqtt.Server).publishToClient keeps the retain flag for MQTT 5 Retain As Published", c.pos(clr.Pos()), !reach(fwd(false), v5(true), v3(false), rap(true)), "")
			c.ob("C04.c retain-flag", "(*mqtt.Server).publishToClient clears the retain flag on live delivery to MQTT 5 without Retain As Published", c.pos(clr.Pos()), reach(fwd(false), v5(true), v3(false), rap(false)), "")
			c.ob("C04.c retain-flag", "(*mqtt.Server).publishToClient clears the retain flag on live delivery to MQTT 3", c.pos(clr.Pos()), reach(fwd(false), v5(false), v3(true)), "")
		}
	}
	// every caller passes a merged subscription
	if f := c.fn("mqtt", "(*Server).publishToSubscribers"); f != nil {
		ci := c.call1(f, fnPubToClient)
		c.ob("C04.b identifiers-provenance", "(*mqtt.Server).publishToSubscribers passes the merged entry of Subscribers.Subscriptions", c.pos(f.Pos()),
			ci != nil && strings.Contains(describe(ci.Common().Args[2]), "next(range(") && strings.Contains(describe(ci.Common().Args[2]), ".Subscriptions"), "collector results went through Subscription.Merge")
	}
	if f := c.fn("mqtt", "(*Server).publishRetainedToClient"); f != nil {
		merged := len(c.callsNamed(f, "(packets.Subscription).Merge")) > 0
		for _, st := range storesTo(f, "sub.Identifiers") {
			_ = st
			merged = true
		}
		c.ob("C04.b identifiers-provenance", "(*mqtt.Server).publishRetainedToClient passes a subscription whose Identifiers were filled (Merge)", c.pos(f.Pos()), merged,
			"the raw SUBSCRIBE filter has only the scalar Identifier set; publishToClient reads the Identifiers map, so retained replays carry no Subscription Identifier")
	}
	if f := c.fn("packets", "(Subscription).Merge"); f != nil {
		for _, st := range storesTo(f, "s.Qos") {
			c.underFact("C04.a qos-clamps", "(packets.Subscription).Merge raises QoS only to a higher subscription QoS", st, textEq("n.Qos > s.Qos"), true, "")
		}
		fills := false
		for _, ins := range instrs(f) {
			if mu, ok := ins.(*ssa.MapUpdate); ok && describe(mu.Map) == "s.Identifiers" {
				fills = true
			}
		}
		c.ob("C04.b identifiers-provenance", "(packets.Subscription).Merge records each subscription's identifier under its filter", c.pos(f.Pos()), fills, "")
	}
	// (d) operand roles of Merge: Merge(n) takes only n's scalar Identifier, so n must be a raw stored subscription and
	// the receiver the accumulated entry; an accumulated entry passed as n loses all but one of its identifiers
	nMerge, nAcc := 0, 0
	for _, fn := range c.ModFns {
		for _, ci := range c.callsNamed(fn, "(packets.Subscription).Merge") {
			nMerge++
			v := asCall(ci)
			var into *ssa.MapUpdate
			if v != nil {
				for _, ref := range *v.Referrers() {
					if mu, ok := ref.(*ssa.MapUpdate); ok && mu.Value == ssa.Value(v) {
						into = mu
					}
				}
			}
			if into == nil {
				c.ob("C04.d merge-roles", fmt.Sprintf("%s: Merge result under %s is stored into the accumulator map", fname(fn), guardKey(ci)), c.pos(ci.Pos()), false, "result is not stored into a map")
				continue
			}
			acc := describe(into.Map)
			fromAcc := func(x ssa.Value) bool {
				found := false
				var walk func(v ssa.Value, seen map[ssa.Value]bool)
				walk = func(v ssa.Value, seen map[ssa.Value]bool) {
					if seen[v] || found {
						return
					}
					seen[v] = true
					if l, ok := v.(*ssa.Lookup); ok && describe(l.X) == acc {
						found = true
						return
					}
					if ins, ok := v.(ssa.Instruction); ok {
						for _, op := range ins.Operands(nil) {
							if *op != nil {
								walk(*op, seen)
							}
						}
					}
				}
				walk(x, map[ssa.Value]bool{})
				return found
			}
			if fromAcc(ci.Common().Args[0]) {
				nAcc++
			}
			c.ob("C04.d merge-roles", fmt.Sprintf("%s: the subscription merged into %s (argument of Merge) is a raw stored subscription, not an accumulated entry", fname(fn), acc), c.pos(ci.Pos()),
				!fromAcc(ci.Common().Args[1]), "Merge copies only the argument's scalar Identifier: an accumulated entry passed as the argument loses every identifier but one")
		}
	}
	c.floor("C04.d Merge call sites", nMerge, 3)
	_ = nAcc
	// (e) only Merge creates an Identifiers map: subscriptions stored in the trie carry none, so the map a merged
	// entry carries is private to one collector result and never aliases trie state
	nW := 0
	for _, fn := range c.ModFns {
		for _, ins := range instrs(fn) {
			st, ok := ins.(*ssa.Store)
			if !ok {
				continue
			}
			fa, ok := st.Addr.(*ssa.FieldAddr)
			if !ok || fieldName(fa.X.Type(), fa.Field) != "Identifiers" || !strings.HasSuffix(strings.TrimPrefix(fa.X.Type().String(), "*"), "packets.Subscription") {
				continue
			}
			nW++
			c.ob("C04.e identifiers-owner", fmt.Sprintf("%s: store to Subscription.Identifiers (only Merge may create the map)", fname(fn)), c.pos(st.Pos()),
				fname(fn) == "(packets.Subscription).Merge", "a stored subscription that carries its own Identifiers map shares it with every merged copy; Merge then writes other subscriptions' identifiers into trie state")
		}
	}
	c.floor("C04.e stores to Subscription.Identifiers", nW, 1)
	if f := c.fn("mqtt", "(*Server).processSubscribe"); f != nil {
		var clamp *ssa.Store
		for _, st := range storesTo(f, "sub.Qos") {
			if describe(st.Val) == "s.Options.Capabilities.MaximumQos" {
				clamp = st
			}
		}
		c.underFact("C04.a qos-clamps", "(*mqtt.Server).processSubscribe caps the granted QoS at the server maximum", clamp, textEq("sub.Qos > s.Options.Capabilities.MaximumQos"), true, "")
		for _, ins := range instrs(f) {
			if st, ok := ins.(*ssa.Store); ok && describe(st.Val) == "sub.Qos" && strings.Contains(describe(st.Addr), "[φrangeindex") {
				okc := clamp != nil
				if okc {
					_, hit := (&PathQuery{Fn: f, Target: isIns(st), Barrier: isIns(clamp), Assume: []Assume{assumeEq("sub.Qos > s.Options.Capabilities.MaximumQos", true)}}).Find()
					okc = hit == nil
				}
				c.ob("C04.a qos-clamps", "(*mqtt.Server).processSubscribe reports the capped QoS in the SUBACK", c.pos(st.Pos()), okc, "a requested QoS above the server maximum must be granted as the maximum")
			}
		}
	}
}

// ---- C12 -----------------------------------------------------------------------------------

func init() {
	register(&Prop{
		ID:        "C12",
		Title:     "Messages on one topic from one publisher arrive in publish order",
		Technique: "order-dependence analysis of the map-range + sort in Inflight.GetAll (comparator must induce a total order); single producer/consumer of the FIFO queue",
		Explanation: "(a) Inflight.GetAll collects records from a map range and sorts them: the comparator must compare a per-record unique key (the packet id or a sequence) at least as a tie-break and must not truncate the value it compares — otherwise the resend order is the map's iteration order; " +
			"(b) the per-client outbound queue has one producer site (publishToClient) and one consumer (WriteLoop), so queue order is enqueue order; " +
			"(a') ResendInflightMessages skips no stored record: every loop iteration writes its record before the next starts; (c) WritePacket writes straight to the connection only while the write buffer is empty (no overtaking of buffered packets).",
		NotDecided: []string{"overtaking between the queue and direct WritePacket calls", "order across reconnects"},
		Run:        runC12,
	})
}

func runC12(c *Ctx) {
	if f := c.fn("mqtt", "(*Inflight).GetAll"); f != nil {
		srt := c.call1(f, "sort.Slice")
		if srt == nil || len(f.AnonFuncs) == 0 {
			c.ob("C12.a deterministic-resend-order", "(*mqtt.Inflight).GetAll orders the records it collected from the map", c.pos(f.Pos()), false, "no sort.Slice with a comparator")
		} else {
			less := f.AnonFuncs[0]
			c.fnsSeen[less] = true
			fields := map[string]bool{}
			trunc := ""
			for _, ins := range instrs(less) {
				if fa, ok := ins.(*ssa.FieldAddr); ok {
					fields[fieldName(fa.X.Type(), fa.Field)] = true
				}
				if cv, ok := ins.(*ssa.Convert); ok {
					from, to := cv.X.Type().Underlying().(*types.Basic), cv.Type().Underlying().(*types.Basic)
					if from != nil && to != nil && sizeOf(to) < sizeOf(from) {
						trunc = fmt.Sprintf("%s(%s)", to.Name(), describe(cv.X))
					}
				}
			}
			var fl []string
			for k := range fields {
				fl = append(fl, k)
			}
			sort.Strings(fl)
			c.ob("C12.a deterministic-resend-order", "(*mqtt.Inflight).GetAll: the comparator includes a unique per-record key (PacketID) so that ties cannot fall back to map order", c.pos(less.Pos()), fields["PacketID"],
				"compares only "+strings.Join(fl, ",")+": records created within the same second come back in map-iteration order")
			c.ob("C12.a deterministic-resend-order", "(*mqtt.Inflight).GetAll: the comparator does not truncate the values it compares", c.pos(less.Pos()), trunc == "", "truncating conversion "+trunc+" wraps and reverses the order")
		}
	}
	if f := c.fn("mqtt", "(*Client).ResendInflightMessages"); f != nil {
		c.ob("C12.a deterministic-resend-order", "(*mqtt.Client).ResendInflightMessages resends in the order GetAll returns", c.pos(f.Pos()), c.call1(f, "(*mqtt.Inflight).GetAll") != nil, "")
		// no record is skipped: an iteration ends only after the record was written (or the function returned)
		var head, body *ssa.BasicBlock
		for _, b := range f.Blocks {
			switch b.Comment {
			case "rangeindex.loop", "rangeiter.loop":
				if head == nil {
					head = b
				}
			case "rangeindex.body", "rangeiter.body":
				if body == nil {
					body = b
				}
			}
		}
		if head == nil || body == nil {
			c.ob("C12.a deterministic-resend-order", "(*mqtt.Client).ResendInflightMessages iterates over the stored records", c.pos(f.Pos()), false, "loop not found")
		} else {
			_, hit := (&PathQuery{Fn: f, From: body.Instrs[0], Target: func(x ssa.Instruction) bool { return x == head.Instrs[0] }, Barrier: isNamed(fnWritePacket)}).Find()
			c.ob("C12.a deterministic-resend-order", "(*mqtt.Client).ResendInflightMessages: no stored record is skipped — every iteration writes its record before the next one starts", c.pos(body.Instrs[0].Pos()), hit == nil,
				"a record left for later is overtaken by newer messages published after the session resumed")
		}
	}
	// (c) a packet never overtakes bytes still waiting in the client's write buffer
	if f := c.fn("mqtt", "(*Client).WritePacket"); f != nil {
		n := 0
		for _, cl := range withAnon(f) {
			for _, ins := range instrs(cl) {
				cc := callOf(ins)
				if cc != nil && cname(cc) == "(*bytes.Buffer).WriteTo" && strings.Contains(describe(cc.Args[1]), "Net.Conn") {
					n++
					c.underFact("C12.c no-overtaking", fname(cl)+": a direct connection write happens only while nothing is buffered ("+guardKey(ins)+")", ins, textEq("cl.Net.outbuf == nil"), true,
						"a packet written straight to the connection overtakes earlier packets still held in outbuf")
				}
			}
		}
		c.floor("C12.c direct connection writes", n, 2)
	}
	// (b)
	for _, fn := range c.ModFns {
		if len(sendSites(fn, "State.outbound")) > 0 {
			c.ob("C12.b single-producer-consumer", fname(rootFn(fn))+" sends on the client's outbound queue", c.pos(fn.Pos()), fname(rootFn(fn)) == fnPubToClient, "")
		}
	}
	if f := c.fn("mqtt", "(*Client).WriteLoop"); f != nil {
		c.ob("C12.b single-producer-consumer", "(*mqtt.Client).WriteLoop writes packets in the order it receives them (one WritePacket per receive)", c.pos(f.Pos()), len(c.callsNamed(f, fnWritePacket)) == 1, "")
	}
	if f := c.fn("mqtt", "newClient"); f != nil {
		mk := false
		for _, ins := range instrs(f) {
			if m, ok := ins.(*ssa.MakeChan); ok && strings.Contains(describe(m.Size), "MaximumClientWritesPending") {
				mk = true
			}
		}
		c.ob("C12.b single-producer-consumer", "mqtt.newClient creates the outbound queue as a buffered channel (FIFO)", c.pos(f.Pos()), mk, "")
	}
}

func sizeOf(b *types.Basic) int {
	switch b.Kind() {
	case types.Int8, types.Uint8, types.Bool:
		return 1
	case types.Int16, types.Uint16:
		return 2
	case types.Int32, types.Uint32, types.Float32:
		return 4
	}
	return 8
}

// ---- C18 -----------------------------------------------------------------------------------

func init() {
	register(&Prop{
		ID:        "C18",
		Title:     "Auth ledger decisions are deterministic and use MQTT level semantics",
		Technique: "order-dependence analysis of range-over-map loops (a body that can leave with different results for different entries); dominance of the user block; level-count guard in MatchTopic",
		Explanation: "(a) in Ledger.ACLOk and AuthOk a `range` over a map whose body can return different results for different entries makes the decision depend on Go's randomised iteration order; existential loops (one possible result) and slice ranges (list order) pass; " +
			"(b) the user's own rules are consulted before the global list; global rules are slice ranges with an early return (first matching rule decides); " +
			"(c) MatchTopic declares a match for a filter without '#' only after comparing the number of levels of filter and topic, and every positive result is decided after the topic was cut at its '/' separators (whole-level comparison); in (a) a returned value computed from the visited map entry counts as order-dependent.",
		NotDecided: []string{"RString.Matches prefix semantics", "MatchTopic's truth table beyond the level-count guard"},
		Run:        runC18,
	})
}

// phiLeaves expands a value through phi nodes into the values it may take.
func phiLeaves(v ssa.Value, seen map[ssa.Value]bool) []ssa.Value {
	if seen[v] {
		return nil
	}
	seen[v] = true
	if p, ok := v.(*ssa.Phi); ok {
		var out []ssa.Value
		for _, e := range p.Edges {
			out = append(out, phiLeaves(e, seen)...)
		}
		return out
	}
	return []ssa.Value{v}
}

// valueDependsOn reports whether v is computed from src (through operands of pure instructions and calls).
func valueDependsOn(v, src ssa.Value, seen map[ssa.Value]bool) bool {
	if v == src {
		return true
	}
	if seen[v] {
		return false
	}
	seen[v] = true
	ins, ok := v.(ssa.Instruction)
	if !ok {
		return false
	}
	for _, op := range ins.Operands(nil) {
		if *op != nil && valueDependsOn(*op, src, seen) {
			return true
		}
	}
	return false
}

func runC18(c *Ctx) {
	for _, name := range []string{"(*Ledger).ACLOk", "(*Ledger).AuthOk"} {
		f := c.fn("hooks/auth", name)
		if f == nil {
			continue
		}
		nMap, nSlice := 0, 0
		for _, ins := range instrs(f) {
			r, ok := ins.(*ssa.Range)
			if !ok {
				continue
			}
			if _, isMap := r.X.Type().Underlying().(*types.Map); !isMap {
				continue
			}
			nMap++
			// the loop: blocks from which the Next of this range is reachable again (loop body) — returns inside it
			var next *ssa.Next
			for _, ref := range *r.Referrers() {
				if n, ok := ref.(*ssa.Next); ok {
					next = n
				}
			}
			if next == nil {
				continue
			}
			results := map[string]bool{}
			entryDep := false
			for _, ret := range returns(f) {
				// a return is "inside the loop body" if it is reachable from next without leaving through the loop-exit edge
				// (the exit edge is the false edge of the `ok` extract test in next's block)
				exitCut := func(b *ssa.BasicBlock, i int) bool { return !(b == next.Block() && i == 1) }
				_, hit := (&PathQuery{Fn: f, From: next, Target: isIns(ret), EdgeOK: exitCut, Barrier: func(x ssa.Instruction) bool {
					// do not walk into an inner loop's iteration as a different outer entry: fine to include
					return false
				}}).Find()
				if hit != nil {
					vs := rvs(ret)
					for _, leaf := range phiLeaves(vs[len(vs)-1], map[ssa.Value]bool{}) {
						if valueDependsOn(leaf, next, map[ssa.Value]bool{}) {
							results["a value computed from the visited entry ("+describe(leaf)+")"] = true
							entryDep = true
						} else {
							results[describe(leaf)] = true
						}
					}
				}
			}
			var rs []string
			for k := range results {
				rs = append(rs, k)
			}
			sort.Strings(rs)
			c.ob("C18.a no-order-dependent-map-range", fmt.Sprintf("%s: range over map %s cannot return different results for different entries", fname(f), describe(r.X)), c.pos(r.Pos()), len(rs) <= 1 && !entryDep,
				"the body returns "+strings.Join(rs, " or ")+" depending on which matching entry Go's randomised map iteration visits first")
		}
		for _, b := range f.Blocks {
			if b.Comment == "rangeindex.loop" {
				nSlice++
			}
		}
		if name == "(*Ledger).ACLOk" {
			c.floor("C18.a map ranges in ACLOk", nMap, 4)
		}
		c.ob("C18.b rule-order", fname(f)+" walks the global rule list in slice order", c.pos(f.Pos()), nSlice >= 1, "first matching rule decides")
		// the Users lookup precedes the global loop
		var users ssa.Instruction
		for _, ins := range instrs(f) {
			if l, ok := ins.(*ssa.Lookup); ok && describe(l.X) == "l.Users" {
				users = l
			}
		}
		var loop ssa.Instruction
		for _, b := range f.Blocks {
			if b.Comment == "rangeindex.loop" && loop == nil {
				loop = b.Instrs[0]
			}
		}
		c.before("C18.b rule-order", fname(f)+" consults the user's own rules before the global list", users, loop, "")
	}
	if f := c.fn("hooks/auth", "MatchTopic"); f != nil {
		// the fall-through `return elements, true`
		for _, r := range returns(f) {
			vs := rvs(r)
			if describe(vs[1]) != "true" {
				continue
			}
			// whole-level comparison: a positive result needs the topic to have been cut at its level separators
			var topicParam ssa.Value
			for _, p := range f.Params {
				if canonName(p, p.Name()) == "topic" {
					topicParam = p
				}
			}
			sepSeen := false
			if topicParam != nil && !dominatedByFact(r, textEq(`filter == "#"`), true) {
				for _, ins := range instrs(f) {
					ci, isCall := ins.(ssa.CallInstruction)
					if !isCall || !domInstr(ins, r) {
						continue
					}
					onTopic, sep := false, false
					for _, a := range ci.Common().Args {
						if valueDependsOn(a, topicParam, map[ssa.Value]bool{}) {
							onTopic = true
						}
						if k, isK := a.(*ssa.Const); isK && k.Value != nil && strings.Contains(k.Value.ExactString(), "/") && !strings.Contains(k.Value.ExactString(), "#") {
							sep = true
						}
					}
					if onTopic && sep {
						sepSeen = true
					}
				}
				c.ob("C18.c level-semantics", fmt.Sprintf("hooks/auth.MatchTopic: the positive result under %s is decided on whole topic levels (the topic was cut at '/')", guardKey(r)), c.pos(r.Pos()), sepSeen,
					"a match decided on raw string prefixes lets home/# match homework/answers")
			}
			// returns inside the '#' branch are fine
			if dominatedByFact(r, func(t string) bool { return strings.HasSuffix(t, `== "#"`) }, true) {
				continue
			}
			guarded := false
			for _, ed := range edgeDoms(r) {
				t, _, _ := condOf(ed.b)
				if strings.Contains(t, "builtin.len(") && strings.Contains(t, "strings.Split(topic") && strings.Contains(t, "strings.Split(filter") {
					guarded = true
				}
			}
			// also accept an upfront length comparison anywhere before the loop
			for _, b := range f.Blocks {
				if t, _, ok := condOf(b); ok && strings.Contains(t, "builtin.len(strings.Split(topic") && strings.Contains(t, "builtin.len(strings.Split(filter") {
					guarded = true
				}
			}
			c.ob("C18.c level-semantics", "hooks/auth.MatchTopic: a filter without '#' matches only a topic with the same number of levels", c.pos(r.Pos()), guarded,
				"the loop runs over the filter's levels only and returns true when they are exhausted: a/+ matches a/b/c, a/b matches a/b/c")
		}
	}
}

// ---- C35 -----------------------------------------------------------------------------------

func init() {
	register(&Prop{
		ID:        "C35",
		Title:     "The connected-client limit is never exceeded",
		Technique: "check-then-act detection: the value compared with the limit must be the result of the atomic read-modify-write that takes the slot",
		Explanation: "(a) the limit test and the increment of ClientsConnected must be one atomic step: the value compared with MaximumClients has to be the result of the atomic add/CAS that takes the slot (add-then-compare-and-undo or a CAS loop), not a separate load followed later by an add with blocking calls in between; " +
			"(b) the refusal uses ErrServerUnavailable for MQTT 3 (mapped to return code 3) and ErrServerBusy (0x89) for MQTT 5, and the decrement is deferred right after the increment; " +
			"(c) the increment is reached only on the edge where ClientsConnected < MaximumClients was observed — no exemption by session state or client id; (d) the counter is written only by the handler's single increment and its deferred decrement.",
		NotDecided: []string{"actual schedules"},
		Run:        runC35,
	})
}

func runC35(c *Ctx) {
	connectParsedFirst(c, "C35.e connect-parsed-first")
	f := c.fn("mqtt", "(*Server).attachClient")
	if f == nil {
		return
	}
	var test *ssa.If
	for _, b := range f.Blocks {
		if t, _, ok := condOf(b); ok && strings.Contains(t, "s.Info.ClientsConnected") && strings.Contains(t, "MaximumClients") {
			test = b.Instrs[len(b.Instrs)-1].(*ssa.If)
		}
	}
	var add ssa.CallInstruction
	for _, ci := range c.callsNamed(f, "sync/atomic.AddInt64") {
		if describe(ci.Common().Args[0]) == "s.Info.ClientsConnected" && describe(ci.Common().Args[1]) == "1" {
			if _, isDefer := ci.(*ssa.Defer); !isDefer {
				add = ci
			}
		}
	}
	if test == nil || add == nil {
		c.ob("C35.a atomic-limit", "(*mqtt.Server).attachClient: limit test and slot increment", c.pos(f.Pos()), false, "the limit test or the increment of ClientsConnected was not found")
		return
	}
	// the compared value must be the RMW result
	rmw := false
	walkVal(test.Cond, func(v ssa.Value) {
		if call, ok := v.(*ssa.Call); ok {
			n := cname(&call.Call)
			if (n == "sync/atomic.AddInt64" || n == "sync/atomic.CompareAndSwapInt64") && describe(call.Call.Args[0]) == "s.Info.ClientsConnected" {
				rmw = true
			}
		}
	})
	c.ob("C35.a atomic-limit", "(*mqtt.Server).attachClient: the value compared with MaximumClients is the result of the atomic operation that takes the slot", c.pos(test.Pos()), rmw,
		"the limit is tested on a separate atomic load and the counter is incremented later (after hooks and authentication): concurrent CONNECTs all pass the test before any of them increments")
	// (b)
	for _, ci := range c.callsNamed(f, fnSendConnack) {
		d := describe(ci.Common().Args[2])
		if d == "packets.ErrServerUnavailable" {
			c.underFact("C35.b refusal-codes", "(*mqtt.Server).attachClient: MQTT 3 clients over the limit get ErrServerUnavailable", ci, textEq("cl.Properties.ProtocolVersion < 5"), true, "")
		}
		if d == "packets.ErrServerBusy" {
			c.underFact("C35.b refusal-codes", "(*mqtt.Server).attachClient: MQTT 5 clients over the limit get ErrServerBusy", ci, textEq("cl.Properties.ProtocolVersion < 5"), false, "")
		}
	}
	c.codeIs("C35.b refusal-codes", "ErrServerBusy", 0x89)
	c.codeIs("C35.b refusal-codes", "Err3ServerUnavailable", 0x03)
	c.v5toV3("C35.b refusal-codes", "ErrServerUnavailable", "Err3ServerUnavailable")
	// refusal happens before the increment and returns
	for _, ci := range c.callsNamed(f, fnSendConnack) {
		d := describe(ci.Common().Args[2])
		if d == "packets.ErrServerUnavailable" || d == "packets.ErrServerBusy" {
			c.ob("C35.b refusal-codes", "(*mqtt.Server).attachClient: a refused connection ("+d+") never takes a slot", c.pos(ci.Pos()), !reachableFrom(ci, add), "")
		}
	}
	// decrement deferred right after
	var dec ssa.Instruction
	for _, ins := range instrs(f) {
		if d, ok := ins.(*ssa.Defer); ok && cname(&d.Call) == "sync/atomic.AddInt64" && describe(d.Call.Args[0]) == "s.Info.ClientsConnected" && describe(d.Call.Args[1]) == "-1" {
			dec = d
		}
	}
	okd := dec != nil && dec.Block() == add.Block() && idxIn(dec) > idxIn(add)
	if okd {
		for _, ins := range add.Block().Instrs[idxIn(add)+1 : idxIn(dec)] {
			if _, isCall := ins.(ssa.CallInstruction); isCall {
				okd = false
			}
		}
	}
	c.ob("C35.b refusal-codes", "(*mqtt.Server).attachClient defers the decrement immediately after the increment", c.pos(add.Pos()), okd, "a return or panic in between would leak a slot")
	// (c) the limit test guards every way to a slot: no condition (session state, client id, protocol) lets a
	// connection reach the increment without having passed `count < MaximumClients`
	c.underFact("C35.c limit-guards-every-slot", "(*mqtt.Server).attachClient: the slot is taken only on the edge where ClientsConnected < MaximumClients was observed", add,
		textHas("s.Info.ClientsConnected", "MaximumClients", " < "), true, "some path reaches the increment without the limit test (for instance an exemption for known client ids: offline sessions hold no slot)")
	// (d) one increment and one deferred decrement per handler: every other write of the counter breaks the count
	nW := 0
	for _, fn := range c.ModFns {
		if fnPkgPath(fn) != modPath {
			continue
		}
		for _, ins := range instrs(fn) {
			cc := callOf(ins)
			if cc == nil {
				continue
			}
			n := cname(cc)
			if !strings.HasPrefix(n, "sync/atomic.") || len(cc.Args) == 0 || !strings.HasSuffix(describe(cc.Args[0]), ".Info.ClientsConnected") {
				continue
			}
			if n == "sync/atomic.LoadInt64" {
				continue
			}
			nW++
			_, isDefer := ins.(*ssa.Defer)
			role := ""
			switch {
			case n == "sync/atomic.AddInt64" && describe(cc.Args[1]) == "1" && !isDefer && ins == ssa.Instruction(add):
				role = "takes the slot"
			case n == "sync/atomic.AddInt64" && describe(cc.Args[1]) == "-1" && isDefer && ins == dec:
				role = "releases the slot when the handler returns"
			}
			c.ob("C35.d slot-accounting", fmt.Sprintf("%s: %s(ClientsConnected, %s)%s is the handler's single increment or its deferred decrement", fname(fn), strings.TrimPrefix(n, "sync/atomic."), describe(cc.Args[len(cc.Args)-1]), map[bool]string{true: " [deferred]", false: ""}[isDefer]),
				c.pos(ins.Pos()), role != "", "a second decrement (or any other write) makes the counter drift below the number of live connections, and later connections are admitted above the limit")
		}
	}
	c.floor("C35.d writes of ClientsConnected", nW, 2)
}

// v5toV3 checks an entry of packets.V5CodesToV3.
func (c *Ctx) v5toV3(rule, from, to string) {
	sp := c.SSA[modPath+"/packets"]
	if sp == nil {
		return
	}
	found := false
	if initf := sp.Func("init"); initf != nil {
		for _, ins := range instrs(initf) {
			if mu, ok := ins.(*ssa.MapUpdate); ok && describe(mu.Key) == "packets."+from && describe(mu.Value) == "packets."+to {
				found = true
			}
		}
	}
	c.ob(rule, fmt.Sprintf("packets.V5CodesToV3 maps %s to %s", from, to), "", found, "")
}

// ---- C36 -----------------------------------------------------------------------------------

func init() {
	register(&Prop{
		ID:        "C36",
		Title:     "Shutdown closes every connection and waits for all handlers",
		Technique: "WaitGroup happens-before rule over the call graph with goroutine spawn points; sibling comparison of the listeners' Close methods; shutdown call chain",
		Explanation: "(a) ClientsWg.Add must happen-before CloseAll's Wait: it has to run in the accepting goroutine before the `go` statement that starts the handler, not inside the spawned handler; " +
			"(b) every listener's Close stops accepting before (or atomically with) sweeping its clients, sets its end flag before the sweep, and sweeps on every path; Server.Close reaches Listeners.CloseAll → each listener's Close → closeListenerClients → DisconnectClient(ErrServerShuttingDown), and CloseAll ends in ClientsWg.Wait; " +
			"(c) a connection becomes visible to the sweep (GetByListener) only at Clients.Add: the window between accept and registration is reported by (a)/(b); while a listener's Close sweeps before it stops accepting, its Serve loop re-tests the end flag between Accept and the hand-over to the handler; " +
			"(d) in the function that registers with ClientsWg the Add precedes every module call, hook and read (a handler in its handshake is already counted).",
		NotDecided: []string{"actual schedules of connections racing shutdown"},
		Run:        runC36,
	})
}

func runC36(c *Ctx) {
	disconnectAlwaysStops(c, "C36.e disconnect-stops")
	// (a) Add sites of ClientsWg
	n := 0
	for _, fn := range c.ModFns {
		for _, ci := range c.callsNamed(fn, "(*sync.WaitGroup).Add") {
			if !strings.Contains(describe(ci.Common().Args[0]), "ClientsWg") {
				continue
			}
			n++
			// is fn reached only through a `go`? find goroutine-spawned closures that reach fn
			spawned := ""
			for _, g := range c.ModFns {
				for _, ins := range instrs(g) {
					goi, ok := ins.(*ssa.Go)
					if !ok {
						continue
					}
					var starts []*ssa.Function
					if mc, ok := goi.Call.Value.(*ssa.MakeClosure); ok {
						starts = append(starts, mc.Fn.(*ssa.Function))
					} else if sf := goi.Call.StaticCallee(); sf != nil {
						starts = append(starts, sf)
					}
					for _, s := range starts {
						if s != fn && c.reaches(s, func(x *ssa.Function) bool { return x == fn }) {
							spawned = fmt.Sprintf("%s (go at %s)", fname(g), c.pos(goi.Pos()))
						}
					}
				}
			}
			c.ob("C36.a waitgroup-happens-before", fmt.Sprintf("%s: ClientsWg.Add runs before the handler goroutine is started", fname(fn)), c.pos(ci.Pos()), spawned == "",
				"the Add executes inside the goroutine spawned by "+spawned+": CloseAll's Wait can return (counter still 0) while a just-accepted connection handler is starting")
		}
	}
	c.floor("C36.a ClientsWg.Add sites", n, 1)
	if f := c.fn("listeners", "(*Listeners).CloseAll"); f != nil {
		w := c.call1(f, "(*sync.WaitGroup).Wait")
		var last ssa.CallInstruction
		for _, ci := range c.callsNamed(f, "(*listeners.Listeners).Close") {
			last = ci
		}
		c.before("C36.b close-order", "(*listeners.Listeners).CloseAll waits for the handlers after closing every listener", last, w, "")
		if w != nil {
			c.noPath("C36.b close-order", "(*listeners.Listeners).CloseAll: every return is preceded by ClientsWg.Wait", f, nil, anyReturn, isIns(w), nil, "")
		}
	}
	if f := c.fn("mqtt", "(*Server).Close"); f != nil {
		ca := c.call1(f, "(*listeners.Listeners).CloseAll")
		c.ob("C36.b close-order", "(*mqtt.Server).Close closes all listeners with the client sweep as callback", c.pos(f.Pos()), ca != nil && strings.Contains(describe(ca.Common().Args[1]), "closeListenerClients"), "")
	}
	if f := c.fn("mqtt", "(*Server).closeListenerClients"); f != nil {
		d := c.call1(f, fnDisconnect)
		c.ob("C36.b close-order", "(*mqtt.Server).closeListenerClients disconnects every client of the listener with ErrServerShuttingDown", c.pos(f.Pos()),
			d != nil && describe(d.Common().Args[2]) == "packets.ErrServerShuttingDown" && c.call1(f, "(*mqtt.Clients).GetByListener") != nil, "")
		c.codeIs("C36.b close-order", "ErrServerShuttingDown", 0x8B)
	}
	// listener Close siblings
	for _, l := range []string{"TCP", "UnixSock", "Net", "Websocket"} {
		f := c.fn("listeners", "(*"+l+").Close")
		if f == nil {
			continue
		}
		var sweep ssa.Instruction
		for _, ins := range instrs(f) {
			if call, ok := ins.(*ssa.Call); ok && describe(call.Call.Value) == "closeClients" {
				sweep = call
			}
		}
		var stop ssa.Instruction
		for _, ins := range instrs(f) {
			if cc := callOf(ins); cc != nil {
				if (cc.IsInvoke() && cc.Method.Name() == "Close" && strings.Contains(describe(cc.Value), ".listen")) || cname(cc) == "(*net/http.Server).Shutdown" {
					stop = ins
				}
			}
		}
		var cas ssa.Instruction
		for _, ci := range c.callsNamed(f, "sync/atomic.CompareAndSwapUint32", "sync/atomic.StoreUint32") {
			cas = ci
		}
		name := "(*listeners." + l + ").Close"
		c.ob("C36.b close-order", name+" sweeps the listener's clients", c.pos(f.Pos()), sweep != nil, "")
		c.ob("C36.b close-order", name+" stops accepting", c.pos(f.Pos()), stop != nil, "")
		if sweep != nil && cas != nil {
			c.ob("C36.b close-order", name+" sets its end flag before the sweep", c.pos(sweep.Pos()), reachableFrom(cas, sweep) && !reachableFrom(sweep, cas), "")
		}
		stopFirst := sweep != nil && stop != nil && reachableFrom(stop, sweep) && !reachableFrom(sweep, stop)
		if sweep != nil && stop != nil {
			c.ob("C36.b close-order", name+" stops accepting before it sweeps its clients", c.pos(sweep.Pos()), stopFirst,
				"the sweep runs first: a connection accepted between the sweep and the listener's close is never disconnected, and Close() then waits for it forever")
		}
		// (c) while Close sweeps before it stops accepting, the accept loop must re-test the end flag between
		// Accept and the hand-over to the handler: a connection accepted after the flag was set is dropped
		sv := c.optFn("listeners", "(*"+l+").Serve")
		if sv == nil {
			continue
		}
		var accept ssa.Instruction
		for _, ins := range instrs(sv) {
			if cc := callOf(ins); cc != nil && cc.IsInvoke() && cc.Method.Name() == "Accept" {
				accept = ins
			}
		}
		if accept == nil {
			continue // websocket: net/http owns the accept loop
		}
		nGo := 0
		for _, ins := range instrs(sv) {
			g, isGo := ins.(*ssa.Go)
			if !isGo {
				continue
			}
			nGo++
			m := textHas(".end)", "== 0")
			_, hit := (&PathQuery{Fn: sv, From: accept, Target: isIns(g), EdgeOK: func(b *ssa.BasicBlock, i int) bool { return !edgeEstablishes(b, i, m, true) }}).Find()
			c.ob("C36.c accept-rechecks-end", "(*listeners."+l+").Serve: a connection accepted after shutdown began is not handed to a handler (end flag re-tested after Accept), or Close stops accepting before its sweep", c.pos(g.Pos()),
				hit == nil || stopFirst, "Close sets the end flag, sweeps the current clients and only then closes the socket: a connection accepted in that window becomes a client nobody disconnects, and Server.Close waits for it forever")
		}
		c.floor("C36.c handler spawn sites in (*listeners."+l+").Serve", nGo, 1)
	}
	// (d) the WaitGroup covers the whole handler: in the function that registers with ClientsWg, no module call,
	// hook or read happens before the Add (a handler still in its handshake would be invisible to Close)
	for _, fn := range c.ModFns {
		var addWg ssa.CallInstruction
		for _, ci := range c.callsNamed(fn, "(*sync.WaitGroup).Add") {
			if strings.Contains(describe(ci.Common().Args[0]), "ClientsWg") {
				addWg = ci
			}
		}
		if addWg == nil {
			continue
		}
		_, hit := (&PathQuery{Fn: fn, Target: func(x ssa.Instruction) bool {
			if _, isDefer := x.(*ssa.Defer); isDefer {
				return false
			}
			cc := callOf(x)
			if cc == nil || x == ssa.Instruction(addWg) {
				return false
			}
			if cc.IsInvoke() {
				return true
			}
			g := cc.StaticCallee()
			return g != nil && inModule(g)
		}, Barrier: isIns(addWg)}).Find()
		what := ""
		if hit != nil {
			what = "reached first: " + cname(callOf(hit)) + " at " + c.pos(hit.Pos())
		}
		c.ob("C36.d waitgroup-covers-handler", fname(fn)+": ClientsWg.Add precedes every module call, hook and read of the handler", c.pos(addWg.Pos()), hit == nil,
			"Server.Close returns from Wait while a handler that has not registered yet is still running — "+what)
	}
}

// ---- C37 -----------------------------------------------------------------------------------

func init() {
	register(&Prop{
		ID:        "C37",
		Title:     "Idle connections are closed after one and a half keepalive periods",
		Technique: "must-pass-through (deadline refresh per packet) + narrow-integer arithmetic rule on the deadline expression",
		Explanation: "(a) Client.Read refreshes the deadline with the session's keepalive before every fixed-header read; attachClient refreshes once after the CONNECT was parsed; keepalive 0 sets the zero time (no deadline); " +
			"(b) the duration added to now is 1.5 × keepalive computed without loss: no addition or division on the uint16 keepalive before it is widened, and the factor 3/2 is applied in time.Duration; " +
			"(c) only inbound traffic extends the deadline: refreshDeadline is called from Client.Read and attachClient only, and it is the only place that sets a connection deadline (SetDeadline moves the read deadline too).",
		NotDecided: []string{"timing on a real connection", "behaviour of net.Conn.SetDeadline"},
		Run:        runC37,
	})
}

func runC37(c *Ctx) {
	if f := c.fn("mqtt", "(*Client).Read"); f != nil {
		rh := c.call1(f, "(*mqtt.Client).ReadFixedHeader")
		rd := c.call1(f, "(*mqtt.Client).refreshDeadline")
		if rh != nil && rd != nil {
			// every path from one header read to the next crosses a refresh
			_, hit := (&PathQuery{Fn: f, From: rh, Target: isIns(rh), Barrier: isIns(rd)}).Find()
			c.ob("C37.a refresh-per-packet", "(*mqtt.Client).Read refreshes the deadline before every fixed-header read", c.pos(rh.Pos()), hit == nil && domInstr(rd, rh), "")
			c.ob("C37.a refresh-per-packet", "(*mqtt.Client).Read refreshes with the session's keepalive", c.pos(rd.Pos()), describe(rd.Common().Args[1]) == "cl.State.Keepalive", "")
		} else {
			c.ob("C37.a refresh-per-packet", "(*mqtt.Client).Read refreshes the deadline before every fixed-header read", c.pos(f.Pos()), false, "ReadFixedHeader or refreshDeadline call not found")
		}
	}
	if f := c.fn("mqtt", "(*Server).attachClient"); f != nil {
		c.before("C37.a refresh-per-packet", "(*mqtt.Server).attachClient refreshes the deadline after parsing the CONNECT", c.call1(f, "(*mqtt.Client).ParseConnect"), c.call1(f, "(*mqtt.Client).refreshDeadline"), "")
	}
	// (c) only received packets extend the deadline: SetDeadline moves the read deadline too, so a refresh on the
	// write side keeps a silent client alive for as long as messages are forwarded to it
	c.whoCalls("C37.c only-inbound-refreshes", c.optFn("mqtt", "(*Client).refreshDeadline"), map[string]string{
		"(*mqtt.Client).Read":         "before reading each inbound packet",
		"(*mqtt.Server).attachClient": "once, after the CONNECT was parsed",
	})
	nSD := 0
	for _, fn := range c.ModFns {
		if fnPkgPath(fn) != modPath {
			continue
		}
		for _, ins := range instrs(fn) {
			cc := callOf(ins)
			if cc == nil || !cc.IsInvoke() || (cc.Method.Name() != "SetDeadline" && cc.Method.Name() != "SetReadDeadline") {
				continue
			}
			nSD++
			c.ob("C37.c only-inbound-refreshes", fname(fn)+": the connection deadline is set only by refreshDeadline", c.pos(ins.Pos()), fname(fn) == "(*mqtt.Client).refreshDeadline", "")
		}
	}
	c.floor("C37.c SetDeadline sites", nSD, 1)
	if f := c.fn("mqtt", "(*Client).ParseConnect"); f != nil {
		ok := false
		for _, st := range storesTo(f, "cl.State.Keepalive") {
			if describe(st.Val) == "pk.Connect.Keepalive" {
				ok = true
			}
		}
		c.ob("C37.a refresh-per-packet", "(*mqtt.Client).ParseConnect takes the keepalive from the CONNECT", c.pos(f.Pos()), ok, "")
	}
	f := c.fn("mqtt", "(*Client).refreshDeadline")
	if f == nil {
		return
	}
	add := c.call1(f, "(time.Time).Add")
	set := c.callsIn(f, func(n string, cc *ssa.CallCommon) bool { return cc.IsInvoke() && cc.Method.Name() == "SetDeadline" })
	c.underFact("C37.a refresh-per-packet", "(*mqtt.Client).refreshDeadline computes a deadline only for keepalive > 0", add, textEq("keepalive > 0"), true, "")
	okz := false
	if len(set) == 1 {
		if p, isPhi := set[0].Common().Args[0].(*ssa.Phi); isPhi {
			for _, e := range p.Edges {
				if k, isC := e.(*ssa.Const); isC && k.Value == nil {
					okz = true
				}
			}
		}
	}
	c.ob("C37.a refresh-per-packet", "(*mqtt.Client).refreshDeadline sets the zero time (no deadline) for keepalive 0", c.pos(f.Pos()), okz, "")
	if add == nil {
		c.ob("C37.b lossless-1.5x", "(*mqtt.Client).refreshDeadline adds a duration to now", c.pos(f.Pos()), false, "")
		return
	}
	dur := add.Common().Args[1]
	narrow := ""
	mul3, div2, halfTerm := false, false, false
	walkVal(dur, func(v ssa.Value) {
		b, ok := v.(*ssa.BinOp)
		if !ok {
			return
		}
		bt, _ := b.Type().Underlying().(*types.Basic)
		if bt != nil && sizeOf(bt) < 8 && (b.Op == token.ADD || b.Op == token.QUO || b.Op == token.MUL || b.Op == token.SHR) {
			narrow = fmt.Sprintf("%s computed in %s", describe(b), bt.Name())
		}
		if k, isC := constInt(b.Y); isC {
			if b.Op == token.MUL && k == 3 {
				mul3 = true
			}
			if b.Op == token.QUO && k == 2 {
				div2 = true
				if strings.Contains(describe(b.X), "1000000000") {
					halfTerm = true
				}
			}
		}
	})
	c.ob("C37.b lossless-1.5x", "(*mqtt.Client).refreshDeadline: no arithmetic on the keepalive before it is widened to time.Duration", c.pos(add.Pos()), narrow == "",
		"uint16 arithmetic wraps above 43690 and integer halving of whole seconds loses half a second for odd keepalives: "+narrow)
	c.ob("C37.b lossless-1.5x", "(*mqtt.Client).refreshDeadline: the deadline is keepalive × 3 / 2 (or keepalive + keepalive/2) computed in nanoseconds", c.pos(add.Pos()), (mul3 && div2) || halfTerm, describe(dur))
	c.ob("C37.b lossless-1.5x", "(*mqtt.Client).refreshDeadline derives the duration from the keepalive argument", c.pos(add.Pos()), strings.Contains(describe(dur), "time.Duration(keepalive)"), describe(dur))
}

// ---- C39 -----------------------------------------------------------------------------------

func init() {
	register(&Prop{
		ID:        "C39",
		Title:     "WebSocket transport is byte-transparent",
		Technique: "local path/dominance rules on wsConn.Read / wsConn.Write",
		Explanation: "(a) a message reader is used only after its type was compared with BinaryMessage, and a non-binary message returns an error; " +
			"(b) in Read every byte count returned by the inner reader is added to the running total before any return, the reader is dropped only on an error/EOF edge, and EOF of one message is not reported as an error (the next call continues with the next message); a full buffer returns what was read; " +
			"(c) Write sends the whole slice as one binary message and reports len(p).",
		NotDecided: []string{"gorilla/websocket's own framing behaviour", "equivalence with TCP for whole sessions"},
		Run:        runC39,
	})
}

func runC39(c *Ctx) {
	connReaderDiscipline(c, "C39.d reader-discipline")
	websocketAPISurface(c, "C39.e api-surface")
	f := c.fn("listeners", "(*wsConn).Read")
	if f != nil {
		nr := c.call1(f, "(*github.com/gorilla/websocket.Conn).NextReader")
		bin := func(t string) bool { return strings.HasSuffix(t, "#0 == 2") }
		for _, st := range storesTo(f, "ws.r") {
			if isNilConst(st.Val) {
				continue
			}
			c.underFact("C39.a binary-only", "(*listeners.wsConn).Read keeps a message reader only for a binary message", st, bin, true, "")
		}
		okErr := false
		for _, r := range returns(f) {
			vs := rvs(r)
			if strings.Contains(describe(vs[1]), "ErrInvalidMessage") && dominatedByFact(r, bin, false) {
				okErr = true
			}
			// the error may reach the return through a merged variable: then the place where it is produced is on
			// the non-binary edge
			seen := map[ssa.Value]bool{}
			var walk func(v ssa.Value)
			walk = func(v ssa.Value) {
				if v == nil || seen[v] {
					return
				}
				seen[v] = true
				v = loadSource(v)
				if ph, isPhi := v.(*ssa.Phi); isPhi {
					for _, e := range ph.Edges {
						walk(e)
					}
					return
				}
				if ld, isLd := v.(*ssa.UnOp); isLd && strings.Contains(describe(ld), "ErrInvalidMessage") && dominatedByFact(ld, bin, false) {
					okErr = true
				}
			}
			walk(vs[1])
		}
		c.ob("C39.a binary-only", "(*listeners.wsConn).Read returns ErrInvalidMessage for a non-binary message", c.pos(f.Pos()), okErr && nr != nil, "")
		// (b)
		var inner ssa.CallInstruction
		for _, ci := range c.callsIn(f, func(n string, cc *ssa.CallCommon) bool { return cc.IsInvoke() && cc.Method.Name() == "Read" }) {
			inner = ci
		}
		if inner == nil {
			c.ob("C39.b no-byte-dropped", "(*listeners.wsConn).Read reads from the current message reader", c.pos(f.Pos()), false, "")
		} else {
			call := asCall(inner)
			// n += br before any return reachable from the inner read
			isAcc := func(x ssa.Instruction) bool {
				b, ok := x.(*ssa.BinOp)
				return ok && b.Op == token.ADD && (strings.Contains(describe(b.Y), describe(call)+"#0") || strings.Contains(describe(b.X), describe(call)+"#0"))
			}
			c.noPath("C39.b no-byte-dropped", "(*listeners.wsConn).Read adds every byte count from the message reader to the total before returning", f, inner, anyReturn, isAcc, nil, "")
			// returns after the inner read return the accumulated count
			for _, r := range returns(f) {
				if reachableFrom(inner, r) {
					d := describe(rvs(r)[0])
					c.ob("C39.b no-byte-dropped", fmt.Sprintf("(*listeners.wsConn).Read: return under %s yields the accumulated count", guardKey(r)), c.pos(r.Pos()), strings.Contains(d, "φn") || strings.Contains(d, "#0"), d)
				}
			}
			// reader reset only on error edge
			for _, st := range storesTo(f, "ws.r") {
				if isNilConst(st.Val) {
					c.underFact("C39.b no-byte-dropped", "(*listeners.wsConn).Read drops the message reader only after it reported an error/EOF", st, textEq(describe(call)+"#1 == nil"), false, "")
				}
			}
			// EOF is not an error
			eof := false
			for _, b := range f.Blocks {
				if t, _, ok := condOf(b); ok && strings.HasPrefix(t, "errors.Is(") && strings.HasSuffix(t, "io.EOF)") {
					eof = true
				}
			}
			c.ob("C39.b no-byte-dropped", "(*listeners.wsConn).Read does not report the end of one message as an error", c.pos(f.Pos()), eof, "the next Read continues with the next message")
			// slice offset p[n:]
			okSl := false
			if sl, ok := call.Call.Args[0].(*ssa.Slice); ok && describe(sl.X) == "p" && sl.Low != nil && strings.Contains(describe(sl.Low), "φn") {
				okSl = true
			}
			c.ob("C39.b no-byte-dropped", "(*listeners.wsConn).Read continues filling the caller's buffer at the running offset", c.pos(inner.Pos()), okSl, "")
			full := false
			for _, b := range f.Blocks {
				if t, _, ok := condOf(b); ok && t == "φn == builtin.len(p)" {
					full = true
				}
			}
			c.ob("C39.b no-byte-dropped", "(*listeners.wsConn).Read returns when the caller's buffer is full", c.pos(f.Pos()), full, "")
		}
	}
	if g := c.fn("listeners", "(*wsConn).Write"); g != nil {
		w := c.call1(g, "(*github.com/gorilla/websocket.Conn).WriteMessage")
		c.ob("C39.c write-whole-binary", "(*listeners.wsConn).Write sends the whole slice as one binary message", c.pos(g.Pos()), w != nil && describe(w.Common().Args[1]) == "2" && describe(w.Common().Args[2]) == "p", "")
		okl := false
		for _, r := range returns(g) {
			vs := rvs(r)
			if isNilConst(vs[1]) && describe(vs[0]) == "builtin.len(p)" {
				okl = true
			}
		}
		c.ob("C39.c write-whole-binary", "(*listeners.wsConn).Write reports len(p) on success", c.pos(g.Pos()), okl, "")
		c.ob("C39.c write-whole-binary", "(*listeners.wsConn).Write sends exactly one message per call", c.pos(g.Pos()), len(c.callsNamed(g, "(*github.com/gorilla/websocket.Conn).WriteMessage")) == 1, "")
	}
	if h := c.fn("listeners", "(*Websocket).handler"); h != nil {
		ok := false
		for _, ins := range instrs(h) {
			if call, isCall := ins.(*ssa.Call); isCall && describe(call.Call.Value) == "l.establish" {
				ok = strings.Contains(describe(call.Call.Args[1]), "wsConn") || strings.Contains(describe(call.Call.Args[1]), "complit") || strings.Contains(describe(call.Call.Args[1]), "new")
			}
		}
		c.ob("C39.c write-whole-binary", "(*listeners.Websocket).handler hands the broker a wsConn (message-framing adapter), not the raw connection", c.pos(h.Pos()), ok, "")
	}
}

// ---- C41 -----------------------------------------------------------------------------------

func init() {
	register(&Prop{
		ID:        "C41",
		Title:     "Pooled buffers are never shared or returned dirty",
		Technique: "ordering rule on the pool's Put methods; ownership/escape analysis of every mempool.GetBuffer() result in the module",
		Explanation: "(a) Buffer.Put resets the buffer before handing it to sync.Pool; BufferWithCap.Put tests the capacity against the cap before the inner Put, and its Get returns only what the inner pool returns; sync.Pool.Put is called by Buffer.Put only, and every hand-back of the capped pool is on the within-cap edge; " +
			"(b) for every mempool.GetBuffer() result in the module: exactly one deferred PutBuffer of the same value, registered immediately; the pointer is used only as a method receiver of bytes.Buffer or as the buffer argument of module encoders that obey the same rule; the result of .Bytes() flows only into copying consumers ((*bytes.Buffer).Write) and is never stored, returned or sent.",
		NotDecided: []string{"sync.Pool itself", "callers outside the module that use mempool directly"},
		Run:        runC41,
	})
}

func runC41(c *Ctx) {
	if f := c.fn("mempool", "(*Buffer).Put"); f != nil {
		var reset, put ssa.CallInstruction
		reset = c.call1(f, "(*bytes.Buffer).Reset")
		put = c.call1(f, "(*sync.Pool).Put")
		c.dom("C41.a reset-before-pooling", "(*mempool.Buffer).Put resets the buffer before pooling it", reset, put, "a dirty buffer would leak one packet's bytes into the next")
		if reset != nil && put != nil {
			c.ob("C41.a reset-before-pooling", "(*mempool.Buffer).Put resets and pools the same buffer", c.pos(put.Pos()), describe(reset.Common().Args[0]) == "x" && describe(put.Common().Args[1]) == "x", "")
		}
	}
	if f := c.fn("mempool", "(*BufferWithCap).Put"); f != nil {
		put := c.call1(f, "(*mempool.Buffer).Put")
		c.underFact("C41.a reset-before-pooling", "(*mempool.BufferWithCap).Put keeps only buffers within the cap", put, textEq("(*bytes.Buffer).Cap(x) > b.max"), false, "")
	}
	// every hand-back to sync.Pool goes through (*Buffer).Put (reset first) — and, for the capped pool, through
	// the capacity test: no other function of the package talks to the pool directly
	nPool := 0
	for _, fn := range c.ModFns {
		if fnPkgPath(fn) != modPath+"/mempool" {
			continue
		}
		for _, ci := range c.callsNamed(fn, "(*sync.Pool).Put") {
			nPool++
			c.ob("C41.a reset-before-pooling", fname(fn)+": sync.Pool.Put is called only by (*mempool.Buffer).Put", c.pos(ci.Pos()), fname(fn) == "(*mempool.Buffer).Put",
				"a second way into the pool bypasses the reset and the capped pool's capacity test")
		}
		if strings.HasPrefix(fname(fn), "(*mempool.BufferWithCap).") {
			for _, ci := range c.callsNamed(fn, "(*mempool.Buffer).Put") {
				c.underFact("C41.a reset-before-pooling", fname(fn)+": every hand-back of the capped pool passed the capacity test ("+guardKey(ci)+")", ci, textHas("(*bytes.Buffer).Cap(", "> b.max"), false, "an over-cap buffer would be kept and handed out again")
			}
		}
	}
	c.floor("C41.a sync.Pool.Put sites in mempool", nPool, 1)
	if f := c.fn("mempool", "(*BufferWithCap).Get"); f != nil {
		ok := false
		for _, r := range returns(f) {
			if strings.HasPrefix(describe(rvs(r)[0]), "(*mempool.Buffer).Get(b.bp)") {
				ok = true
			}
		}
		c.ob("C41.a reset-before-pooling", "(*mempool.BufferWithCap).Get returns only what the inner pool returns", c.pos(f.Pos()), ok, "")
	}
	if f := c.fn("mempool", "(*Buffer).Get"); f != nil {
		c.ob("C41.a reset-before-pooling", "(*mempool.Buffer).Get takes the buffer from sync.Pool", c.pos(f.Pos()), c.call1(f, "(*sync.Pool).Get") != nil, "")
	}
	// (b)
	allowedCallee := func(n string) bool {
		return strings.HasPrefix(n, "(*bytes.Buffer).") || n == "(*packets.Properties).Encode" || n == "packets.encodeLength" || n == "mempool.PutBuffer" || n == "(*packets.FixedHeader).Encode"
	}
	n := 0
	for _, fn := range c.ModFns {
		for _, ci := range c.callsNamed(fn, "mempool.GetBuffer") {
			call := asCall(ci)
			if call == nil {
				continue
			}
			n++
			site := fmt.Sprintf("%s: buffer obtained at %s", fname(fn), guardKey(ci))
			puts := 0
			var firstPut, plainPut ssa.Instruction
			okUse := true
			why := ""
			for _, ref := range *call.Referrers() {
				switch r := ref.(type) {
				case *ssa.Defer:
					if cname(&r.Call) == "mempool.PutBuffer" {
						puts++
						firstPut = r
						continue
					}
					okUse, why = false, "deferred use other than PutBuffer"
				case ssa.CallInstruction:
					nme := cname(r.Common())
					if nme == "mempool.PutBuffer" {
						puts++
						plainPut = r
						continue
					}
					if !allowedCallee(nme) {
						okUse, why = false, "passed to "+nme
					}
				case *ssa.DebugRef:
				default:
					okUse, why = false, fmt.Sprintf("escapes through %T", ref)
				}
			}
			if puts == 1 && firstPut == nil && plainPut != nil {
				// a PutBuffer that is not deferred does the same when every path from the Get to a return passes it
				// and nothing touches the buffer afterwards
				_, leak := (&PathQuery{Fn: fn, From: ci, Target: anyReturn, Barrier: isIns(plainPut)}).Find()
				usedAfter := false
				for _, ref := range *call.Referrers() {
					if ri, isIns := ref.(ssa.Instruction); isIns && ri != plainPut {
						if _, isDbg := ref.(*ssa.DebugRef); !isDbg && reachableFrom(plainPut, ri) {
							usedAfter = true
						}
					}
				}
				c.ob("C41.b owned-and-returned", site+" is returned to the pool exactly once (deferred PutBuffer)", c.pos(ci.Pos()), leak == nil && !usedAfter,
					fmt.Sprintf("plain PutBuffer: a path to a return misses it: %v; the buffer is used after it: %v", leak != nil, usedAfter))
			} else {
				c.ob("C41.b owned-and-returned", site+" is returned to the pool exactly once (deferred PutBuffer)", c.pos(ci.Pos()), puts == 1 && firstPut != nil, fmt.Sprintf("%d PutBuffer references", puts))
			}
			if firstPut != nil {
				imm := firstPut.Block() == ci.Block() && idxIn(firstPut) == idxIn(ci)+1
				c.ob("C41.b owned-and-returned", site+": the PutBuffer is deferred immediately after the Get", c.pos(ci.Pos()), imm, "an early return in between would leak the buffer; a later non-deferred Put could be followed by a use")
			}
			c.ob("C41.b owned-and-returned", site+" is used only as a bytes.Buffer receiver or encoder argument (does not escape)", c.pos(ci.Pos()), okUse, why)
			// Bytes() results
			for _, ref := range *call.Referrers() {
				bc, ok := ref.(*ssa.Call)
				if !ok || cname(&bc.Call) != "(*bytes.Buffer).Bytes" {
					continue
				}
				okb := true
				for _, r2 := range *bc.Referrers() {
					if cc := callOf(r2); cc != nil && cname(cc) == "(*bytes.Buffer).Write" && cc.Args[1] == ssa.Value(bc) {
						continue
					}
					if _, isDbg := r2.(*ssa.DebugRef); isDbg {
						continue
					}
					okb = false
				}
				c.ob("C41.b owned-and-returned", site+": the bytes view is consumed only by copying writes", c.pos(bc.Pos()), okb, "a stored or returned view aliases memory that goes back to the pool")
			}
		}
	}
	c.floor("C41.b GetBuffer sites", n, 25)
}
