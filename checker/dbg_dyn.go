package main

import (
	"fmt"

	"golang.org/x/tools/go/ssa"
)

// debugDyn lists dynamic (non-static, non-invoke, non-builtin) call sites in module functions.
func debugDyn(c *Ctx) {
	for _, fn := range c.ModFns {
		for _, ins := range instrs(fn) {
			cc := callOf(ins)
			if cc == nil || cc.IsInvoke() || cc.StaticCallee() != nil {
				continue
			}
			if _, ok := cc.Value.(*ssa.Builtin); ok {
				continue
			}
			fmt.Printf("%-60s %s : %s  [%s]\n", fname(fn), c.pos(ins.Pos()), describe(cc.Value), cc.Value.Type())
		}
	}
}
