package main

// Name canonicalisation.
//
// The rules identify values by rendered access paths ("cl.Net.outbuf == nil", "out.FixedHeader.Qos"), which contain
// the source names of parameters, receivers, address-taken locals and φ-merged variables. A refactoring that only
// renames such a variable must not change any verdict. refnames.json (generated from the reference tree with
// `mqttverif -gen-refnames`) records, per module function, the names of its parameters, free variables, named
// allocations and φ-nodes with their types, in order. When a tree is loaded, every such value is mapped back to the
// reference name:
//   * parameters and free variables: by position, when the function still has the same number of them with the same
//     types (otherwise they keep their own names);
//   * allocations and φ-nodes: per type, a current name that also occurs in the reference list keeps its name; the
//     remaining current values are matched to the remaining reference names in order of appearance, provided the two
//     remainders have equal length (a pure rename); otherwise they keep their own names.
// On the reference tree itself the mapping is the identity. Functions that do not exist in the table (new helpers)
// are rendered with their own names.

import (
	_ "embed"
	"encoding/json"
	"go/types"
	"sort"

	"golang.org/x/tools/go/ssa"
)

//go:embed refnames.json
var refnamesJSON []byte

type refVar struct {
	Name string `json:"n"`
	Type string `json:"t"`
}

type refFn struct {
	Params   []refVar `json:"params,omitempty"`
	FreeVars []refVar `json:"freevars,omitempty"`
	Allocs   []refVar `json:"allocs,omitempty"`
	Phis     []refVar `json:"phis,omitempty"`
}

func typeKey(t types.Type) string { return shorten(types.TypeString(t, nil)) }

// namedAllocs / namedPhis: in instruction order.
func namedAllocs(fn *ssa.Function) []*ssa.Alloc {
	var out []*ssa.Alloc
	for _, b := range fn.Blocks {
		for _, ins := range b.Instrs {
			if a, ok := ins.(*ssa.Alloc); ok && a.Comment != "" {
				out = append(out, a)
			}
		}
	}
	return out
}

func namedPhis(fn *ssa.Function) []*ssa.Phi {
	var out []*ssa.Phi
	for _, b := range fn.Blocks {
		for _, ins := range b.Instrs {
			if p, ok := ins.(*ssa.Phi); ok && p.Comment != "" {
				out = append(out, p)
			}
		}
	}
	return out
}

func refOf(fn *ssa.Function) refFn {
	var r refFn
	for _, p := range fn.Params {
		r.Params = append(r.Params, refVar{p.Name(), typeKey(p.Type())})
	}
	for _, p := range fn.FreeVars {
		r.FreeVars = append(r.FreeVars, refVar{p.Name(), typeKey(p.Type())})
	}
	for _, a := range namedAllocs(fn) {
		r.Allocs = append(r.Allocs, refVar{a.Comment, typeKey(a.Type())})
	}
	for _, p := range namedPhis(fn) {
		r.Phis = append(r.Phis, refVar{p.Comment, typeKey(p.Type())})
	}
	return r
}

func genRefNames(c *Ctx) []byte {
	m := map[string]refFn{}
	for _, fn := range c.ModFns {
		m[fname(fn)] = refOf(fn)
	}
	keys := make([]string, 0, len(m))
	for k := range m {
		keys = append(keys, k)
	}
	sort.Strings(keys)
	// stable output
	out := []byte("{\n")
	for i, k := range keys {
		kb, _ := json.Marshal(k)
		vb, _ := json.Marshal(m[k])
		out = append(out, ' ')
		out = append(out, kb...)
		out = append(out, ": "...)
		out = append(out, vb...)
		if i < len(keys)-1 {
			out = append(out, ',')
		}
		out = append(out, '\n')
	}
	return append(out, "}\n"...)
}

type canonStats struct{ fns, renamedValues, unaligned int }

// buildCanon computes the reference name of every parameter, free variable, named allocation and φ.
func buildCanon(c *Ctx) (map[ssa.Value]string, canonStats) {
	canon := map[ssa.Value]string{}
	var st canonStats
	ref := map[string]refFn{}
	if len(refnamesJSON) > 0 {
		_ = json.Unmarshal(refnamesJSON, &ref)
	}
	positional := func(cur []refVar, want []refVar) bool {
		if len(cur) != len(want) {
			return false
		}
		for i := range cur {
			if cur[i].Type != want[i].Type {
				return false
			}
		}
		return true
	}
	for _, fn := range c.ModFns {
		r, ok := ref[fname(fn)]
		if !ok {
			continue
		}
		st.fns++
		cur := refOf(fn)
		if positional(cur.Params, r.Params) {
			for i, p := range fn.Params {
				if p.Name() != r.Params[i].Name {
					canon[p] = r.Params[i].Name
					st.renamedValues++
				}
			}
		}
		if positional(cur.FreeVars, r.FreeVars) {
			for i, p := range fn.FreeVars {
				if p.Name() != r.FreeVars[i].Name {
					canon[p] = r.FreeVars[i].Name
					st.renamedValues++
				}
			}
		}
		// allocations and φ: per type
		alignGroup := func(curVals []ssa.Value, curVars []refVar, want []refVar) {
			types_ := map[string]bool{}
			for _, v := range curVars {
				types_[v.Type] = true
			}
			for t := range types_ {
				wantNames := map[string]int{}
				var wantOrder []string
				for _, w := range want {
					if w.Type == t {
						if wantNames[w.Name] == 0 {
							wantOrder = append(wantOrder, w.Name)
						}
						wantNames[w.Name]++
					}
				}
				// distinct current names of this type, in order of first appearance
				seen := map[string]bool{}
				var curOrder []string
				for _, v := range curVars {
					if v.Type == t && !seen[v.Name] {
						seen[v.Name] = true
						curOrder = append(curOrder, v.Name)
					}
				}
				var leftCur, leftWant []string
				for _, n := range curOrder {
					if wantNames[n] == 0 {
						leftCur = append(leftCur, n)
					}
				}
				for _, n := range wantOrder {
					if !seen[n] {
						leftWant = append(leftWant, n)
					}
				}
				if len(leftCur) == 0 {
					continue
				}
				if len(leftCur) != len(leftWant) {
					st.unaligned += len(leftCur)
					continue
				}
				rename := map[string]string{}
				for i, n := range leftCur {
					rename[n] = leftWant[i]
				}
				for i, v := range curVars {
					if v.Type == t {
						if to, ok := rename[v.Name]; ok {
							canon[curVals[i]] = to
							st.renamedValues++
						}
					}
				}
			}
		}
		var av []ssa.Value
		for _, a := range namedAllocs(fn) {
			av = append(av, a)
		}
		alignGroup(av, cur.Allocs, r.Allocs)
		var pv []ssa.Value
		for _, p := range namedPhis(fn) {
			pv = append(pv, p)
		}
		alignGroup(pv, cur.Phis, r.Phis)
	}
	return canon, st
}
