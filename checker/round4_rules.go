package main

// Rules added after the fourth (partial) round of seeded changes: 14 properties, 42 changes, 13 missed on first contact.

import (
	"fmt"
	"go/token"
	"strings"

	"golang.org/x/tools/go/ssa"
)

func round4Hooks(c *Ctx, id string) {
	switch id {
	case "C09":
		ackRecordsAreDated(c, "C09.l ack-records-dated")
	case "C11":
		ackRecordsAreDated(c, "C11.o ack-records-dated")
		quotaResetOwners(c, "C11.p quota-reset-owners")
	case "C12":
		quotaResetOwners(c, "C12.m quota-reset-owners")
		createdStampedUnconditionally(c, "C12.n created-stamped")
		oneWriteLoopPerClient(c, "C12.o one-write-loop")
		sweepHasNoEarlyExit(c, "C12.p sweep-no-early-exit")
	case "C13":
		passwordComparedLiterally(c, "C13.i password-literal")
	case "C16":
		zeroExpiryDisconnectIsLegal(c, "C16.k zero-expiry-disconnect")
		willBeforeDisconnectHooks(c, "C16.l will-before-disconnect-hooks")
	case "C18":
		passwordComparedLiterally(c, "C18.h password-literal")
	case "C20":
		storedCopyUnconditional(c, "C20.k stored-copy-unconditional")
		storageLoopsExhaustive(c, "C20.l storage-loops-exhaustive")
	case "C21":
		storageLoopsExhaustive(c, "C21.f storage-loops-exhaustive")
	case "C22":
		storedCopyUnconditional(c, "C22.c stored-copy-unconditional")
		storageLoopsExhaustive(c, "C22.d storage-loops-exhaustive")
	case "C25":
		ackRecordsAreDated(c, "C25.j ack-records-dated")
		sweepHasNoEarlyExit(c, "C25.k sweep-no-early-exit")
	case "C26":
		willQosTwoBits(c, "C26.i will-qos-two-bits")
	case "C42":
		willQosTwoBits(c, "C42.l will-qos-two-bits")
	case "C03":
		oneWriteLoopPerClient(c, "C03.n one-write-loop")
	}
}

// ackRecordsAreDated: the acknowledgement packets buildAck makes are stored as in-flight records; they carry their
// creation time (the expiry sweep deletes records older than the server maximum, and a record dated 0 is ancient).
func ackRecordsAreDated(c *Ctx, rule string) {
	f := c.fn("mqtt", "(*Server).buildAck")
	if f == nil {
		return
	}
	ok := false
	for _, ins := range instrs(f) {
		st, isSt := ins.(*ssa.Store)
		if !isSt {
			continue
		}
		if fa, isFA := st.Addr.(*ssa.FieldAddr); isFA && fieldName(fa.X.Type(), fa.Field) == "Created" && strings.Contains(describe(st.Val), "time.Now()") {
			ok = true
		}
	}
	c.ob(rule, "(*mqtt.Server).buildAck stamps the acknowledgement with its creation time", c.pos(f.Pos()), ok,
		"an acknowledgement record without a date is swept as expired while its exchange is open")
}

// quotaResetOwners: the quotas are reset to their maximum only where a client's in-flight state is set up (ParseConnect,
// session inheritance, the inline client); an acknowledgement handler returns one slot.
func quotaResetOwners(c *Ctx, rule string) {
	allowed := map[string]string{
		"(*mqtt.Client).ParseConnect":          "a new connection's quotas",
		"(*mqtt.Server).inheritClientSession":  "the inherited in-flight state takes the new connection's quotas",
		"(*mqtt.Server).NewClient":             "the inline client has no limit",
		"(*mqtt.Inflight).Clone":               "",
		"mqtt.NewInflights":                    "",
	}
	for _, m := range []string{"(*Inflight).ResetSendQuota", "(*Inflight).ResetReceiveQuota"} {
		c.whoCalls(rule, c.fn("mqtt", m), allowed)
	}
}

// createdStampedUnconditionally: processPublish stamps every inbound publish with the time of arrival; the resend and
// release order of a session is by this time, so a caller-supplied value must not survive.
func createdStampedUnconditionally(c *Ctx, rule string) {
	f := c.fn("mqtt", "(*Server).processPublish")
	if f == nil {
		return
	}
	n := 0
	for _, st := range storesTo(f, "pk.Created") {
		n++
		cond := ""
		for _, ed := range edgeDoms(st) {
			if t, _, ok := condOf(ed.b); ok && strings.Contains(t, "pk.Created") {
				cond = t
			}
		}
		c.ob(rule, "(*mqtt.Server).processPublish stamps the arrival time whatever the packet carried", c.pos(st.Pos()), cond == "" && strings.Contains(describe(st.Val), "time.Now()"),
			"conditional on "+cond+": an injected packet keeps an old time and is resent ahead of older messages")
	}
	c.floor(rule+" arrival stamps in processPublish", n, 1)
}

// oneWriteLoopPerClient: a client's outbound queue has one consumer: WriteLoop is started in attachClient only.
func oneWriteLoopPerClient(c *Ctx, rule string) {
	n := 0
	for _, fn := range c.ModFns {
		for _, ins := range instrs(fn) {
			g, ok := ins.(*ssa.Go)
			if !ok || !strings.HasSuffix(cname(&g.Call), ").WriteLoop") {
				continue
			}
			n++
			c.ob(rule, fmt.Sprintf("%s starts a client's write loop (only attachClient does)", fname(rootFn(fn))), c.pos(g.Pos()), fname(rootFn(fn)) == "(*mqtt.Server).attachClient",
				"a second write loop is a second consumer of the queue: packets can overtake each other")
		}
	}
	c.floor(rule+" write loops started", n, 1)
}

// sweepHasNoEarlyExit: ClearExpiredInflights looks at every record: nothing leaves the loop before the list is exhausted.
func sweepHasNoEarlyExit(c *Ctx, rule string) {
	f := c.fn("mqtt", "(*Client).ClearExpiredInflights")
	if f == nil {
		return
	}
	var body, head *ssa.BasicBlock
	for _, b := range f.Blocks {
		if (b.Comment == "rangeindex.body" || b.Comment == "rangeiter.body") && body == nil {
			body = b
		}
		if (b.Comment == "rangeindex.loop" || b.Comment == "rangeiter.loop") && head == nil {
			head = b
		}
	}
	if body == nil || head == nil {
		c.ob(rule, "(*mqtt.Client).ClearExpiredInflights walks the in-flight records", c.pos(f.Pos()), false, "loop not found")
		return
	}
	isHead := func(x ssa.Instruction) bool { return x.Block() == head && idxIn(x) == 0 }
	c.noPath(rule, "(*mqtt.Client).ClearExpiredInflights: the sweep leaves the loop only when every record was looked at", f, body.Instrs[0], anyReturn, isHead, nil,
		"a break at the first live record skips expired records behind it (the list is ordered by creation, not by expiry)")
}

// passwordComparedLiterally: a ledger user's password is compared for equality; RString.Matches treats '*' as a
// wildcard and would admit any password that shares the prefix.
func passwordComparedLiterally(c *Ctx, rule string) {
	f := c.fn("hooks/auth", "(*Ledger).AuthOk")
	if f == nil {
		return
	}
	bad := ""
	for _, ci := range c.callsNamed(f, "(hooks/auth.RString).Matches") {
		if r := describe(ci.Common().Args[0]); strings.HasPrefix(r, "u.") || strings.Contains(r, "Users[") {
			bad = r
		}
	}
	c.ob(rule, "(*hooks/auth.Ledger).AuthOk compares a user entry's password literally (no pattern matching)", c.pos(f.Pos()), bad == "", bad+" is matched as a pattern")
}

// zeroExpiryDisconnectIsLegal: processDisconnect answers ErrProtocolViolationZeroNonZeroExpiry only when the DISCONNECT
// asks for a NON-zero interval after a CONNECT with zero; a DISCONNECT that repeats 0 is an ordinary DISCONNECT.
func zeroExpiryDisconnectIsLegal(c *Ctx, rule string) {
	f := c.fn("mqtt", "(*Server).processDisconnect")
	if f == nil {
		return
	}
	target := func(x ssa.Instruction) bool {
		r, ok := x.(*ssa.Return)
		if !ok {
			return false
		}
		vs := rvs(r)
		return len(vs) == 1 && strings.Contains(describe(vs[0]), "ErrProtocolViolationZeroNonZeroExpiry")
	}
	c.noPath(rule, "(*mqtt.Server).processDisconnect: a DISCONNECT whose session expiry interval is 0 is never a protocol violation", f, nil, target, nil,
		[]Assume{assumeEq("pk.Properties.SessionExpiryInterval == 0", true)}, "the will would be published after a normal DISCONNECT")
}

// willBeforeDisconnectHooks: when a connection ends, attachClient decides the will (publish, park or discard) before it
// runs the OnDisconnect hooks: a slow hook would otherwise let a reconnect's cancellation come first.
func willBeforeDisconnectHooks(c *Ctx, rule string) {
	f := c.fn("mqtt", "(*Server).attachClient")
	if f == nil {
		return
	}
	hook := c.call1(f, "(*mqtt.Hooks).OnDisconnect")
	if hook == nil {
		return
	}
	n := 0
	for _, ci := range c.callsNamed(f, fnSendLWT) {
		n++
		c.ob(rule, "(*mqtt.Server).attachClient handles the will before the OnDisconnect hooks run", c.pos(ci.Pos()), !reachableFrom(hook, ci), "sendLWT is reachable after OnDisconnect")
	}
	c.floor(rule+" will sites in attachClient", n, 1)
}

// storedCopyUnconditional: the storage hooks copy the packet's properties whoever the recipient is (the properties
// are the publisher's; the recipient's protocol version says nothing about them).
func storedCopyUnconditional(c *Ctx, rule string) {
	n := 0
	for _, b := range backends {
		for _, m := range []string{"(*Hook).OnRetainMessage", "(*Hook).OnQosPublish"} {
			f := c.optFn(bpath(b), m)
			if f == nil {
				continue
			}
			for _, g := range withAnon(f) {
				for _, ci := range c.callsNamed(g, "(*packets.Properties).Copy") {
					n++
					cond := ""
					for _, ed := range edgeDoms(ci) {
						if t, _, ok := condOf(ed.b); ok && strings.Contains(t, "cl.") && !strings.Contains(t, "StopCause") {
							cond = t
						}
					}
					c.ob(rule, fmt.Sprintf("%s %s copies the properties whatever the client is", b, strings.TrimPrefix(m, "(*Hook).")), c.pos(ci.Pos()), cond == "", "conditional on "+cond)
				}
			}
		}
	}
	c.floor(rule+" property copies in the storage hooks", n, 8)
}

// storageLoopsExhaustive: the per-filter loops of the storage hooks (OnSubscribed, OnUnsubscribed) visit every filter of
// the packet: no return inside the loop (a refused filter is skipped with continue, not by leaving the function).
func storageLoopsExhaustive(c *Ctx, rule string) {
	n := 0
	for _, b := range backends {
		for _, m := range []string{"(*Hook).OnSubscribed", "(*Hook).OnUnsubscribed"} {
			f := c.optFn(bpath(b), m)
			if f == nil {
				continue
			}
			var body, head *ssa.BasicBlock
			for _, blk := range f.Blocks {
				switch blk.Comment {
				case "for.body", "rangeindex.body":
					if body == nil {
						body = blk
					}
				case "for.loop", "rangeindex.loop":
					if head == nil {
						head = blk
					}
				}
			}
			if body == nil || head == nil || len(body.Instrs) == 0 {
				continue
			}
			n++
			isHead := func(x ssa.Instruction) bool { return x.Block() == head && idxIn(x) == 0 }
			c.noPath(rule, fmt.Sprintf("%s %s: the per-filter loop is left only when every filter was handled", b, strings.TrimPrefix(m, "(*Hook).")), f, body.Instrs[0], anyReturn, isHead, nil,
				"a return inside the loop drops the remaining filters of the packet")
		}
	}
	c.floor(rule+" per-filter loops in the storage hooks", n, 8)
}

// willQosTwoBits: ConnectDecode reads the will QoS from two bits of the connect flags (bits 3 and 4).
func willQosTwoBits(c *Ctx, rule string) {
	f := c.fn("packets", "(*Packet).ConnectDecode")
	if f == nil {
		return
	}
	n := 0
	for _, st := range storesTo(f, "pk.Connect.WillQos") {
		n++
		ok := false
		if bo, isB := st.Val.(*ssa.BinOp); isB && bo.Op == token.AND {
			for _, side := range []ssa.Value{bo.X, bo.Y} {
				if k, isK := constInt(side); isK && k == 3 {
					ok = true
				}
			}
		}
		c.ob(rule, "(*packets.Packet).ConnectDecode takes the will QoS from two bits of the flags (mask 3)", c.pos(st.Pos()), ok, "value "+describe(st.Val))
	}
	c.floor(rule+" will QoS stores in ConnectDecode", n, 1)
}
