package main

import (
	"fmt"
	"go/token"
	"go/types"
	"strings"

	"golang.org/x/tools/go/ssa"
)

const (
	fnGatherSubs   = "(*mqtt.TopicsIndex).gatherSubscriptions"
	fnGatherShared = "(*mqtt.TopicsIndex).gatherSharedSubscriptions"
	fnGatherInline = "(*mqtt.TopicsIndex).gatherInlineSubscriptions"
	fnPartGet      = "(*mqtt.particles).get"
)

// ---- C01 -----------------------------------------------------------------------------------

func init() {
	register(&Prop{
		ID:        "C01",
		Title:     "Subscription matching selects exactly the MQTT-matching subscribers",
		Technique: "sibling-agreement rules on the three subscription collectors and their call sites in scanSubscribers (SSA value identity, dominating guards)",
		Explanation: "The matcher's truth table is value-level; decided are necessary conditions visible in its shape: " +
			"(a) at every gather site of scanSubscribers all three collectors (client, shared, inline) are called with the same trie node; " +
			"(b) every collector guards its insertion into the result with the '$'-topic exclusion for filters that start with a wildcard; " +
			"(c) scanSubscribers descends through the literal level, '+' and '#' children, and consults the '#' child of every matched terminal node (parent-level match) without excluding nodes matched through '+'; " +
			"(e) every recursive descent passes depth d+1 together with a child of the current node, so root-only tests (d == 0) apply at the root only; (f) trim never unlinks a node that still holds a client, shared or inline subscription (tested per node on the upward walk, helper-aware).",
		NotDecided: []string{"level splitting (isolateParticle), empty levels", "that nothing else is selected ('exactly')", "shared-filter offset of two levels ($share/<group>/)"},
		Run:        runC01,
	})
}

func runC01(c *Ctx) {
	f := c.fn("mqtt", "(*TopicsIndex).scanSubscribers")
	if f == nil {
		return
	}
	sites := 0
	for _, ci := range c.callsNamed(f, fnGatherSubs) {
		sites++
		node := ci.Common().Args[2]
		var sh, in ssa.CallInstruction
		for _, x := range c.callsNamed(f, fnGatherShared) {
			if x.Block() == ci.Block() {
				sh = x
			}
		}
		for _, x := range c.callsNamed(f, fnGatherInline) {
			if x.Block() == ci.Block() {
				in = x
			}
		}
		site := fmt.Sprintf("(*mqtt.TopicsIndex).scanSubscribers gather site under %s", guardKey(ci))
		c.ob("C01.a gather-agreement", site+": shared subscriptions are gathered from the same node as client subscriptions", c.pos(ci.Pos()), sh != nil && sh.Common().Args[1] == node,
			"a matching node must contribute all three kinds of subscription, otherwise shared subscribers are matched under different rules")
		c.ob("C01.a gather-agreement", site+": inline subscriptions are gathered from the same node as client subscriptions", c.pos(ci.Pos()), in != nil && in.Common().Args[1] == node,
			"a matching node must contribute all three kinds of subscription, otherwise inline subscribers are matched under different rules")
	}
	c.floor("C01.a gather sites", sites, 3)
	depthTracksLevel(c, "C01.e depth-is-level", f, "(*mqtt.TopicsIndex).scanSubscribers", 1)
	trimKeepsSubscriptions(c, "C01.f trim-keeps-subscribed-nodes", 3, 4, 5)
	// no collector call outside a gather site
	for _, n := range []string{fnGatherShared, fnGatherInline} {
		for _, x := range c.callsNamed(f, n) {
			paired := false
			for _, ci := range c.callsNamed(f, fnGatherSubs) {
				if ci.Block() == x.Block() {
					paired = true
				}
			}
			if !paired {
				c.ob("C01.a gather-agreement", fmt.Sprintf("(*mqtt.TopicsIndex).scanSubscribers: %s under %s has no client-subscription gather beside it", strings.TrimPrefix(n, "(*mqtt.TopicsIndex)."), guardKey(x)), c.pos(x.Pos()), false, "")
			}
		}
	}
	// (b) '$' exclusion in each collector
	for _, n := range []string{"gatherSubscriptions", "gatherSharedSubscriptions", "gatherInlineSubscriptions"} {
		g := c.fn("mqtt", "(*TopicsIndex)."+n)
		if g == nil {
			continue
		}
		var ins []ssa.Instruction
		for _, x := range instrs(g) {
			if mu, ok := x.(*ssa.MapUpdate); ok && strings.HasPrefix(describe(mu.Map), "subs.") {
				ins = append(ins, mu)
			}
		}
		if len(ins) == 0 {
			c.ob("C01.b dollar-exclusion", "(*mqtt.TopicsIndex)."+n+": inserts into the result set", c.pos(g.Pos()), false, "no insertion found")
			continue
		}
		// with a '$' topic and a filter whose first byte is '+' (resp. '#') no insertion may be reachable
		guarded := true
		for _, wc := range []string{"[0] == 43", "[0] == 35"} {
			found := false
			for _, b := range g.Blocks {
				if t, _, ok := condOf(b); ok && strings.Contains(t, "[0] == 36") {
					found = true
				}
			}
			if !found {
				guarded = false
				break
			}
			for _, mu := range ins {
				q := &PathQuery{Fn: g, Target: isIns(mu), Assume: []Assume{assumeHas("[0] == 36", true), assumeHas(wc, true),
					{Match: func(t string) bool {
						return strings.HasPrefix(t, "builtin.len(") && strings.HasSuffix(t, ".Filter) > 0")
					}, Truth: true}}}
				if wc == "[0] == 35" {
					q.Assume = append(q.Assume, assumeHas("[0] == 43", false))
				}
				if _, hit := q.Find(); hit != nil {
					guarded = false
				}
			}
		}
		c.ob("C01.b dollar-exclusion", "(*mqtt.TopicsIndex)."+n+": insertion is guarded by the '$'-topic exclusion for filters starting with a wildcard", c.pos(g.Pos()), guarded,
			"[MQTT-4.7.2-1]: a filter starting with '+' or '#' must not match a topic starting with '$'; this collector has no such guard while its sibling gatherSubscriptions has")
	}
	// (c) child coverage
	consts := map[string]bool{}
	viaLit := false
	for _, ci := range c.callsNamed(f, fnPartGet) {
		a := ci.Common().Args[1]
		if k, ok := a.(*ssa.Const); ok && k.Value != nil {
			consts[describe(k)] = true
		} else if strings.HasPrefix(describe(a), "slicelit") {
			viaLit = true
		}
	}
	litHas := map[string]bool{}
	for _, ins := range instrs(f) {
		if st, ok := ins.(*ssa.Store); ok && strings.HasPrefix(describe(st.Addr), "slicelit[") {
			litHas[describe(st.Val)] = true
		}
	}
	c.ob("C01.c child-coverage", "(*mqtt.TopicsIndex).scanSubscribers descends through the literal level of the topic", c.pos(f.Pos()), viaLit && litHas["mqtt.isolateParticle(topic, d)#0"], "")
	c.ob("C01.c child-coverage", "(*mqtt.TopicsIndex).scanSubscribers descends through the '+' child", c.pos(f.Pos()), (viaLit && litHas[`"+"`]) || consts[`"+"`], "")
	c.ob("C01.c child-coverage", "(*mqtt.TopicsIndex).scanSubscribers consults the '#' child of the current node", c.pos(f.Pos()), consts[`"#"`], "")
	// the '#' child of a matched terminal node, for every way the node was matched
	nTerm := 0
	for _, ci := range c.callsNamed(f, fnPartGet) {
		if describe(ci.Common().Args[1]) != `"#"` || !strings.Contains(describe(ci.Common().Args[0]), fnPartGet+"(") {
			continue
		}
		nTerm++
		call := asCall(ci)
		for _, g := range c.callsNamed(f, fnGatherSubs) {
			if g.Common().Args[2] != ssa.Value(call) {
				continue
			}
			restricted := ""
			for _, ed := range edgeDoms(g) {
				t, _, _ := condOf(ed.b)
				if strings.Contains(t, `== "+"`) {
					restricted = t
				}
			}
			c.ob("C01.c child-coverage", "(*mqtt.TopicsIndex).scanSubscribers: the '#' child of a matched terminal node is gathered however the node was matched (literal or '+')", c.pos(g.Pos()), restricted == "",
				"the parent-level match of `…/#` is skipped for nodes reached through '+': filter +/# does not match topic a — guard: "+restricted)
		}
	}
	c.floor("C01.c '#'-child lookups on the terminal node", nTerm, 1)
}

// depthTracksLevel: every recursive call of a trie walk descends to a child of the current node and passes
// depth+1, so the depth parameter always equals the node's level (the root-level tests `d == 0` rely on it).
func depthTracksLevel(c *Ctx, rule string, f *ssa.Function, self string, floor int) {
	n := 0
	for _, ci := range c.callsNamed(f, self) {
		n++
		a := ci.Common().Args
		node := describe(a[3])
		child := strings.Contains(node, "(*mqtt.particles).get(φn.particles,") || strings.Contains(node, "(*mqtt.particles).get(n.particles,") ||
			strings.Contains(node, "range((*mqtt.particles).getAll(φn.particles))") || strings.Contains(node, "range((*mqtt.particles).getAll(n.particles))")
		c.ob(rule, fmt.Sprintf("%s: recursive descent under %s passes depth d+1 with a child of the current node", fname(f), guardKey(ci)), c.pos(ci.Pos()),
			describe(a[2]) == "d + 1" && child, "depth="+describe(a[2])+" node="+node+": the depth parameter no longer equals the node's level, so root-only tests (d == 0) apply elsewhere")
	}
	c.floor(rule+" recursive calls", n, floor)
}

// trimKeepsSubscriptions: a node that still holds a subscription of one of the given kinds (trimTerms indices
// 3 client, 4 shared, 5 inline) is never unlinked by trim: an unlinked node's subscribers silently stop matching.
func trimKeepsSubscriptions(c *Ctx, rule string, kinds ...int) {
	g := c.fn("mqtt", "(*TopicsIndex).trim")
	if g == nil {
		return
	}
	d := c.call1(g, "(*mqtt.particles).delete")
	if d == nil {
		c.ob(rule, "(*mqtt.TopicsIndex).trim unlinks through particles.delete", c.pos(g.Pos()), false, "site not found")
		return
	}
	for _, k := range kinds {
		c.ob(rule, "(*mqtt.TopicsIndex).trim: every node unlinked on the upward walk was itself tested: "+trimTerms[k].what, c.pos(d.Pos()), trimTerms[k].holds(d),
			"a node that still holds subscriptions would be cut out of the trie: its subscribers were acknowledged but never match again")
	}
}

// trimKeepsRetained: a node that still carries a retained message is never unlinked by trim (wildcard scans walk
// the trie, so an unlinked node's message is invisible to them while exact filters still find it in the store).
func trimKeepsRetained(c *Ctx, rule string) {
	g := c.fn("mqtt", "(*TopicsIndex).trim")
	if g == nil {
		return
	}
	if d := c.call1(g, "(*mqtt.particles).delete"); d != nil {
		c.ob(rule, "(*mqtt.TopicsIndex).trim: every node unlinked on the upward walk was itself tested to hold no retained message", c.pos(d.Pos()),
			trimTerms[1].holds(d), "an ancestor with a retained message would vanish from the trie while its packet stays in the store: exact filters find it, wildcard filters do not")
	} else {
		c.ob(rule, "(*mqtt.TopicsIndex).trim unlinks through particles.delete", c.pos(g.Pos()), false, "site not found")
	}
}

// trimTerms: the conditions under which trim may unlink a node; each must be established on the path to the
// removal (directly or inside a boolean helper) and re-established for every ancestor the walk climbs to.
// A size test is accepted as `== 0` on its true edge or `> 0` on its false edge (sums of sizes included).
type trimTerm struct {
	what  string
	holds func(ins ssa.Instruction) bool
}

func guardedEachRound(ins ssa.Instruction, m func(string) bool, truth bool) bool {
	return dominatedByFact(ins, m, truth) && reguarded(ins, m, truth)
}

func sizeZero(call string) func(ins ssa.Instruction) bool {
	return func(ins ssa.Instruction) bool {
		return guardedEachRound(ins, textHas(call, "== 0"), true) || guardedEachRound(ins, textHas(call, "> 0"), false)
	}
}

var trimTerms = []trimTerm{
	{"has a parent", func(ins ssa.Instruction) bool { return guardedEachRound(ins, textHas(".parent == nil"), false) }},
	{"holds no retained message", func(ins ssa.Instruction) bool { return guardedEachRound(ins, textHas(`.retainPath == ""`), true) }},
	{"has no children", sizeZero("(*mqtt.particles).len(")},
	{"has no client subscriptions", sizeZero("(*mqtt.Subscriptions).Len(")},
	{"has no shared subscriptions", sizeZero("(*mqtt.SharedSubscriptions).Len(")},
	{"has no inline subscriptions", sizeZero("(*mqtt.InlineSubscriptions).Len(")},
}

// ---- C02 -----------------------------------------------------------------------------------

func init() {
	register(&Prop{
		ID:        "C02",
		Title:     "Retained messages returned on subscribe are exactly those matching the filter",
		Technique: "guard-shape and provenance rules on scanMessages / RetainMessage / publishRetainedToClient",
		Explanation: "(a) in scanMessages the root-level skip for wildcard filters is a '$'-prefix test of the child key, not an equality with one name; " +
			"(b) every packet appended to the result comes from Retained.Get on its ok edge (a stale path never yields a message that is not in the store); " +
			"(c) RetainMessage keeps the node's retainPath and the store in step (Add ↔ path set, Delete ↔ path cleared) for the same topic; publishRetainedToClient replays exactly Topics.Messages(filter); " +
			"(d) on a trailing '#' the node's own retained message (the parent level) is consulted; " +
			"(e) scanMessages' recursive descents pass depth d+1 with a child of the current node; (f) trim never unlinks a node that still carries a retained message (tested for every node on the upward walk, not only the first).",
		NotDecided: []string{"the matcher's truth table beyond these shapes", "exactly-once over a history"},
		Run:        runC02,
	})
}

func runC02(c *Ctx) {
	f := c.fn("mqtt", "(*TopicsIndex).scanMessages")
	if f == nil {
		return
	}
	// (a)
	found := false
	for _, b := range f.Blocks {
		t, _, ok := condOf(b)
		if !ok || !strings.Contains(t, ".key") {
			continue
		}
		found = true
		prefix := strings.Contains(t, ".key[0] == 36") || (strings.Contains(t, "HasPrefix(") && strings.Contains(t, `"$"`))
		c.ob("C02.a dollar-exclusion", "(*mqtt.TopicsIndex).scanMessages: the root-level skip for wildcard filters tests the child key's '$' prefix", c.pos(b.Instrs[len(b.Instrs)-1].Pos()), prefix,
			"the skip is `"+t+"`: only that one name is excluded, every other '$'-prefixed topic is returned for a filter starting with a wildcard")
		// the skip applies at depth 0 only
		_ = b
	}
	if !found {
		c.ob("C02.a dollar-exclusion", "(*mqtt.TopicsIndex).scanMessages: root-level skip of '$' children for wildcard filters", c.pos(f.Pos()), false, "no test of the child key found")
	}
	depthTracksLevel(c, "C02.e depth-is-level", f, "(*mqtt.TopicsIndex).scanMessages", 2)
	trimKeepsRetained(c, "C02.f trim-keeps-retained")
	// (b)
	n := 0
	for _, ci := range c.callsNamed(f, "builtin.append") {
		n++
		d := describe(ci.Common().Args[1])
		okp := strings.Contains(d, "(*packets.Packets).Get(x.Retained,") || strings.Contains(d, "varargs")
		// provenance through the varargs slot
		if strings.Contains(d, "varargs") {
			okp = false
			if sl, isSl := ci.Common().Args[1].(*ssa.Slice); isSl {
				if al, isAl := sl.X.(*ssa.Alloc); isAl {
					for _, ref := range *al.Referrers() {
						if ia, isIA := ref.(*ssa.IndexAddr); isIA {
							for _, rr := range *ia.Referrers() {
								if st, isSt := rr.(*ssa.Store); isSt && strings.Contains(describe(st.Val), "(*packets.Packets).Get(x.Retained,") && strings.HasSuffix(describe(st.Val), "#0") {
									okp = true
								}
							}
						}
					}
				}
			}
		}
		c.ob("C02.b no-phantom-results", fmt.Sprintf("(*mqtt.TopicsIndex).scanMessages: result append under %s takes the packet from the retained store", guardKey(ci)), c.pos(ci.Pos()), okp, d)
		c.underFact("C02.b no-phantom-results", fmt.Sprintf("(*mqtt.TopicsIndex).scanMessages: result append under %s only when the store has the message", guardKey(ci)), ci,
			func(t string) bool {
				return strings.HasPrefix(t, "(*packets.Packets).Get(x.Retained,") && strings.HasSuffix(t, "#1")
			}, true, "")
	}
	c.floor("C02.b result appends", n, 3)
	// (d) parent level on '#'
	own := false
	for _, ins := range instrs(f) {
		if u, ok := ins.(*ssa.UnOp); ok && u.Op == token.MUL && (describe(u.X) == "φn.retainPath" || describe(u.X) == "n.retainPath") {
			own = true
		}
	}
	c.ob("C02.d parent-level", "(*mqtt.TopicsIndex).scanMessages consults the current node's own retained message when the filter level is '#'", c.pos(f.Pos()), own,
		"a trailing '#' also matches the parent level: filter a/# must return the retained message on topic a, but only the children's retainPath is ever read")
	// (c)
	if g := c.fn("mqtt", "(*TopicsIndex).RetainMessage"); g != nil {
		add := c.call1(g, "(*packets.Packets).Add")
		del := c.call1(g, "(*packets.Packets).Delete")
		var setP, clrP *ssa.Store
		for _, ins := range instrs(g) {
			if st, ok := ins.(*ssa.Store); ok && strings.HasSuffix(describe(st.Addr), ".retainPath") {
				if describe(st.Val) == `""` {
					clrP = st
				} else {
					setP = st
				}
			}
		}
		c.ob("C02.c path-bookkeeping", "(*mqtt.TopicsIndex).RetainMessage: storing a message sets the node's retainPath to the same topic", c.pos(g.Pos()),
			add != nil && setP != nil && setP.Block() == add.Block() && describe(setP.Val) == "pk.TopicName" && describe(add.Common().Args[1]) == "pk.TopicName", "")
		c.ob("C02.c path-bookkeeping", "(*mqtt.TopicsIndex).RetainMessage: deleting a message clears the node's retainPath", c.pos(g.Pos()),
			del != nil && clrP != nil && clrP.Block() == del.Block() && describe(del.Common().Args[1]) == "pk.TopicName", "")
		if add != nil {
			c.underFact("C02.c path-bookkeeping", "(*mqtt.TopicsIndex).RetainMessage stores exactly when the payload is non-empty", add, textEq("builtin.len(pk.Payload) > 0"), true, "")
		}
		if del != nil {
			c.underFact("C02.c path-bookkeeping", "(*mqtt.TopicsIndex).RetainMessage deletes exactly when the payload is empty", del, textEq("builtin.len(pk.Payload) > 0"), false, "")
		}
		// the node is the one addressed by the topic
		s := c.call1(g, "(*mqtt.TopicsIndex).set")
		c.ob("C02.c path-bookkeeping", "(*mqtt.TopicsIndex).RetainMessage addresses the node by the message's topic", c.pos(g.Pos()), s != nil && describe(s.Common().Args[1]) == "pk.TopicName", "")
	}
	if g := c.fn("mqtt", "(*Server).publishRetainedToClient"); g != nil {
		m := c.call1(g, "(*mqtt.TopicsIndex).Messages")
		c.ob("C02.c path-bookkeeping", "(*mqtt.Server).publishRetainedToClient replays Topics.Messages(sub.Filter)", c.pos(g.Pos()), m != nil && describe(m.Common().Args[1]) == "sub.Filter", "")
		p := c.call1(g, fnPubToClient)
		c.ob("C02.c path-bookkeeping", "(*mqtt.Server).publishRetainedToClient delivers each returned message once through publishToClient", c.pos(g.Pos()),
			p != nil && m != nil && strings.Contains(describe(p.Common().Args[3]), "(*mqtt.TopicsIndex).Messages("), "")
	}
	if g := c.fn("mqtt", "(*TopicsIndex).Messages"); g != nil {
		s := c.call1(g, "(*mqtt.TopicsIndex).scanMessages")
		c.ob("C02.c path-bookkeeping", "(*mqtt.TopicsIndex).Messages scans from the root at depth 0 with the given filter", c.pos(g.Pos()),
			s != nil && describe(s.Common().Args[1]) == "filter" && describe(s.Common().Args[2]) == "0", "")
	}
}

// ---- C05 -----------------------------------------------------------------------------------

func init() {
	register(&Prop{
		ID:        "C05",
		Title:     "Retained store reflects the latest retained publish per topic",
		Technique: "guard dominance on publishRetainedToClient / retainMessage / processSubscribe; who-may-write the retained store",
		Explanation: "(a) the retained replay loop is reached only for non-shared filters and only when Retain Handling allows it (0 always, 1 only if the subscription did not exist, 2 never); processSubscribe passes `existed` computed from the same iteration's Topics.Subscribe result; " +
			"retainMessage returns before touching the store when retain is unavailable or the packet is marked Ignore; " +
			"(b) client-originated writes reach the retained store only through Server.retainMessage, which is called on the publish's Retain flag; RetainMessage overwrites or deletes the one key pk.TopicName (C02.c); " +
			"(e) trim never unlinks a node that still carries a retained message (wildcard subscriptions walk the trie).",
		NotDecided: []string{"'most recent' under concurrent publishers", "delivery contents"},
		Run:        runC05,
	})
}

func runC05(c *Ctx) {
	trimKeepsRetained(c, "C05.e trim-keeps-retained")
	shareClassifiersAgree(c, "C05.f share-classifier")
	if f := c.fn("mqtt", "(*Server).publishRetainedToClient"); f != nil {
		m := c.call1(f, "(*mqtt.TopicsIndex).Messages")
		c.underFact("C05.a replay-guards", "(*mqtt.Server).publishRetainedToClient: shared subscriptions never get retained messages", m, textEq("mqtt.IsSharedFilter(sub.Filter)"), false, "")
		c.noPath("C05.a replay-guards", "(*mqtt.Server).publishRetainedToClient: Retain Handling 2 never replays", f, nil, isNamed("(*mqtt.TopicsIndex).Messages"), nil, []Assume{assumeEq("sub.RetainHandling == 2", true)}, "")
		c.noPath("C05.a replay-guards", "(*mqtt.Server).publishRetainedToClient: Retain Handling 1 does not replay for a subscription that already existed", f, nil, isNamed("(*mqtt.TopicsIndex).Messages"), nil,
			[]Assume{assumeEq("sub.RetainHandling == 1", true), assumeEq("existed", true)}, "")
		// and does replay otherwise
		for _, as := range [][]Assume{
			{assumeEq("mqtt.IsSharedFilter(sub.Filter)", false), assumeEq("sub.RetainHandling == 1", false), assumeEq("sub.RetainHandling == 2", false)},
			{assumeEq("mqtt.IsSharedFilter(sub.Filter)", false), assumeEq("sub.RetainHandling == 1", true), assumeEq("existed", false), assumeEq("sub.RetainHandling == 2", false)},
		} {
			_, hit := (&PathQuery{Fn: f, Target: isNamed("(*mqtt.TopicsIndex).Messages"), Assume: as}).Find()
			c.ob("C05.a replay-guards", fmt.Sprintf("(*mqtt.Server).publishRetainedToClient replays when allowed (%d facts)", len(as)), c.pos(f.Pos()), hit != nil, "Retain Handling 0, or 1 with a new subscription, must send the retained messages")
		}
		// the replayed copies are flagged as retained deliveries
		ok := false
		for _, st := range storesTo(f, "sub.FwdRetainedFlag") {
			if describe(st.Val) == "true" && m != nil && domInstr(st, m) {
				ok = true
			}
		}
		c.ob("C05.a replay-guards", "(*mqtt.Server).publishRetainedToClient marks the replay with FwdRetainedFlag (retain flag stays set on delivery)", c.pos(f.Pos()), ok, "")
	}
	if f := c.fn("mqtt", "(*Server).processSubscribe"); f != nil {
		r := c.call1(f, "(*mqtt.Server).publishRetainedToClient")
		okv := false
		if r != nil {
			d := describe(r.Common().Args[3])
			okv = strings.HasPrefix(d, "make([],builtin.len(pk.Filters))[")
		}
		c.ob("C05.a replay-guards", "(*mqtt.Server).processSubscribe passes the per-filter `existed` flag to the retained replay", c.pos(f.Pos()), okv, "")
		// filterExisted[i] = !isNew of the same iteration
		oks := false
		for _, ins := range instrs(f) {
			if st, ok := ins.(*ssa.Store); ok {
				if ia, ok := st.Addr.(*ssa.IndexAddr); ok {
					if mk, ok := ia.X.(*ssa.MakeSlice); ok && strings.Contains(mk.Type().String(), "[]bool") {
						oks = describe(st.Val) == "!(*mqtt.TopicsIndex).Subscribe(s.Topics, cl.ID, sub)"
					}
				}
			}
		}
		c.ob("C05.a replay-guards", "(*mqtt.Server).processSubscribe: existed = !isNew from Topics.Subscribe of the same filter", c.pos(f.Pos()), oks, "")
		// replay only for granted filters, after the SUBACK
		if r != nil {
			c.before("C05.a replay-guards", "(*mqtt.Server).processSubscribe replays retained messages after the SUBACK", c.call1(f, fnWritePacket), r, "")
			c.underFact("C05.a replay-guards", "(*mqtt.Server).processSubscribe replays only for filters that were granted", r, textHas("< packets.ErrUnspecifiedError.Code"), true, "")
		}
	}
	if f := c.fn("mqtt", "(*Server).retainMessage"); f != nil {
		rm := c.call1(f, "(*mqtt.TopicsIndex).RetainMessage")
		c.underFact("C05.a replay-guards", "(*mqtt.Server).retainMessage: nothing is retained while retain is unavailable", rm, textEq("s.Options.Capabilities.RetainAvailable == 0"), false, "")
		c.underFact("C05.a replay-guards", "(*mqtt.Server).retainMessage: an ignored packet is not retained", rm, textEq("pk.Ignore"), false, "")
	}
	// (b) who writes the retained store
	c.whoCalls("C05.b single-store", c.fn("mqtt", "(*Server).retainMessage"), map[string]string{
		"(*mqtt.Server).processPublish": "publish with the retain flag", "(*mqtt.Server).sendLWT": "retained will", "(*mqtt.Server).sendDelayedLWT": "retained delayed will"})
	c.whoCalls("C05.b single-store", c.fn("mqtt", "(*TopicsIndex).RetainMessage"), map[string]string{
		"(*mqtt.Server).retainMessage": "client-originated", "(*mqtt.Server).publishSysTopics": "broker $SYS values", "(*mqtt.Server).loadRetained": "restore"})
	if f := c.fn("mqtt", "(*Server).processPublish"); f != nil {
		c.underFact("C05.b single-store", "(*mqtt.Server).processPublish retains exactly when the publish has the retain flag", c.call1(f, fnRetainMsg), textEq("pk.FixedHeader.Retain"), true, "")
		_, hit := (&PathQuery{Fn: f, Target: isNamed(fnPubToSubs), Barrier: isNamed(fnRetainMsg), Assume: []Assume{assumeEq("pk.FixedHeader.Retain", true)}}).Find()
		c.ob("C05.b single-store", "(*mqtt.Server).processPublish: a retained publish is stored before it is forwarded", c.pos(f.Pos()), hit == nil, "")
	}
	for _, fn := range c.ModFns {
		for _, ci := range c.callsNamed(fn, "(*packets.Packets).Add", "(*packets.Packets).Delete") {
			if !strings.Contains(describe(ci.Common().Args[0]), "Retained") {
				continue
			}
			n := fname(rootFn(fn))
			ok := n == "(*mqtt.TopicsIndex).RetainMessage" || n == "(*mqtt.Server).clearExpiredRetainedMessages"
			c.ob("C05.b single-store", n+" mutates the retained store", c.pos(ci.Pos()), ok, "only RetainMessage (under the index lock) and the expiry housekeeping may change the retained store")
		}
	}
}

// ---- C06 -----------------------------------------------------------------------------------

func init() {
	register(&Prop{
		ID:        "C06",
		Title:     "Each shared-subscription group receives each matching message exactly once",
		Technique: "loop-shape rule on SelectShared (one insertion then unconditional break per group entry); path rule on publishToSubscribers; merge provenance",
		Explanation: "(a) SelectShared's inner loop over a group's members performs exactly one insertion into SharedSelected and leaves the loop unconditionally; publishToSubscribers on the len(Shared) > 0 edge always reaches MergeSharedSelected, and SelectShared whenever the hook left SharedSelected empty; " +
			"(b) MergeSharedSelected folds selections into Subscriptions (keyed by client id) through Merge, and delivery iterates only Subscriptions — one copy per client; " +
			"(c) the gathered per-group candidate sets (Subscribers.Shared) are written only by the trie walk: no broker code removes candidates before the selection; (d) a cached size field of SharedSubscriptions may change only under a test of the map entry concerned; (e) trim never unlinks a node that still holds shared subscriptions.",
		NotDecided: []string{"grouping is by full filter (subs.Shared[sub.Filter]) while the property speaks of the share name: two filters of one share name that both match yield two selections — a data-key issue not visible as code shape",
			"which member is selected; counting copies on connections"},
		Run: runC06,
	})
}

// sharedCandidatesOwner: the per-group candidate sets gathered for a publish (Subscribers.Shared) are filled by the
// trie walk only; no other broker code removes or adds members before the selection (hooks may, that is their contract).
func sharedCandidatesOwner(c *Ctx, rule string) {
	n := 0
	for _, fn := range c.ModFns {
		if fnPkgPath(fn) != modPath {
			continue
		}
		for _, ins := range instrs(fn) {
			var m ssa.Value
			kind := ""
			switch x := ins.(type) {
			case *ssa.MapUpdate:
				m, kind = x.Map, "insert into"
			case ssa.CallInstruction:
				if cname(x.Common()) == "builtin.delete" {
					m, kind = x.Common().Args[0], "delete from"
				}
			}
			if m == nil {
				continue
			}
			fromShared := false
			var walk func(v ssa.Value, seen map[ssa.Value]bool)
			walk = func(v ssa.Value, seen map[ssa.Value]bool) {
				if seen[v] || fromShared {
					return
				}
				seen[v] = true
				if fa, ok := v.(*ssa.FieldAddr); ok && fieldName(fa.X.Type(), fa.Field) == "Shared" && strings.HasSuffix(fa.X.Type().String(), ".Subscribers") {
					fromShared = true
					return
				}
				if i2, ok := v.(ssa.Instruction); ok {
					for _, op := range i2.Operands(nil) {
						if *op != nil {
							walk(*op, seen)
						}
					}
				}
			}
			walk(m, map[ssa.Value]bool{})
			if !fromShared {
				continue
			}
			n++
			owner := fname(rootFn(fn))
			c.ob(rule, fmt.Sprintf("%s: %s the gathered share-group candidates (Subscribers.Shared) — only the trie walk fills them", fname(fn), kind), c.pos(ins.Pos()),
				owner == "(*mqtt.TopicsIndex).gatherSharedSubscriptions", "removing candidates before the selection can leave a group with nobody selected: the message is lost for the whole group")
		}
	}
	c.floor(rule+" writes to Subscribers.Shared", n, 1)
}

// shadowCounters: a container that keeps a map `internal` may cache a size in another field, but every ±k update of
// such a field must be conditional on a lookup in the map (insert of a new key / delete of a present key);
// an unconditional update diverges from the map on a repeated insert or a delete of an absent key.
func shadowCounters(c *Ctx, rule string, only string) {
	for _, fn := range c.ModFns {
		if fnPkgPath(fn) != modPath {
			continue
		}
		for _, ins := range instrs(fn) {
			st, ok := ins.(*ssa.Store)
			if !ok {
				continue
			}
			fa, ok := st.Addr.(*ssa.FieldAddr)
			if !ok {
				continue
			}
			pt, ok := fa.X.Type().Underlying().(*types.Pointer)
			if !ok {
				continue
			}
			stt, ok := pt.Elem().Underlying().(*types.Struct)
			if !ok {
				continue
			}
			hasInternal := false
			for i := 0; i < stt.NumFields(); i++ {
				if _, isMap := stt.Field(i).Type().Underlying().(*types.Map); isMap && stt.Field(i).Name() == "internal" {
					hasInternal = true
				}
			}
			name := fieldName(fa.X.Type(), fa.Field)
			if !hasInternal || name == "internal" {
				continue
			}
			if only != "" && !strings.HasSuffix(pt.Elem().String(), "."+only) {
				continue
			}
			bo, ok := st.Val.(*ssa.BinOp)
			if !ok || (bo.Op != token.ADD && bo.Op != token.SUB) {
				continue
			}
			if describe(bo.X) != describe(fa) {
				continue
			}
			guarded := false
			for _, ed := range edgeDoms(st) {
				if t, _, ok := condOf(ed.b); ok && strings.Contains(t, ".internal") {
					guarded = true
				}
			}
			c.ob(rule, fmt.Sprintf("%s: the cached counter %s.%s is updated only under a test of the map entry concerned", fname(fn), shorten(pt.Elem().String()), name), c.pos(st.Pos()), guarded,
				"the counter is changed unconditionally: deleting an absent key (or re-adding a present one) makes it disagree with the map, and trim trusts it")
		}
	}
}

func runC06(c *Ctx) {
	trimKeepsSubscriptions(c, "C06.e trim-keeps-shared-nodes", 4)
	shareClassifiersAgree(c, "C06.f share-classifier")
	listAndIndexInStep(c, "C06.g list-and-index-in-step")
	sharedCandidatesOwner(c, "C06.c candidates-owner")
	shadowCounters(c, "C06.d shadow-counters", "SharedSubscriptions")
	if f := c.fn("mqtt", "(*Subscribers).SelectShared"); f != nil {
		// inner loop: the rangeiter whose body contains the MapUpdate
		var mus []*ssa.MapUpdate
		for _, ins := range instrs(f) {
			if mu, ok := ins.(*ssa.MapUpdate); ok && strings.Contains(describe(mu.Map), "SharedSelected") {
				mus = append(mus, mu)
			}
		}
		c.ob("C06.a one-member-per-group", "(*mqtt.Subscribers).SelectShared inserts a member into SharedSelected", c.pos(f.Pos()), len(mus) == 1, fmt.Sprintf("%d insertion sites", len(mus)))
		if len(mus) == 1 {
			mu := mus[0]
			// after the insertion the iterator over the group's members is never advanced again before the
			// outer iterator (over the gathered group entries) is: one member per entry.
			isOuterNext := func(x ssa.Instruction) bool {
				n, ok := x.(*ssa.Next)
				if !ok {
					return false
				}
				r, ok := n.Iter.(*ssa.Range)
				return ok && describe(r.X) == "s.Shared"
			}
			isInnerNext := func(x ssa.Instruction) bool {
				_, ok := x.(*ssa.Next)
				return ok && !isOuterNext(x)
			}
			nInner := 0
			for _, ins := range instrs(f) {
				if isInnerNext(ins) {
					nInner++
				}
			}
			_, hit := (&PathQuery{Fn: f, From: mu, Target: isInnerNext, Barrier: isOuterNext}).Find()
			c.ob("C06.a one-member-per-group", "(*mqtt.Subscribers).SelectShared leaves the member loop unconditionally after one selection", c.pos(mu.Pos()), hit == nil && nInner >= 1,
				"a second member of the same group entry could be selected for the same message")
			// the selection is keyed by the member's client id and merged
			c.ob("C06.a one-member-per-group", "(*mqtt.Subscribers).SelectShared keys the selection by client id and merges subscriptions of one client", c.pos(mu.Pos()),
				strings.Contains(describe(mu.Value), "(packets.Subscription).Merge("), describe(mu.Value))
		}
		// outer loop ranges over s.Shared
		okr := false
		for _, ins := range instrs(f) {
			if r, ok := ins.(*ssa.Range); ok && describe(r.X) == "s.Shared" {
				okr = true
			}
		}
		c.ob("C06.a one-member-per-group", "(*mqtt.Subscribers).SelectShared visits every gathered group entry", c.pos(f.Pos()), okr, "")
	}
	if f := c.fn("mqtt", "(*Server).publishToSubscribers"); f != nil {
		shared := []Assume{assumeEq("builtin.len((*mqtt.TopicsIndex).Subscribers(s.Topics, pk.TopicName).Shared) > 0", true)}
		var loopStart ssa.Instruction
		for _, ins := range instrs(f) {
			if r, ok := ins.(*ssa.Range); ok && strings.HasSuffix(describe(r.X), ".Subscriptions") {
				loopStart = r
			}
		}
		if loopStart == nil {
			c.ob("C06.a one-member-per-group", "(*mqtt.Server).publishToSubscribers delivers by ranging over Subscriptions", c.pos(f.Pos()), false, "")
		} else {
			c.noPath("C06.a one-member-per-group", "(*mqtt.Server).publishToSubscribers: with shared subscribers gathered, delivery starts only after MergeSharedSelected", f, nil, isIns(loopStart), isNamed("(*mqtt.Subscribers).MergeSharedSelected"), shared, "")
			c.noPath("C06.a one-member-per-group", "(*mqtt.Server).publishToSubscribers: SelectShared runs whenever the hook selected nobody", f, nil, isNamed("(*mqtt.Subscribers).MergeSharedSelected"), isNamed("(*mqtt.Subscribers).SelectShared"),
				append(shared, Assume{Match: func(t string) bool { return strings.Contains(t, ".SharedSelected) == 0") }, Truth: true}), "")
			// the hook's result is the one used
			c.ob("C06.a one-member-per-group", "(*mqtt.Server).publishToSubscribers delivers to every client in Subscriptions once", c.pos(loopStart.Pos()), len(c.callsNamed(f, fnPubToClient)) == 1, "")
		}
	}
	if f := c.fn("mqtt", "(*Subscribers).MergeSharedSelected"); f != nil {
		ok := false
		for _, ins := range instrs(f) {
			if mu, isMU := ins.(*ssa.MapUpdate); isMU && describe(mu.Map) == "s.Subscriptions" && strings.Contains(describe(mu.Value), "(packets.Subscription).Merge(") {
				ok = true
			}
		}
		c.ob("C06.b one-copy-per-client", "(*mqtt.Subscribers).MergeSharedSelected folds the selection into Subscriptions (keyed by client id) through Merge", c.pos(f.Pos()), ok, "a client holding shared and non-shared matching subscriptions gets one copy")
	}
	if f := c.fn("mqtt", "(*TopicsIndex).gatherSubscriptions"); f != nil {
		ok := false
		for _, ins := range instrs(f) {
			if mu, isMU := ins.(*ssa.MapUpdate); isMU && describe(mu.Map) == "subs.Subscriptions" && strings.Contains(describe(mu.Value), "(packets.Subscription).Merge(") {
				ok = true
			}
		}
		c.ob("C06.b one-copy-per-client", "(*mqtt.TopicsIndex).gatherSubscriptions merges overlapping subscriptions of one client into one entry", c.pos(f.Pos()), ok, "")
	}
}

// ---- C30 -----------------------------------------------------------------------------------

func init() {
	register(&Prop{
		ID:        "C30",
		Title:     "Filter and topic-name validation follows the MQTT rules",
		Technique: "use-of-verdict rules (validate before create) + structural necessary conditions of IsValidFilter",
		Explanation: "IsValidFilter's truth table is value-level. Decided: (a) the verdict is used: in processSubscribe Topics.Subscribe and Subscriptions.Add are reached only on IsValidFilter(filter, false) == true, the false edge stores 0x8F (turned into 0x80 for MQTT 3) and creates nothing; the inline API tests the filter too; processPublish tests IsValidFilter(topic, true) unless inline; " +
			"(b) necessary shape of IsValidFilter: it rejects the empty filter for subscriptions, tests '#' against the last position, tests '+'/'#' and the $SYS prefix for publish topics, requires a second level after $share and a wildcard-free share name, and inspects wildcard placement level by level (a loop or split over levels).",
		NotDecided: []string{"the accepted language of IsValidFilter beyond these shapes"},
		Run:        runC30,
	})
}

func runC30(c *Ctx) {
	prefixGuardTight(c, "C30.c prefix-guard")
	subscribeValidityFirst(c, "C30.d validity-first")
	valid := func(t string) bool {
		return strings.HasPrefix(t, "mqtt.IsValidFilter(") && strings.HasSuffix(t, ", false)")
	}
	if f := c.fn("mqtt", "(*Server).processSubscribe"); f != nil {
		c.underFact("C30.a validate-before-create", "(*mqtt.Server).processSubscribe: Topics.Subscribe only for a filter IsValidFilter accepted", c.call1(f, fnTopicsSub), valid, true, "")
		c.underFact("C30.a validate-before-create", "(*mqtt.Server).processSubscribe: the client's subscription set grows only for a valid filter", c.call1(f, "(*mqtt.Subscriptions).Add"), valid, true, "")
		n := 0
		for _, ins := range instrs(f) {
			if st, ok := ins.(*ssa.Store); ok && describe(st.Val) == "packets.ErrTopicFilterInvalid.Code" {
				n++
				c.underFact("C30.a validate-before-create", "(*mqtt.Server).processSubscribe: 0x8F is stored on the invalid-filter edge", st, valid, false, "")
			}
		}
		c.floor("C30.a invalid-filter reason stores", n, 1)
		c.codeIs("C30.a validate-before-create", "ErrTopicFilterInvalid", 0x8F)
		// MQTT 3 clamp
		clamp := false
		for _, ins := range instrs(f) {
			if st, ok := ins.(*ssa.Store); ok && describe(st.Val) == "packets.ErrUnspecifiedError.Code" {
				if dominatedByFact(st, textEq("cl.Properties.ProtocolVersion < 5"), true) && dominatedByFact(st, textHas("> packets.CodeGrantedQos2.Code"), true) {
					clamp = true
				}
			}
		}
		c.ob("C30.a validate-before-create", "(*mqtt.Server).processSubscribe: for MQTT 3 every failure code becomes 0x80", c.pos(f.Pos()), clamp, "")
		// the filter checked is the one subscribed
		for _, ci := range c.callsNamed(f, "mqtt.IsValidFilter") {
			c.ob("C30.a validate-before-create", "(*mqtt.Server).processSubscribe validates the filter it subscribes", c.pos(ci.Pos()), describe(ci.Common().Args[0]) == "sub.Filter" && describe(ci.Common().Args[1]) == "false", "")
		}
	}
	for _, n := range []string{"(*Server).Subscribe", "(*Server).Unsubscribe"} {
		if f := c.fn("mqtt", n); f != nil {
			target := "(*mqtt.TopicsIndex).InlineSubscribe"
			if n == "(*Server).Unsubscribe" {
				target = "(*mqtt.TopicsIndex).InlineUnsubscribe"
			}
			c.underFact("C30.a validate-before-create", fname(f)+": the inline API validates the filter first", c.call1(f, target), func(t string) bool { return t == "mqtt.IsValidFilter(filter, false)" }, true, "")
		}
	}
	if f := c.fn("mqtt", "(*Server).processPublish"); f != nil {
		for _, sink := range []string{fnPubToSubs, fnRetainMsg} {
			for _, ci := range c.callsNamed(f, sink) {
				c.factGate("C30.a validate-before-create", fmt.Sprintf("(*mqtt.Server).processPublish → %s only for a topic IsValidFilter(topic, forPublish) accepted (unless inline)", strings.TrimPrefix(sink, "(*mqtt.Server).")), f, ci,
					func(t string) bool { return t == "mqtt.IsValidFilter(pk.TopicName, true)" }, []Assume{assumeEq("cl.Net.Inline", false)}, "")
			}
		}
	}
	// (b) shape of IsValidFilter
	f := c.fn("mqtt", "IsValidFilter")
	if f == nil {
		return
	}
	conds := map[string]bool{}
	for _, b := range f.Blocks {
		if t, _, ok := condOf(b); ok {
			conds[t] = true
		}
	}
	has := func(sub ...string) bool {
		for t := range conds {
			all := true
			for _, s := range sub {
				if !strings.Contains(t, s) {
					all = false
				}
			}
			if all {
				return true
			}
		}
		return false
	}
	c.ob("C30.b validator-shape", "mqtt.IsValidFilter rejects the empty subscription filter", c.pos(f.Pos()), has("builtin.len(filter) == 0") || has(`filter == ""`), "")
	hashPos := false
	for _, idx := range []string{"strings.IndexRune(filter, 35)", "strings.IndexByte(filter, 35)", `strings.Index(filter, "#")`, `strings.IndexAny(filter, "#")`} {
		if has(idx, "builtin.len(filter) - 1") {
			hashPos = true
		}
	}
	c.ob("C30.b validator-shape", "mqtt.IsValidFilter compares the position of '#' with the last position", c.pos(f.Pos()), hashPos, "")
	rts := runeTests(f)
	c.ob("C30.b validator-shape", "mqtt.IsValidFilter rejects '+' in publish topics", c.pos(f.Pos()), looksFor(rts, "filter", '+'), "")
	c.ob("C30.b validator-shape", "mqtt.IsValidFilter rejects '#' in publish topics", c.pos(f.Pos()), looksFor(rts, "filter", '#'), "")
	c.ob("C30.b validator-shape", "mqtt.IsValidFilter rejects the $SYS prefix for publish topics", c.pos(f.Pos()), has("strings.EqualFold(", "mqtt.SysPrefix"), "")
	c.ob("C30.b validator-shape", "mqtt.IsValidFilter treats $share specially", c.pos(f.Pos()), has("strings.EqualFold(", "mqtt.SharePrefix"), "")
	c.ob("C30.b validator-shape", "mqtt.IsValidFilter rejects wildcards in the share name", c.pos(f.Pos()), looksFor(rts, "mqtt.isolateParticle(filter, 1)#0", '+') && looksFor(rts, "mqtt.isolateParticle(filter, 1)#0", '#'), "")
	// publish-only tests are under forPublish
	for _, rt := range rts {
		if rt.contains && rt.subject == "filter" {
			for _, r := range rt.runes {
				c.underFact("C30.b validator-shape", fmt.Sprintf("mqtt.IsValidFilter: wildcard ban of %q in the whole filter applies to publish topics only", r), rt.call, textEq("forPublish"), true, "")
			}
		}
	}
	// level-by-level inspection
	loop := false
	for _, b := range f.Blocks {
		if strings.HasPrefix(b.Comment, "for.") || strings.HasPrefix(b.Comment, "range") {
			loop = true
		}
	}
	for _, ci := range c.callsIn(f, func(n string, _ *ssa.CallCommon) bool {
		return n == "strings.Split" || n == "strings.SplitN" || n == "strings.FieldsFunc" || n == "strings.IndexFunc" || n == "strings.Cut"
	}) {
		_ = ci
		loop = true
	}
	c.ob("C30.b validator-shape", "mqtt.IsValidFilter inspects wildcard placement level by level (a loop or split over the filter's levels)", c.pos(f.Pos()), loop,
		"'+' must occupy a whole level and '#' the whole last level; with no per-level inspection `a+`, `a/+b/c`, `a/b#`, `$share/g/` and `$share//a` are accepted")
}

// ---- C31 -----------------------------------------------------------------------------------

func init() {
	register(&Prop{
		ID:        "C31",
		Title:     "The topic index stays consistent under any concurrent history",
		Technique: "lock-flow (guarded-by the root lock) over every trie mutation; loop-condition completeness of trim; result-provenance of the existed reports",
		Explanation: "(a) every mutation of the trie (particles.add/delete, subscriptions/shared/inline Add/Delete, stores to retainPath, calls of set/seek/trim) executes with the root particle's mutex held — directly, or in a helper whose every module caller holds it; " +
			"(b) on every path to trim's unlink the node was tested for a parent, no retained message, no children and no client/shared/inline subscriptions (directly or inside a boolean helper of the module), and the tests are passed again for each ancestor the walk climbs to; the node is deleted from its parent by its own key; " +
			"(c) Subscribe/InlineSubscribe/Unsubscribe/InlineUnsubscribe compute their `existed` result from a lookup of the entry they add or delete; " +
			"(d) a cached counter kept beside a container's map changes only under a test of the entry concerned.",
		NotDecided: []string{"linearizability of the lock-free readers against writers (schedule-level)", "torn reads of retainPath by lock-free readers (C33)"},
		Run:        runC31,
	})
}

func runC31(c *Ctx) {
	mutators := map[string]bool{
		"(*mqtt.particles).add": true, "(*mqtt.particles).delete": true,
		"(*mqtt.Subscriptions).Add": true, "(*mqtt.Subscriptions).Delete": true,
		"(*mqtt.SharedSubscriptions).Add": true, "(*mqtt.SharedSubscriptions).Delete": true,
		"(*mqtt.InlineSubscriptions).Add": true, "(*mqtt.InlineSubscriptions).Delete": true,
		"(*mqtt.TopicsIndex).set": true, "(*mqtt.TopicsIndex).seek": true, "(*mqtt.TopicsIndex).trim": true,
	}
	helpers := map[string]bool{"(*mqtt.TopicsIndex).set": true, "(*mqtt.TopicsIndex).seek": true, "(*mqtt.TopicsIndex).trim": true}
	holdsRoot := func(fn *ssa.Function, ins ssa.Instruction) bool {
		lf := lockFlowOf(fn)
		_, ok := lf.before[ins]["x.root.Mutex"]
		return ok
	}
	n := 0
	for _, fn := range c.ModFns {
		if fnPkgPath(fn) != modPath {
			continue
		}
		name := fname(fn)
		for _, ins := range instrs(fn) {
			var what string
			if cc := callOf(ins); cc != nil && mutators[cname(cc)] {
				// only trie-owned containers: receiver reached from a particle (n.subscriptions, particle.shared, …) or the index itself
				recv := describe(cc.Args[0])
				if strings.HasPrefix(cname(cc), "(*mqtt.Subscriptions)") && strings.HasPrefix(recv, "cl.") || strings.Contains(recv, ".State.Subscriptions") {
					continue // a client's own subscription set, not the trie
				}
				what = cname(cc) + "(" + recv + ")"
			} else if st, ok := ins.(*ssa.Store); ok && strings.HasSuffix(describe(st.Addr), ".retainPath") {
				what = "store " + describe(st.Addr)
			}
			if what == "" || !strings.HasPrefix(name, "(*mqtt.TopicsIndex).") && !strings.HasPrefix(name, "mqtt.newParticle") {
				if what != "" {
					c.ob("C31.a single-writer-lock", name+" mutates the topic index: "+what, c.pos(ins.Pos()), false, "trie mutations belong to the TopicsIndex mutators that take the root lock")
				}
				continue
			}
			n++
			if helpers[name] {
				// every module caller holds the root lock at the call
				okAll := true
				callers := 0
				for _, caller := range c.ModFns {
					for _, ci := range c.callsNamed(caller, name) {
						callers++
						if !holdsRoot(caller, ci) && !helpers[fname(caller)] {
							okAll = false
						}
					}
				}
				c.ob("C31.a single-writer-lock", fmt.Sprintf("%s: %s — every caller of the helper holds the root lock", name, what), c.pos(ins.Pos()), okAll && callers > 0, "")
				continue
			}
			c.ob("C31.a single-writer-lock", fmt.Sprintf("%s: %s under the root lock", name, what), c.pos(ins.Pos()), holdsRoot(fn, ins), "two writers would interleave their trie edits")
		}
	}
	c.floor("C31.a trie mutation sites", n, 14)
	// (b) trim
	if f := c.fn("mqtt", "(*TopicsIndex).trim"); f != nil {
		d := c.call1(f, "(*mqtt.particles).delete")
		// path form: the removal is guarded by every term, and the guard is evaluated again for each ancestor
		// the walk climbs to (a check hoisted out of the loop protects only the starting node)
		if d != nil {
			for _, term := range trimTerms {
				c.ob("C31.b trim-keeps-live-nodes", "(*mqtt.TopicsIndex).trim: each node removed on the upward walk was itself tested: "+term.what, c.pos(d.Pos()),
					term.holds(d), "an ancestor that still carries a retained message or a subscription would be unlinked with its last child")
			}
		}
		c.ob("C31.b trim-keeps-live-nodes", "(*mqtt.TopicsIndex).trim deletes the node from its parent by its own key", c.pos(f.Pos()), d != nil && strings.HasSuffix(describe(d.Common().Args[1]), ".key") && strings.Contains(describe(d.Common().Args[0]), ".parent.particles"), "")
	}
	shadowCounters(c, "C31.d shadow-counters", "")
	// (c) existed reports
	for _, spec := range []struct {
		fn      string
		lookups []string
	}{
		{"(*TopicsIndex).Subscribe", []string{"(*mqtt.Subscriptions).Get", "(*mqtt.SharedSubscriptions).Get"}},
		{"(*TopicsIndex).InlineSubscribe", []string{"(*mqtt.InlineSubscriptions).Get"}},
		{"(*TopicsIndex).Unsubscribe", []string{"(*mqtt.Subscriptions).Get", "(*mqtt.SharedSubscriptions).Get"}},
		{"(*TopicsIndex).InlineUnsubscribe", []string{"(*mqtt.InlineSubscriptions).Get"}},
	} {
		f := c.fn("mqtt", spec.fn)
		if f == nil {
			continue
		}
		for _, l := range spec.lookups {
			c.ob("C31.c existed-from-lookup", fmt.Sprintf("%s derives its result from %s of the affected entry", fname(f), strings.TrimPrefix(l, "(*mqtt.")), c.pos(f.Pos()), c.call1(f, l) != nil,
				"the function reports `existed` without looking the entry up: it answers true for a client that never subscribed whenever the node exists")
		}
	}
}

// ---- C40 -----------------------------------------------------------------------------------

func init() {
	register(&Prop{
		ID:        "C40",
		Title:     "The inline client API behaves like a regular subscriber and publisher",
		Technique: "route rules (who-calls / ordering / argument provenance) on Server.Publish/Subscribe/Unsubscribe and the inline gathering sites",
		Explanation: "(a) inline subscriptions are gathered at every gather site from the same node as client subscriptions, including the '#' child of the terminal node (parent-level match) — C01.a over the inline collector; " +
			"(b) Server.Publish injects a PUBLISH through InjectPacket → processPacket → processPublish with the inline client, which publishToSubscribers hands to every inline handler and every client route in one pass; the requested QoS is carried in the packet and clamped per subscription in publishToClient; " +
			"(c) Server.Subscribe registers the subscription before replaying retained messages to the handler; Server.Unsubscribe removes only the given identifier and trims the node only when no inline subscription is left; InlineSubscribe (like Topics.Subscribe) stores the given subscription on every path, so a repeated Subscribe replaces the handler; " +
			"(e) trim never unlinks a node that still holds inline subscriptions.",
		NotDecided: []string{"matcher truth table (C01)", "ordering between retained replay and concurrent live messages"},
		Run:        runC40,
	})
}

func runC40(c *Ctx) {
	if f := c.fn("mqtt", "(*TopicsIndex).scanSubscribers"); f != nil {
		n := 0
		for _, ci := range c.callsNamed(f, fnGatherSubs) {
			node := ci.Common().Args[2]
			var in ssa.CallInstruction
			for _, x := range c.callsNamed(f, fnGatherInline) {
				if x.Block() == ci.Block() {
					in = x
				}
			}
			n++
			c.ob("C40.a same-matching", fmt.Sprintf("(*mqtt.TopicsIndex).scanSubscribers gather site under %s: inline subscriptions come from the node that matched", guardKey(ci)), c.pos(ci.Pos()), in != nil && in.Common().Args[1] == node,
				"an inline subscription would be matched under different rules than a client subscription (e.g. a/# not matching topic a)")
		}
		c.floor("C40.a gather sites", n, 3)
	}
	if f := c.fn("mqtt", "(*Server).Publish"); f != nil {
		ip := c.call1(f, "(*mqtt.Server).InjectPacket")
		c.ob("C40.b api-routes", "(*mqtt.Server).Publish injects the packet as the inline client", c.pos(f.Pos()), ip != nil && describe(ip.Common().Args[1]) == "s.inlineClient", "")
		want := map[string]string{"Qos": "qos", "Retain": "retain", "TopicName": "topic", "Payload": "payload"}
		got := map[string]string{}
		for _, ins := range instrs(f) {
			if st, ok := ins.(*ssa.Store); ok {
				if fa, ok := st.Addr.(*ssa.FieldAddr); ok {
					got[fieldName(fa.X.Type(), fa.Field)] = describe(st.Val)
				}
			}
		}
		for k, v := range want {
			c.ob("C40.b api-routes", "(*mqtt.Server).Publish carries "+v+" in the packet's "+k, c.pos(f.Pos()), got[k] == v, "found "+got[k])
		}
		c.ob("C40.b api-routes", "(*mqtt.Server).Publish builds a PUBLISH", c.pos(f.Pos()), got["Type"] == "3", "")
		if ip != nil {
			c.underFact("C40.b api-routes", "(*mqtt.Server).Publish requires the inline client to be enabled", ip, textEq("s.Options.InlineClient"), true, "")
		}
	}
	if f := c.fn("mqtt", "(*Server).InjectPacket"); f != nil {
		pp := c.call1(f, "(*mqtt.Server).processPacket")
		c.ob("C40.b api-routes", "(*mqtt.Server).InjectPacket processes the packet like a received one", c.pos(f.Pos()), pp != nil && describe(pp.Common().Args[1]) == "cl", "")
	}
	if f := c.fn("mqtt", "(*Server).processPublish"); f != nil {
		// inline publishes always reach publishToSubscribers (no ack exchange)
		_, hit := (&PathQuery{Fn: f, Target: isNamed(fnPubToSubs), Assume: []Assume{assumeEq("cl.Net.Inline", true), assumeHas("receiveQuota) == 0", false), assumeHas("OnPublish(s.hooks, cl, pk)#1 == nil", true)}}).Find()
		c.ob("C40.b api-routes", "(*mqtt.Server).processPublish routes an inline publish to publishToSubscribers", c.pos(f.Pos()), hit != nil, "")
		c.noPath("C40.b api-routes", "(*mqtt.Server).processPublish: an inline publish needs no acknowledgement exchange (no in-flight marker)", f, nil, isNamed(fnInflSet), nil, []Assume{assumeEq("cl.Net.Inline", true)}, "")
	}
	if f := c.fn("mqtt", "(*Server).publishToSubscribers"); f != nil {
		var h ssa.Instruction
		for _, ins := range instrs(f) {
			if call, ok := ins.(*ssa.Call); ok && strings.HasSuffix(describe(call.Call.Value), ".Handler") {
				h = call
				ranged := false
				for _, x := range instrs(f) {
					if r, isR := x.(*ssa.Range); isR && strings.HasSuffix(describe(r.X), ".InlineSubscriptions") && reachableFrom(r, call) {
						ranged = true
					}
				}
				c.ob("C40.b api-routes", "(*mqtt.Server).publishToSubscribers calls every gathered inline handler with the message", c.pos(call.Pos()),
					ranged && describe(call.Call.Args[2]) == "pk", describe(call.Call.Value))
			}
		}
		if h == nil {
			c.ob("C40.b api-routes", "(*mqtt.Server).publishToSubscribers calls every gathered inline handler with the message", c.pos(f.Pos()), false, "no handler call")
		}
	}
	if f := c.fn("mqtt", "(*Server).Subscribe"); f != nil {
		is := c.call1(f, "(*mqtt.TopicsIndex).InlineSubscribe")
		ms := c.call1(f, "(*mqtt.TopicsIndex).Messages")
		c.before("C40.c subscribe-order", "(*mqtt.Server).Subscribe registers the inline subscription before replaying retained messages", is, ms, "a message retained in between would otherwise be missed by both")
		if ms != nil {
			c.ob("C40.c subscribe-order", "(*mqtt.Server).Subscribe replays the retained messages matching the same filter", c.pos(ms.Pos()), describe(ms.Common().Args[1]) == "filter", "")
		}
		hcalled := false
		for _, ins := range instrs(f) {
			if call, ok := ins.(*ssa.Call); ok && describe(call.Call.Value) == "handler" {
				hcalled = ms != nil && reachableFrom(ms, call)
			}
		}
		c.ob("C40.c subscribe-order", "(*mqtt.Server).Subscribe hands every replayed retained message to the handler", c.pos(f.Pos()), hcalled, "")
		if is != nil {
			c.underFact("C40.c subscribe-order", "(*mqtt.Server).Subscribe rejects a nil handler", is, textEq("handler == nil"), false, "")
		}
	}
	// re-subscribing replaces: like a client's SUBSCRIBE, InlineSubscribe stores the given subscription (handler
	// included) on every path, whether or not the identifier existed; and trim keeps nodes with inline subscriptions
	if f := c.fn("mqtt", "(*TopicsIndex).InlineSubscribe"); f != nil {
		c.noPath("C40.c subscribe-order", "(*mqtt.TopicsIndex).InlineSubscribe stores the subscription on every path (a repeated Subscribe replaces handler and options)", f, nil, anyReturn,
			isNamed("(*mqtt.InlineSubscriptions).Add"), nil, "Server.Subscribe reports success and replays retained messages to the new handler, but live messages keep going to the old one")
	}
	if f := c.fn("mqtt", "(*TopicsIndex).Subscribe"); f != nil {
		c.noPath("C40.c subscribe-order", "(*mqtt.TopicsIndex).Subscribe stores the subscription on every path (the behaviour the inline API mirrors)", f, nil, anyReturn,
			isNamed("(*mqtt.Subscriptions).Add", "(*mqtt.SharedSubscriptions).Add"), nil, "")
	}
	trimKeepsSubscriptions(c, "C40.e trim-keeps-inline-nodes", 5)
	if f := c.fn("mqtt", "(*Server).Unsubscribe"); f != nil {
		iu := c.call1(f, "(*mqtt.TopicsIndex).InlineUnsubscribe")
		c.ob("C40.c subscribe-order", "(*mqtt.Server).Unsubscribe removes the given identifier under the given filter", c.pos(f.Pos()), iu != nil && describe(iu.Common().Args[1]) == "subscriptionId" && describe(iu.Common().Args[2]) == "filter", "")
	}
	if f := c.fn("mqtt", "(*TopicsIndex).InlineUnsubscribe"); f != nil {
		d := c.call1(f, "(*mqtt.InlineSubscriptions).Delete")
		c.ob("C40.c subscribe-order", "(*mqtt.TopicsIndex).InlineUnsubscribe deletes only the given identifier", c.pos(f.Pos()), d != nil && describe(d.Common().Args[1]) == "id", "")
		c.underFact("C40.c subscribe-order", "(*mqtt.TopicsIndex).InlineUnsubscribe trims the node only when no inline subscription is left", c.call1(f, "(*mqtt.TopicsIndex).trim"),
			textHas("(*mqtt.InlineSubscriptions).Len(", "== 0"), true, "")
		s := c.call1(f, "(*mqtt.TopicsIndex).seek")
		c.ob("C40.c subscribe-order", "(*mqtt.TopicsIndex).InlineUnsubscribe addresses the node by the filter", c.pos(f.Pos()), s != nil && describe(s.Common().Args[1]) == "filter", "")
	}
	if f := c.fn("mqtt", "(*InlineSubscriptions).Delete"); f != nil {
		okd := false
		for _, ins := range instrs(f) {
			if cc := callOf(ins); cc != nil && cname(cc) == "builtin.delete" && describe(cc.Args[1]) == "id" {
				okd = true
			}
		}
		c.ob("C40.c subscribe-order", "(*mqtt.InlineSubscriptions).Delete removes exactly the key it is given", c.pos(f.Pos()), okd, "")
	}
}
