package main

// Rules added after the third round of seeded changes, third batch (properties C22–C28).

import (
	"fmt"
	"regexp"
	"strings"

	"golang.org/x/tools/go/ssa"
)

func round3cHooks(c *Ctx, id string) {
	switch id {
	case "C02":
		retainStoresOnEveryPath(c, "C02.j retain-stores-every-path")
	case "C05":
		retainStoresOnEveryPath(c, "C05.j retain-stores-every-path")
	case "C17":
		aliasResolvedBeforeHooks(c, "C17.h alias-before-hooks")
	case "C20":
		storedPropertiesAreCopied(c, "C20.i stored-properties-copied")
		retainStoresOnEveryPath(c, "C20.j retain-stores-every-path")
	case "C22":
		storedPropertiesAreCopied(c, "C22.b stored-properties-copied")
	case "C23":
		copyPassesTransferFlag(c, "C23.g copy-passes-transfer-flag")
		flaggedPropertyWritten(c, "C23.h flagged-property-written")
	case "C24":
		storedPropertiesAreCopied(c, "C24.f stored-properties-copied")
		copyPassesTransferFlag(c, "C24.g copy-passes-transfer-flag")
		aliasResolvedBeforeHooks(c, "C24.h alias-before-hooks")
	case "C25":
		retainStoresOnEveryPath(c, "C25.h retain-stores-every-path")
		housekeepingUnconditional(c, "C25.i housekeeping-unconditional")
	case "C26":
		flaggedPropertyWritten(c, "C26.g flagged-property-written")
	case "C15":
		housekeepingUnconditional(c, "C15.l housekeeping-unconditional")
	case "C16":
		housekeepingUnconditional(c, "C16.j housekeeping-unconditional")
	case "C42":
		flaggedPropertyWritten(c, "C42.i flagged-property-written")
	}
}

// storedPropertiesAreCopied: the storage hooks build the stored message from pk.Properties.Copy(false) — the copy
// without the per-connection transfer fields (topic alias) — in OnRetainMessage and OnQosPublish of every backend.
func storedPropertiesAreCopied(c *Ctx, rule string) {
	n := 0
	for _, b := range backends {
		for _, m := range []string{"(*Hook).OnRetainMessage", "(*Hook).OnQosPublish"} {
			f := c.fn(bpath(b), m)
			if f == nil {
				continue
			}
			ok := false
			for _, g := range withAnon(f) {
				for _, ci := range c.callsNamed(g, "(*packets.Properties).Copy") {
					if k, isK := ci.Common().Args[1].(*ssa.Const); isK && k.Value != nil && k.Value.String() == "false" {
						ok = true
					}
				}
			}
			n++
			c.ob(rule, fmt.Sprintf("%s %s stores pk.Properties.Copy(false)", b, strings.TrimPrefix(m, "(*Hook).")), c.pos(f.Pos()), ok,
				"the raw properties carry the connection's topic alias: this backend would store what its siblings strip")
		}
	}
	c.floor(rule+" message-storing hook methods", n, 8)
}

// copyPassesTransferFlag: Packet.Copy hands its allowTransfer argument on to Properties.Copy: fan-out and retain call
// Copy(false) to strip the publisher's topic alias.
func copyPassesTransferFlag(c *Ctx, rule string) {
	f := c.fn("packets", "(*Packet).Copy")
	if f == nil {
		return
	}
	n := 0
	for _, ci := range c.callsNamed(f, "(*packets.Properties).Copy") {
		n++
		a := ci.Common().Args[1]
		_, isParam := a.(*ssa.Parameter)
		c.ob(rule, "(*packets.Packet).Copy passes its allowTransfer argument to Properties.Copy", c.pos(ci.Pos()), isParam, "passes "+describe(a)+": the publisher's topic alias travels to subscribers that never negotiated one")
	}
	c.floor(rule+" Properties.Copy calls in Packet.Copy", n, 1)
}

// aliasResolvedBeforeHooks: processPublish binds/resolves the inbound topic alias before the OnPublish hooks run: a
// publish that a hook rejects has still (re)bound the alias on the client's side, and the hooks see the real topic.
func aliasResolvedBeforeHooks(c *Ctx, rule string) {
	f := c.fn("mqtt", "(*Server).processPublish")
	if f == nil {
		return
	}
	hook := c.call1(f, "(*mqtt.Hooks).OnPublish")
	if hook == nil {
		c.ob(rule, "(*mqtt.Server).processPublish runs the OnPublish hooks", c.pos(f.Pos()), false, "call not found")
		return
	}
	n := 0
	for _, ci := range c.callsNamed(f, "(*mqtt.InboundTopicAliases).Set") {
		n++
		c.ob(rule, "(*mqtt.Server).processPublish binds the inbound alias before the OnPublish hooks run", c.pos(ci.Pos()), !reachableFrom(hook, ci),
			"a re-binding carried by a rejected publish is lost: the client's next alias-only publish goes to the old topic")
	}
	c.floor(rule+" alias bindings in processPublish", n, 1)
}

// retainStoresOnEveryPath: TopicsIndex.RetainMessage replaces the stored message on every call with a payload —
// also when the payload equals the stored one (the new message has its own properties, expiry and creation time).
func retainStoresOnEveryPath(c *Ctx, rule string) {
	f := c.fn("mqtt", "(*TopicsIndex).RetainMessage")
	if f == nil {
		return
	}
	c.noPath(rule, "(*mqtt.TopicsIndex).RetainMessage: a message with a payload is stored on every path", f, nil, anyReturn, isNamed("(*packets.Packets).Add"),
		[]Assume{assumeEq("builtin.len(pk.Payload) == 0", false)},
		"a shortcut for an unchanged payload keeps the old message's expiry and properties alive")
}

// housekeepingUnconditional: each periodic task of the event loop runs whenever its ticker fires: no further condition
// (a counter that says "nothing to do" can be stale) stands between the select case and the call.
func housekeepingUnconditional(c *Ctx, rule string) {
	f := c.fn("mqtt", "(*Server).eventLoop")
	if f == nil {
		return
	}
	n := 0
	for _, name := range []string{"(*mqtt.Server).clearExpiredClients", "(*mqtt.Server).clearExpiredRetainedMessages", "(*mqtt.Server).sendDelayedLWT", "(*mqtt.Server).clearExpiredInflights"} {
		for _, ci := range c.callsNamed(f, name) {
			n++
			extra := ""
			for _, ed := range edgeDoms(ci) {
				if t, _, ok := condOf(ed.b); ok && !strings.HasPrefix(t, "select(") {
					extra = t
				}
			}
			c.ob(rule, fmt.Sprintf("(*mqtt.Server).eventLoop runs %s whenever its ticker fires", strings.TrimPrefix(name, "(*mqtt.Server).")), c.pos(ci.Pos()), extra == "",
				"also conditional on "+extra)
		}
	}
	c.floor(rule+" periodic tasks in eventLoop", n, 4)
}

var flagCondRe = regexp.MustCompile(`^p\.(\w+)Flag$`)

// flaggedPropertyWritten: in Properties.Encode a property whose presence flag is set (and which the packet type
// admits) is written whatever its value — 0 included: "Session Expiry Interval 0" in a DISCONNECT is not "absent".
// Two properties have a value condition of their own in the reference tree (topic alias > 0, maximum QoS < 2).
func flaggedPropertyWritten(c *Ctx, rule string) {
	f := c.fn("packets", "(*Properties).Encode")
	if f == nil {
		return
	}
	exempt := map[string]string{"TopicAlias": "alias 0 is not a valid alias", "MaximumQos": "2 is the default and is not sent"}
	n := 0
	for _, b := range f.Blocks {
		t, neg, ok := condOf(b)
		if !ok {
			continue
		}
		m := flagCondRe.FindStringSubmatch(t)
		if m == nil {
			continue
		}
		if _, ex := exempt[m[1]]; ex {
			continue
		}
		succ := b.Succs[0]
		if neg {
			succ = b.Succs[1]
		}
		if len(succ.Instrs) == 0 {
			continue
		}
		n++
		nextSection := func(x ssa.Instruction) bool {
			if _, isRet := x.(*ssa.Return); isRet {
				return true
			}
			call, isCall := x.(*ssa.Call)
			return isCall && cname(&call.Call) == "(*packets.Properties).canEncode"
		}
		isWrite := func(x ssa.Instruction) bool {
			cc := callOf(x)
			return cc != nil && cname(cc) == "(*bytes.Buffer).WriteByte"
		}
		// the first instruction of the successor may itself be the write
		start := succ.Instrs[0]
		if isWrite(start) {
			c.ob(rule, fmt.Sprintf("(*packets.Properties).Encode: with %sFlag set the property is written whatever its value", m[1]), c.pos(start.Pos()), true, "")
			continue
		}
		_, hit := (&PathQuery{Fn: f, From: start, Target: nextSection, Barrier: isWrite}).Find()
		// From starts after `start`; if start is a target itself the property is skipped at once
		if nextSection(start) {
			hit = start
		}
		c.ob(rule, fmt.Sprintf("(*packets.Properties).Encode: with %sFlag set the property is written whatever its value", m[1]), c.pos(start.Pos()), hit == nil,
			"a further condition on the value drops an explicit zero from the encoded packet")
	}
	c.floor(rule+" flagged properties in Properties.Encode", n, 6)
}
