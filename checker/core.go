package main

import (
	"encoding/json"
	"fmt"
	"go/token"
	"go/types"
	"os"
	"path/filepath"
	"sort"
	"strings"
	"time"

	"golang.org/x/tools/go/packages"
	"golang.org/x/tools/go/ssa"
	"golang.org/x/tools/go/ssa/ssautil"
)

const modPath = "github.com/mochi-mqtt/server/v2"

// Obligation is one decided instance of a rule.
type Obligation struct {
	Rule      string `json:"rule"`
	Construct string `json:"construct"`
	Pos       string `json:"pos,omitempty"`
	OK        bool   `json:"ok"`
	Detail    string `json:"detail,omitempty"`
	Known     bool   `json:"known_finding,omitempty"`
}

// Prop is one property with the rules that decide its structural clauses.
type Prop struct {
	ID          string
	Title       string
	Technique   string
	Explanation string   // what is decided and by which rule
	NotDecided  []string // clauses of the property this check is silent on
	Assumptions []string
	Run         func(c *Ctx)
}

var props = map[string]*Prop{}

func register(p *Prop) { props[p.ID] = p }

// Ctx is the loaded program plus the report under construction.
type Ctx struct {
	Repo    string
	Tier    string
	Fset    *token.FileSet
	Pkgs    map[string]*packages.Package // by import path
	Prog    *ssa.Program
	SSA     map[string]*ssa.Package // by import path
	ModFns  []*ssa.Function         // every function of module packages incl. anonymous and methods
	obs     []Obligation
	floors  map[string][2]int // rule -> {instances, floor}
	fnsSeen map[*ssa.Function]bool
	sites   int
	cg      *callGraph
	spill   map[*ssa.Alloc]string
	canon   map[ssa.Value]string // reference-tree names of renamed variables (canon.go)
	canonSt canonStats
	norm    *normReport // helper functions inlined before analysis (normalize.go)
	refFns  map[string]bool // functions of the reference tree (refnames.json)
}

func shortPkg(path string) string {
	if path == modPath {
		return "mqtt"
	}
	if strings.HasPrefix(path, modPath+"/") {
		return strings.TrimPrefix(path, modPath+"/")
	}
	return path
}

// shorten rewrites fully-qualified module import paths in a rendered name to short ones.
func shorten(s string) string {
	// longest first
	s = strings.ReplaceAll(s, modPath+"/hooks/storage/", "storage/")
	s = strings.ReplaceAll(s, modPath+"/hooks/", "hooks/")
	s = strings.ReplaceAll(s, modPath+"/", "")
	s = strings.ReplaceAll(s, modPath, "mqtt")
	return s
}

func load(repo, tier string) (*Ctx, error) {
	os.Unsetenv("GOWORK")
	os.Setenv("GOFLAGS", "-mod=mod")
	os.Setenv("GOPROXY", "off")
	os.Setenv("GOSUMDB", "off")
	if os.Getenv("GOTOOLCHAIN") == "" {
		os.Setenv("GOTOOLCHAIN", "local")
	}
	mode := packages.LoadSyntax
	if tier == "thorough" {
		mode = packages.LoadAllSyntax
	}
	cfg := &packages.Config{Mode: mode, Dir: repo, Tests: false, Env: append(os.Environ(), "GOWORK=off")}
	pkgs, err := packages.Load(cfg, "./...")
	if err != nil {
		return nil, err
	}
	// helper functions the reference tree does not have are inlined back into their callers (normalize.go)
	var norm *normReport
	if hasErrors(pkgs) == "" && os.Getenv("VERIF_NO_NORMALIZE") == "" {
		ref := map[string]refFn{}
		_ = json.Unmarshal(refnamesJSON, &ref)
		norm = normalizeNewHelpers(repo, pkgs, ref)
		if d := os.Getenv("VERIF_DUMP_NORM"); d != "" {
			for name, b := range norm.Overlay {
				os.MkdirAll(d, 0o755)
				os.WriteFile(filepath.Join(d, strings.ReplaceAll(strings.TrimPrefix(name, repo+"/"), "/", "__")), b, 0o644)
			}
		}
		if len(norm.Overlay) > 0 {
			cfg.Overlay = norm.Overlay
			p2, err2 := packages.Load(cfg, "./...")
			if err2 == nil && hasErrors(p2) == "" {
				pkgs = p2
			} else {
				norm.Failed = append(norm.Failed, "reload with the normalised sources failed; analysing the sources as written")
				norm.Abandoned = true
			}
		}
	}
	c := &Ctx{Repo: repo, Tier: tier, Pkgs: map[string]*packages.Package{}, SSA: map[string]*ssa.Package{},
		floors: map[string][2]int{}, fnsSeen: map[*ssa.Function]bool{}, spill: map[*ssa.Alloc]string{}, norm: norm}
	nmod := 0
	var errs []string
	for _, p := range pkgs {
		for _, e := range p.Errors {
			errs = append(errs, p.PkgPath+": "+e.Error())
		}
		if p.PkgPath == modPath || strings.HasPrefix(p.PkgPath, modPath+"/") {
			nmod++
		}
		c.Pkgs[p.PkgPath] = p
		c.Fset = p.Fset
	}
	if len(errs) > 0 {
		return nil, fmt.Errorf("type-check/load errors:\n  %s", strings.Join(errs, "\n  "))
	}
	if nmod < 10 {
		return nil, fmt.Errorf("only %d module packages loaded (expected >= 10)", nmod)
	}
	// Unanalysed build variants: any build constraint in a non-test file of the module.
	for _, p := range pkgs {
		for _, f := range p.IgnoredFiles {
			if strings.HasSuffix(f, ".go") && !strings.HasSuffix(f, "_test.go") {
				return nil, fmt.Errorf("unanalysed build variant: %s is excluded by build constraints", f)
			}
		}
	}
	var prog *ssa.Program
	var spkgs []*ssa.Package
	if tier == "thorough" {
		prog, spkgs = ssautil.AllPackages(pkgs, ssa.InstantiateGenerics)
	} else {
		prog, spkgs = ssautil.Packages(pkgs, ssa.InstantiateGenerics)
	}
	prog.Build()
	c.Prog = prog
	for i, sp := range spkgs {
		if sp != nil {
			c.SSA[pkgs[i].PkgPath] = sp
		}
	}
	for fn := range ssautil.AllFunctions(prog) {
		if fn.Pkg == nil && fn.Parent() == nil && fn.Origin() == nil {
			// wrappers / synthetic: keep only those of module types
		}
		if inModule(fn) && fn.Blocks != nil {
			c.ModFns = append(c.ModFns, fn)
		}
	}
	sort.Slice(c.ModFns, func(i, j int) bool { return c.ModFns[i].String() < c.ModFns[j].String() })
	c.canon, c.canonSt = buildCanon(c)
	{
		ref := map[string]refFn{}
		_ = json.Unmarshal(refnamesJSON, &ref)
		c.refFns = map[string]bool{}
		for k := range ref {
			c.refFns[k] = true
		}
	}
	c.cg = buildCallGraph(c)
	codeNamesByValue = map[int64][]string{}
	for name, v := range c.codeValuesAST() {
		codeNamesByValue[v] = append(codeNamesByValue[v], name)
	}
	for _, names := range codeNamesByValue {
		sort.Strings(names)
	}
	return c, nil
}

func fnPkgPath(fn *ssa.Function) string {
	for f := fn; f != nil; f = f.Parent() {
		if f.Pkg != nil {
			return f.Pkg.Pkg.Path()
		}
		if f.Origin() != nil && f.Origin().Pkg != nil {
			return f.Origin().Pkg.Pkg.Path()
		}
	}
	if fn.Signature != nil && fn.Signature.Recv() != nil {
		t := fn.Signature.Recv().Type()
		if p, ok := t.(*types.Pointer); ok {
			t = p.Elem()
		}
		if n, ok := t.(*types.Named); ok && n.Obj().Pkg() != nil {
			return n.Obj().Pkg().Path()
		}
	}
	return ""
}

func inModule(fn *ssa.Function) bool {
	// bound-method wrappers (s.method used as a value) of module methods count as module code
	if strings.HasPrefix(fn.Synthetic, "bound method wrapper") && len(fn.FreeVars) == 1 {
		t := fn.FreeVars[0].Type()
		if p, ok := t.(*types.Pointer); ok {
			t = p.Elem()
		}
		if n, ok := t.(*types.Named); ok && n.Obj().Pkg() != nil {
			pp := n.Obj().Pkg().Path()
			return (pp == modPath || strings.HasPrefix(pp, modPath+"/")) && !strings.HasPrefix(pp, modPath+"/examples") && !strings.HasPrefix(pp, modPath+"/cmd")
		}
	}
	p := fnPkgPath(fn)
	if p != modPath && !strings.HasPrefix(p, modPath+"/") {
		return false
	}
	if strings.HasPrefix(p, modPath+"/examples") || strings.HasPrefix(p, modPath+"/cmd") {
		return false
	}
	return fn.Synthetic == "" || fn.Parent() != nil
}

// ---- anchors -------------------------------------------------------------------------------

// fn resolves a function or method by type-checked identity.
// name forms: "IsValidFilter", "(*Server).processPublish", "(Subscription).Merge".
func (c *Ctx) fn(pkgShort, name string) *ssa.Function {
	path := modPath
	if pkgShort != "mqtt" && pkgShort != "" {
		path = modPath + "/" + pkgShort
	}
	sp := c.SSA[path]
	if sp == nil {
		c.drift(fmt.Sprintf("package %s", pkgShort))
		return nil
	}
	var f *ssa.Function
	if strings.HasPrefix(name, "(") {
		end := strings.Index(name, ")")
		recv := name[1:end]
		meth := name[end+2:]
		ptr := strings.HasPrefix(recv, "*")
		recv = strings.TrimPrefix(recv, "*")
		obj := sp.Pkg.Scope().Lookup(recv)
		if tn, ok := obj.(*types.TypeName); ok {
			var t types.Type = tn.Type()
			if ptr {
				t = types.NewPointer(t)
			}
			sel := c.Prog.MethodSets.MethodSet(t).Lookup(sp.Pkg, meth)
			if sel != nil {
				f = c.Prog.MethodValue(sel)
			}
		}
	} else {
		f = sp.Func(name)
	}
	if f == nil || f.Blocks == nil {
		c.drift(fmt.Sprintf("function %s.%s", pkgShort, name))
		return nil
	}
	c.fnsSeen[f] = true
	return f
}

// optFn is fn without reporting drift (for optional anchors).
func (c *Ctx) optFn(pkgShort, name string) *ssa.Function {
	n := len(c.obs)
	f := c.fn(pkgShort, name)
	c.obs = c.obs[:n]
	return f
}

func (c *Ctx) namedType(pkgShort, name string) *types.Named {
	path := modPath
	if pkgShort != "mqtt" && pkgShort != "" {
		path = modPath + "/" + pkgShort
	}
	p := c.Pkgs[path]
	if p == nil || p.Types == nil {
		c.drift("package " + pkgShort)
		return nil
	}
	obj := p.Types.Scope().Lookup(name)
	tn, ok := obj.(*types.TypeName)
	if !ok {
		c.drift("type " + pkgShort + "." + name)
		return nil
	}
	n, _ := tn.Type().(*types.Named)
	return n
}

func (c *Ctx) drift(what string) {
	c.ob("anchor-drift", what+" no longer resolves", "", false, "an anchor the rule depends on is gone; the mechanism it guarded was removed or renamed")
}

// ---- reporting -----------------------------------------------------------------------------

func (c *Ctx) pos(p token.Pos) string {
	if !p.IsValid() {
		return ""
	}
	ps := c.Fset.Position(p)
	rel, err := filepath.Rel(c.Repo, ps.Filename)
	if err != nil {
		rel = ps.Filename
	}
	if c.norm != nil {
		if _, changed := c.norm.Overlay[ps.Filename]; changed {
			return fmt.Sprintf("%s:~%d(after inlining)", rel, ps.Line)
		}
	}
	return fmt.Sprintf("%s:%d", rel, ps.Line)
}

func (c *Ctx) ob(rule, construct string, pos string, ok bool, detail string) {
	c.obs = append(c.obs, Obligation{Rule: rule, Construct: construct, Pos: pos, OK: ok, Detail: detail})
}

// floor records the number of instances a rule matched and fails if below the hand-confirmed floor.
func (c *Ctx) floor(rule string, n, floor int) {
	c.floors[rule] = [2]int{n, floor}
	if n < floor {
		c.ob("anchor-drift", fmt.Sprintf("%s: %d instances, floor %d", rule, n, floor), "", false,
			"the rule matched fewer instances than were confirmed by hand on the reference tree; it would pass vacuously")
	}
}

type knownFinding struct {
	Property     string `json:"property"`
	Rule         string `json:"rule"`
	Construct    string `json:"construct"`
	WhatFails    string `json:"what_fails"`
	Reproduction string `json:"reproduction"`
}

type knownFile struct {
	Findings []knownFinding `json:"findings"`
	Fixed    []string       `json:"fixed"`
}

func loadKnown(path string) (*knownFile, error) {
	kf := &knownFile{}
	b, err := os.ReadFile(path)
	if err != nil {
		if os.IsNotExist(err) {
			return kf, nil
		}
		return nil, err
	}
	if err := json.Unmarshal(b, kf); err != nil {
		return nil, err
	}
	return kf, nil
}

type evidence struct {
	PropertyID  string                 `json:"property_id"`
	Tier        string                 `json:"tier"`
	Seed        int                    `json:"seed"`
	Level       string                 `json:"level"`
	Coverage    map[string]interface{} `json:"coverage"`
	Assumptions []string               `json:"assumptions"`
	WallS       float64                `json:"wall_s"`
	Violations  int                    `json:"violations"`
}

func (c *Ctx) finish(p *Prop, kf *knownFile, evPath string, seed int, start time.Time, extra map[string]interface{}) int {
	// de-duplicate obligations by key; of several with the same key a failing one is kept (two sites that a rule
	// describes in the same words must not hide each other); sort for stable output
	seen := map[string]int{}
	var obs []Obligation
	for _, o := range c.obs {
		k := o.Rule + "\x00" + o.Construct
		if i, dup := seen[k]; dup {
			if obs[i].OK && !o.OK {
				obs[i] = o
			}
			continue
		}
		seen[k] = len(obs)
		obs = append(obs, o)
	}
	sort.SliceStable(obs, func(i, j int) bool {
		if obs[i].Rule != obs[j].Rule {
			return obs[i].Rule < obs[j].Rule
		}
		return obs[i].Construct < obs[j].Construct
	})
	known := map[string]knownFinding{}
	for _, k := range kf.Findings {
		if k.Property == p.ID {
			known[k.Rule+"\x00"+k.Construct] = k
		}
	}
	matched := map[string]bool{}
	var viol []Obligation
	var knownHit []string
	discharged := 0
	for i := range obs {
		o := &obs[i]
		if o.OK {
			discharged++
			continue
		}
		k := o.Rule + "\x00" + o.Construct
		if kfnd, ok := known[k]; ok {
			o.Known = true
			matched[k] = true
			knownHit = append(knownHit, fmt.Sprintf("%s: %s", o.Rule, o.Construct))
			fmt.Printf("KNOWN-FINDING: property=%s rule=%s %s — %s\n", p.ID, o.Rule, o.Construct, kfnd.WhatFails)
			continue
		}
		viol = append(viol, *o)
	}
	for k, v := range known {
		if !matched[k] {
			fmt.Printf("STALE-KNOWN-FINDING: property=%s rule=%s %s (no longer reported by the rule)\n", p.ID, v.Rule, v.Construct)
		}
	}
	vdir := strings.TrimSuffix(evPath, ".json") + ".violations"
	os.RemoveAll(vdir)
	for i, v := range viol {
		os.MkdirAll(vdir, 0o755)
		rp := filepath.Join(vdir, fmt.Sprintf("%d.json", i+1))
		b, _ := json.MarshalIndent(map[string]interface{}{
			"property": p.ID, "obligation": v,
			"rerun": fmt.Sprintf("/verif/check.sh %s %s", p.ID, c.Tier),
		}, "", " ")
		os.WriteFile(rp, b, 0o644)
		fmt.Printf("VIOLATION property=%s replay=%s\n  rule=%s  %s  %s\n  %s\n", p.ID, rp, v.Rule, v.Pos, v.Construct, v.Detail)
	}
	if os.Getenv("VERIF_VERBOSE") != "" {
		for _, o := range obs {
			fmt.Printf("  [%v] %s | %s | %s | %s\n", o.OK, o.Rule, o.Construct, o.Pos, o.Detail)
		}
	}
	rules := map[string]interface{}{}
	perRule := map[string]int{}
	for _, o := range obs {
		perRule[o.Rule]++
	}
	for r, n := range perRule {
		e := map[string]interface{}{"obligations": n}
		if f, ok := c.floors[r]; ok {
			e["instances"] = f[0]
			e["floor"] = f[1]
		}
		rules[r] = e
	}
	for r, f := range c.floors {
		if _, ok := rules[r]; !ok {
			rules[r] = map[string]interface{}{"instances": f[0], "floor": f[1]}
		}
	}
	var samples []Obligation
	// all failed ones first, then up to 40 discharged
	for _, o := range obs {
		if !o.OK {
			samples = append(samples, o)
		}
	}
	n := 0
	for _, o := range obs {
		if o.OK && n < 300 {
			samples = append(samples, o)
			n++
		}
	}
	var fns []string
	for f := range c.fnsSeen {
		fns = append(fns, shorten(f.String()))
	}
	sort.Strings(fns)
	cov := map[string]interface{}{
		"explanation":            fullExplanation(p),
		"obligations":            len(obs),
		"discharged":             discharged,
		"evaluations":            len(obs),
		"distinct_nontrivial":    len(obs),
		"rule":                   "one obligation per (rule, construct) instance found in /repo's current source; all are distinct by key and non-trivial (each names a call site, path, field or table entry)",
		"samples":                samples,
		"rules":                  rules,
		"functions_analysed":     fns,
		"functions_analysed_n":   len(fns),
		"module_functions_total": len(c.ModFns),
		"call_sites":             c.sites,
		"known_findings_matched": knownHit,
		"not_decided":            p.NotDecided,
		"checker_cmd":            fmt.Sprintf("/verif/check.sh %s %s", p.ID, c.Tier),
		"exhaustive":             true,
	}
	for k, v := range extra {
		cov[k] = v
	}
	cov["source_normalisation"] = map[string]interface{}{
		"variables_mapped_to_reference_names": c.canonSt.renamedValues,
		"variables_left_unaligned":            c.canonSt.unaligned,
	}
	if c.norm != nil && (len(c.norm.NewFuncs) > 0 || len(c.norm.FuncRenames) > 0 || c.norm.Delit > 0 || len(c.norm.Failed) > 0) {
		cov["source_normalisation"] = map[string]interface{}{
			"variables_mapped_to_reference_names": c.canonSt.renamedValues,
			"variables_left_unaligned":            c.canonSt.unaligned,
			"functions_not_in_reference_tree":     c.norm.NewFuncs,
			"functions_analysed_under_their_reference_name": c.norm.FuncRenames,
			"calls_inlined":                       c.norm.Inlined,
			"declarations_dropped":                c.norm.Dropped,
			"inlined_as_function_literal":         c.norm.Literal,
			"statements_rewritten_to_reference_form": c.norm.Delit,
			"failures":                            c.norm.Failed,
			"abandoned":                           c.norm.Abandoned,
		}
		if len(c.norm.NewFuncs) > 0 {
			fmt.Printf("NOTE: %d function(s) not present in the reference tree; %d call(s) inlined before analysis (%s); positions marked ~ refer to the inlined text\n",
				len(c.norm.NewFuncs), len(c.norm.Inlined), strings.Join(c.norm.NewFuncs, ", "))
		}
		if len(c.norm.FuncRenames) > 0 {
			fmt.Printf("NOTE: renamed function(s) analysed under the name the rules know: %s\n", strings.Join(c.norm.FuncRenames, "; "))
		}
		if c.norm.Delit > 0 {
			fmt.Printf("NOTE: %d statement(s) rewritten to the form of the reference tree before analysis (function literals called on the spot, counted loops, min/max clamps, maps.Copy); positions marked ~ refer to the rewritten text\n", c.norm.Delit)
		}
		for _, f := range c.norm.Failed {
			fmt.Printf("NOTE: normalisation: %s\n", f)
		}
	}
	ev := evidence{PropertyID: p.ID, Tier: c.Tier, Seed: seed, Level: "other", Coverage: cov,
		Assumptions: append([]string{
			"static decision of structural clauses only: each clause is a necessary condition of the property, not the behaviour itself",
			"go/types + go/ssa (x/tools v0.29.0) model of the source is faithful; module call graph = static callees + interface dispatch restricted to module types",
		}, p.Assumptions...),
		WallS: time.Since(start).Seconds(), Violations: len(viol)}
	b, _ := json.MarshalIndent(ev, "", " ")
	os.MkdirAll(filepath.Dir(evPath), 0o755)
	if err := os.WriteFile(evPath, b, 0o644); err != nil {
		fmt.Fprintln(os.Stderr, "cannot write evidence:", err)
		return 2
	}
	fmt.Printf("property=%s tier=%s obligations=%d discharged=%d known=%d violations=%d functions=%d wall=%.1fs\n",
		p.ID, c.Tier, len(obs), discharged, len(knownHit), len(viol), len(fns), time.Since(start).Seconds())
	if len(viol) > 0 {
		return 1
	}
	return 0
}
