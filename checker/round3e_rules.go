package main

// Rules added after the third round of seeded changes, fifth batch (properties C36–C42).

import (
	"fmt"
	"go/types"
	"strings"

	"golang.org/x/tools/go/ssa"
)

func round3eHooks(c *Ctx, id string) {
	switch id {
	case "C03":
		resumeMarksBeforeCleanup(c, "C03.l resume-marks-before-cleanup")
		fanoutVisitsEveryClient(c, "C03.m fanout-visits-every-client")
	case "C04":
		oneIdentifierPerSubscribe(c, "C04.j one-identifier-per-subscribe")
	case "C14":
		resumeMarksBeforeCleanup(c, "C14.h resume-marks-before-cleanup")
	case "C19":
		hookResultOnlyOnSuccess(c, "C19.g hook-result-only-on-success", "(*Hooks).OnPacketRead")
		hookResultOnlyOnSuccess(c, "C19.h hook-result-only-on-success", "(*Hooks).OnPublish")
	case "C37":
		deadlineAlwaysArmed(c, "C37.e deadline-always-armed")
	case "C40":
		resumeMarksBeforeCleanup(c, "C40.g resume-marks-before-cleanup")
		fanoutVisitsEveryClient(c, "C40.h fanout-visits-every-client")
	case "C41":
		poolHandsOutPoolBuffers(c, "C41.d pool-hands-out-pool-buffers")
		onlyOwnersReturnBuffers(c, "C41.e only-owners-return-buffers")
	case "C42":
		oneIdentifierPerSubscribe(c, "C42.j one-identifier-per-subscribe")
		hookResultOnlyOnSuccess(c, "C42.k hook-result-only-on-success", "(*Hooks).OnPacketRead")
	}
}

// deadlineAlwaysArmed: every call of refreshDeadline on a live connection arms the deadline anew: the function
// keeps no memory of an earlier deadline that could make it skip SetDeadline.
func deadlineAlwaysArmed(c *Ctx, rule string) {
	f := c.fn("mqtt", "(*Client).refreshDeadline")
	if f == nil {
		return
	}
	isSet := func(x ssa.Instruction) bool {
		cc := callOf(x)
		return cc != nil && cc.IsInvoke() && cc.Method.Name() == "SetDeadline"
	}
	c.noPath(rule, "(*mqtt.Client).refreshDeadline: with a connection every path calls SetDeadline", f, nil, anyReturn, isSet,
		[]Assume{assumeEq("cl.Net.Conn == nil", false)}, "a skipped refresh leaves an older, earlier deadline armed: the connection is closed although packets arrive in time")
}

// resumeMarksBeforeCleanup: when a session is resumed, inheritClientSession re-installs the subscriptions under the
// (same) client id and then cleans the old client object up with UnsubscribeClient — which must find the old object
// already marked as taken over (it then leaves the index alone). Marking it afterwards removes the entries that were
// just re-installed for the new connection.
func resumeMarksBeforeCleanup(c *Ctx, rule string) {
	f := c.fn("mqtt", "(*Server).inheritClientSession")
	if f == nil {
		return
	}
	isMark := func(x ssa.Instruction) bool {
		cc := callOf(x)
		if cc == nil || cname(cc) != "(*sync/atomic.Bool).Store" || !strings.HasSuffix(describe(cc.Args[0]), ".State.isTakenOver") {
			return false
		}
		k, ok := cc.Args[1].(*ssa.Const)
		return ok && k.Value != nil && k.Value.String() == "true"
	}
	n := 0
	for _, u := range c.callsNamed(f, fnUnsubClient) {
		after := false
		for _, s := range c.callsNamed(f, fnTopicsSub) {
			if reachableFrom(s, u) {
				after = true
			}
		}
		if !after {
			continue // the clean-start branch: decided by C14.b
		}
		n++
		_, hit := (&PathQuery{Fn: f, Target: isIns(u), Barrier: isMark}).Find()
		c.ob(rule, "(*mqtt.Server).inheritClientSession: the old client is marked taken over before the clean-up that follows the re-subscription", c.pos(u.Pos()), hit == nil,
			"UnsubscribeClient on an unmarked client removes the index entries the resumed session has just been given")
	}
	c.floor(rule+" clean-ups after re-subscription", n, 1)
}

// fanoutVisitsEveryClient: publishToSubscribers goes on to the next subscriber whatever publishToClient returned
// (an offline session returns an error for every message).
func fanoutVisitsEveryClient(c *Ctx, rule string) {
	f := c.fn("mqtt", "(*Server).publishToSubscribers")
	if f == nil {
		return
	}
	var head *ssa.BasicBlock
	for _, b := range f.Blocks {
		if b.Comment == "rangeiter.loop" {
			head = b // the last range loop: the fan-out over subscribers.Subscriptions
		}
	}
	n := 0
	for _, ci := range c.callsNamed(f, fnPubToClient) {
		n++
		isHead := func(x ssa.Instruction) bool { return head != nil && x.Block() == head && idxIn(x) == 0 }
		c.noPath(rule, "(*mqtt.Server).publishToSubscribers: after a delivery attempt the loop moves on to the next subscriber (no return)", f, ci, anyReturn, isHead, nil,
			"one failing recipient would cut off every recipient visited after it")
	}
	c.floor(rule+" delivery attempts in publishToSubscribers", n, 1)
}

// poolHandsOutPoolBuffers: mempool.Buffer is a sync.Pool and nothing else: Get returns what the pool returns, Put gives
// the buffer to the pool, and the type keeps no buffer of its own on the side (a cached "hot" buffer handed out by a
// load-then-clear is given to two callers).
func poolHandsOutPoolBuffers(c *Ctx, rule string) {
	if f := c.fn("mempool", "(*Buffer).Get"); f != nil {
		for _, r := range returns(f) {
			vs := rvs(r)
			if len(vs) != 1 {
				continue
			}
			c.ob(rule, "(*mempool.Buffer).Get returns the buffer it got from sync.Pool", c.pos(r.Pos()), strings.Contains(describe(vs[0]), "(*sync.Pool).Get("), "returns "+describe(vs[0]))
		}
	}
	if f := c.fn("mempool", "(*Buffer).Put"); f != nil {
		c.noPath(rule, "(*mempool.Buffer).Put gives the buffer back to sync.Pool on every path", f, nil, anyReturn, isNamed("(*sync.Pool).Put"), nil, "")
	}
	if nt := c.namedType("mempool", "Buffer"); nt != nil {
		if st, ok := nt.Underlying().(*types.Struct); ok {
			var extra []string
			for i := 0; i < st.NumFields(); i++ {
				// a field that can hold a buffer next to the pool (a counter or a name is nobody's buffer)
				if st.Field(i).Name() != "pool" && strings.Contains(types.TypeString(st.Field(i).Type(), nil), "bytes.Buffer") {
					extra = append(extra, st.Field(i).Name())
				}
			}
			c.ob(rule, "mempool.Buffer keeps no buffer outside its sync.Pool", "", len(extra) == 0, "fields that hold buffers: "+strings.Join(extra, ", "))
		}
	}
}

// onlyOwnersReturnBuffers: a buffer is returned with mempool.PutBuffer only by the function that obtained it with
// mempool.GetBuffer (a bytes.Buffer wrapped around someone else's slice must never enter the pool).
func onlyOwnersReturnBuffers(c *Ctx, rule string) {
	n := 0
	for _, fn := range c.ModFns {
		if fnPkgPath(fn) == modPath+"/mempool" {
			continue
		}
		for _, ci := range c.callsNamed(fn, "mempool.PutBuffer") {
			n++
			arg := ci.Common().Args[0]
			call, ok := arg.(*ssa.Call)
			owned := ok && cname(&call.Call) == "mempool.GetBuffer"
			c.ob(rule, fmt.Sprintf("%s returns to the pool only a buffer it took from the pool (%s)", fname(rootFn(fn)), guardKey(ci)), c.pos(ci.Pos()), owned,
				"returns "+describe(arg)+": its backing array belongs to someone else, and the pool will hand it out as scratch space")
		}
	}
	c.floor(rule+" PutBuffer call sites", n, 10)
}

// oneIdentifierPerSubscribe: a SUBSCRIBE carries at most one Subscription Identifier, which applies to every filter
// of the packet: SubscribeDecode gives each filter element [0] of the decoded list.
func oneIdentifierPerSubscribe(c *Ctx, rule string) {
	f := c.fn("packets", "(*Packet).SubscribeDecode")
	if f == nil {
		return
	}
	n := 0
	for _, ins := range instrs(f) {
		ia, ok := ins.(*ssa.IndexAddr)
		if !ok || !strings.HasSuffix(describe(ia.X), "Properties.SubscriptionIdentifier") {
			continue
		}
		n++
		k, isK := constInt(ia.Index)
		c.ob(rule, "(*packets.Packet).SubscribeDecode gives every filter the packet's one subscription identifier (element 0)", c.pos(ia.Pos()), isK && k == 0, "index "+describe(ia.Index))
	}
	c.floor(rule+" reads of the subscription identifier in SubscribeDecode", n, 1)
}
