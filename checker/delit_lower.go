package main

// Lowering of an immediately-invoked, parameterless function literal to plain statements (used by delit.go).
//
//   - one trailing return (or none), no defer:         S…; targets = e
//   - several returns:                                 L: switch { default: S… }  with `return e` -> { targets = e; break L }
//   - `defer f()` at the top level of the literal:      the statements after it form an inner labelled switch, f() runs
//     after it (returns before the defer skip it, returns after it run it; several defers nest, so they run in reverse
//     order). The deferred call's operands must be plain names or literals, so evaluating them late changes nothing.
//     Running the deferred call on a panic is not modelled — the rules look at returning paths.
//
// Not lowered: named results together with defer, goto, recover, a defer below the top level, and the literals the reference tree has
// itself (keepLits) — the rules that read those are written for the literal.

import (
	"fmt"
	"go/ast"
	"go/token"
	"go/types"
	"strings"

	"golang.org/x/tools/go/ast/astutil"
)

// keepLits: "package|receiver|function" -> result types of the immediately-invoked literal of the reference tree.
var keepLits = map[string]string{
	"mqtt|Client|WritePacket": "int64,error",
}

func recvName(fd *ast.FuncDecl) string {
	if fd.Recv == nil || len(fd.Recv.List) == 0 {
		return ""
	}
	t := fd.Recv.List[0].Type
	for {
		switch x := t.(type) {
		case *ast.StarExpr:
			t = x.X
			continue
		case *ast.IndexExpr:
			t = x.X
			continue
		case *ast.IndexListExpr:
			t = x.X
			continue
		case *ast.ParenExpr:
			t = x.X
			continue
		case *ast.Ident:
			return x.Name
		}
		return ""
	}
}

func resultSig(fl *ast.FuncLit) string {
	var parts []string
	if fl.Type.Results != nil {
		for _, f := range fl.Type.Results.List {
			n := len(f.Names)
			if n == 0 {
				n = 1
			}
			for i := 0; i < n; i++ {
				parts = append(parts, types.ExprString(f.Type))
			}
		}
	}
	return strings.Join(parts, ",")
}

func simpleOperand(e ast.Expr) bool {
	switch x := e.(type) {
	case *ast.Ident, *ast.BasicLit:
		return true
	case *ast.SelectorExpr:
		return simpleOperand(x.X)
	case *ast.ParenExpr:
		return simpleOperand(x.X)
	case *ast.StarExpr:
		return simpleOperand(x.X)
	}
	return false
}

func deferMovable(ds *ast.DeferStmt) bool {
	for _, a := range ds.Call.Args {
		if !simpleOperand(a) {
			return false
		}
	}
	switch f := ds.Call.Fun.(type) {
	case *ast.FuncLit:
		return f.Type.Params == nil || len(f.Type.Params.List) == 0
	default:
		return simpleOperand(ds.Call.Fun)
	}
}

// candidate: is e a literal called on the spot that can be lowered?
func (d *delit) candidate(e ast.Expr) (*ast.FuncLit, bool) {
	call, isCall := e.(*ast.CallExpr)
	if !isCall || len(call.Args) != 0 {
		return nil, false
	}
	fl, isLit := call.Fun.(*ast.FuncLit)
	if !isLit {
		if p, isP := call.Fun.(*ast.ParenExpr); isP {
			fl, isLit = p.X.(*ast.FuncLit)
		}
	}
	if !isLit || fl.Type.Params != nil && len(fl.Type.Params.List) > 0 || fl.Type.TypeParams != nil {
		return nil, false
	}
	named := false
	if fl.Type.Results != nil {
		for _, f := range fl.Type.Results.List {
			if len(f.Names) > 0 {
				named = true // lowered as local variables; a deferred function could change them after the return
			}
		}
	}
	if sig, keep := keepLits[d.curFn]; keep && sig == resultSig(fl) {
		return nil, false
	}
	top := map[ast.Stmt]bool{}
	for _, s := range fl.Body.List {
		top[s] = true
	}
	bad := false
	ast.Inspect(fl.Body, func(n ast.Node) bool {
		switch x := n.(type) {
		case *ast.FuncLit:
			return false
		case *ast.DeferStmt:
			if !top[x] || !deferMovable(x) || named {
				bad = true
			}
			return false
		case *ast.BranchStmt:
			if x.Tok == token.GOTO {
				bad = true
			}
		case *ast.CallExpr:
			if id, ok := x.Fun.(*ast.Ident); ok && id.Name == "recover" {
				bad = true
			}
		}
		return !bad
	})
	if bad {
		return nil, false
	}
	if nResults(fl) > 0 {
		// must end in a return, otherwise the switch form could fall out without a value (it would not compile as a
		// function either, unless it ends in panic or an endless loop)
		if len(fl.Body.List) == 0 {
			return nil, false
		}
		// (the compiler has checked that the body ends in a terminating statement — a return, or a switch/if whose
		// branches all return: control cannot fall out of the lowered form either)
		switch fl.Body.List[len(fl.Body.List)-1].(type) {
		case *ast.ReturnStmt, *ast.SwitchStmt, *ast.TypeSwitchStmt, *ast.IfStmt, *ast.BlockStmt, *ast.SelectStmt:
		default:
			return nil, false
		}
	}
	return fl, true
}

func countReturns(stmts []ast.Stmt) int {
	n := 0
	for _, s := range stmts {
		ast.Inspect(s, func(nd ast.Node) bool {
			switch nd.(type) {
			case *ast.FuncLit:
				return false
			case *ast.ReturnStmt:
				n++
			}
			return true
		})
	}
	return n
}

func usesLabel(stmts []ast.Stmt, label string) bool {
	found := false
	for _, s := range stmts {
		ast.Inspect(s, func(nd ast.Node) bool {
			if b, ok := nd.(*ast.BranchStmt); ok && b.Label != nil && b.Label.Name == label {
				found = true
			}
			return !found
		})
	}
	return found
}

func (d *delit) newLabel() string {
	d.n++
	return fmt.Sprintf("inlL%d", d.n)
}

// replaceReturns rewrites every `return e…` (outside nested literals) into { targets = e…; break label }.
func (d *delit) replaceReturns(stmts []ast.Stmt, targets []ast.Expr, label string) []ast.Stmt {
	body := &ast.BlockStmt{List: stmts}
	astutil.Apply(body, func(cur *astutil.Cursor) bool {
		switch x := cur.Node().(type) {
		case *ast.FuncLit:
			return false
		case *ast.ReturnStmt:
			var blk []ast.Stmt
			if len(x.Results) > 0 {
				blk = append(blk, assign(targets, token.ASSIGN, x.Results))
			} else if len(d.bare) > 0 {
				blk = append(blk, assign(targets, token.ASSIGN, d.bare))
			}
			blk = append(blk, &ast.BranchStmt{Tok: token.BREAK, Label: ast.NewIdent(label)})
			cur.Replace(&ast.BlockStmt{List: blk})
			return false
		}
		return true
	}, nil)
	return body.List
}

// wrap: `label: switch { default: stmts }` when the label is used, the bare statements otherwise.
func wrap(stmts []ast.Stmt, label string) []ast.Stmt {
	if !usesLabel(stmts, label) {
		return []ast.Stmt{&ast.BlockStmt{List: stmts}}
	}
	sw := &ast.SwitchStmt{Body: &ast.BlockStmt{List: []ast.Stmt{&ast.CaseClause{List: nil, Body: stmts}}}}
	return []ast.Stmt{&ast.LabeledStmt{Label: ast.NewIdent(label), Stmt: sw}}
}

// lowerSeq lowers the literal's statement list; returns leave through `break label`.
func (d *delit) lowerSeq(stmts []ast.Stmt, targets []ast.Expr, label string) []ast.Stmt {
	for i, s := range stmts {
		ds, isDefer := s.(*ast.DeferStmt)
		if !isDefer {
			continue
		}
		before := d.replaceReturns(append([]ast.Stmt{}, stmts[:i]...), targets, label)
		inner := d.newLabel()
		after := d.lowerSeq(append([]ast.Stmt{}, stmts[i+1:]...), targets, inner)
		out := append(before, wrap(after, inner)...)
		return append(out, &ast.ExprStmt{X: ds.Call})
	}
	return d.replaceReturns(stmts, targets, label)
}

func (d *delit) lower(e ast.Expr) (*ast.FuncLit, func(targets []ast.Expr) []ast.Stmt, bool) {
	fl, ok := d.candidate(e)
	if !ok {
		return nil, nil, false
	}
	return fl, func(targets []ast.Expr) []ast.Stmt {
		if targets == nil && nResults(fl) > 0 {
			targets = blanks(nResults(fl))
		}
		stmts := fl.Body.List
		// named results become local variables; a bare return yields their values
		var pre []ast.Stmt
		d.bare = nil
		if fl.Type.Results != nil {
			for _, f := range fl.Type.Results.List {
				for _, nm := range f.Names {
					id := nm
					if id.Name == "_" {
						id = d.tmp()
					}
					d.bare = append(d.bare, ast.NewIdent(id.Name))
					pre = append(pre, &ast.DeclStmt{Decl: &ast.GenDecl{Tok: token.VAR, Specs: []ast.Spec{&ast.ValueSpec{Names: []*ast.Ident{ast.NewIdent(id.Name)}, Type: f.Type}}}})
					// keep the compiler quiet about a result that is never read
					pre = append(pre, assign([]ast.Expr{ast.NewIdent("_")}, token.ASSIGN, []ast.Expr{ast.NewIdent(id.Name)}))
				}
			}
		}
		defer func() { d.bare = nil }()
		nret := countReturns(stmts)
		trailing := false
		if len(stmts) > 0 {
			_, trailing = stmts[len(stmts)-1].(*ast.ReturnStmt)
		}
		if nret == 0 || nret == 1 && trailing {
			// straight-line form
			var out, deferred []ast.Stmt
			for _, s := range stmts {
				switch x := s.(type) {
				case *ast.DeferStmt:
					deferred = append([]ast.Stmt{&ast.ExprStmt{X: x.Call}}, deferred...)
				case *ast.ReturnStmt:
					if len(x.Results) > 0 {
						out = append(out, assign(targets, token.ASSIGN, x.Results))
					} else if len(d.bare) > 0 {
						out = append(out, assign(targets, token.ASSIGN, d.bare))
					}
				default:
					out = append(out, s)
				}
			}
			return append(pre, append(out, deferred...)...)
		}
		label := d.newLabel()
		return append(pre, wrap(d.lowerSeq(stmts, targets, label), label)...)
	}, true
}
