package main

import (
	"golang.org/x/tools/go/ssa"
)

// existsResolvedPath enumerates acyclic paths of fn from block `start` to the instruction `target`, resolving φ-nodes
// along the path (a φ takes the value of the edge the path came in by; constants decide their branch), and reports
// whether some path exists on which every crossed conditional edge is accepted by edgeOK. edgeOK receives the
// condition with its φ operands resolved for this path and the truth of the edge taken.
// budget bounds the number of explored path prefixes; when it is exhausted the answer is false (conservative for
// an existence obligation).
func existsResolvedPath(fn *ssa.Function, start *ssa.BasicBlock, target ssa.Instruction, edgeOK func(cond ssa.Value, resolve func(ssa.Value) ssa.Value, truth bool) bool) bool {
	budget := 40000
	var path []*ssa.BasicBlock
	onPath := map[*ssa.BasicBlock]bool{}
	found := false
	var resolveAt func(v ssa.Value, upto int) ssa.Value
	resolveAt = func(v ssa.Value, upto int) ssa.Value {
		ph, isPhi := v.(*ssa.Phi)
		if !isPhi {
			return v
		}
		for k := upto; k >= 1; k-- {
			if path[k] == ph.Block() {
				for ei, pred := range ph.Block().Preds {
					if pred == path[k-1] {
						return resolveAt(ph.Edges[ei], k-1)
					}
				}
			}
		}
		return v
	}
	var dfs func(b *ssa.BasicBlock)
	dfs = func(b *ssa.BasicBlock) {
		if found {
			return
		}
		budget--
		if budget < 0 {
			return
		}
		path = append(path, b)
		onPath[b] = true
		defer func() { path = path[:len(path)-1]; onPath[b] = false }()
		for _, ins := range b.Instrs {
			if ins == target {
				found = true
				return
			}
		}
		upto := len(path) - 1
		res := func(v ssa.Value) ssa.Value { return resolveAt(v, upto) }
		ifi, isIf := b.Instrs[len(b.Instrs)-1].(*ssa.If)
		for si, s := range b.Succs {
			if onPath[s] {
				continue
			}
			if isIf && len(b.Succs) == 2 {
				cond, neg := stripNot(ifi.Cond)
				cond = res(cond)
				c2, neg2 := stripNot(cond)
				cond, neg = c2, neg != neg2
				truth := (si == 0) != neg
				if k, isK := cond.(*ssa.Const); isK && k.Value != nil {
					if (k.Value.ExactString() == "true") != truth {
						continue // the resolved condition is a constant: only one branch is feasible
					}
				} else if !edgeOK(cond, res, truth) {
					continue
				}
			}
			dfs(s)
		}
	}
	dfs(start)
	return found
}

// dependsOnField: does v (with φ resolved through res) read the field named field of any struct?
func dependsOnField(v ssa.Value, res func(ssa.Value) ssa.Value, field string, seen map[ssa.Value]bool) bool {
	v = res(v)
	if seen[v] {
		return false
	}
	seen[v] = true
	switch x := v.(type) {
	case *ssa.FieldAddr:
		if fieldName(x.X.Type(), x.Field) == field {
			return true
		}
	case *ssa.Field:
		if fieldName(x.X.Type(), x.Field) == field {
			return true
		}
	}
	if ins, ok := v.(ssa.Instruction); ok {
		for _, op := range ins.Operands(nil) {
			if *op != nil && dependsOnField(*op, res, field, seen) {
				return true
			}
		}
	}
	return false
}
