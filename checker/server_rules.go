package main

import (
	"fmt"
	"go/token"
	"sort"
	"strings"

	"golang.org/x/tools/go/ssa"
)

func isCallTo(ins ssa.Instruction, names ...string) bool {
	cc := callOf(ins)
	if cc == nil {
		return false
	}
	n := cname(cc)
	for _, x := range names {
		if n == x {
			return true
		}
	}
	return false
}

func nilErrReturn(ins ssa.Instruction) bool {
	r, ok := ins.(*ssa.Return)
	if !ok || len(r.Results) == 0 {
		return false
	}
	return isNilConst(rvs(r)[len(r.Results)-1])
}

const (
	fnWritePacket = "(*mqtt.Client).WritePacket"
	fnDisconnect  = "(*mqtt.Server).DisconnectClient"
	fnBuildAck    = "(*mqtt.Server).buildAck"
)

// ackTypeOf folds the packet type of the value passed to WritePacket: a buildAck call (type
// argument constant or φ of constants) or a composite literal (store to FixedHeader.Type).
func ackTypesOf(v ssa.Value, depth int) []int64 {
	if depth > 6 {
		return nil
	}
	switch x := v.(type) {
	case *ssa.Call:
		if cname(&x.Call) == fnBuildAck {
			return constsOf(x.Call.Args[2], 0)
		}
	case *ssa.Phi:
		var out []int64
		for _, e := range x.Edges {
			out = append(out, ackTypesOf(e, depth+1)...)
		}
		return out
	case *ssa.UnOp:
		if x.Op == token.MUL {
			if a, ok := x.X.(*ssa.Alloc); ok {
				var out []int64
				for _, ref := range *a.Referrers() {
					switch r := ref.(type) {
					case *ssa.Store:
						if r.Addr == ssa.Value(a) {
							out = append(out, ackTypesOf(r.Val, depth+1)...)
						}
					case *ssa.FieldAddr:
						if fieldName(r.X.Type(), r.Field) == "FixedHeader" {
							for _, rr := range *r.Referrers() {
								if fa, ok := rr.(*ssa.FieldAddr); ok && fieldName(fa.X.Type(), fa.Field) == "Type" {
									for _, st := range *fa.Referrers() {
										if s, ok := st.(*ssa.Store); ok {
											out = append(out, constsOf(s.Val, 0)...)
										}
									}
								}
							}
						}
					}
				}
				return out
			}
		}
	}
	return nil
}

func constsOf(v ssa.Value, depth int) []int64 {
	if depth > 6 {
		return nil
	}
	if k, ok := constInt(v); ok {
		return []int64{k}
	}
	if p, ok := v.(*ssa.Phi); ok {
		var out []int64
		for _, e := range p.Edges {
			out = append(out, constsOf(e, depth+1)...)
		}
		return out
	}
	return nil
}

// ---- C07 -----------------------------------------------------------------------------------

func init() {
	register(&Prop{
		ID:        "C07",
		Title:     "Every request that requires a response gets one",
		Technique: "must-pass-through path analysis on the SSA CFG of the request handlers, with branch facts; constant folding of acknowledgement types; field-flow of packet identifiers",
		Explanation: "(a) in processPublish, processPubrel, processPubrec, processSubscribe, processUnsubscribe and processPingreq every path from entry to a return with a nil error " +
			"crosses a response site (WritePacket of the expected acknowledgement type, or DisconnectClient), under the path facts QoS>0, non-inline client, no rejecting hook; " +
			"the handlers are the ones dispatched from processPacket's type switch, whose case set is checked; " +
			"(b) a non-nil handler error closes the connection: receivePacket and Client.Read return it, attachClient defers Client.Stop before Read; " +
			"(c) every acknowledgement carries the request's packet identifier (buildAck argument / Suback-Unsuback literal flow from pk.PacketID); " +
			"(d) SUBACK/UNSUBACK: the reason-code slice is sized by the request's filter list and every path through the per-filter loop body stores slot i.",
		NotDecided:  []string{"bytes on the wire", "behaviour with custom hooks that reject or rewrite packets", "QoS downgraded to 0 by Capabilities.MaximumQos"},
		Assumptions: []string{"path facts are keyed by the condition's text; a field rewritten between test and use (only the MaximumQos clamp does that) is assumed not to change the fact"},
		Run:         runC07,
	})
}

type handlerSpec struct {
	name    string
	acks    []string // allowed acknowledgement packet types written by the handler
	assume  []Assume
	mustAck bool
}

func runC07(c *Ctx) {
	types_ := c.pktTypes()
	byName := map[string]int64{}
	for k, n := range types_ {
		byName[n] = k
	}
	qosPos := []Assume{assumeEq("pk.FixedHeader.Qos == 0", false), assumeEq("cl.Net.Inline", false),
		{Match: func(t string) bool {
			return strings.HasPrefix(t, "errors.Is(") && strings.HasSuffix(t, "packets.ErrRejectPacket)")
		}, Truth: false}}
	hs := []handlerSpec{
		{"(*Server).processPublish", []string{"Puback", "Pubrec"}, qosPos, true},
		{"(*Server).processPubrel", []string{"Pubcomp"}, nil, true},
		{"(*Server).processPubrec", []string{"Pubrel"}, nil, false}, // PUBREC with an error code ends the flow: no PUBREL is due
		{"(*Server).processSubscribe", []string{"Suback"}, nil, true},
		{"(*Server).processUnsubscribe", []string{"Unsuback"}, nil, true},
		{"(*Server).processPingreq", []string{"Pingresp"}, nil, true},
	}
	for _, h := range hs {
		f := c.fn("mqtt", h.name)
		if f == nil {
			continue
		}
		isResp := func(ins ssa.Instruction) bool { return isCallTo(ins, fnWritePacket, fnDisconnect) }
		if h.mustAck {
			rets := 0
			for i, r := range returns(f) {
				if !nilErrReturn(r) {
					continue
				}
				rets++
				q := &PathQuery{Fn: f, Target: func(x ssa.Instruction) bool { return x == ssa.Instruction(r) }, Barrier: isResp, Assume: h.assume}
				p, hit := q.Find()
				_ = i
				construct := fmt.Sprintf("%s: nil-error return under %s reached without WritePacket|DisconnectClient", fname(f), guardKey(r))
				if hit != nil {
					c.ob("C07.a must-respond", construct, c.pos(r.Pos()), false, "path: "+pathStr(f, p))
				} else {
					c.ob("C07.a must-respond", construct, c.pos(r.Pos()), true, "every path to this return crosses a response site (or is excluded by QoS 0 / inline / rejecting-hook facts)")
				}
			}
			// a handler with no nil return at all answers through `return cl.WritePacket(...)`
			if rets == 0 {
				ok := len(c.callsNamed(f, fnWritePacket, fnDisconnect)) > 0
				c.ob("C07.a must-respond", fname(f)+": all returns carry the result of a response call", c.pos(f.Pos()), ok, "")
			}
		}
		// ack types
		allowed := map[int64]bool{}
		for _, a := range h.acks {
			allowed[byName[a]] = true
		}
		for _, ci := range c.callsNamed(f, fnWritePacket) {
			ts := ackTypesOf(ci.Common().Args[1], 0)
			ok := len(ts) > 0
			var names []string
			for _, t := range ts {
				names = append(names, types_[t])
				if !allowed[t] {
					ok = false
				}
			}
			sort.Strings(names)
			c.ob("C07.a ack-type", fmt.Sprintf("%s: WritePacket of %s", fname(f), describe(ci.Common().Args[1])), c.pos(ci.Pos()), ok,
				fmt.Sprintf("writes %v; the handler may only answer with %v", names, h.acks))
		}
		// (c) identifier echo
		for _, ci := range c.callsNamed(f, fnBuildAck) {
			d := describe(ci.Common().Args[1])
			c.ob("C07.c id-echo", fmt.Sprintf("%s: buildAck packet id %s", fname(f), d), c.pos(ci.Pos()), d == "pk.PacketID", "the acknowledgement must carry the request's packet identifier")
		}
		for _, ins := range instrs(f) {
			if st, ok := ins.(*ssa.Store); ok {
				if fa, ok := st.Addr.(*ssa.FieldAddr); ok && fieldName(fa.X.Type(), fa.Field) == "PacketID" {
					if a, ok := fa.X.(*ssa.Alloc); ok && c.spillName(a) == "" {
						d := describe(st.Val)
						c.ob("C07.c id-echo", fmt.Sprintf("%s: %s.PacketID <- %s", fname(f), describe(a), d), c.pos(st.Pos()), d == "pk.PacketID", "the acknowledgement must carry the request's packet identifier")
					}
				}
			}
		}
	}
	// dispatch: processPacket's switch covers the client→server packet types and calls the handlers
	if f := c.fn("mqtt", "(*Server).processPacket"); f != nil {
		want := map[string]string{"Connect": "processConnect", "Disconnect": "processDisconnect", "Pingreq": "processPingreq", "Publish": "processPublish",
			"Puback": "processPuback", "Pubrec": "processPubrec", "Pubrel": "processPubrel", "Pubcomp": "processPubcomp", "Subscribe": "processSubscribe",
			"Unsubscribe": "processUnsubscribe", "Auth": "processAuth"}
		got := map[string]string{}
		for _, b := range f.Blocks {
			if len(b.Instrs) == 0 {
				continue
			}
			ifi, ok := b.Instrs[len(b.Instrs)-1].(*ssa.If)
			if !ok {
				continue
			}
			bo, ok := ifi.Cond.(*ssa.BinOp)
			if !ok || bo.Op != token.EQL || describe(bo.X) != "pk.FixedHeader.Type" {
				continue
			}
			k, isC := constInt(bo.Y)
			if !isC {
				continue
			}
			// handler call reachable in the case body before the join
			for _, bb := range caseBody(b.Succs[0]) {
				for _, ins := range bb.Instrs {
					if cc := callOf(ins); cc != nil && strings.HasPrefix(cname(cc), "(*mqtt.Server).process") {
						got[types_[k]] = strings.TrimPrefix(cname(cc), "(*mqtt.Server).")
					}
				}
			}
		}
		var ks []string
		for k := range want {
			ks = append(ks, k)
		}
		sort.Strings(ks)
		for _, k := range ks {
			c.ob("C07.a dispatch", fmt.Sprintf("(*mqtt.Server).processPacket: case %s → %s", k, want[k]), c.pos(f.Pos()), got[k] == want[k], "found "+got[k])
		}
		// validation failures return the (non-nil) code
		for _, v := range []string{"PublishValidate", "SubscribeValidate", "UnsubscribeValidate", "AuthValidate"} {
			for _, ci := range c.callsNamed(f, "(*packets.Packet)."+v) {
				call := ci.(*ssa.Call)
				text := describe(call) + " == packets.CodeSuccess"
				ok := false
				for _, r := range returns(f) {
					if len(r.Results) == 1 && dominatedByFact(r, func(t string) bool { return t == text }, false) && !isNilConst(rvs(r)[0]) {
						ok = true
					}
				}
				c.ob("C07.b error-closes", "(*mqtt.Server).processPacket: a failed "+v+" returns its non-success code", c.pos(ci.Pos()), ok, "")
			}
		}
	}
	c.errorCloses()
	c.reasonCodeSlots("C07.d reason-per-filter")
}

// errorCloses: a non-nil error from a handler ends the connection.
func (c *Ctx) errorCloses() {
	if f := c.fn("mqtt", "(*Server).receivePacket"); f != nil {
		calls := c.callsNamed(f, "(*mqtt.Server).processPacket")
		ok := false
		if len(calls) == 1 {
			call := calls[0].(*ssa.Call)
			for _, r := range returns(f) {
				if len(r.Results) == 1 && rvs(r)[0] == ssa.Value(call) && dominatedByFact(r, func(t string) bool { return t == describe(call)+" == nil" }, false) {
					ok = true
				}
			}
			// no nil return on the error edge
			for _, r := range returns(f) {
				if nilErrReturn(r) && !dominatedByFact(r, func(t string) bool { return t == describe(call)+" == nil" }, true) {
					ok = false
				}
			}
		}
		c.ob("C07.b error-closes", "(*mqtt.Server).receivePacket returns processPacket's non-nil error", c.pos(f.Pos()), ok, "")
	}
	if f := c.fn("mqtt", "(*Client).Read"); f != nil {
		ok := false
		for _, ins := range instrs(f) {
			call, isCall := ins.(*ssa.Call)
			if !isCall || describe(call.Call.Value) != "packetHandler" {
				continue
			}
			for _, r := range returns(f) {
				if len(r.Results) == 1 && rvs(r)[0] == ssa.Value(call) && dominatedByFact(r, func(t string) bool { return t == describe(call)+" == nil" }, false) {
					ok = true
				}
			}
			// the loop continues only on the nil edge
			for _, r := range returns(f) {
				_ = r
			}
		}
		c.ob("C07.b error-closes", "(*mqtt.Client).Read returns the packet handler's non-nil error", c.pos(f.Pos()), ok, "")
	}
	if f := c.fn("mqtt", "(*Server).attachClient"); f != nil {
		reads := c.callsNamed(f, "(*mqtt.Client).Read")
		ok := false
		if len(reads) == 1 {
			for _, ins := range instrs(f) {
				if d, isDefer := ins.(*ssa.Defer); isDefer && cname(&d.Call) == "(*mqtt.Client).Stop" && domInstr(d, reads[0]) {
					ok = true
				}
			}
		}
		c.ob("C07.b error-closes", "(*mqtt.Server).attachClient defers Client.Stop before reading packets", c.pos(f.Pos()), ok, "whatever Read returns, the connection is closed when the handler goroutine ends")
	}
	if f := c.fn("mqtt", "(*Client).Stop"); f != nil {
		ok := false
		for _, g := range withAnon(f) {
			for _, ins := range instrs(g) {
				if cc := callOf(ins); cc != nil && cc.IsInvoke() && cc.Method.Name() == "Close" && strings.Contains(describe(cc.Value), "Net.Conn") {
					ok = true
				}
			}
		}
		c.ob("C07.b error-closes", "(*mqtt.Client).Stop closes the network connection", c.pos(f.Pos()), ok, "")
	}
}

// reasonCodeSlots: SUBACK / UNSUBACK carry one reason code per filter, in order.
func (c *Ctx) reasonCodeSlots(rule string) {
	for _, name := range []string{"(*Server).processSubscribe", "(*Server).processUnsubscribe"} {
		f := c.fn("mqtt", name)
		if f == nil {
			continue
		}
		var mk *ssa.MakeSlice
		for _, ins := range instrs(f) {
			if m, ok := ins.(*ssa.MakeSlice); ok && strings.Contains(m.Type().String(), "[]byte") {
				mk = m
			}
		}
		if mk == nil {
			c.ob(rule, fname(f)+": reason-code slice allocated", c.pos(f.Pos()), false, "no make([]byte, …) found")
			continue
		}
		c.ob(rule, fname(f)+": reason-code slice sized by the request's filter list", c.pos(mk.Pos()), describe(mk.Len) == "builtin.len(pk.Filters)", "make([]byte, "+describe(mk.Len)+")")
		// the first range loop over pk.Filters
		var body, head *ssa.BasicBlock
		for _, b := range f.Blocks {
			if b.Comment == "rangeindex.body" && body == nil {
				body = b
			}
			if b.Comment == "rangeindex.loop" && head == nil {
				head = b
			}
		}
		if body == nil || head == nil {
			c.ob(rule, fname(f)+": per-filter loop", c.pos(f.Pos()), false, "no range loop found")
			continue
		}
		// loop ranges over pk.Filters: the element load in the body indexes pk.Filters by the loop index
		idxOK := false
		var idx ssa.Value
		// (anywhere in the loop body: an element may be read after an early `continue`)
		for _, bb := range f.Blocks {
			if bb != body && !body.Dominates(bb) {
				continue
			}
			for _, ins := range bb.Instrs {
				if ia, ok := ins.(*ssa.IndexAddr); ok && describe(ia.X) == "pk.Filters" && !idxOK {
					idxOK = true
					idx = ia.Index
				}
			}
		}
		c.ob(rule, fname(f)+": the per-filter loop ranges over the request's pk.Filters", c.pos(body.Instrs[0].Pos()), idxOK, "")
		if idx == nil {
			continue
		}
		isSlotStore := func(x ssa.Instruction) bool {
			st, ok := x.(*ssa.Store)
			if !ok {
				return false
			}
			ia, ok := st.Addr.(*ssa.IndexAddr)
			return ok && ia.X == ssa.Value(mk) && ia.Index == idx
		}
		// all stores into the slice use the loop index
		for _, ins := range instrs(f) {
			if st, ok := ins.(*ssa.Store); ok {
				if ia, ok := st.Addr.(*ssa.IndexAddr); ok && ia.X == ssa.Value(mk) {
					c.ob(rule, fmt.Sprintf("%s: reasonCodes[%s] <- %s", fname(f), describe(ia.Index), describe(st.Val)), c.pos(st.Pos()), ia.Index == idx, "slot index must be the current filter's index")
				}
			}
		}
		q := &PathQuery{Fn: f, From: body.Instrs[0], Target: func(x ssa.Instruction) bool { return x == head.Instrs[0] }, Barrier: isSlotStore}
		// body.Instrs[0] itself may be the store's operand computation; start before it
		p, hit := q.Find()
		c.ob(rule, fname(f)+": every path through the loop body stores the filter's reason code", c.pos(body.Instrs[0].Pos()), hit == nil,
			"a path that leaves slot i untouched reports 0x00 (success / granted QoS 0): "+pathStr(f, p))
		// the ack carries that slice
		carries := false
		for _, ins := range instrs(f) {
			if st, ok := ins.(*ssa.Store); ok {
				if fa, ok := st.Addr.(*ssa.FieldAddr); ok && fieldName(fa.X.Type(), fa.Field) == "ReasonCodes" {
					if st.Val == ssa.Value(mk) {
						carries = true
					} else {
						c.ob(rule, fmt.Sprintf("%s: ReasonCodes <- %s", fname(f), describe(st.Val)), c.pos(st.Pos()), false,
							"the acknowledgement's reason codes are replaced by something other than the per-filter slice: the client no longer gets one code per filter, in order")
					}
				}
			}
		}
		c.ob(rule, fname(f)+": the acknowledgement carries the reason-code slice", c.pos(f.Pos()), carries, "")
	}
}
