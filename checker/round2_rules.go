package main

// Rules added after the second round of seeded changes (DESIGN.md 8.6). Each is a helper called from the run
// function of the property it belongs to.

import (
	"fmt"
	"go/constant"
	"go/types"
	"strings"

	"golang.org/x/tools/go/ssa"
)

// round2Hooks runs the helpers of this file that belong to property id (called at the end of the property's rules).
func round2Hooks(c *Ctx, id string) {
	round2Hooks2(c, id)
	round2Hooks3(c, id)
	round2Hooks4(c, id)
	round2Hooks5(c, id)
	round2Hooks6(c, id)
	round2Hooks7(c, id)
	round2Hooks8(c, id)
	round2Hooks9(c, id)
	round3Hooks(c, id)
	round3bHooks(c, id)
	round3cHooks(c, id)
	round3dHooks(c, id)
	round3eHooks(c, id)
	round4Hooks(c, id)
	switch id {
	case "C01":
		sharedDeleteExact(c, "C01.g shared-delete-exact")
	case "C02":
		replayLoopExhaustive(c, "C02.g replay-exhaustive")
	case "C03":
		aliasRemapStored(c, "C03.g alias-remap")
		resubscribeUpdatesList(c, "C03.h resubscribe-updates-session-copy")
	case "C04":
		resubscribeUpdatesList(c, "C04.f resubscribe-updates-session-copy")
		identifiersBeforeStore(c, "C04.g identifiers-before-store")
		sameNameCopies(c, "C04.h same-name-copies", c.optFn("mqtt", "(*Server).loadSubscriptions"))
	case "C05":
		replayLoopExhaustive(c, "C05.g replay-exhaustive")
	case "C06":
		sharedDeleteExact(c, "C06.h shared-delete-exact")
	case "C08":
		inheritedSessionRegistered(c, "C08.e inherited-session-registered")
	case "C09":
		inheritedSessionRegistered(c, "C09.f inherited-session-registered")
	case "C14":
		inheritedSessionRegistered(c, "C14.d inherited-session-registered")
	case "C15":
		resubscribeUpdatesList(c, "C15.g resubscribe-updates-session-copy")
	case "C20":
		var fs []*ssa.Function
		fs = append(fs, c.optFn("mqtt", "(*Server).loadSubscriptions"), c.optFn("mqtt", "(*Server).loadClients"), c.optFn("hooks/storage", "(*Message).ToPacket"))
		for _, b := range backends {
			for _, m := range []string{"(*Hook).updateClient", "(*Hook).OnSubscribed", "(*Hook).OnRetainMessage", "(*Hook).OnQosPublish"} {
				fs = append(fs, c.optFn(bpath(b), m))
			}
		}
		sameNameCopies(c, "C20.f same-name-copies", fs...)
	case "C24":
		aliasRemapStored(c, "C24.d alias-remap")
	case "C31":
		sharedDeleteExact(c, "C31.e shared-delete-exact")
	}
}

// shareClassifiersAgree: every place that decides "is this a shared-subscription filter" compares the WHOLE first
// level of the filter with the share keyword: the operand compared with SharePrefix is isolateParticle(filter, 0)#0.
// The trie (Subscribe/Unsubscribe), the validator and IsSharedFilter (used for retained replay and No Local) must
// classify a filter the same way; a prefix-of-the-string test makes `$shared/cfg` shared for one and ordinary for
// the others.
func shareClassifiersAgree(c *Ctx, rule string) {
	// SharePrefix is a package-level variable: its uses are loads of the global
	isShareConst := func(v ssa.Value) bool { return describe(v) == "mqtt.SharePrefix" }
	wholeLevel := func(v ssa.Value) bool {
		ex, ok := v.(*ssa.Extract)
		if !ok || ex.Index != 0 {
			return false
		}
		call, ok := ex.Tuple.(*ssa.Call)
		if !ok || cname(&call.Call) != "mqtt.isolateParticle" {
			return false
		}
		return describe(call.Call.Args[1]) == "0"
	}
	n := 0
	for _, fn := range c.ModFns {
		if fnPkgPath(fn) != modPath {
			continue
		}
		for _, ins := range instrs(fn) {
			var other ssa.Value
			switch x := ins.(type) {
			case *ssa.Call:
				nme := cname(&x.Call)
				if (nme == "strings.EqualFold" || nme == "strings.HasPrefix" || nme == "strings.Contains") && len(x.Call.Args) == 2 {
					if isShareConst(x.Call.Args[1]) {
						other = x.Call.Args[0]
					} else if isShareConst(x.Call.Args[0]) {
						other = x.Call.Args[1]
					}
				}
			case *ssa.BinOp:
				if isShareConst(x.Y) {
					other = x.X
				} else if isShareConst(x.X) {
					other = x.Y
				}
			}
			if other == nil {
				continue
			}
			n++
			c.ob(rule, fmt.Sprintf("%s: the share keyword is compared with the filter's whole first level (%s)", fname(fn), guardKey(ins)), c.pos(ins.Pos()), wholeLevel(other),
				"compared operand is "+describe(other)+": a filter whose first level merely starts with the keyword is classified differently here than by the trie")
		}
	}
	c.floor(rule+" comparisons with SharePrefix", n, 4)
}

// prefixGuardTight: in IsValidFilter a prefix comparison `x[:n] ~ P` is reached for every x with len(x) >= n: the
// guard in front of the slice is exactly the slice's bounds requirement, not a stronger one (a `>` lets the string of
// exactly n bytes — the bare `$SYS` — through).
func prefixGuardTight(c *Ctx, rule string) {
	f := c.fn("mqtt", "IsValidFilter")
	if f == nil {
		return
	}
	n := 0
	for _, ins := range instrs(f) {
		sl, ok := ins.(*ssa.Slice)
		if !ok || sl.High == nil {
			continue
		}
		if sl.Low != nil {
			if lk, isK := sl.Low.(*ssa.Const); !isK || lk.Value == nil || lk.Value.Kind() != constant.Int || lk.Value.String() != "0" {
				continue
			}
		}
		n++
		x, h := describe(sl.X), describe(sl.High)
		want := fmt.Sprintf("builtin.len(%s) < %s", x, h)
		c.ob(rule, fmt.Sprintf("mqtt.IsValidFilter: the prefix test on %s[:%s] is reached for every string at least that long", x, h), c.pos(sl.Pos()),
			dominatedByFact(sl, textEq(want), false), "the guard in front of the slice is stronger than its bounds requirement: a topic that is exactly the prefix escapes the test")
	}
	c.floor(rule+" constant-length prefix slices in IsValidFilter", n, 1)
}

// subscribeValidityFirst: in processSubscribe every per-filter verdict other than "topic filter invalid" is stored
// only for a filter that IsValidFilter accepted: a malformed filter is answered 0x8F (0x80 for MQTT 3) whatever
// options it carries.
func subscribeValidityFirst(c *Ctx, rule string) {
	f := c.fn("mqtt", "(*Server).processSubscribe")
	if f == nil {
		return
	}
	n := 0
	for _, ins := range instrs(f) {
		st, ok := ins.(*ssa.Store)
		if !ok || !strings.Contains(describe(st.Addr), "[φrangeindex") {
			continue
		}
		v := describe(st.Val)
		if !strings.HasPrefix(v, "packets.") || !strings.HasSuffix(v, ".Code") || v == "packets.ErrTopicFilterInvalid.Code" {
			continue
		}
		if v == "packets.ErrUnspecifiedError.Code" && dominatedByFact(st, textEq("cl.Properties.ProtocolVersion < 5"), true) {
			continue // the MQTT 3 translation of every failure verdict to 0x80, applied after the verdict was taken
		}
		n++
		c.ob(rule, fmt.Sprintf("(*mqtt.Server).processSubscribe: verdict %s is stored only for a filter that passed IsValidFilter (%s)", strings.TrimSuffix(strings.TrimPrefix(v, "packets."), ".Code"), guardKey(st)), c.pos(st.Pos()),
			dominatedByFact(st, textHas("mqtt.IsValidFilter(", ", false)"), true), "an invalid filter must be answered 'topic filter invalid' before any other test is applied to it")
	}
	c.floor(rule+" non-invalid verdict stores", n, 3)
}

// listAndIndexInStep: the session's own subscription list (cl.State.Subscriptions — what the end-of-session clean-up
// walks) and the topic index change together: in processUnsubscribe a filter leaves the list only after the index
// removal for the same filter was attempted; in processSubscribe a filter enters the list only after Topics.Subscribe.
// A list entry removed without the index entry leaves a subscriber nobody will ever clean up.
func listAndIndexInStep(c *Ctx, rule string) {
	for _, spec := range []struct{ fn, listOp, idxOp, what string }{
		{"(*Server).processUnsubscribe", "(*mqtt.Subscriptions).Delete", "(*mqtt.TopicsIndex).Unsubscribe", "leaves the client's list only after the index removal"},
		{"(*Server).processSubscribe", "(*mqtt.Subscriptions).Add", "(*mqtt.TopicsIndex).Subscribe", "enters the client's list only after the index insertion"},
	} {
		f := c.fn("mqtt", spec.fn)
		if f == nil {
			continue
		}
		n := 0
		for _, ci := range c.callsNamed(f, spec.listOp) {
			if !strings.HasSuffix(describe(ci.Common().Args[0]), ".State.Subscriptions") {
				continue
			}
			n++
			var idx ssa.CallInstruction
			for _, x := range c.callsNamed(f, spec.idxOp) {
				if domInstr(x, ci) {
					idx = x
				}
			}
			c.ob(rule, fmt.Sprintf("%s: a filter %s (%s)", fname(f), spec.what, guardKey(ci)), c.pos(ci.Pos()), idx != nil,
				"on some path the list is changed without the index: the clean-up at the end of the session walks the list and never finds the orphaned index entry")
		}
		c.floor(rule+" list updates in "+spec.fn, n, 1)
	}
}

// connectParsedFirst: attachClient reads the connecting client's properties (protocol version, clean flag, …) only
// after ParseConnect filled them from the CONNECT packet.
func connectParsedFirst(c *Ctx, rule string) {
	f := c.fn("mqtt", "(*Server).attachClient")
	if f == nil {
		return
	}
	pc := c.call1(f, "(*mqtt.Client).ParseConnect")
	if pc == nil {
		c.ob(rule, "(*mqtt.Server).attachClient calls ParseConnect", c.pos(f.Pos()), false, "site not found")
		return
	}
	n := 0
	seen := map[string]bool{}
	for _, ins := range instrs(f) {
		u, ok := ins.(*ssa.UnOp)
		if !ok {
			continue
		}
		p, isCl := clientPath(u.X)
		if !isCl || !strings.HasPrefix(p, "Properties.") {
			continue
		}
		if r, isParam := rootOfAddr(u.X).(*ssa.Parameter); !isParam || canonName(r, r.Name()) != "cl" {
			continue
		}
		n++
		key := p + " " + guardKey(u)
		if seen[key] {
			continue
		}
		seen[key] = true
		_, hit := (&PathQuery{Fn: f, Target: isIns(u), Barrier: isIns(pc)}).Find()
		c.ob(rule, fmt.Sprintf("(*mqtt.Server).attachClient reads cl.%s only after ParseConnect (%s)", p, guardKey(u)), c.pos(u.Pos()), hit == nil,
			"before ParseConnect the field still holds its zero value: an MQTT 5 client is then treated as MQTT 3 (wrong CONNACK code and encoding)")
	}
	c.floor(rule+" reads of cl.Properties in attachClient", n, 5)
}

// disconnectAlwaysStops: DisconnectClient stops the client on every path unless the passive-disconnect
// compatibility switch is on — in particular when the DISCONNECT packet itself could not be written.
func disconnectAlwaysStops(c *Ctx, rule string) {
	f := c.fn("mqtt", "(*Server).DisconnectClient")
	if f == nil {
		return
	}
	c.noPath(rule, "(*mqtt.Server).DisconnectClient stops the client on every path (unless PassiveClientDisconnect)", f, nil, anyReturn, isNamed("(*mqtt.Client).Stop"),
		[]Assume{assumeHas("Compatibilities.PassiveClientDisconnect", false)}, "a client whose DISCONNECT cannot be written (packet too large for it, write error) keeps its connection and handler: shutdown waits for it forever")
}

// connReaderDiscipline: the connection's buffered reader is consumed through blocking reads only (ReadByte for the
// header, DecodeLength on the reader itself, io.ReadFull for the body). Peek/Discard/Buffered look at what happens to
// be buffered: a transport that delivers the stream in arbitrary pieces (websocket messages, TCP segments) then
// changes the outcome.
func connReaderDiscipline(c *Ctx, rule string) {
	allowed := map[string]bool{"ReadByte": true, "Read": true}
	n := 0
	for _, fn := range c.ModFns {
		if fnPkgPath(fn) != modPath {
			continue
		}
		for _, ins := range instrs(fn) {
			cc := callOf(ins)
			if cc == nil {
				continue
			}
			nme := cname(cc)
			if strings.HasPrefix(nme, "(*bufio.Reader).") && len(cc.Args) > 0 && strings.HasSuffix(describe(cc.Args[0]), ".Net.bconn") {
				n++
				m := strings.TrimPrefix(nme, "(*bufio.Reader).")
				c.ob(rule, fmt.Sprintf("%s: bconn.%s — the connection reader is consumed by blocking reads only (%s)", fname(fn), m, guardKey(ins)), c.pos(ins.Pos()), allowed[m],
					"the result depends on how the transport happened to cut the byte stream")
				continue
			}
			// the reader handed to helpers: only the blocking consumers
			for i, a := range cc.Args {
				if strings.HasSuffix(describe(a), ".Net.bconn") && !(strings.HasPrefix(nme, "(*bufio.Reader).") && i == 0) {
					n++
					okc := nme == "packets.DecodeLength" || nme == "io.ReadFull" || nme == "io.ReadAtLeast"
					c.ob(rule, fmt.Sprintf("%s: bconn is passed to %s (blocking consumer)", fname(fn), nme), c.pos(ins.Pos()), okc, "")
				}
			}
		}
	}
	c.floor(rule+" uses of the connection reader", n, 3)
	if f := c.fn("mqtt", "(*Client).ReadFixedHeader"); f != nil {
		dl := c.call1(f, "packets.DecodeLength")
		c.ob(rule, "(*mqtt.Client).ReadFixedHeader decodes the remaining length from the connection reader itself", c.pos(f.Pos()), dl != nil && strings.HasSuffix(describe(dl.Common().Args[0]), ".Net.bconn"),
			"a snapshot of the buffered bytes ends where the transport cut the stream")
	}
}

// websocketAPISurface: the websocket adapter uses a fixed, small part of the gorilla API; anything else (read
// limits, compression, ping handlers, …) changes what byte streams pass and has to be looked at.
func websocketAPISurface(c *Ctx, rule string) {
	table := map[string]string{
		"(*github.com/gorilla/websocket.Upgrader).Upgrade": "handler: upgrade of the HTTP request",
		"(*github.com/gorilla/websocket.Conn).Close":        "handler/wsConn: close",
		"(*github.com/gorilla/websocket.Conn).NextReader":   "wsConn.Read: next message",
		"(*github.com/gorilla/websocket.Conn).WriteMessage": "wsConn.Write: one binary message per write",
		"(*github.com/gorilla/websocket.Conn).UnderlyingConn": "address/deadline plumbing",
		"(*github.com/gorilla/websocket.Conn).LocalAddr":      "address plumbing",
		"(*github.com/gorilla/websocket.Conn).RemoteAddr":     "address plumbing",
		"(*github.com/gorilla/websocket.Conn).SetReadDeadline":  "deadline plumbing",
		"(*github.com/gorilla/websocket.Conn).SetWriteDeadline": "deadline plumbing",
	}
	n := 0
	for _, fn := range c.ModFns {
		if fnPkgPath(fn) != modPath+"/listeners" {
			continue
		}
		for _, ins := range instrs(fn) {
			cc := callOf(ins)
			if cc == nil {
				continue
			}
			nme := cname(cc)
			if !strings.Contains(nme, "gorilla/websocket") {
				continue
			}
			n++
			why, ok := table[nme]
			c.ob(rule, fmt.Sprintf("%s uses %s (tabled gorilla API)", fname(fn), strings.TrimPrefix(nme, "(*github.com/gorilla/websocket.")), c.pos(ins.Pos()), ok, why+
				map[bool]string{true: "", false: "not in the table of websocket calls confirmed to be byte-transparent: e.g. SetReadLimit aborts a large binary message and drops the packets batched in it"}[ok])
		}
	}
	c.floor(rule+" gorilla websocket call sites", n, 3)
}

// ---- second batch ----------------------------------------------------------------------------

// sharedDeleteExact: SharedSubscriptions.Delete removes exactly the given member; the group entry goes only when the
// group is empty afterwards.
func sharedDeleteExact(c *Ctx, rule string) {
	f := c.fn("mqtt", "(*SharedSubscriptions).Delete")
	if f == nil {
		return
	}
	var member, group ssa.CallInstruction
	for _, ci := range c.callsNamed(f, "builtin.delete") {
		if describe(ci.Common().Args[0]) == "s.internal" {
			group = ci
		} else {
			member = ci
		}
	}
	c.ob(rule, "(*mqtt.SharedSubscriptions).Delete deletes the given member from its group", c.pos(f.Pos()), member != nil && describe(member.Common().Args[1]) == "id", "")
	if member != nil {
		c.noPath(rule, "(*mqtt.SharedSubscriptions).Delete: every path on which the group exists removes the given member (and nothing else)", f, nil, anyReturn, isIns(member),
			[]Assume{assumeHas("s.internal[group]#1", true)}, "a path that drops the group without looking at the member id removes another client's subscription")
	}
	if group != nil {
		c.underFact(rule, "(*mqtt.SharedSubscriptions).Delete drops the group entry only when the group is empty", group, textHas("builtin.len(", "== 0"), true, "")
		if member != nil {
			c.ob(rule, "(*mqtt.SharedSubscriptions).Delete tests the group's size after removing the member", c.pos(group.Pos()), reachableFrom(member, group) && !reachableFrom(group, member), "")
		}
	}
}

// replayLoopExhaustive: the retained replay attempts every matching message: the loop over Topics.Messages is left
// only when the messages are exhausted (a message that cannot be delivered does not cut the others off).
func replayLoopExhaustive(c *Ctx, rule string) {
	f := c.fn("mqtt", "(*Server).publishRetainedToClient")
	if f == nil {
		return
	}
	var head, body *ssa.BasicBlock
	for _, b := range f.Blocks {
		switch b.Comment {
		case "rangeindex.loop", "rangeiter.loop":
			if head == nil {
				head = b
			}
		case "rangeindex.body", "rangeiter.body":
			if body == nil {
				body = b
			}
		}
	}
	if head == nil || body == nil {
		c.ob(rule, "(*mqtt.Server).publishRetainedToClient iterates over the matching retained messages", c.pos(f.Pos()), false, "loop not found")
		return
	}
	_, hit := (&PathQuery{Fn: f, From: body.Instrs[0], Target: anyReturn, Barrier: func(x ssa.Instruction) bool { return x == head.Instrs[0] }}).Find()
	c.ob(rule, "(*mqtt.Server).publishRetainedToClient: the replay loop ends only when the matching messages are exhausted (no return/break inside an iteration)", c.pos(body.Instrs[0].Pos()), hit == nil,
		"a message that cannot be delivered (ACL, full in-flight window, full queue) ends the replay: the remaining matching retained messages are never sent")
}

// inheritedSessionRegistered: inheritClientSession moves the old session's state into the connecting client and
// empties the old object; from that point the new client is registered in Clients on every path — also when the
// CONNACK cannot be written — otherwise the session (in-flight markers included) is lost.
func inheritedSessionRegistered(c *Ctx, rule string) {
	f := c.fn("mqtt", "(*Server).attachClient")
	if f == nil {
		return
	}
	inh := c.call1(f, "(*mqtt.Server).inheritClientSession")
	if inh == nil {
		c.ob(rule, "(*mqtt.Server).attachClient calls inheritClientSession", c.pos(f.Pos()), false, "site not found")
		return
	}
	c.noPath(rule, "(*mqtt.Server).attachClient: after inheritClientSession the client is registered (Clients.Add) on every path, including a failed CONNACK", f, inh, anyReturn, isNamed(fnClientsAdd), nil,
		"the inherited state lives only in the new client object: leaving without registering it drops the session, and a retransmitted QoS 2 publish is forwarded again")
}

// aliasRemapStored: a PUBLISH that carries both a topic and an alias (re)binds the alias: InboundTopicAliases.Set
// stores the given topic on every path with a non-empty topic while aliases are enabled.
func aliasRemapStored(c *Ctx, rule string) {
	f := c.fn("mqtt", "(*InboundTopicAliases).Set")
	if f == nil {
		return
	}
	var mu *ssa.MapUpdate
	for _, ins := range instrs(f) {
		if m, ok := ins.(*ssa.MapUpdate); ok && describe(m.Map) == "a.internal" {
			mu = m
		}
	}
	c.ob(rule, "(*mqtt.InboundTopicAliases).Set stores topic under the alias", c.pos(f.Pos()), mu != nil && describe(mu.Key) == "id" && describe(mu.Value) == "topic", "")
	if mu != nil {
		c.noPath(rule, "(*mqtt.InboundTopicAliases).Set: a non-empty topic always replaces the alias binding (re-mapping)", f, nil, anyReturn, isIns(mu),
			[]Assume{assumeEq("a.maximum == 0", false), assumeEq(`topic == ""`, false)}, "an alias re-used for another topic keeps pointing at the old one: later alias-only publishes go to the wrong subscribers")
	}
}

// resubscribeUpdatesList: in processSubscribe every successful Topics.Subscribe is followed by the update of the
// session's own copy (cl.State.Subscriptions.Add), whether the subscription is new or replaces an existing one:
// the session copy is what a resumed session re-installs.
func resubscribeUpdatesList(c *Ctx, rule string) {
	f := c.fn("mqtt", "(*Server).processSubscribe")
	if f == nil {
		return
	}
	var head *ssa.BasicBlock
	for _, b := range f.Blocks {
		if b.Comment == "rangeindex.loop" && head == nil {
			head = b
		}
	}
	for _, ci := range c.callsNamed(f, "(*mqtt.TopicsIndex).Subscribe") {
		_, hit := (&PathQuery{Fn: f, From: ci, Target: func(x ssa.Instruction) bool {
			if _, isRet := x.(*ssa.Return); isRet {
				return true
			}
			return head != nil && x == head.Instrs[0]
		}, Barrier: func(x ssa.Instruction) bool {
			cc := callOf(x)
			return cc != nil && cname(cc) == "(*mqtt.Subscriptions).Add" && strings.HasSuffix(describe(cc.Args[0]), ".State.Subscriptions")
		}}).Find()
		c.ob(rule, "(*mqtt.Server).processSubscribe: after Topics.Subscribe the session's own copy is updated on every path (new or replaced subscription alike)", c.pos(ci.Pos()), hit == nil,
			"a re-subscribe with other options changes the index but not the session copy; resuming the session re-installs the stale options")
	}
}

// sameNameCopies: in a record-to-record copy (composite literal or field stores of a freshly built struct) a field F
// whose value is read from a field of another struct that also HAS a field named F must be read from that F:
// `RetainAsPublished: sub.NoLocal` type-checks when both are bools.
func sameNameCopies(c *Ctx, rule string, fns ...*ssa.Function) {
	n := 0
	for _, f := range fns {
		if f == nil {
			continue
		}
		for _, ins := range instrs(f) {
			st, ok := ins.(*ssa.Store)
			if !ok {
				continue
			}
			dst, ok := st.Addr.(*ssa.FieldAddr)
			if !ok {
				continue
			}
			if _, fresh := rootOfAddr(dst).(*ssa.Alloc); !fresh {
				continue
			}
			v := st.Val
			for {
				if cv, isC := v.(*ssa.Convert); isC {
					v = cv.X
					continue
				}
				if ct, isC := v.(*ssa.ChangeType); isC {
					v = ct.X
					continue
				}
				break
			}
			var srcT types.Type
			srcName := ""
			switch x := v.(type) {
			case *ssa.UnOp:
				if fa, isFA := x.X.(*ssa.FieldAddr); isFA {
					srcT, srcName = fa.X.Type(), fieldName(fa.X.Type(), fa.Field)
				}
			case *ssa.Field:
				srcT, srcName = x.X.Type(), fieldName(x.X.Type(), x.Field)
			}
			if srcT == nil {
				continue
			}
			if p, isP := srcT.Underlying().(*types.Pointer); isP {
				srcT = p.Elem()
			}
			sst, isS := srcT.Underlying().(*types.Struct)
			if !isS {
				continue
			}
			dstName := fieldName(dst.X.Type(), dst.Field)
			has := false
			for i := 0; i < sst.NumFields(); i++ {
				if sst.Field(i).Name() == dstName {
					has = true
				}
			}
			if !has {
				continue
			}
			n++
			c.ob(rule, fmt.Sprintf("%s: field %s is copied from the source's field of the same name", fname(f), dstName), c.pos(st.Pos()), srcName == dstName,
				"copied from "+describe(v)+": two fields of the same type were swapped")
		}
	}
	c.floor(rule+" same-name field copies", n, 5)
}

// identifiersBeforeStore: publishToClient attaches the subscription identifiers to the outgoing copy before that copy
// is stored in the in-flight map or queued: deferred, resent and offline-queued deliveries are made from the stored copy.
func identifiersBeforeStore(c *Ctx, rule string) {
	f := c.fn("mqtt", "(*Server).publishToClient")
	if f == nil {
		return
	}
	var sts []*ssa.Store
	for _, st := range storesTo(f, "out.Properties.SubscriptionIdentifier") {
		sts = append(sts, st)
	}
	c.floor(rule+" stores of the subscription identifiers", len(sts), 1)
	var sinks []ssa.Instruction
	for _, ci := range c.callsNamed(f, fnInflSet) {
		sinks = append(sinks, ci)
	}
	sinks = append(sinks, sendSites(f, "State.outbound")...)
	for _, s := range sinks {
		ok := len(sts) > 0
		for _, st := range sts {
			if reachableFrom(s, st) {
				ok = false
			}
		}
		c.ob(rule, fmt.Sprintf("(*mqtt.Server).publishToClient: the subscription identifiers are attached before the copy is stored or queued (%s)", guardKey(s)), c.pos(s.Pos()), ok,
			"the stored copy is what a deferred delivery, a resend on session resume and an offline queue transmit: it would carry no identifiers")
	}
}
