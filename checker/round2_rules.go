package main

// Rules added after the second round of seeded changes (DESIGN.md 8.6). Each is a helper called from the run
// function of the property it belongs to.

import (
	"fmt"
	"go/constant"
	"strings"

	"golang.org/x/tools/go/ssa"
)

// shareClassifiersAgree: every place that decides "is this a shared-subscription filter" compares the WHOLE first
// level of the filter with the share keyword: the operand compared with SharePrefix is isolateParticle(filter, 0)#0.
// The trie (Subscribe/Unsubscribe), the validator and IsSharedFilter (used for retained replay and No Local) must
// classify a filter the same way; a prefix-of-the-string test makes `$shared/cfg` shared for one and ordinary for
// the others.
func shareClassifiersAgree(c *Ctx, rule string) {
	// SharePrefix is a package-level variable: its uses are loads of the global
	isShareConst := func(v ssa.Value) bool { return describe(v) == "mqtt.SharePrefix" }
	wholeLevel := func(v ssa.Value) bool {
		ex, ok := v.(*ssa.Extract)
		if !ok || ex.Index != 0 {
			return false
		}
		call, ok := ex.Tuple.(*ssa.Call)
		if !ok || cname(&call.Call) != "mqtt.isolateParticle" {
			return false
		}
		return describe(call.Call.Args[1]) == "0"
	}
	n := 0
	for _, fn := range c.ModFns {
		if fnPkgPath(fn) != modPath {
			continue
		}
		for _, ins := range instrs(fn) {
			var other ssa.Value
			switch x := ins.(type) {
			case *ssa.Call:
				nme := cname(&x.Call)
				if (nme == "strings.EqualFold" || nme == "strings.HasPrefix" || nme == "strings.Contains") && len(x.Call.Args) == 2 {
					if isShareConst(x.Call.Args[1]) {
						other = x.Call.Args[0]
					} else if isShareConst(x.Call.Args[0]) {
						other = x.Call.Args[1]
					}
				}
			case *ssa.BinOp:
				if isShareConst(x.Y) {
					other = x.X
				} else if isShareConst(x.X) {
					other = x.Y
				}
			}
			if other == nil {
				continue
			}
			n++
			c.ob(rule, fmt.Sprintf("%s: the share keyword is compared with the filter's whole first level (%s)", fname(fn), guardKey(ins)), c.pos(ins.Pos()), wholeLevel(other),
				"compared operand is "+describe(other)+": a filter whose first level merely starts with the keyword is classified differently here than by the trie")
		}
	}
	c.floor(rule+" comparisons with SharePrefix", n, 4)
}

// prefixGuardTight: in IsValidFilter a prefix comparison `x[:n] ~ P` is reached for every x with len(x) >= n: the
// guard in front of the slice is exactly the slice's bounds requirement, not a stronger one (a `>` lets the string of
// exactly n bytes — the bare `$SYS` — through).
func prefixGuardTight(c *Ctx, rule string) {
	f := c.fn("mqtt", "IsValidFilter")
	if f == nil {
		return
	}
	n := 0
	for _, ins := range instrs(f) {
		sl, ok := ins.(*ssa.Slice)
		if !ok || sl.High == nil {
			continue
		}
		if sl.Low != nil {
			if lk, isK := sl.Low.(*ssa.Const); !isK || lk.Value == nil || lk.Value.Kind() != constant.Int || lk.Value.String() != "0" {
				continue
			}
		}
		n++
		x, h := describe(sl.X), describe(sl.High)
		want := fmt.Sprintf("builtin.len(%s) < %s", x, h)
		c.ob(rule, fmt.Sprintf("mqtt.IsValidFilter: the prefix test on %s[:%s] is reached for every string at least that long", x, h), c.pos(sl.Pos()),
			dominatedByFact(sl, textEq(want), false), "the guard in front of the slice is stronger than its bounds requirement: a topic that is exactly the prefix escapes the test")
	}
	c.floor(rule+" constant-length prefix slices in IsValidFilter", n, 1)
}

// subscribeValidityFirst: in processSubscribe every per-filter verdict other than "topic filter invalid" is stored
// only for a filter that IsValidFilter accepted: a malformed filter is answered 0x8F (0x80 for MQTT 3) whatever
// options it carries.
func subscribeValidityFirst(c *Ctx, rule string) {
	f := c.fn("mqtt", "(*Server).processSubscribe")
	if f == nil {
		return
	}
	n := 0
	for _, ins := range instrs(f) {
		st, ok := ins.(*ssa.Store)
		if !ok || !strings.Contains(describe(st.Addr), "[φrangeindex") {
			continue
		}
		v := describe(st.Val)
		if !strings.HasPrefix(v, "packets.") || !strings.HasSuffix(v, ".Code") || v == "packets.ErrTopicFilterInvalid.Code" {
			continue
		}
		if v == "packets.ErrUnspecifiedError.Code" && dominatedByFact(st, textEq("cl.Properties.ProtocolVersion < 5"), true) {
			continue // the MQTT 3 translation of every failure verdict to 0x80, applied after the verdict was taken
		}
		n++
		c.ob(rule, fmt.Sprintf("(*mqtt.Server).processSubscribe: verdict %s is stored only for a filter that passed IsValidFilter (%s)", strings.TrimSuffix(strings.TrimPrefix(v, "packets."), ".Code"), guardKey(st)), c.pos(st.Pos()),
			dominatedByFact(st, textHas("mqtt.IsValidFilter(", ", false)"), true), "an invalid filter must be answered 'topic filter invalid' before any other test is applied to it")
	}
	c.floor(rule+" non-invalid verdict stores", n, 3)
}

// listAndIndexInStep: the session's own subscription list (cl.State.Subscriptions — what the end-of-session clean-up
// walks) and the topic index change together: in processUnsubscribe a filter leaves the list only after the index
// removal for the same filter was attempted; in processSubscribe a filter enters the list only after Topics.Subscribe.
// A list entry removed without the index entry leaves a subscriber nobody will ever clean up.
func listAndIndexInStep(c *Ctx, rule string) {
	for _, spec := range []struct{ fn, listOp, idxOp, what string }{
		{"(*Server).processUnsubscribe", "(*mqtt.Subscriptions).Delete", "(*mqtt.TopicsIndex).Unsubscribe", "leaves the client's list only after the index removal"},
		{"(*Server).processSubscribe", "(*mqtt.Subscriptions).Add", "(*mqtt.TopicsIndex).Subscribe", "enters the client's list only after the index insertion"},
	} {
		f := c.fn("mqtt", spec.fn)
		if f == nil {
			continue
		}
		n := 0
		for _, ci := range c.callsNamed(f, spec.listOp) {
			if !strings.HasSuffix(describe(ci.Common().Args[0]), ".State.Subscriptions") {
				continue
			}
			n++
			var idx ssa.CallInstruction
			for _, x := range c.callsNamed(f, spec.idxOp) {
				if domInstr(x, ci) {
					idx = x
				}
			}
			c.ob(rule, fmt.Sprintf("%s: a filter %s (%s)", fname(f), spec.what, guardKey(ci)), c.pos(ci.Pos()), idx != nil,
				"on some path the list is changed without the index: the clean-up at the end of the session walks the list and never finds the orphaned index entry")
		}
		c.floor(rule+" list updates in "+spec.fn, n, 1)
	}
}

// connectParsedFirst: attachClient reads the connecting client's properties (protocol version, clean flag, …) only
// after ParseConnect filled them from the CONNECT packet.
func connectParsedFirst(c *Ctx, rule string) {
	f := c.fn("mqtt", "(*Server).attachClient")
	if f == nil {
		return
	}
	pc := c.call1(f, "(*mqtt.Client).ParseConnect")
	if pc == nil {
		c.ob(rule, "(*mqtt.Server).attachClient calls ParseConnect", c.pos(f.Pos()), false, "site not found")
		return
	}
	n := 0
	seen := map[string]bool{}
	for _, ins := range instrs(f) {
		u, ok := ins.(*ssa.UnOp)
		if !ok {
			continue
		}
		p, isCl := clientPath(u.X)
		if !isCl || !strings.HasPrefix(p, "Properties.") {
			continue
		}
		if r, isParam := rootOfAddr(u.X).(*ssa.Parameter); !isParam || canonName(r, r.Name()) != "cl" {
			continue
		}
		n++
		key := p + " " + guardKey(u)
		if seen[key] {
			continue
		}
		seen[key] = true
		_, hit := (&PathQuery{Fn: f, Target: isIns(u), Barrier: isIns(pc)}).Find()
		c.ob(rule, fmt.Sprintf("(*mqtt.Server).attachClient reads cl.%s only after ParseConnect (%s)", p, guardKey(u)), c.pos(u.Pos()), hit == nil,
			"before ParseConnect the field still holds its zero value: an MQTT 5 client is then treated as MQTT 3 (wrong CONNACK code and encoding)")
	}
	c.floor(rule+" reads of cl.Properties in attachClient", n, 5)
}

// disconnectAlwaysStops: DisconnectClient stops the client on every path unless the passive-disconnect
// compatibility switch is on — in particular when the DISCONNECT packet itself could not be written.
func disconnectAlwaysStops(c *Ctx, rule string) {
	f := c.fn("mqtt", "(*Server).DisconnectClient")
	if f == nil {
		return
	}
	c.noPath(rule, "(*mqtt.Server).DisconnectClient stops the client on every path (unless PassiveClientDisconnect)", f, nil, anyReturn, isNamed("(*mqtt.Client).Stop"),
		[]Assume{assumeHas("Compatibilities.PassiveClientDisconnect", false)}, "a client whose DISCONNECT cannot be written (packet too large for it, write error) keeps its connection and handler: shutdown waits for it forever")
}

// connReaderDiscipline: the connection's buffered reader is consumed through blocking reads only (ReadByte for the
// header, DecodeLength on the reader itself, io.ReadFull for the body). Peek/Discard/Buffered look at what happens to
// be buffered: a transport that delivers the stream in arbitrary pieces (websocket messages, TCP segments) then
// changes the outcome.
func connReaderDiscipline(c *Ctx, rule string) {
	allowed := map[string]bool{"ReadByte": true, "Read": true}
	n := 0
	for _, fn := range c.ModFns {
		if fnPkgPath(fn) != modPath {
			continue
		}
		for _, ins := range instrs(fn) {
			cc := callOf(ins)
			if cc == nil {
				continue
			}
			nme := cname(cc)
			if strings.HasPrefix(nme, "(*bufio.Reader).") && len(cc.Args) > 0 && strings.HasSuffix(describe(cc.Args[0]), ".Net.bconn") {
				n++
				m := strings.TrimPrefix(nme, "(*bufio.Reader).")
				c.ob(rule, fmt.Sprintf("%s: bconn.%s — the connection reader is consumed by blocking reads only (%s)", fname(fn), m, guardKey(ins)), c.pos(ins.Pos()), allowed[m],
					"the result depends on how the transport happened to cut the byte stream")
				continue
			}
			// the reader handed to helpers: only the blocking consumers
			for i, a := range cc.Args {
				if strings.HasSuffix(describe(a), ".Net.bconn") && !(strings.HasPrefix(nme, "(*bufio.Reader).") && i == 0) {
					n++
					okc := nme == "packets.DecodeLength" || nme == "io.ReadFull" || nme == "io.ReadAtLeast"
					c.ob(rule, fmt.Sprintf("%s: bconn is passed to %s (blocking consumer)", fname(fn), nme), c.pos(ins.Pos()), okc, "")
				}
			}
		}
	}
	c.floor(rule+" uses of the connection reader", n, 3)
	if f := c.fn("mqtt", "(*Client).ReadFixedHeader"); f != nil {
		dl := c.call1(f, "packets.DecodeLength")
		c.ob(rule, "(*mqtt.Client).ReadFixedHeader decodes the remaining length from the connection reader itself", c.pos(f.Pos()), dl != nil && strings.HasSuffix(describe(dl.Common().Args[0]), ".Net.bconn"),
			"a snapshot of the buffered bytes ends where the transport cut the stream")
	}
}

// websocketAPISurface: the websocket adapter uses a fixed, small part of the gorilla API; anything else (read
// limits, compression, ping handlers, …) changes what byte streams pass and has to be looked at.
func websocketAPISurface(c *Ctx, rule string) {
	table := map[string]string{
		"(*github.com/gorilla/websocket.Upgrader).Upgrade": "handler: upgrade of the HTTP request",
		"(*github.com/gorilla/websocket.Conn).Close":        "handler/wsConn: close",
		"(*github.com/gorilla/websocket.Conn).NextReader":   "wsConn.Read: next message",
		"(*github.com/gorilla/websocket.Conn).WriteMessage": "wsConn.Write: one binary message per write",
		"(*github.com/gorilla/websocket.Conn).UnderlyingConn": "address/deadline plumbing",
		"(*github.com/gorilla/websocket.Conn).LocalAddr":      "address plumbing",
		"(*github.com/gorilla/websocket.Conn).RemoteAddr":     "address plumbing",
		"(*github.com/gorilla/websocket.Conn).SetReadDeadline":  "deadline plumbing",
		"(*github.com/gorilla/websocket.Conn).SetWriteDeadline": "deadline plumbing",
	}
	n := 0
	for _, fn := range c.ModFns {
		if fnPkgPath(fn) != modPath+"/listeners" {
			continue
		}
		for _, ins := range instrs(fn) {
			cc := callOf(ins)
			if cc == nil {
				continue
			}
			nme := cname(cc)
			if !strings.Contains(nme, "gorilla/websocket") {
				continue
			}
			n++
			why, ok := table[nme]
			c.ob(rule, fmt.Sprintf("%s uses %s (tabled gorilla API)", fname(fn), strings.TrimPrefix(nme, "(*github.com/gorilla/websocket.")), c.pos(ins.Pos()), ok, why+
				map[bool]string{true: "", false: "not in the table of websocket calls confirmed to be byte-transparent: e.g. SetReadLimit aborts a large binary message and drops the packets batched in it"}[ok])
		}
	}
	c.floor(rule+" gorilla websocket call sites", n, 3)
}
