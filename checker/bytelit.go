package main

import (
	"fmt"
	"go/constant"
	"go/types"

	"golang.org/x/tools/go/ssa"
)

// byteLiteral renders a slice of a byte-array literal whose elements are all constants (`[]byte{'M','Q','T','T'}`)
// as []byte("MQTT"), so that two different literals are distinguishable in condition texts.
func byteLiteral(sl *ssa.Slice) (string, bool) {
	if sl.Low != nil || sl.High != nil {
		return "", false
	}
	al, ok := sl.X.(*ssa.Alloc)
	if !ok || al.Comment != "slicelit" {
		return "", false
	}
	pt, ok := al.Type().Underlying().(*types.Pointer)
	if !ok {
		return "", false
	}
	arr, ok := pt.Elem().Underlying().(*types.Array)
	if !ok {
		return "", false
	}
	if bt, ok := arr.Elem().Underlying().(*types.Basic); !ok || (bt.Kind() != types.Byte && bt.Kind() != types.Uint8) {
		return "", false
	}
	n := int(arr.Len())
	if n == 0 || n > 64 {
		return "", false
	}
	buf := make([]byte, n)
	set := make([]bool, n)
	for _, ref := range *al.Referrers() {
		ia, ok := ref.(*ssa.IndexAddr)
		if !ok {
			continue
		}
		ik, ok := ia.Index.(*ssa.Const)
		if !ok || ik.Value == nil {
			return "", false
		}
		idx, exact := constant.Int64Val(ik.Value)
		if !exact || idx < 0 || int(idx) >= n {
			return "", false
		}
		for _, r2 := range *ia.Referrers() {
			st, ok := r2.(*ssa.Store)
			if !ok {
				continue
			}
			vk, ok := st.Val.(*ssa.Const)
			if !ok || vk.Value == nil {
				return "", false
			}
			v, exact := constant.Int64Val(vk.Value)
			if !exact || v < 0 || v > 255 {
				return "", false
			}
			buf[idx], set[idx] = byte(v), true
		}
	}
	for _, s := range set {
		if !s {
			return "", false
		}
	}
	return fmt.Sprintf("[]byte(%q)", string(buf)), true
}
