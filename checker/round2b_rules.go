package main

// Rules added after the second round of seeded changes, part 2. Called from round2Hooks2 (see round2_rules.go).

import (
	"fmt"
	"go/token"
	"strings"

	"golang.org/x/tools/go/ssa"
)

// round2Hooks2: helpers of this file, per property.
func round2Hooks2(c *Ctx, id string) {
	switch id {
	case "C07":
		filterListFaithful(c, "C07.e filter-list-faithful")
	case "C26":
		filterListFaithful(c, "C26.e filter-list-faithful")
	case "C42":
		filterListFaithful(c, "C42.c filter-list-faithful")
	case "C09":
		expiryReadsRecordOnly(c, "C09.g expiry-reads-record-only")
		pubackCompletes(c, "C09.h puback-completes")
	case "C10":
		expiryReadsRecordOnly(c, "C10.c expiry-reads-record-only")
		restoreAsStored(c, "C10.d restore-as-stored")
	case "C25":
		expiryReadsRecordOnly(c, "C25.e expiry-reads-record-only")
	case "C12":
		resendOrderByCreation(c, "C12.d resend-order-by-creation")
		releaseAfterEveryPacket(c, "C12.e release-after-every-packet")
		restoreAsStored(c, "C12.f restore-as-stored")
	case "C11":
		releaseAfterEveryPacket(c, "C11.e release-after-every-packet")
	case "C20":
		restoreAsStored(c, "C20.g restore-as-stored")
	}
}

// filterListFaithful: SubscribeDecode and UnsubscribeDecode hand the handlers exactly the filters of the packet, one
// list element per filter in order: every iteration of the filter loop that decoded a filter appends it (no element is
// merged, skipped or de-duplicated). The handlers size and index their reason codes by this list, so a dropped
// element shifts every later reason code of the SUBACK/UNSUBACK.
func filterListFaithful(c *Ctx, rule string) {
	for _, name := range []string{"(*Packet).SubscribeDecode", "(*Packet).UnsubscribeDecode"} {
		f := c.fn("packets", name)
		if f == nil {
			continue
		}
		// the loop: `for offset < len(buf)`; its head is the block whose condition compares an offset with len(buf)
		var head *ssa.BasicBlock
		for _, b := range f.Blocks {
			if t, _, ok := condOf(b); ok && strings.HasSuffix(t, "< builtin.len(buf)") && b.Comment == "for.loop" {
				head = b
			}
		}
		var appends []ssa.Instruction
		for _, ci := range c.callsNamed(f, "builtin.append") {
			if strings.HasSuffix(describe(ci.Common().Args[0]), "pk.Filters") {
				appends = append(appends, ci)
			}
		}
		if head == nil || len(appends) == 0 {
			c.ob(rule, fmt.Sprintf("%s has a filter loop that appends to pk.Filters", fname(f)), c.pos(f.Pos()), false, "loop or append not found")
			continue
		}
		isAppend := func(x ssa.Instruction) bool {
			for _, a := range appends {
				if a == x {
					return true
				}
			}
			return false
		}
		// from the loop body's first instruction, the loop head is reached again only through an append
		body := head.Succs[0]
		_, hit := (&PathQuery{Fn: f, From: body.Instrs[0], Target: func(x ssa.Instruction) bool { return x == head.Instrs[0] }, Barrier: isAppend}).Find()
		c.ob(rule, fmt.Sprintf("%s: every iteration of the filter loop that does not fail appends one element to pk.Filters", fname(f)), c.pos(body.Instrs[0].Pos()), hit == nil,
			"a filter that is decoded but not appended (skipped, merged, de-duplicated) shifts the reason codes of the acknowledgement against the request")
		// and an iteration appends at most once
		for _, a := range appends {
			_, again := (&PathQuery{Fn: f, From: a, Target: isAppend, Barrier: func(x ssa.Instruction) bool { return x == head.Instrs[0] }}).Find()
			c.ob(rule, fmt.Sprintf("%s: one iteration appends at most one element (%s)", fname(f), guardKey(a)), c.pos(a.Pos()), again == nil, "")
		}
	}
}

// expiryReadsRecordOnly: whether a stored record expires is decided from the record itself (its Expiry, Created and
// the ProtocolVersion it was published with), the clock and the server maximum. The receiving client's properties
// play no part: acknowledgement records (PUBREC/PUBREL markers, built by buildAck with version 0) must not be swept
// because the client happens to speak MQTT 5.
func expiryReadsRecordOnly(c *Ctx, rule string) {
	f := c.fn("mqtt", "(*Client).ClearExpiredInflights")
	if f == nil {
		return
	}
	bad := map[string]bool{}
	n := 0
	for _, b := range f.Blocks {
		if len(b.Instrs) == 0 {
			continue
		}
		ifi, ok := b.Instrs[len(b.Instrs)-1].(*ssa.If)
		if !ok {
			continue
		}
		n++
		seen := map[ssa.Value]bool{}
		var walk func(v ssa.Value, d int)
		walk = func(v ssa.Value, d int) {
			if v == nil || seen[v] || d > 14 {
				return
			}
			seen[v] = true
			if u, isU := v.(*ssa.UnOp); isU && u.Op == token.MUL {
				if p, isCl := clientPath(u.X); isCl {
					if r, isParam := rootOfAddr(u.X).(*ssa.Parameter); isParam && canonName(r, r.Name()) == "cl" && !strings.HasPrefix(p, "State.Inflight") {
						bad["cl."+p] = true
					}
				}
			}
			if ph, isPhi := v.(*ssa.Phi); isPhi {
				for _, e := range ph.Edges {
					walk(e, d+1)
				}
				return
			}
			if ins, isIns := v.(ssa.Instruction); isIns {
				for _, op := range ins.Operands(nil) {
					if *op != nil {
						walk(*op, d+1)
					}
				}
			}
		}
		walk(ifi.Cond, 0)
	}
	var bs []string
	for k := range bad {
		bs = append(bs, k)
	}
	c.ob(rule, "(*mqtt.Client).ClearExpiredInflights decides from the record, the clock and the server maximum only (no property of the receiving client)", c.pos(f.Pos()), len(bad) == 0 && n > 0,
		"conditions read "+strings.Join(bs, ", ")+": acknowledgement markers (version 0, Expiry = now + maximum) of an MQTT 5 client are swept, the packet id is freed and the QoS 2 exchange breaks")
}

// pubackCompletes: any PUBACK for a known packet id completes the QoS 1 exchange: on every path of processPuback on
// which the record was found, the record is deleted (whatever reason code the PUBACK carries).
func pubackCompletes(c *Ctx, rule string) {
	f := c.fn("mqtt", "(*Server).processPuback")
	if f == nil {
		return
	}
	c.noPath(rule, "(*mqtt.Server).processPuback: a PUBACK for a known id always removes the in-flight record (reason code irrelevant)", f, nil, anyReturn, isNamed(fnInflDelete),
		[]Assume{inflGetAssume(true)}, "a record kept after its PUBACK is resent with DUP on the next resume although the client acknowledged it")
}

func inflGetAssume(found bool) Assume {
	return Assume{Match: func(t string) bool {
		return strings.HasPrefix(t, "(*mqtt.Inflight).Get(cl.State.Inflight, pk.PacketID)") && strings.HasSuffix(t, "#1")
	}, Truth: found}
}

// resendOrderByCreation: the order in which stored messages are released or resent is the order of their creation:
// GetAll's comparator compares the Created time (packet ids wrap at 65535 and are not an order).
func resendOrderByCreation(c *Ctx, rule string) {
	f := c.fn("mqtt", "(*Inflight).GetAll")
	if f == nil || len(f.AnonFuncs) == 0 {
		return
	}
	less := f.AnonFuncs[0]
	created := false
	for _, ins := range instrs(less) {
		if fa, ok := ins.(*ssa.FieldAddr); ok && fieldName(fa.X.Type(), fa.Field) == "Created" {
			created = true
		}
		if fl, ok := ins.(*ssa.Field); ok && fieldName(fl.X.Type(), fl.Field) == "Created" {
			created = true
		}
	}
	c.ob(rule, "(*mqtt.Inflight).GetAll orders the records by their creation time", c.pos(less.Pos()), created,
		"the comparator does not read Created: ordering by packet id breaks when the 16-bit id counter wraps (the newer message gets the smaller id)")
}

// releaseAfterEveryPacket: processPacket ends, for every packet type handled without error, with the test that
// releases a message held back by flow control: PUBREL/PUBCOMP/PUBREC free send quota just like PUBACK does.
func releaseAfterEveryPacket(c *Ctx, rule string) {
	f := c.fn("mqtt", "(*Server).processPacket")
	if f == nil {
		return
	}
	var quota ssa.Instruction
	for _, b := range f.Blocks {
		if t, _, ok := condOf(b); ok && strings.Contains(t, "cl.State.Inflight.sendQuota") {
			quota = b.Instrs[len(b.Instrs)-1]
		}
	}
	if quota == nil {
		for _, ci := range c.callsNamed(f, "(*mqtt.Inflight).NextImmediate") {
			quota = ci
		}
	}
	if quota == nil {
		c.ob(rule, "(*mqtt.Server).processPacket tests for a held-back message to release", c.pos(f.Pos()), false, "release test not found")
		return
	}
	n := 0
	for _, name := range []string{"(*mqtt.Server).processPuback", "(*mqtt.Server).processPubrec", "(*mqtt.Server).processPubrel", "(*mqtt.Server).processPubcomp"} {
		for _, ci := range c.callsNamed(f, name) {
			n++
			_, hit := (&PathQuery{Fn: f, From: ci, Target: nilErrReturn, Barrier: func(x ssa.Instruction) bool {
				if x == quota {
					return true
				}
				// the release test starts with "is anything stored?" / "is there quota?" / NextImmediate
				if cc := callOf(x); cc != nil {
					n := cname(cc)
					if n == "(*mqtt.Inflight).NextImmediate" || (n == "(*mqtt.Inflight).Len" && strings.HasSuffix(describe(cc.Args[0]), "cl.State.Inflight")) ||
						(n == "sync/atomic.LoadInt32" && strings.HasSuffix(describe(cc.Args[0]), "Inflight.sendQuota")) {
						return true
					}
				}
				return false
			}}).Find()
			c.ob(rule, fmt.Sprintf("(*mqtt.Server).processPacket: after %s returned without error the held-back-message release test runs", strings.TrimPrefix(name, "(*mqtt.Server).")), c.pos(ci.Pos()), hit == nil,
				"the handler freed send quota; returning before the release leaves the held-back message waiting while newer messages are sent at once")
		}
	}
	c.floor(rule+" acknowledgement handlers dispatched from processPacket", n, 4)
}

// restoreAsStored: loadInflight puts the restored packet into the in-flight map exactly as Message.ToPacket produced
// it (creation time, packet id, type): nothing is rewritten or filtered between decoding and Inflight.Set.
func restoreAsStored(c *Ctx, rule string) {
	f := c.fn("mqtt", "(*Server).loadInflight")
	if f == nil {
		return
	}
	sets := c.callsNamed(f, fnInflSet)
	c.floor(rule+" Inflight.Set in loadInflight", len(sets), 1)
	for _, ci := range sets {
		d := describe(ci.Common().Args[1])
		c.ob(rule, "(*mqtt.Server).loadInflight stores the packet exactly as Message.ToPacket built it", c.pos(ci.Pos()), strings.HasPrefix(d, "(*storage.Message).ToPacket(") || strings.HasPrefix(d, "(*hooks/storage.Message).ToPacket("),
			"stored value "+d+": a field rewritten after decoding (e.g. Created = now) destroys the resend order and the expiry of the restored messages")
		// every stored record is restored: the Set is guarded only by the session lookup
		for _, ed := range edgeDoms(ci) {
			t, _, ok := condOf(ed.b)
			if !ok {
				continue
			}
			okGuard := strings.Contains(t, "(*mqtt.Clients).Get(") || strings.Contains(t, "rangeindex") || strings.Contains(t, "builtin.len(v)")
			c.ob(rule, fmt.Sprintf("(*mqtt.Server).loadInflight restores every stored record of a restored session (guard %s)", t), c.pos(ci.Pos()), okGuard,
				"records are filtered by "+t+": the client's pending acknowledgement markers are dropped and their packet ids handed out again")
		}
	}
}
