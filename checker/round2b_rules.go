package main

// Rules added after the second round of seeded changes, part 2. Called from round2Hooks2 (see round2_rules.go).

import (
	"fmt"
	"strings"

	"golang.org/x/tools/go/ssa"
)

// round2Hooks2: helpers of this file, per property.
func round2Hooks2(c *Ctx, id string) {
	switch id {
	case "C07":
		filterListFaithful(c, "C07.e filter-list-faithful")
	case "C26":
		filterListFaithful(c, "C26.e filter-list-faithful")
	case "C42":
		filterListFaithful(c, "C42.c filter-list-faithful")
	}
}

// filterListFaithful: SubscribeDecode and UnsubscribeDecode hand the handlers exactly the filters of the packet, one
// list element per filter in order: every iteration of the filter loop that decoded a filter appends it (no element is
// merged, skipped or de-duplicated). The handlers size and index their reason codes by this list, so a dropped
// element shifts every later reason code of the SUBACK/UNSUBACK.
func filterListFaithful(c *Ctx, rule string) {
	for _, name := range []string{"(*Packet).SubscribeDecode", "(*Packet).UnsubscribeDecode"} {
		f := c.fn("packets", name)
		if f == nil {
			continue
		}
		// the loop: `for offset < len(buf)`; its head is the block whose condition compares an offset with len(buf)
		var head *ssa.BasicBlock
		for _, b := range f.Blocks {
			if t, _, ok := condOf(b); ok && strings.HasSuffix(t, "< builtin.len(buf)") && b.Comment == "for.loop" {
				head = b
			}
		}
		var appends []ssa.Instruction
		for _, ci := range c.callsNamed(f, "builtin.append") {
			if strings.HasSuffix(describe(ci.Common().Args[0]), "pk.Filters") {
				appends = append(appends, ci)
			}
		}
		if head == nil || len(appends) == 0 {
			c.ob(rule, fmt.Sprintf("%s has a filter loop that appends to pk.Filters", fname(f)), c.pos(f.Pos()), false, "loop or append not found")
			continue
		}
		isAppend := func(x ssa.Instruction) bool {
			for _, a := range appends {
				if a == x {
					return true
				}
			}
			return false
		}
		// from the loop body's first instruction, the loop head is reached again only through an append
		body := head.Succs[0]
		_, hit := (&PathQuery{Fn: f, From: body.Instrs[0], Target: func(x ssa.Instruction) bool { return x == head.Instrs[0] }, Barrier: isAppend}).Find()
		c.ob(rule, fmt.Sprintf("%s: every iteration of the filter loop that does not fail appends one element to pk.Filters", fname(f)), c.pos(body.Instrs[0].Pos()), hit == nil,
			"a filter that is decoded but not appended (skipped, merged, de-duplicated) shifts the reason codes of the acknowledgement against the request")
		// and an iteration appends at most once
		for _, a := range appends {
			_, again := (&PathQuery{Fn: f, From: a, Target: isAppend, Barrier: func(x ssa.Instruction) bool { return x == head.Instrs[0] }}).Find()
			c.ob(rule, fmt.Sprintf("%s: one iteration appends at most one element (%s)", fname(f), guardKey(a)), c.pos(a.Pos()), again == nil, "")
		}
	}
}
