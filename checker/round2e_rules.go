package main

// Rules added after the second round of seeded changes, part 5.

import (
	"fmt"
	"strings"

	"golang.org/x/tools/go/ssa"
)

func round2Hooks5(c *Ctx, id string) {
	switch id {
	case "C16":
		willCancelledOnResume(c, "C16.d pending-will-cancelled")
		hookResultOnlyOnSuccess(c, "C16.e hook-result-only-on-success", "(*Hooks).OnWill")
		willCarriesNoVersion(c, "C16.f will-carries-no-version")
	case "C19":
		hookResultOnlyOnSuccess(c, "C19.e hook-result-only-on-success", "(*Hooks).OnWill")
		hookPacketUsedAsReturned(c, "C19.f hook-packet-used-as-returned")
	case "C18":
		userEntryDecides(c, "C18.d user-entry-decides")
		plusAcceptsAnyLevel(c, "C18.e plus-accepts-any-level")
	case "C20":
		stopHooksAfterClients(c, "C20.h hooks-outlive-connections")
		removalsReachTheStore(c, "C20.i removals-reach-the-store")
	case "C21":
		stopHooksAfterClients(c, "C21.d hooks-outlive-connections")
		removalsReachTheStore(c, "C21.e removals-reach-the-store")
	case "C36":
		stopHooksAfterClients(c, "C36.f hooks-outlive-connections")
	}
}

// willCancelledOnResume: once the success CONNACK was written, the pending delayed will of the client id is cancelled
// on every path — also when the in-flight resend that follows fails.
func willCancelledOnResume(c *Ctx, rule string) {
	f := c.fn("mqtt", "(*Server).attachClient")
	if f == nil {
		return
	}
	var ack ssa.CallInstruction
	for _, ci := range c.callsNamed(f, fnSendConnack) {
		if a := describe(ci.Common().Args[2]); !strings.HasPrefix(a, "packets.Err") {
			ack = ci // the success CONNACK: its reason is the validated code, not an error literal
		}
	}
	if ack == nil {
		c.ob(rule, "(*mqtt.Server).attachClient writes the success CONNACK", c.pos(f.Pos()), false, "site not found")
		return
	}
	isCancel := func(x ssa.Instruction) bool {
		cc := callOf(x)
		return cc != nil && cname(cc) == "(*packets.Packets).Delete" && strings.HasSuffix(describe(cc.Args[0]), "loop.willDelayed")
	}
	okText := describe(asCall(ack)) + " == nil"
	c.noPath(rule, "(*mqtt.Server).attachClient: after a successful CONNACK the client's pending delayed will is cancelled on every path", f, ack, anyReturn, isCancel,
		[]Assume{assumeEq(okText, true)}, "the session was resumed (the client got CONNACK) but a failing resend returns before the cancellation: the old will is published although the client is back [MQTT-3.1.3-9]")
}

// hookResultOnlyOnSuccess: in a modifying hook chain the accumulator takes a hook's result only when that hook
// returned no error: the loop-carried value is the hook result on the err == nil edge and the previous value otherwise.
func hookResultOnlyOnSuccess(c *Ctx, rule string, name string) {
	f := c.fn("mqtt", name)
	if f == nil {
		return
	}
	n := 0
	for _, ins := range instrs(f) {
		call, ok := ins.(*ssa.Call)
		if !ok || !call.Call.IsInvoke() || "(*Hooks)."+call.Call.Method.Name() != name {
			continue
		}
		n++
		errText := describe(call) + "#1 == nil"
		// the φ at the loop head that carries the accumulator
		okAll := true
		why := ""
		for _, ref := range *call.Referrers() {
			ex, isEx := ref.(*ssa.Extract)
			if !isEx || ex.Index != 0 {
				continue
			}
			for _, use := range *ex.Referrers() {
				ph, isPhi := use.(*ssa.Phi)
				if !isPhi {
					continue
				}
				for ei, e := range ph.Edges {
					if e != ssa.Value(ex) {
						continue
					}
					pred := ph.Block().Preds[ei]
					// the edge pred -> φ-block must lie on the err == nil side
					last := pred.Instrs[len(pred.Instrs)-1]
					if !dominatedByFact(last, textEq(errText), true) {
						okAll = false
						why = "the result reaches the accumulator from block " + pred.Comment + " which is not on the err == nil edge"
					}
				}
			}
		}
		c.ob(rule, fmt.Sprintf("%s: the accumulator takes a hook's result only when the hook returned no error", fname(f)), c.pos(call.Pos()), okAll,
			"a failing hook's return value (typically the zero value) replaces what the previous hooks produced — "+why)
	}
	c.floor(rule+" hook invocations in "+name, n, 1)
}

// willCarriesNoVersion: the will PUBLISH built by sendLWT has no ProtocolVersion: its Expiry field is re-used as the
// due time of a delayed will, and the housekeeping treats Expiry as a message expiry for version-5 packets.
func willCarriesNoVersion(c *Ctx, rule string) {
	f := c.fn("mqtt", "(*Server).sendLWT")
	if f == nil {
		return
	}
	bad := ""
	for _, ins := range instrs(f) {
		if st, ok := ins.(*ssa.Store); ok {
			if fa, isFA := st.Addr.(*ssa.FieldAddr); isFA && fieldName(fa.X.Type(), fa.Field) == "ProtocolVersion" && strings.HasSuffix(fa.X.Type().String(), "packets.Packet") {
				bad = describe(st.Val) + " at " + c.pos(st.Pos())
			}
		}
	}
	reuse := false
	for _, st := range storesTo(f, "pk.Expiry") {
		_ = st
		reuse = true
	}
	c.ob(rule, "(*mqtt.Server).sendLWT: the will packet carries no ProtocolVersion while its Expiry doubles as the delayed-will due time", c.pos(f.Pos()), bad == "" || !reuse,
		"ProtocolVersion <- "+bad+": the retained or queued copy of a delayed will is swept as 'expired' at the next housekeeping tick")
}

// hookPacketUsedAsReturned: processPublish continues with the very packet OnPublish returned (including the marks a
// hook set on it, e.g. Ignore); it is not replaced by a derived copy.
func hookPacketUsedAsReturned(c *Ctx, rule string) {
	f := c.fn("mqtt", "(*Server).processPublish")
	if f == nil {
		return
	}
	call := asCall(c.call1(f, "(*mqtt.Hooks).OnPublish"))
	if call == nil {
		c.ob(rule, "(*mqtt.Server).processPublish calls hooks.OnPublish", c.pos(f.Pos()), false, "site not found")
		return
	}
	want := describe(call) + "#0"
	found := false
	for _, st := range storesTo(f, "pk") {
		if reachableFrom(call, st) {
			found = true
			c.ob(rule, "(*mqtt.Server).processPublish continues with the packet exactly as OnPublish returned it", c.pos(st.Pos()), describe(st.Val) == want,
				"pk <- "+describe(st.Val)+": a derived copy drops what the hook marked on the packet (Packet.Copy does not carry Ignore): the publish is forwarded and retained although a hook ignored it")
		}
	}
	if !found {
		c.ob(rule, "(*mqtt.Server).processPublish continues with the packet exactly as OnPublish returned it", c.pos(call.Pos()), false, "the hook's packet is never taken over")
	}
}

// userEntryDecides: in Ledger.AuthOk a client whose username has an entry in Users and whose password matches it is
// decided by that entry (allowed, or refused when the entry is disallowed): it never falls through to the global
// rule list.
func userEntryDecides(c *Ctx, rule string) {
	f := c.fn("hooks/auth", "(*Ledger).AuthOk")
	if f == nil {
		return
	}
	var loop *ssa.BasicBlock
	for _, b := range f.Blocks {
		if b.Comment == "rangeindex.loop" && loop == nil {
			loop = b
		}
	}
	if loop == nil {
		c.ob(rule, "(*hooks/auth.Ledger).AuthOk walks the global rule list", c.pos(f.Pos()), false, "loop not found")
		return
	}
	_, hit := (&PathQuery{Fn: f, Target: func(x ssa.Instruction) bool { return x == loop.Instrs[0] }, Assume: []Assume{
		assumeEq("l.Users == nil", false),
		assumeHas("l.Users[string(cl.Properties.Username)]#1", true),
		// the password comparison, however it is spelled (==, bytes.Equal, subtle.ConstantTimeCompare == 1 …)
		{Match: func(t string) bool {
			return strings.Contains(t, "u.Password") && strings.Contains(t, "pk.Connect.Password") && !strings.Contains(t, `""`)
		}, Truth: true},
		assumeEq(`u.Password == ""`, false),
	}}).Find()
	c.ob(rule, "(*hooks/auth.Ledger).AuthOk: a user with an entry and the matching password is decided by the entry, never by the global rules", c.pos(f.Pos()), hit == nil,
		"a disallowed (suspended) user who presents the right password falls through to the global rules and is admitted by any matching allow rule")
}

// plusAcceptsAnyLevel: in MatchTopic a '+' level of the filter accepts the topic's level whatever it contains (also
// the empty level): from the edge where the filter level is "+" no path of that iteration reports a mismatch.
func plusAcceptsAnyLevel(c *Ctx, rule string) {
	f := c.fn("hooks/auth", "MatchTopic")
	if f == nil {
		return
	}
	n := 0
	for _, b := range f.Blocks {
		t, neg, ok := condOf(b)
		if !ok || !strings.HasSuffix(t, `== "+"`) {
			continue
		}
		n++
		trueIdx := 0
		if neg {
			trueIdx = 1
		}
		start := b.Succs[trueIdx]
		var head *ssa.BasicBlock
		for _, hb := range f.Blocks {
			if strings.HasSuffix(hb.Comment, ".loop") && head == nil {
				head = hb
			}
		}
		_, hit := (&PathQuery{Fn: f, From: start.Instrs[0], Target: func(x ssa.Instruction) bool {
			r, isRet := x.(*ssa.Return)
			return isRet && len(r.Results) == 2 && describe(rvs(r)[1]) == "false"
		}, Barrier: func(x ssa.Instruction) bool { return head != nil && x == head.Instrs[0] }}).Find()
		// the first instruction of start itself may be the mismatch return
		if r, isRet := start.Instrs[0].(*ssa.Return); isRet && len(r.Results) == 2 && describe(rvs(r)[1]) == "false" {
			hit = r
		}
		c.ob(rule, "hooks/auth.MatchTopic: a '+' filter level accepts the topic level unconditionally", c.pos(b.Instrs[len(b.Instrs)-1].Pos()), hit == nil,
			"an extra condition on the topic level (e.g. non-empty) lets topics with an empty level escape a deny rule written with '+'")
	}
	c.floor(rule+" tests for the '+' level in MatchTopic", n, 1)
}

// stopHooksAfterClients: Server.Close stops the hooks only after every listener and connection was closed: what
// happens while clients are disconnected at shutdown (wills, clean-session removal, QoS bookkeeping) still reaches
// the storage hooks.
func stopHooksAfterClients(c *Ctx, rule string) {
	f := c.fn("mqtt", "(*Server).Close")
	if f == nil {
		return
	}
	ca := c.call1(f, "(*listeners.Listeners).CloseAll")
	for _, name := range []string{"(*mqtt.Hooks).OnStopped", "(*mqtt.Hooks).Stop"} {
		h := c.call1(f, name)
		c.before(rule, fmt.Sprintf("(*mqtt.Server).Close closes listeners and connections before %s", strings.TrimPrefix(name, "(*mqtt.")), ca, h,
			"hooks stopped first miss the events of the shutdown itself: a retained will published at shutdown is not persisted, clean-session records are left in the store")
	}
}

// removalsReachTheStore: whenever the broker removes an in-flight record that the storage hooks were told about
// (OnQosPublish), it reports the removal through OnQosComplete or OnQosDropped — the two events the bundled storage
// hooks implement — on the path where the record was found. Sites that the storage never heard of, or that report in
// their caller, are tabled with the reason.
func removalsReachTheStore(c *Ctx, rule string) {
	exempt := map[string]string{
		"(*mqtt.Server).processPacket":         "release of a held-back message: the record was stored with OnQosPublish at enqueue time — known accounting defect, reported under C38/C11, not re-reported here",
		"(*mqtt.Server).publishToClient":       "rollback of an enqueue that failed in the same call: reported through OnPublishDropped by design (the record existed for microseconds)",
		"(*mqtt.Server).processPublish":        "inbound markers: QoS 1 marker removed right after its PUBACK; stale record with the client's id",
		"(*mqtt.Server).clearExpiredInflights": "reports OnQosDropped for the ids returned by ClearExpiredInflights",
	}
	n := 0
	for _, fn := range c.ModFns {
		if fnPkgPath(fn) != modPath {
			continue
		}
		owner := fname(rootFn(fn))
		for _, ci := range c.callsNamed(fn, fnInflDelete) {
			if why, ok := exempt[owner]; ok {
				c.ob(rule, fmt.Sprintf("%s: in-flight removal under %s (tabled)", owner, guardKey(ci)), c.pos(ci.Pos()), true, why)
				continue
			}
			n++
			call := asCall(ci)
			isReport := isNamed("(*mqtt.Hooks).OnQosComplete", "(*mqtt.Hooks).OnQosDropped")
			reported := false
			// a report that dominates the removal (resend: OnQosComplete after the delete) or follows it on every found-path
			for _, x := range instrs(fn) {
				if isReport(x) && domInstr(x, ci) {
					reported = true
				}
			}
			if !reported {
				as := []Assume{}
				if call != nil {
					as = append(as, assumeEq(describe(call), true))
				}
				_, hit := (&PathQuery{Fn: fn, From: ci, Target: anyReturn, Barrier: isReport, Assume: as}).Find()
				reported = hit == nil
				if hit != nil && fn.Blocks != nil {
					// inside a loop: reaching the next iteration without a report is as bad as returning
					reported = false
				}
			}
			c.ob(rule, fmt.Sprintf("%s: the removal of an in-flight record under %s is reported through OnQosComplete/OnQosDropped", owner, guardKey(ci)), c.pos(ci.Pos()), reported,
				"the storage hooks keep the record: after a restart the message is in flight again although it was acknowledged, refused or dropped")
		}
	}
	c.floor(rule+" in-flight removals outside the tabled functions", n, 6)
}
