package main

import (
	"go/ast"
	"go/constant"
	"go/token"
)

// codeValuesAST folds the initialisers of the packets.Code globals: name -> code byte.
// A store to one of these globals anywhere in the module would invalidate constant reasoning about
// reason codes; storesToCodes reports them.
func (c *Ctx) codeValuesAST() map[string]int64 {
	out := map[string]int64{}
	p := c.Pkgs[modPath+"/packets"]
	if p == nil {
		return out
	}
	for _, file := range p.Syntax {
		for _, d := range file.Decls {
			gd, ok := d.(*ast.GenDecl)
			if !ok || gd.Tok != token.VAR {
				continue
			}
			for _, sp := range gd.Specs {
				vs := sp.(*ast.ValueSpec)
				for i, name := range vs.Names {
					if i >= len(vs.Values) {
						continue
					}
					cl, ok := vs.Values[i].(*ast.CompositeLit)
					if !ok {
						continue
					}
					if id, ok := cl.Type.(*ast.Ident); !ok || id.Name != "Code" {
						continue
					}
					val := int64(0)
					for _, el := range cl.Elts {
						kv, ok := el.(*ast.KeyValueExpr)
						if !ok {
							continue
						}
						if k, ok := kv.Key.(*ast.Ident); ok && k.Name == "Code" {
							if tv, ok := p.TypesInfo.Types[kv.Value]; ok && tv.Value != nil && tv.Value.Kind() == constant.Int {
								val, _ = constant.Int64Val(tv.Value)
							}
						}
					}
					out[name.Name] = val
				}
			}
		}
	}
	return out
}
