package main

import (
	"go/ast"
	"go/constant"
	"go/token"

	"golang.org/x/tools/go/ssa"
)

// codeValuesAST folds the initialisers of the packets.Code globals: name -> code byte.
// A store to one of these globals anywhere in the module would invalidate constant reasoning about
// reason codes; storesToCodes reports them.
func (c *Ctx) codeValuesAST() map[string]int64 {
	out := map[string]int64{}
	p := c.Pkgs[modPath+"/packets"]
	if p == nil {
		return out
	}
	for _, file := range p.Syntax {
		for _, d := range file.Decls {
			gd, ok := d.(*ast.GenDecl)
			if !ok || gd.Tok != token.VAR {
				continue
			}
			for _, sp := range gd.Specs {
				vs := sp.(*ast.ValueSpec)
				for i, name := range vs.Names {
					if i >= len(vs.Values) {
						continue
					}
					cl, ok := vs.Values[i].(*ast.CompositeLit)
					if !ok {
						continue
					}
					if id, ok := cl.Type.(*ast.Ident); !ok || id.Name != "Code" {
						continue
					}
					val := int64(0)
					for _, el := range cl.Elts {
						kv, ok := el.(*ast.KeyValueExpr)
						if !ok {
							continue
						}
						if k, ok := kv.Key.(*ast.Ident); ok && k.Name == "Code" {
							if tv, ok := p.TypesInfo.Types[kv.Value]; ok && tv.Value != nil && tv.Value.Kind() == constant.Int {
								val, _ = constant.Int64Val(tv.Value)
							}
						}
					}
					out[name.Name] = val
				}
			}
		}
	}
	return out
}

// retGlobals: the packets.Code globals that fn can return as its first result (E4c constant flow:
// through φ and through calls to module functions). An operand that is not a load of a global adds
// the marker "?" (unknown).
func (c *Ctx) retGlobals(fn *ssa.Function, depth int, seen map[*ssa.Function]bool) map[string]bool {
	out := map[string]bool{}
	if fn == nil || seen[fn] || depth > 4 {
		return out
	}
	seen[fn] = true
	var walk func(v ssa.Value, d int)
	walk = func(v ssa.Value, d int) {
		if d > 8 {
			out["?"] = true
			return
		}
		switch x := v.(type) {
		case *ssa.UnOp:
			if g, ok := x.X.(*ssa.Global); ok {
				out[g.Name()] = true
				return
			}
			out["?"] = true
		case *ssa.Phi:
			for _, e := range x.Edges {
				walk(e, d+1)
			}
		case *ssa.Call:
			if callee := x.Call.StaticCallee(); callee != nil && inModule(callee) {
				for g := range c.retGlobals(callee, depth+1, seen) {
					out[g] = true
				}
				return
			}
			out["?"] = true
		default:
			out["?"] = true
		}
	}
	for _, r := range returns(fn) {
		if len(r.Results) > 0 {
			walk(rvs(r)[0], 0)
		}
	}
	return out
}
