package main

import (
	"fmt"
	"go/types"
	"sort"
	"strings"

	"golang.org/x/tools/go/ssa"
)

// E1 lockflow: which mutexes are held where.
//
// A lock is identified by the description of the address of its mutex ("cl.RWMutex",
// "x.root.Mutex", "i.RWMutex"), i.e. by an access path rooted at a parameter / receiver / local.
// Per function a forward must-hold dataflow gives the set of keys held before every instruction.
// `defer X.Unlock()` keeps the lock to the function's end. Function summaries list the keys a
// function (transitively) acquires, expressed relative to its own parameters; at a call they are
// re-rooted at the actual arguments.

type lockOp struct {
	key   string // access path of the mutex
	mode  byte   // 'R' or 'W'
	class string // static type owning the mutex, e.g. "*mqtt.Clients"
	lock  bool
	ins   ssa.Instruction
}

func lockOpOf(ins ssa.Instruction) (lockOp, bool) {
	cc := callOf(ins)
	if cc == nil {
		return lockOp{}, false
	}
	n := cname(cc)
	var op lockOp
	switch n {
	case "(*sync.RWMutex).Lock", "(*sync.Mutex).Lock":
		op.mode, op.lock = 'W', true
	case "(*sync.RWMutex).RLock":
		op.mode, op.lock = 'R', true
	case "(*sync.RWMutex).Unlock", "(*sync.Mutex).Unlock":
		op.mode = 'W'
	case "(*sync.RWMutex).RUnlock":
		op.mode = 'R'
	default:
		return lockOp{}, false
	}
	if len(cc.Args) == 0 {
		return lockOp{}, false
	}
	op.key = describe(cc.Args[0])
	op.ins = ins
	op.class = "?"
	if fa, ok := cc.Args[0].(*ssa.FieldAddr); ok {
		op.class = shorten(types.TypeString(fa.X.Type(), nil))
	}
	return op, true
}

type held map[string]lockOp // key -> acquiring op

func (h held) clone() held {
	n := held{}
	for k, v := range h {
		n[k] = v
	}
	return n
}

type lockFlow struct {
	before map[ssa.Instruction]held
}

// lockFlowOf computes must-held locks before every instruction of fn.
func lockFlowOf(fn *ssa.Function) *lockFlow {
	lf := &lockFlow{before: map[ssa.Instruction]held{}}
	if len(fn.Blocks) == 0 {
		return lf
	}
	in := map[*ssa.BasicBlock]held{}
	in[fn.Blocks[0]] = held{}
	work := []*ssa.BasicBlock{fn.Blocks[0]}
	transfer := func(b *ssa.BasicBlock, h held, record bool) held {
		h = h.clone()
		for _, ins := range b.Instrs {
			if record {
				lf.before[ins] = h.clone()
			}
			if _, isDefer := ins.(*ssa.Defer); isDefer {
				continue // deferred unlock: the lock stays held to the end of the function
			}
			if op, ok := lockOpOf(ins); ok {
				if op.lock {
					h[op.key] = op
				} else {
					delete(h, op.key)
				}
			}
		}
		return h
	}
	for len(work) > 0 {
		b := work[0]
		work = work[1:]
		out := transfer(b, in[b], false)
		for _, s := range b.Succs {
			old, seen := in[s]
			var nw held
			if !seen {
				nw = out.clone()
			} else {
				nw = held{}
				for k, v := range old {
					if _, ok := out[k]; ok {
						nw[k] = v
					}
				}
				if len(nw) == len(old) {
					continue
				}
			}
			in[s] = nw
			work = append(work, s)
		}
	}
	for _, b := range fn.Blocks {
		if h, ok := in[b]; ok {
			transfer(b, h, true)
		}
	}
	return lf
}

// acquired is one (key, mode, class) a function acquires, with the call chain that gets there.
type acquired struct {
	key   string
	mode  byte
	class string
	via   string
}

type lockSummaries struct {
	c   *Ctx
	acq map[*ssa.Function]map[string]acquired // key+mode -> acquired
}

func rootOf(key string) (root, rest string) {
	i := strings.IndexAny(key, ".[")
	if i < 0 {
		return key, ""
	}
	return key[:i], key[i:]
}

func buildLockSummaries(c *Ctx) *lockSummaries {
	ls := &lockSummaries{c: c, acq: map[*ssa.Function]map[string]acquired{}}
	for _, fn := range c.ModFns {
		m := map[string]acquired{}
		for _, ins := range instrs(fn) {
			if _, isDefer := ins.(*ssa.Defer); isDefer {
				continue
			}
			if op, ok := lockOpOf(ins); ok && op.lock {
				m[op.key+string(op.mode)] = acquired{key: op.key, mode: op.mode, class: op.class, via: fname(fn)}
			}
		}
		ls.acq[fn] = m
	}
	// propagate through calls to a fixed point
	for changed, iter := true, 0; changed && iter < 30; iter++ {
		changed = false
		for _, fn := range c.ModFns {
			for _, ins := range instrs(fn) {
				if _, isGo := ins.(*ssa.Go); isGo {
					continue // a spawned goroutine does not acquire on behalf of the caller
				}
				cc := callOf(ins)
				if cc == nil {
					continue
				}
				for _, callee := range ls.callees(cc) {
					for _, a := range ls.rebase(callee, cc) {
						k := a.key + string(a.mode)
						if _, ok := ls.acq[fn][k]; !ok {
							a.via = fname(fn) + " → " + a.via
							ls.acq[fn][k] = a
							changed = true
						}
					}
				}
			}
		}
	}
	return ls
}

func (ls *lockSummaries) callees(cc *ssa.CallCommon) []*ssa.Function {
	if cc.IsInvoke() {
		return ls.c.cg.impls[cname(cc)]
	}
	if f := cc.StaticCallee(); f != nil {
		if inModule(f) && f.Blocks != nil {
			return []*ssa.Function{f}
		}
		return nil
	}
	return ls.c.cg.dynCallees(cc)
}

// rebase expresses the callee's acquisitions in the caller's name space by substituting actuals
// for formals in the roots of the keys. Keys rooted at anything else keep only their class.
func (ls *lockSummaries) rebase(callee *ssa.Function, cc *ssa.CallCommon) []acquired {
	var out []acquired
	args := allArgs(cc)
	formal := map[string]string{}
	for i, p := range callee.Params {
		if i < len(args) {
			formal[p.Name()] = describe(args[i])
		}
	}
	// free variables of closures keep their names (same access path as in the enclosing function)
	for _, fv := range callee.FreeVars {
		formal[fv.Name()] = fv.Name()
	}
	var keys []string
	for k := range ls.acq[callee] {
		keys = append(keys, k)
	}
	sort.Strings(keys)
	for _, k := range keys {
		a := ls.acq[callee][k]
		root, rest := rootOf(a.key)
		if actual, ok := formal[root]; ok {
			a.key = actual + rest
		} else {
			a.key = "<" + a.class + ">" // not expressible at the call site; class only
		}
		out = append(out, a)
	}
	return out
}

// ---- C32 -----------------------------------------------------------------------------------

func init() {
	register(&Prop{
		ID:        "C32",
		Title:     "The broker never deadlocks",
		Technique: "lock-flow dataflow over SSA: nested acquisition, lock-order graph, unlock-on-all-paths, blocking calls under lock",
		Explanation: "E1 lockflow over every module function: (a) no function acquires, directly or through a call chain, " +
			"a mutex it already holds on the same access path (recursive RLock included); (b) the lock-class order graph " +
			"built from every acquisition made while another lock is held is acyclic apart from the tabled parent→child trie edge; " +
			"(c) no channel operation, WaitGroup.Wait, Cond.Wait or time.Sleep executes while a module mutex is held; " +
			"(d) every Lock is released by a deferred Unlock or by an Unlock on every path to return.",
		NotDecided: []string{"liveness not caused by mutexes (full queues, slow peers, blocked network writes)",
			"re-entrancy through hooks that are not part of the module", "actual schedules"},
		Assumptions: []string{"locks are identified by access path; two different paths to the same object are treated as different locks in (a) and by class in (b)",
			"external hooks do not call back into the broker while they run"},
		Run: runC32,
	})
}

func runC32(c *Ctx) {
	ls := buildLockSummaries(c)
	nLockFns, nAcq := 0, 0
	type edge struct{ from, to string }
	order := map[edge]string{}
	for _, fn := range c.ModFns {
		hasLock := false
		for _, ins := range instrs(fn) {
			if op, ok := lockOpOf(ins); ok && op.lock {
				if _, isDefer := ins.(*ssa.Defer); !isDefer {
					hasLock = true
					nAcq++
				}
			}
		}
		if !hasLock {
			continue
		}
		nLockFns++
		c.fnsSeen[fn] = true
		lf := lockFlowOf(fn)
		for _, ins := range instrs(fn) {
			h := lf.before[ins]
			// (d) unlock on all paths
			if op, ok := lockOpOf(ins); ok && op.lock {
				if _, isDefer := ins.(*ssa.Defer); !isDefer {
					c.checkReleased(fn, op)
				}
			}
			if len(h) == 0 {
				continue
			}
			if _, isDefer := ins.(*ssa.Defer); isDefer {
				continue
			}
			if _, isGo := ins.(*ssa.Go); isGo {
				continue
			}
			// (a) direct re-acquisition
			if op, ok := lockOpOf(ins); ok && op.lock {
				if prev, held := h[op.key]; held {
					c.ob("C32.a no-reacquire", fmt.Sprintf("%s: %s re-acquired (mode %c) while held (mode %c)", fname(fn), op.key, op.mode, prev.mode),
						c.pos(ins.Pos()), false, "a mutex that is already held is locked again on the same access path; a queued writer makes the second RLock block forever")
				}
				for _, hv := range h {
					if hv.key != op.key {
						order[edge{hv.class, op.class}] = fmt.Sprintf("%s at %s", fname(fn), c.pos(ins.Pos()))
					}
				}
				continue
			}
			cc := callOf(ins)
			if cc != nil {
				// (c) blocking calls
				switch cname(cc) {
				case "(*sync.WaitGroup).Wait", "(*sync.Cond).Wait", "time.Sleep":
					c.ob("C32.c no-blocking-under-lock", fmt.Sprintf("%s: %s while holding %s", fname(fn), cname(cc), heldKeys(h)), c.pos(ins.Pos()), false,
						"a blocking primitive is called while a module mutex is held")
				}
				for _, callee := range ls.callees(cc) {
					for _, a := range ls.rebase(callee, cc) {
						if prev, held := h[a.key]; held {
							c.ob("C32.a no-reacquire", fmt.Sprintf("%s: holds %s (mode %c) and calls %s which acquires it again (mode %c)", fname(fn), a.key, prev.mode, fname(callee), a.mode),
								c.pos(ins.Pos()), false, "nested acquisition of the same mutex through a same-receiver call: "+a.via)
						}
						for _, hv := range h {
							if hv.key != a.key {
								order[edge{hv.class, a.class}] = fmt.Sprintf("%s at %s via %s", fname(fn), c.pos(ins.Pos()), a.via)
							}
						}
					}
				}
			}
			// (c) channel operations outside select-with-default
			switch x := ins.(type) {
			case *ssa.Send:
				c.ob("C32.c no-blocking-under-lock", fmt.Sprintf("%s: channel send while holding %s", fname(fn), heldKeys(h)), c.pos(x.Pos()), false, "blocking send under a mutex")
			case *ssa.UnOp:
				if x.Op.String() == "<-" {
					c.ob("C32.c no-blocking-under-lock", fmt.Sprintf("%s: channel receive while holding %s", fname(fn), heldKeys(h)), c.pos(x.Pos()), false, "blocking receive under a mutex")
				}
			case *ssa.Select:
				if x.Blocking {
					c.ob("C32.c no-blocking-under-lock", fmt.Sprintf("%s: blocking select while holding %s", fname(fn), heldKeys(h)), c.pos(x.Pos()), false, "blocking select under a mutex")
				}
			}
		}
		// one discharged obligation per locking function, so that the evidence shows what was analysed
		c.ob("C32.a no-reacquire", fmt.Sprintf("%s: analysed, no nested acquisition", fname(fn)), c.pos(fn.Pos()), true, "")
	}
	c.floor("C32 lock-taking functions", nLockFns, 40)
	c.floor("C32 lock acquisitions", nAcq, 55)

	// (b) order graph
	adj := map[string][]string{}
	var es []edge
	for e := range order {
		es = append(es, e)
	}
	sort.Slice(es, func(i, j int) bool { return es[i].from+es[i].to < es[j].from+es[j].to })
	allowedSelf := map[string]string{
		"*mqtt.particle": "TopicsIndex.RetainMessage locks the root particle and then the target node returned by set(); set() never returns the root (it always descends at least one level), and the root is always taken first",
	}
	for _, e := range es {
		if e.from == e.to {
			if why, ok := allowedSelf[e.from]; ok {
				c.ob("C32.b lock-order", fmt.Sprintf("same-class edge %s→%s (tabled exception)", e.from, e.to), "", true, why+"; seen: "+order[e])
			} else {
				c.ob("C32.b lock-order", fmt.Sprintf("same-class edge %s→%s", e.from, e.to), "", false,
					"two locks of the same class are nested without a tabled ordering argument: "+order[e])
			}
			continue
		}
		adj[e.from] = append(adj[e.from], e.to)
		c.ob("C32.b lock-order", fmt.Sprintf("edge %s→%s", e.from, e.to), "", true, order[e])
	}
	// cycle detection
	color := map[string]int{}
	var stack []string
	var dfs func(n string) []string
	dfs = func(n string) []string {
		color[n] = 1
		stack = append(stack, n)
		for _, m := range adj[n] {
			if color[m] == 1 {
				i := 0
				for j, s := range stack {
					if s == m {
						i = j
					}
				}
				return append(append([]string{}, stack[i:]...), m)
			}
			if color[m] == 0 {
				if cyc := dfs(m); cyc != nil {
					return cyc
				}
			}
		}
		color[n] = 2
		stack = stack[:len(stack)-1]
		return nil
	}
	cyclic := false
	var nodes []string
	for n := range adj {
		nodes = append(nodes, n)
	}
	sort.Strings(nodes)
	for _, n := range nodes {
		if color[n] == 0 {
			if cyc := dfs(n); cyc != nil {
				var parts []string
				for i := 0; i+1 < len(cyc); i++ {
					parts = append(parts, fmt.Sprintf("%s→%s (%s)", cyc[i], cyc[i+1], order[edge{cyc[i], cyc[i+1]}]))
				}
				c.ob("C32.b lock-order", "cycle "+strings.Join(cyc, "→"), "", false, "lock classes are acquired in conflicting orders: "+strings.Join(parts, "; "))
				cyclic = true
				break
			}
		}
	}
	if !cyclic {
		c.ob("C32.b lock-order", "order graph acyclic", "", true, fmt.Sprintf("%d edges over %d classes", len(es), len(nodes)))
	}
}

func heldKeys(h held) string {
	var ks []string
	for k := range h {
		ks = append(ks, k)
	}
	sort.Strings(ks)
	return strings.Join(ks, ",")
}

// checkReleased: a non-deferred Lock must be followed on every path to return by the matching
// Unlock, or a matching deferred unlock must be registered on every path from the Lock.
func (c *Ctx) checkReleased(fn *ssa.Function, op lockOp) {
	isRelease := func(x ssa.Instruction) bool {
		o, ok := lockOpOf(x)
		return ok && !o.lock && o.key == op.key && o.mode == op.mode
	}
	q := &PathQuery{Fn: fn, From: op.ins,
		Target:  func(x ssa.Instruction) bool { _, r := x.(*ssa.Return); return r },
		Barrier: isRelease}
	p, hit := q.Find()
	construct := fmt.Sprintf("%s: %s locked (mode %c)", fname(fn), op.key, op.mode)
	if hit != nil {
		c.ob("C32.d unlock-all-paths", construct, c.pos(op.ins.Pos()), false,
			"a path from the Lock to a return crosses neither Unlock nor a deferred Unlock of the same mutex: "+pathStr(fn, p))
		return
	}
	c.ob("C32.d unlock-all-paths", construct, c.pos(op.ins.Pos()), true, "")
}
