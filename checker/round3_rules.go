package main

// Rules added after the third round of seeded changes (DESIGN.md 8.6). Each helper is called for the properties it
// is a necessary condition of (round3Hooks).

import (
	"fmt"
	"strconv"
	"strings"

	"golang.org/x/tools/go/ssa"
)

func round3Hooks(c *Ctx, id string) {
	switch id {
	case "C01":
		indexKindsSeparate(c, "C01.h index-kinds-separate")
	case "C02":
		containerLenIsMapLen(c, "C02.i container-len")
	case "C03":
		indexKindsSeparate(c, "C03.i index-kinds-separate")
		quotaSnapshotBeforeDecrease(c, "C03.j quota-snapshot")
	case "C04":
		defaultsLeaveCapabilitiesAlone(c, "C04.i zero-capability-is-a-setting")
	case "C06":
		indexKindsSeparate(c, "C06.i index-kinds-separate")
	case "C07":
		writeLoopKeepsDraining(c, "C07.f write-loop-drains")
		pubrecFailureOnly(c, "C07.g pubrec-failure-only")
	case "C08":
		expiryFieldsTabled(c, "C08.f expiry-fields")
		ackAfterMarker(c, "C08.g ack-after-marker")
	case "C09":
		expiryFieldsTabled(c, "C09.h expiry-fields")
		cloneCopiesAll(c, "C09.i clone-copies-all")
		pubrecFailureOnly(c, "C09.j pubrec-failure-only")
		containerLenIsMapLen(c, "C09.k container-len")
	case "C10":
		pubrecFailureOnly(c, "C10.g pubrec-failure-only")
		ackAfterMarker(c, "C10.h ack-after-marker")
	case "C11":
		quotaSnapshotBeforeDecrease(c, "C11.i quota-snapshot")
		cloneCopiesAll(c, "C11.j clone-copies-all")
		ackAfterMarker(c, "C11.k ack-after-marker")
		pubcompReturnsQuotas(c, "C11.l pubcomp-returns-quotas")
		oneReleasePerAck(c, "C11.m one-release-per-ack")
		sendQuotaOwners(c, "C11.n send-quota-owners")
	case "C12":
		quotaSnapshotBeforeDecrease(c, "C12.h quota-snapshot")
		cloneCopiesAll(c, "C12.i clone-copies-all")
		oneReleasePerAck(c, "C12.j one-release-per-ack")
		sendQuotaOwners(c, "C12.k send-quota-owners")
		noHookBeforeResend(c, "C12.l no-hook-before-resend")
	case "C13":
		connectRejections(c, "C13.g connect-rejections")
		authenticatorsTabled(c, "C13.h authenticators", "OnConnectAuthenticate")
	case "C14":
		cloneCopiesAll(c, "C14.e clone-copies-all")
	case "C15":
		defaultsLeaveCapabilitiesAlone(c, "C15.h zero-capability-is-a-setting")
	case "C17":
		authenticatorsTabled(c, "C17.f authorisers", "OnACLCheck")
	case "C25":
		expiryFieldsTabled(c, "C25.f expiry-fields")
		defaultsLeaveCapabilitiesAlone(c, "C25.g zero-capability-is-a-setting")
	case "C34":
		writeLoopKeepsDraining(c, "C34.f write-loop-drains")
	case "C35":
		defaultsLeaveCapabilitiesAlone(c, "C35.f zero-capability-is-a-setting")
	case "C38":
		containerLenIsMapLen(c, "C38.c container-len")
	}
}

// ---- integer assumptions -----------------------------------------------------------------------

// assumeIntRange: lhs is taken to lie in [lo, hi]; every condition `lhs < k`, `lhs > k`, `lhs == k` (k an integer
// literal or the Code of a packets.Code global) that this decides is decided, whatever its spelling (>=, <=, != are
// rendered through these three by normCond).
func (c *Ctx) assumeIntRange(lhs string, lo, hi int64) Assume {
	codes := c.codeValuesAST()
	num := func(s string) (int64, bool) {
		s = strings.TrimSpace(s)
		if n, err := strconv.ParseInt(s, 0, 64); err == nil {
			return n, true
		}
		if strings.HasPrefix(s, "packets.") && strings.HasSuffix(s, ".Code") {
			if v, ok := codes[strings.TrimSuffix(strings.TrimPrefix(s, "packets."), ".Code")]; ok {
				return v, true
			}
		}
		return 0, false
	}
	return Assume{Eval: func(t string) (bool, bool) {
		for _, op := range []string{" < ", " > ", " == "} {
			i := strings.Index(t, op)
			if i < 0 {
				continue
			}
			l, r := t[:i], t[i+len(op):]
			o := op
			if r == lhs { // constant on the left: mirror
				l, r = r, l
				switch op {
				case " < ":
					o = " > "
				case " > ":
					o = " < "
				}
			}
			if l != lhs {
				continue
			}
			k, ok := num(r)
			if !ok {
				return false, false
			}
			switch o {
			case " < ":
				if hi < k {
					return true, true
				}
				if lo >= k {
					return false, true
				}
			case " > ":
				if lo > k {
					return true, true
				}
				if hi <= k {
					return false, true
				}
			case " == ":
				if lo == hi && lo == k {
					return true, true
				}
				if k < lo || k > hi {
					return false, true
				}
			}
			return false, false
		}
		return false, false
	}}
}

// ---- C01/C03/C06: the two kinds of index entries --------------------------------------------

// indexKindsSeparate: in TopicsIndex.Subscribe and Unsubscribe the client's ordinary entry of a node is touched only on
// the edge where the filter is not a share filter, and the share-group entry only on the edge where it is: `F` and
// `$share/g/F` live on the same node, so an unsubscribe of one must leave the other alone.
func indexKindsSeparate(c *Ctx, rule string) {
	isShareTest := textHas("strings.EqualFold(", "mqtt.SharePrefix")
	n := 0
	for _, fnName := range []string{"(*TopicsIndex).Subscribe", "(*TopicsIndex).Unsubscribe"} {
		f := c.fn("mqtt", fnName)
		if f == nil {
			continue
		}
		for _, ci := range c.callsNamed(f, "(*mqtt.Subscriptions).Delete", "(*mqtt.Subscriptions).Add") {
			n++
			c.underFact(rule, fmt.Sprintf("%s: %s of the client's ordinary entry only for a filter that is not a share filter", fname(f), strings.TrimPrefix(cname(ci.Common()), "(*mqtt.Subscriptions).")), ci, isShareTest, false,
				"the ordinary subscription on F and the membership in $share/g/F are stored on the same node")
		}
		for _, ci := range c.callsNamed(f, "(*mqtt.SharedSubscriptions).Delete", "(*mqtt.SharedSubscriptions).Add") {
			n++
			c.underFact(rule, fmt.Sprintf("%s: %s of the share-group entry only for a share filter", fname(f), strings.TrimPrefix(cname(ci.Common()), "(*mqtt.SharedSubscriptions).")), ci, isShareTest, true, "")
		}
	}
	c.floor(rule+" entry updates in Subscribe/Unsubscribe", n, 4)
}

// ---- C03/C11/C12: hold-back decision -----------------------------------------------------------

// quotaSnapshotBeforeDecrease: publishToClient parks a message (Expiry = -1) when the send quota was already used up
// BEFORE this message took its slot. The value compared with 0 on the parking edge is therefore a read of sendQuota
// that executes before DecreaseSendQuota; reading it afterwards parks the message that took the last slot.
func quotaSnapshotBeforeDecrease(c *Ctx, rule string) {
	f := c.fn("mqtt", "(*Server).publishToClient")
	if f == nil {
		return
	}
	dec := c.call1(f, "(*mqtt.Inflight).DecreaseSendQuota")
	if dec == nil {
		c.ob(rule, "(*mqtt.Server).publishToClient takes a send slot (DecreaseSendQuota)", c.pos(f.Pos()), false, "call not found")
		return
	}
	n := 0
	for _, st := range storesTo(f, "out.Expiry") {
		if k, ok := constInt(st.Val); !ok || k != -1 {
			continue
		}
		// the quota reads that decide this store
		for _, b := range f.Blocks {
			if len(b.Instrs) == 0 {
				continue
			}
			ifi, isIf := b.Instrs[len(b.Instrs)-1].(*ssa.If)
			if !isIf || !b.Dominates(st.Block()) {
				continue
			}
			v, _ := stripNot(ifi.Cond)
			bo, isBin := v.(*ssa.BinOp)
			if !isBin {
				continue
			}
			for _, side := range []ssa.Value{bo.X, bo.Y} {
				call, isCall := side.(*ssa.Call)
				if !isCall || !strings.HasSuffix(describe(call), ".sendQuota)") || !strings.HasPrefix(cname(&call.Call), "sync/atomic.Load") {
					continue
				}
				n++
				c.ob(rule, "(*mqtt.Server).publishToClient: the send quota that decides whether a message is parked is read before the message takes its slot", c.pos(call.Pos()),
					!reachableFrom(dec, call), "read after DecreaseSendQuota: with Receive Maximum N the N-th message is parked although a slot was free, and its acknowledgement returns nothing")
			}
		}
	}
	c.floor(rule+" quota reads deciding the parking edge", n, 1)
}

// ---- C04/C15/C25/C35: defaults -------------------------------------------------------------------

// defaultsLeaveCapabilitiesAlone: in Capabilities a zero is a setting (maximum QoS 0, retain unavailable, no expiry
// cap, no client limit …). Options.ensureDefaults may replace a nil Capabilities and fill MaximumInflight; it stores to
// no other capability.
func defaultsLeaveCapabilitiesAlone(c *Ctx, rule string) {
	f := c.fn("mqtt", "(*Options).ensureDefaults")
	if f == nil {
		return
	}
	// the capabilities of the reference tree whose zero value is a setting of its own (a field the reference tree does
	// not have is none of this rule's business)
	zeroIsSetting := map[string]bool{}
	for _, fld := range []string{"MaximumClients", "MaximumMessageExpiryInterval", "MaximumClientWritesPending", "MaximumSessionExpiryInterval", "MaximumPacketSize",
		"ReceiveMaximum", "TopicAliasMaximum", "SharedSubAvailable", "MinimumProtocolVersion", "MaximumQos", "RetainAvailable", "WildcardSubAvailable", "SubIDAvailable"} {
		zeroIsSetting["o.Capabilities."+fld] = true
	}
	n := 0
	for _, g := range withAnon(f) {
		for _, ins := range instrs(g) {
			st, ok := ins.(*ssa.Store)
			if !ok {
				continue
			}
			a := describe(st.Addr)
			if !strings.HasPrefix(a, "o.Capabilities.") {
				continue
			}
			n++
			c.ob(rule, fmt.Sprintf("(*mqtt.Options).ensureDefaults: store to %s (only MaximumInflight has a default)", a), c.pos(st.Pos()), !zeroIsSetting[a] && !strings.HasPrefix(a, "o.Capabilities.Compatibilities."),
				"a capability set to its zero value on purpose (maximum QoS 0, retain unavailable, no expiry cap) would be overwritten")
		}
	}
	c.floor(rule+" capability stores in ensureDefaults", n, 2)
}

// ---- C07/C34: the write loop -------------------------------------------------------------------

// writeLoopKeepsDraining: Client.WriteLoop returns only when the client's context is done. A failed write of one
// queued packet (oversized for the client, say) must not end the loop: packets queued later, responses among them,
// would stay in the channel of a connection that remains open.
func writeLoopKeepsDraining(c *Ctx, rule string) {
	f := c.fn("mqtt", "(*Client).WriteLoop")
	if f == nil {
		return
	}
	n := 0
	for _, w := range c.callsNamed(f, fnWritePacket) {
		n++
		isSelect := func(x ssa.Instruction) bool { _, ok := x.(*ssa.Select); return ok }
		c.noPath(rule, "(*mqtt.Client).WriteLoop: after writing a queued packet the loop waits for the next one (no return, whatever the write returned)", f, w, anyReturn, isSelect, nil,
			"a write error ends the loop while the connection stays open: later packets are never written")
	}
	c.floor(rule+" queue writes in WriteLoop", n, 1)
}

// ---- C08/C09/C25: what expiry looks at --------------------------------------------------------

// expiryFieldsTabled: ClearExpiredInflights decides from the record's ProtocolVersion, Expiry, Created (and removes by
// PacketID). An acknowledgement marker copies the properties of the packet it answers (buildAck), so a decision that
// reads any other field of the record — its Properties for instance — applies a publisher's message expiry to the
// marker of the exchange.
func expiryFieldsTabled(c *Ctx, rule string) {
	f := c.fn("mqtt", "(*Client).ClearExpiredInflights")
	if f == nil {
		return
	}
	allowed := map[string]bool{"ProtocolVersion": true, "Expiry": true, "Created": true, "PacketID": true}
	bad := map[string]bool{}
	n := 0
	for _, b := range f.Blocks {
		if len(b.Instrs) == 0 {
			continue
		}
		ifi, ok := b.Instrs[len(b.Instrs)-1].(*ssa.If)
		if !ok {
			continue
		}
		seen := map[ssa.Value]bool{}
		var walk func(v ssa.Value, d int)
		walk = func(v ssa.Value, d int) {
			if v == nil || seen[v] || d > 14 {
				return
			}
			seen[v] = true
			if t := describe(v); strings.HasPrefix(t, "tk.") && !strings.ContainsAny(t, " (") {
				n++
				field := strings.TrimPrefix(t, "tk.")
				if i := strings.IndexByte(field, '.'); i >= 0 {
					field = field[:i]
				}
				if !allowed[field] {
					bad[t] = true
				}
			}
			if ph, isPhi := v.(*ssa.Phi); isPhi {
				for _, e := range ph.Edges {
					walk(e, d+1)
				}
				return
			}
			if ins, isIns := v.(ssa.Instruction); isIns {
				for _, op := range ins.Operands(nil) {
					if *op != nil {
						walk(*op, d+1)
					}
				}
			}
		}
		walk(ifi.Cond, 0)
	}
	var bl []string
	for k := range bad {
		bl = append(bl, k)
	}
	c.ob(rule, "(*mqtt.Client).ClearExpiredInflights decides from the record's ProtocolVersion, Expiry and Created only", c.pos(f.Pos()), len(bad) == 0,
		"also reads "+strings.Join(bl, ", ")+": an acknowledgement marker carries the properties of the packet it answers")
	c.floor(rule+" record fields read by the expiry conditions", n, 3)
}

// ---- C09/C11/C12/C14: session transfer ---------------------------------------------------------

// cloneCopiesAll: Inflight.Clone hands the whole in-flight map to the resumed session: every iteration of its loop
// stores the entry (no filter — parked messages carry Expiry -1, markers carry 0).
func cloneCopiesAll(c *Ctx, rule string) {
	f := c.fn("mqtt", "(*Inflight).Clone")
	if f == nil {
		return
	}
	var body, head *ssa.BasicBlock
	for _, b := range f.Blocks {
		switch b.Comment {
		case "rangeiter.body":
			if body == nil {
				body = b
			}
		case "rangeiter.loop":
			if head == nil {
				head = b
			}
		}
	}
	if body == nil || head == nil {
		c.ob(rule, "(*mqtt.Inflight).Clone ranges over the stored records", c.pos(f.Pos()), false, "no range loop over the map found")
		return
	}
	isUpd := func(x ssa.Instruction) bool { _, ok := x.(*ssa.MapUpdate); return ok }
	isHead := func(x ssa.Instruction) bool { return x.Block() == head && idxIn(x) == 0 }
	c.noPath(rule, "(*mqtt.Inflight).Clone: every stored record is copied (no iteration skips the map update)", f, body.Instrs[0], isHead, isUpd, nil,
		"a record left behind at session transfer is neither resent nor completed")
	src := false
	for _, ins := range instrs(f) {
		if r, ok := ins.(*ssa.Range); ok && describe(r.X) == "i.internal" {
			src = true
		}
	}
	c.ob(rule, "(*mqtt.Inflight).Clone ranges over the receiver's own map", c.pos(f.Pos()), src, "")
}

// ---- C07/C09/C10: PUBREC ----------------------------------------------------------------------

// pubrecFailureOnly: processPubrec abandons the exchange (removes the record, sends no PUBREL) only for a failure
// reason code: with a valid code below 0x80 — 0x00 or a success-class code such as 0x10 — no path reaches the removal.
func pubrecFailureOnly(c *Ctx, rule string) {
	f := c.fn("mqtt", "(*Server).processPubrec")
	if f == nil {
		return
	}
	if len(c.callsNamed(f, fnInflDelete)) == 0 {
		c.floor(rule+" record removals in processPubrec", 0, 1)
		return
	}
	valid := Assume{Match: func(t string) bool { return strings.HasSuffix(t, "ReasonCodeValid(pk)") }, Truth: true}
	for _, r := range [][2]int64{{0, 0}, {1, 127}} {
		c.noPath(rule, fmt.Sprintf("(*mqtt.Server).processPubrec: a PUBREC with a valid reason code in [%d, %d] never removes the in-flight record", r[0], r[1]), f, nil, isNamed(fnInflDelete), nil,
			[]Assume{c.assumeIntRange("pk.ReasonCode", r[0], r[1]), valid, assumeHas("(*mqtt.Inflight).Get(cl.State.Inflight, pk.PacketID)#1", true)},
			"the exchange is still open: the broker must answer PUBREL and keep the packet id occupied until PUBCOMP")
	}
}

// ---- C08/C10/C11: the acknowledgement of an inbound QoS>0 publish ------------------------------

// ackAfterMarker: in processPublish the acknowledgement built for a QoS>0 publish is written only after it was
// stored in the in-flight map (for QoS 2 that record is what keeps the packet id occupied until PUBREL).
func ackAfterMarker(c *Ctx, rule string) {
	f := c.fn("mqtt", "(*Server).processPublish")
	if f == nil {
		return
	}
	n := 0
	for _, set := range c.callsNamed(f, fnInflSet) {
		ack := describe(set.Common().Args[1]) // the variable may live in a cell: compare access paths, not SSA values
		for _, w := range c.callsNamed(f, fnWritePacket) {
			if describe(w.Common().Args[1]) != ack {
				continue
			}
			n++
			_, hit := (&PathQuery{Fn: f, Target: isIns(w), Barrier: isIns(set)}).Find()
			c.ob(rule, "(*mqtt.Server).processPublish: the acknowledgement of a QoS>0 publish is written only after its record was stored (Inflight.Set)", c.pos(w.Pos()), hit == nil,
				"an acknowledged QoS 2 publish without a record leaves its packet id free while the exchange is open")
		}
	}
	// every write of an acknowledgement built here is one of those
	for _, w := range c.callsNamed(f, fnWritePacket) {
		arg := w.Common().Args[1]
		isAck := false
		var seen = map[ssa.Value]bool{}
		var walk func(v ssa.Value)
		walk = func(v ssa.Value) {
			if seen[v] {
				return
			}
			seen[v] = true
			if call, ok := v.(*ssa.Call); ok && cname(&call.Call) == fnBuildAck {
				// a success acknowledgement (the refusals — packet id in use, a hook's failure code — end the exchange)
				reason := describe(call.Call.Args[5])
				if k, isK := constInt(call.Call.Args[2]); isK && (k == 4 || k == 5) && (reason == "packets.CodeSuccess" || strings.HasPrefix(reason, "packets.QosCodes[")) {
					isAck = true
				}
			}
			if ph, ok := v.(*ssa.Phi); ok {
				for _, e := range ph.Edges {
					walk(e)
				}
			}
		}
		walk(arg)
		if !isAck {
			continue
		}
		stored := false
		for _, set := range c.callsNamed(f, fnInflSet) {
			if describe(set.Common().Args[1]) == describe(arg) {
				stored = true
			}
		}
		if !stored {
			n++
			c.ob(rule, "(*mqtt.Server).processPublish: the acknowledgement of a QoS>0 publish is written only after its record was stored (Inflight.Set)", c.pos(w.Pos()), false,
				"this write sends "+describe(arg)+", which is never stored")
		}
	}
	c.floor(rule+" acknowledgement writes in processPublish", n, 1)
}

// ---- C11: quotas -----------------------------------------------------------------------------

// pubcompReturnsQuotas: processPubcomp returns the send slot and the receive slot on every path — also when the
// record is gone already (a parked message is removed from the map when it is released, so its PUBCOMP finds nothing).
func pubcompReturnsQuotas(c *Ctx, rule string) {
	f := c.fn("mqtt", "(*Server).processPubcomp")
	if f == nil {
		return
	}
	for _, q := range []string{"(*mqtt.Inflight).IncreaseSendQuota", "(*mqtt.Inflight).IncreaseReceiveQuota"} {
		c.noPath(rule, "(*mqtt.Server).processPubcomp: every path calls "+strings.TrimPrefix(q, "(*mqtt.Inflight)."), f, nil, anyReturn, isNamed(q), nil,
			"the slot of an exchange whose record was removed on release would never come back")
	}
}

// oneReleasePerAck: after one acknowledgement processPacket releases at most one parked message (one slot came
// back): the write of the released message is not inside a loop.
func oneReleasePerAck(c *Ctx, rule string) {
	f := c.fn("mqtt", "(*Server).processPacket")
	if f == nil {
		return
	}
	n := 0
	for _, w := range c.callsNamed(f, fnWritePacket) {
		n++
		c.ob(rule, "(*mqtt.Server).processPacket: one handled packet releases at most one parked message", c.pos(w.Pos()), !reachableFrom(w, w),
			"releasing several messages for one returned slot puts more unacknowledged publishes in flight than the client's Receive Maximum")
	}
	c.floor(rule+" release writes in processPacket", n, 1)
}

// sendQuotaOwners: the send quota is returned only by the handlers of the acknowledgements that end an outbound
// exchange (and by publishToClient's own roll-back); housekeeping that removes a record releases no parked message,
// so returning a slot there lets the next publish overtake the parked ones.
func sendQuotaOwners(c *Ctx, rule string) {
	c.whoCalls(rule, c.fn("mqtt", "(*Inflight).IncreaseSendQuota"), map[string]string{
		"(*mqtt.Server).processPuback":    "PUBACK ends a QoS 1 delivery",
		"(*mqtt.Server).processPubrec":    "a failure PUBREC ends a QoS 2 delivery",
		"(*mqtt.Server).processPubcomp":   "PUBCOMP ends a QoS 2 delivery",
		"(*mqtt.Server).processPubrel":    "PUBREL ends an inbound QoS 2 exchange; the broker returns both slots there",
		"(*mqtt.Server).publishToClient":  "roll-back of a delivery that could not be queued",
		"(*mqtt.Inflight).ResetSendQuota": "",
	})
}

// ---- C12: resume order ---------------------------------------------------------------------------

// noHookBeforeResend: between the successful CONNACK and the resend of the session's stored messages attachClient
// calls no hook: the client is registered and its write loop runs, so a publish that arrives while a hook runs would
// be written before the older messages of the session.
func noHookBeforeResend(c *Ctx, rule string) {
	f := c.fn("mqtt", "(*Server).attachClient")
	if f == nil {
		return
	}
	resend := c.call1(f, "(*mqtt.Client).ResendInflightMessages")
	if resend == nil {
		c.ob(rule, "(*mqtt.Server).attachClient resends the stored messages of a resumed session", c.pos(f.Pos()), false, "call not found")
		return
	}
	n := 0
	for _, ack := range c.callsNamed(f, fnSendConnack) {
		if !reachableFrom(ack, resend) {
			continue
		}
		n++
		for _, ins := range instrs(f) {
			cc := callOf(ins)
			if cc == nil || !strings.HasPrefix(cname(cc), "(*mqtt.Hooks).On") {
				continue
			}
			if reachableFrom(ack, ins) && reachableFrom(ins, resend) {
				c.ob(rule, fmt.Sprintf("(*mqtt.Server).attachClient calls no hook between the CONNACK and the resend (%s)", strings.TrimPrefix(cname(cc), "(*mqtt.Hooks).")), c.pos(ins.Pos()), false,
					"a publish arriving while the hook runs overtakes the session's older messages")
			}
		}
	}
	c.ob(rule, "(*mqtt.Server).attachClient: the resend follows the CONNACK", c.pos(resend.Pos()), n > 0, "")
}

// ---- C02/C09/C38: container sizes ---------------------------------------------------------------

// containerLenIsMapLen: the Len of the map containers (Packets, Clients, Inflight, Subscriptions,
// InlineSubscriptions) is the size of the map itself, read under the container's lock — callers use it as an
// emptiness test that short-cuts scans (retained messages, parked messages).
func containerLenIsMapLen(c *Ctx, rule string) {
	n := 0
	for _, t := range [][2]string{{"packets", "(*Packets).Len"}, {"mqtt", "(*Clients).Len"}, {"mqtt", "(*Inflight).Len"}, {"mqtt", "(*Subscriptions).Len"}, {"mqtt", "(*InlineSubscriptions).Len"}} {
		f := c.fn(t[0], t[1])
		if f == nil || len(f.Params) == 0 {
			continue
		}
		want := "builtin.len(" + canonName(f.Params[0], f.Params[0].Name()) + ".internal)"
		for _, r := range returns(f) {
			vs := rvs(r)
			if len(vs) != 1 {
				continue
			}
			if _, isRecover := vs[0].(*ssa.UnOp); isRecover && r.Block().Comment == "recover" {
				continue
			}
			n++
			c.ob(rule, fname(f)+" returns the size of the map itself", c.pos(r.Pos()), describe(vs[0]) == want, "returns "+describe(vs[0])+": a separately kept count can drift from the map (a Delete of an absent key)")
		}
	}
	c.floor(rule+" Len returns", n, 5)
}

// ---- C13: what a CONNECT is refused for ------------------------------------------------------

type rejectRow struct {
	what  string
	facts []Assume
}

// connectRejections: for each protocol violation tabled below, no path through the validator reaches its success
// return while the violation's facts hold.
func connectRejections(c *Ctx, rule string) {
	if f := c.fn("mqtt", "(*Server).validateConnect"); f != nil {
		okFact := Assume{Match: func(t string) bool { return strings.HasSuffix(t, "ConnectValidate(pk) == packets.CodeSuccess") }, Truth: true}
		success := func(x ssa.Instruction) bool {
			r, ok := x.(*ssa.Return)
			if !ok {
				return false
			}
			vs := rvs(r)
			return len(vs) == 1 && (strings.HasSuffix(describe(vs[0]), "ConnectValidate(pk)") || describe(vs[0]) == "packets.CodeSuccess")
		}
		var rows []rejectRow
		for _, v := range []int64{3, 4} {
			rows = append(rows, rejectRow{fmt.Sprintf("protocol level %d, clean session 0, empty client id", v),
				[]Assume{c.assumeIntRange("cl.Properties.ProtocolVersion", v, v), assumeEq("pk.Connect.Clean", false), assumeEq(`pk.Connect.ClientIdentifier == ""`, true), assumeEq("builtin.len(pk.Connect.ClientIdentifier) == 0", true)}})
		}
		rows = append(rows,
			rejectRow{"protocol level below the server minimum", []Assume{assumeEq("cl.Properties.ProtocolVersion < s.Options.Capabilities.MinimumProtocolVersion", true)}},
			rejectRow{"will QoS above the server maximum", []Assume{assumeEq("cl.Properties.Will.Qos > s.Options.Capabilities.MaximumQos", true)}},
			rejectRow{"retained will while retain is unavailable", []Assume{assumeEq("cl.Properties.Will.Retain", true), assumeEq("s.Options.Capabilities.RetainAvailable == 0", true)}},
		)
		for _, r := range rows {
			c.noPath(rule, "(*mqtt.Server).validateConnect never accepts: "+r.what, f, nil, success, nil, append([]Assume{okFact}, r.facts...), "a CONNECT violating the protocol never yields a session")
		}
	}
	if f := c.fn("packets", "(*Packet).ConnectValidate"); f != nil {
		success := func(x ssa.Instruction) bool {
			r, ok := x.(*ssa.Return)
			if !ok {
				return false
			}
			vs := rvs(r)
			return len(vs) == 1 && describe(vs[0]) == "packets.CodeSuccess"
		}
		rows := []rejectRow{
			{"reserved flag bit set", []Assume{assumeEq("pk.ReservedBit == 0", false)}},
			{"password longer than 65535", []Assume{assumeEq("builtin.len(pk.Connect.Password) > 65535", true)}},
			{"username longer than 65535", []Assume{assumeEq("builtin.len(pk.Connect.Username) > 65535", true)}},
			{"username without its flag", []Assume{assumeEq("pk.Connect.UsernameFlag", false), assumeEq("builtin.len(pk.Connect.Username) == 0", false)}},
			{"password flag without password", []Assume{assumeEq("pk.Connect.PasswordFlag", true), assumeEq("builtin.len(pk.Connect.Password) == 0", true)}},
			{"password without its flag", []Assume{assumeEq("pk.Connect.PasswordFlag", false), assumeEq("builtin.len(pk.Connect.Password) == 0", false)}},
			{"client id longer than 65535", []Assume{assumeEq("builtin.len(pk.Connect.ClientIdentifier) > 65535", true)}},
			{"will flag with empty will payload", []Assume{assumeEq("pk.Connect.WillFlag", true), assumeEq("builtin.len(pk.Connect.WillPayload) == 0", true)}},
			{"will flag with empty will topic", []Assume{assumeEq("pk.Connect.WillFlag", true), assumeEq(`pk.Connect.WillTopic == ""`, true), assumeEq("builtin.len(pk.Connect.WillTopic) == 0", true)}},
			{"will QoS 3", []Assume{assumeEq("pk.Connect.WillFlag", true), c.assumeIntRange("pk.Connect.WillQos", 3, 3)}},
			{"will retain without will flag", []Assume{assumeEq("pk.Connect.WillFlag", false), assumeEq("pk.Connect.WillRetain", true)}},
		}
		for _, r := range rows {
			c.noPath(rule, "(*packets.Packet).ConnectValidate never accepts: "+r.what, f, nil, success, nil, r.facts, "a CONNECT violating the protocol never yields a session")
		}
	}
}

// ---- C13/C17: who may say yes ----------------------------------------------------------------

// authenticatorsTabled: the dispatcher ORs the hooks' answers, so every implementation of the method that can answer
// true admits the client. Only the authentication hooks implement it; HookBase answers false; a hook written for
// something else (logging, storage) that grows the method admits everybody.
func authenticatorsTabled(c *Ctx, rule string, method string) {
	allowed := map[string]string{
		"(*mqtt.HookBase)." + method:        "the default: false",
		"(*hooks/auth.AllowHook)." + method: "the allow-all hook, installed on purpose",
		"(*hooks/auth.Hook)." + method:      "the ledger hook",
	}
	n := 0
	for _, g := range c.cg.impls["(mqtt.Hook)."+method] {
		if g.Synthetic != "" {
			continue // promoted from an embedded HookBase: that is HookBase's own answer
		}
		n++
		nme := fname(g)
		_, ok := allowed[nme]
		if strings.HasPrefix(fnPkgPath(g), modPath+"/hooks/auth") {
			ok = true // an authentication hook, by the package it lives in
		}
		c.ob(rule, fmt.Sprintf("%s implements the hook method (only HookBase and the hooks of hooks/auth answer it)", nme), c.pos(g.Pos()), ok,
			"the dispatcher admits a client as soon as one hook answers true")
	}
	c.floor(rule+" implementations of "+method, n, 3)
	if f := c.optFn("mqtt", "(*HookBase)."+method); f != nil {
		for _, r := range returns(f) {
			vs := rvs(r)
			isFalse := false
			if len(vs) == 1 {
				if k, ok := vs[0].(*ssa.Const); ok && k.Value != nil && k.Value.String() == "false" {
					isFalse = true
				}
			}
			c.ob(rule, "(*mqtt.HookBase)."+method+" answers false", c.pos(r.Pos()), isFalse, "")
		}
	}
}
