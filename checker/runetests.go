package main

// "Does string s contain character r" has several spellings in package strings (ContainsRune, ContainsAny with a set,
// Contains with a one-character string, the Index variants). runeTests lists a function's tests of that kind by
// subject and the characters they look for, so a rule about "the validator looks for '+' in the filter" does not
// depend on the spelling.

import (
	"go/constant"
	"unicode/utf8"

	"golang.org/x/tools/go/ssa"
)

type runeTest struct {
	call     *ssa.Call
	subject  string
	runes    string
	contains bool // a Contains* form (boolean), as opposed to an Index* form (position)
}

func runeTests(f *ssa.Function) []runeTest {
	var out []runeTest
	for _, ins := range instrs(f) {
		call, ok := ins.(*ssa.Call)
		if !ok {
			continue
		}
		callee := call.Call.StaticCallee()
		if callee == nil || callee.Pkg == nil || callee.Pkg.Pkg.Path() != "strings" || len(call.Call.Args) != 2 {
			continue
		}
		k, ok := call.Call.Args[1].(*ssa.Const)
		if !ok || k.Value == nil {
			continue
		}
		t := runeTest{call: call, subject: describe(call.Call.Args[0])}
		switch callee.Name() {
		case "ContainsRune", "IndexRune", "IndexByte":
			if k.Value.Kind() != constant.Int {
				continue
			}
			v, exact := constant.Int64Val(k.Value)
			if !exact {
				continue
			}
			t.runes = string(rune(v))
			t.contains = callee.Name() == "ContainsRune"
		case "ContainsAny", "IndexAny":
			if k.Value.Kind() != constant.String {
				continue
			}
			t.runes = constant.StringVal(k.Value)
			t.contains = callee.Name() == "ContainsAny"
		case "Contains", "Index":
			if k.Value.Kind() != constant.String || utf8.RuneCountInString(constant.StringVal(k.Value)) != 1 {
				continue
			}
			t.runes = constant.StringVal(k.Value)
			t.contains = callee.Name() == "Contains"
		default:
			continue
		}
		out = append(out, t)
	}
	return out
}

// looksFor: is there a Contains-style test of the subject for the character?
func looksFor(ts []runeTest, subject string, r rune) bool {
	for _, t := range ts {
		if t.contains && t.subject == subject {
			for _, x := range t.runes {
				if x == r {
					return true
				}
			}
		}
	}
	return false
}
