package main

// Rules added after the second round of seeded changes, part 6.

import (
	"fmt"
	"strings"

	"golang.org/x/tools/go/ssa"
)

func round2Hooks6(c *Ctx, id string) {
	switch id {
	case "C23":
		sameNameCopies(c, "C23.i same-name-copies", c.optFn("packets", "(*Properties).Copy"), c.optFn("packets", "(*Packet).Copy"), c.optFn("mqtt", "(*Client).ParseConnect"))
	case "C03":
		sameNameCopies(c, "C03.i same-name-copies", c.optFn("packets", "(*Properties).Copy"), c.optFn("packets", "(*Packet).Copy"))
	case "C25":
		retainedExpiryReported(c, "C25.g retained-expiry-reported")
		sweepVisitsEveryClient(c, "C25.h sweep-visits-every-client")
	case "C20":
		retainedExpiryReported(c, "C20.j retained-expiry-reported")
		loadLoopsExhaustive(c, "C20.k restore-loops-exhaustive")
	case "C21":
		loadLoopsExhaustive(c, "C21.f restore-loops-exhaustive")
		storedRecordsPersisted(c, "C21.g stored-records-persisted")
	case "C09":
		storedRecordsPersisted(c, "C09.i stored-records-persisted")
	case "C26":
		failureCodeAlwaysEncoded(c, "C26.f failure-code-always-encoded")
		flagMeansFieldWritten(c, "C26.g flag-means-field-written")
	case "C42":
		failureCodeAlwaysEncoded(c, "C42.d failure-code-always-encoded")
	case "C24":
		outboundAliasBound(c, "C24.e outbound-alias-bound")
		zeroMeansDisabled(c, "C24.f zero-means-disabled")
	}
}

// retainedExpiryReported: housekeeping that removes a retained message from memory reports it to the hooks
// (OnRetainedExpired) on every path of that iteration, whichever clause (own interval or server maximum) expired it.
func retainedExpiryReported(c *Ctx, rule string) {
	f := c.fn("mqtt", "(*Server).clearExpiredRetainedMessages")
	if f == nil {
		return
	}
	var head *ssa.BasicBlock
	for _, b := range f.Blocks {
		if strings.HasSuffix(b.Comment, ".loop") && head == nil {
			head = b
		}
	}
	n := 0
	for _, ci := range c.callsNamed(f, "(*packets.Packets).Delete") {
		if !strings.HasSuffix(describe(ci.Common().Args[0]), "Topics.Retained") {
			continue
		}
		n++
		_, hit := (&PathQuery{Fn: f, From: ci, Target: func(x ssa.Instruction) bool {
			if _, isRet := x.(*ssa.Return); isRet {
				return true
			}
			return head != nil && x == head.Instrs[0]
		}, Barrier: isNamed("(*mqtt.Hooks).OnRetainedExpired")}).Find()
		c.ob(rule, fmt.Sprintf("(*mqtt.Server).clearExpiredRetainedMessages: a retained message removed under %s is reported through OnRetainedExpired", guardKey(ci)), c.pos(ci.Pos()), hit == nil,
			"the store keeps the message: after a restart loadRetained brings the expired message back and it is delivered to new subscribers")
	}
	c.floor(rule+" removals from the retained store in the sweep", n, 1)
}

// sweepVisitsEveryClient: the in-flight expiry sweep applies to every client record, connected or not (a session
// restored from the store has no connection until its client returns): the call of ClearExpiredInflights is guarded by
// nothing but the loop over Clients.GetAll.
func sweepVisitsEveryClient(c *Ctx, rule string) {
	f := c.fn("mqtt", "(*Server).clearExpiredInflights")
	if f == nil {
		return
	}
	ci := c.call1(f, "(*mqtt.Client).ClearExpiredInflights")
	if ci == nil {
		c.ob(rule, "(*mqtt.Server).clearExpiredInflights calls Client.ClearExpiredInflights", c.pos(f.Pos()), false, "site not found")
		return
	}
	bad := ""
	for _, ed := range edgeDoms(ci) {
		t, _, ok := condOf(ed.b)
		if !ok {
			continue
		}
		if (strings.HasPrefix(t, "next(range(") && strings.HasSuffix(t, "#0")) || strings.HasPrefix(t, "φrangeindex + 1 < ") {
			continue // the loop's own iteration test
		}
		bad = t
	}
	c.ob(rule, "(*mqtt.Server).clearExpiredInflights sweeps every client record unconditionally", c.pos(ci.Pos()), bad == "",
		"the sweep is skipped under "+bad+": sessions without a live connection (restored after a restart) keep their expired messages and get them resent")
}

// loadLoopsExhaustive: the restore functions visit every stored record: their loops are left only by exhaustion
// (no break/return inside an iteration).
func loadLoopsExhaustive(c *Ctx, rule string) {
	for _, name := range []string{"(*Server).loadSubscriptions", "(*Server).loadClients", "(*Server).loadInflight", "(*Server).loadRetained"} {
		f := c.fn("mqtt", name)
		if f == nil {
			continue
		}
		var head, body, done *ssa.BasicBlock
		for _, b := range f.Blocks {
			switch {
			case strings.HasSuffix(b.Comment, ".loop") && head == nil:
				head = b
			case strings.HasSuffix(b.Comment, ".body") && body == nil:
				body = b
			case strings.HasSuffix(b.Comment, ".done") && done == nil:
				done = b
			}
		}
		if head == nil || body == nil {
			c.ob(rule, fname(f)+" iterates over the stored records", c.pos(f.Pos()), false, "loop not found")
			continue
		}
		_, hit := (&PathQuery{Fn: f, From: body.Instrs[0], Target: func(x ssa.Instruction) bool {
			if _, isRet := x.(*ssa.Return); isRet {
				return true
			}
			return done != nil && x == done.Instrs[0]
		}, Barrier: func(x ssa.Instruction) bool { return x == head.Instrs[0] }}).Find()
		c.ob(rule, fname(f)+": the restore loop is left only when the stored records are exhausted", c.pos(body.Instrs[0].Pos()), hit == nil,
			"a break/return inside an iteration drops every record that sorts after the one that triggered it")
	}
}

// storedRecordsPersisted: every outbound record that publishToClient stores in the in-flight map is handed to
// hooks.OnQosPublish on that path (before or after the store), including a message held back by the receive maximum.
func storedRecordsPersisted(c *Ctx, rule string) {
	f := c.fn("mqtt", "(*Server).publishToClient")
	if f == nil {
		return
	}
	persist := isNamed("(*mqtt.Hooks).OnQosPublish")
	sets := c.callsNamed(f, fnInflSet)
	c.floor(rule+" Inflight.Set sites in publishToClient", len(sets), 2)
	var firstText string
	if len(sets) > 0 {
		if call := asCall(sets[0]); call != nil {
			firstText = describe(call)
		}
	}
	for _, s := range sets {
		as := []Assume{}
		if call := asCall(s); call != nil && len(*call.Referrers()) > 0 {
			as = append(as, assumeEq(describe(call), true)) // the record is new
		} else if firstText != "" {
			as = append(as, assumeEq(firstText, true))
		}
		// a persist call on every path to s, or on every path from s to a return
		_, before := (&PathQuery{Fn: f, Target: isIns(s), Barrier: persist, Assume: as}).Find()
		_, after := (&PathQuery{Fn: f, From: s, Target: anyReturn, Barrier: persist, Assume: as}).Find()
		c.ob(rule, fmt.Sprintf("(*mqtt.Server).publishToClient: the record stored under %s is handed to OnQosPublish on every path", guardKey(s)), c.pos(s.Pos()), before == nil || after == nil,
			"a message kept only in memory (e.g. held back by the subscriber's receive maximum) is lost by a crash although the publisher was acknowledged")
	}
}

// failureCodeAlwaysEncoded: the v5 encoder of PUBACK/PUBREC/PUBREL/PUBCOMP writes the reason byte for every
// failure code (>= 0x80): the short two-byte form decodes as reason 0 (success).
func failureCodeAlwaysEncoded(c *Ctx, rule string) {
	f := c.fn("packets", "(*Packet).encodePubAckRelRecComp")
	if f == nil {
		return
	}
	isReasonWrite := func(x ssa.Instruction) bool {
		cc := callOf(x)
		return cc != nil && cname(cc) == "(*bytes.Buffer).WriteByte" && len(cc.Args) == 2 && describe(cc.Args[1]) == "pk.ReasonCode"
	}
	n := 0
	for _, ins := range instrs(f) {
		if isReasonWrite(ins) {
			n++
		}
	}
	c.floor(rule+" reason-byte writes", n, 1)
	c.noPath(rule, "(*packets.Packet).encodePubAckRelRecComp: for MQTT 5 every failure reason code (>= 0x80) is written", f, nil, anyReturn, isReasonWrite,
		[]Assume{assumeEq("pk.ProtocolVersion == 5", true), assumeEq("pk.ReasonCode < packets.ErrUnspecifiedError.Code", false)},
		"an acknowledgement carrying exactly the threshold code is encoded in the short form and decodes as success")
}

// flagMeansFieldWritten: in ConnectEncode the connect-flags byte and the payload agree: a field whose flag is set is
// written (even when empty — a two-byte zero length), a field whose flag is clear is not.
func flagMeansFieldWritten(c *Ctx, rule string) {
	f := c.fn("packets", "(*Packet).ConnectEncode")
	if f == nil {
		return
	}
	for _, fld := range []struct{ flag, field string }{{"pk.Connect.UsernameFlag", "pk.Connect.Username"}, {"pk.Connect.PasswordFlag", "pk.Connect.Password"}, {"pk.Connect.WillFlag", "pk.Connect.WillPayload"}} {
		isWrite := func(x ssa.Instruction) bool {
			cc := callOf(x)
			return cc != nil && (cname(cc) == "packets.encodeBytes" || cname(cc) == "packets.encodeString") && describe(cc.Args[0]) == fld.field
		}
		found := false
		for _, ins := range instrs(f) {
			if isWrite(ins) {
				found = true
				c.underFact(rule, fmt.Sprintf("(*packets.Packet).ConnectEncode writes %s only when %s is set", fld.field, fld.flag), ins, textEq(fld.flag), true, "")
			}
		}
		if !found {
			c.ob(rule, fmt.Sprintf("(*packets.Packet).ConnectEncode writes %s", fld.field), c.pos(f.Pos()), false, "write not found")
			continue
		}
		c.noPath(rule, fmt.Sprintf("(*packets.Packet).ConnectEncode: with %s set, %s is written on every path (also when empty)", fld.flag, fld.field), f, nil, anyReturn, isWrite,
			[]Assume{assumeEq(fld.flag, true)}, "the flags byte announces the field but the payload lacks its length prefix: the receiver reads the next field in its place")
	}
}

// outboundAliasBound: the outbound alias table of a connection is bounded by the Topic Alias Maximum the CLIENT
// announced in its CONNECT (or a minimum that includes it), never by a larger value.
func outboundAliasBound(c *Ctx, rule string) {
	f := c.fn("mqtt", "(*Client).ParseConnect")
	if f == nil {
		return
	}
	n := 0
	for _, ci := range c.callsNamed(f, "mqtt.NewOutboundTopicAliases") {
		n++
		d := describe(ci.Common().Args[0])
		ok := d == "cl.Properties.Props.TopicAliasMaximum" || d == "pk.Properties.TopicAliasMaximum" ||
			(strings.HasPrefix(d, "builtin.min(") && strings.Contains(d, "TopicAliasMaximum"))
		c.ob(rule, "(*mqtt.Client).ParseConnect bounds the outbound alias table by the client's Topic Alias Maximum", c.pos(ci.Pos()), ok,
			"bound is "+d+": an alias above the client's maximum is a protocol error on the client side")
	}
	c.floor(rule+" outbound alias tables created in ParseConnect", n, 1)
}

// zeroMeansDisabled: a configured Topic Alias Maximum of 0 means "no aliases accepted"; no code of the module
// replaces it by a default.
func zeroMeansDisabled(c *Ctx, rule string) {
	n := 0
	for _, fn := range c.ModFns {
		if fnPkgPath(fn) != modPath {
			continue
		}
		for _, ins := range instrs(fn) {
			st, ok := ins.(*ssa.Store)
			if !ok {
				continue
			}
			fa, ok := st.Addr.(*ssa.FieldAddr)
			if !ok || fieldName(fa.X.Type(), fa.Field) != "TopicAliasMaximum" || !strings.HasSuffix(strings.TrimPrefix(fa.X.Type().String(), "*"), ".Capabilities") {
				continue
			}
			n++
			_, fresh := rootOfAddr(fa).(*ssa.Alloc)
			c.ob(rule, fmt.Sprintf("%s: Capabilities.TopicAliasMaximum is only set when a fresh Capabilities value is built", fname(fn)), c.pos(st.Pos()), fresh,
				"an operator's explicit 0 (aliases disabled) is overwritten: aliased publishes are accepted instead of refused with 0x94")
		}
	}
	c.floor(rule+" stores to Capabilities.TopicAliasMaximum", n, 1)
}
