package main

import (
	"fmt"
	"go/token"
	"go/types"
	"sort"
	"strings"

	"golang.org/x/tools/go/ssa"
)

// ---- C23 -----------------------------------------------------------------------------------

func init() {
	register(&Prop{
		ID:        "C23",
		Title:     "Everything the broker writes is well-formed for the client's protocol version",
		Technique: "constant flow of reason codes into SendConnack vs. the V5CodesToV3 table; version-guard dominance for v5-only packet types and properties; guard dominance in Properties.Encode",
		Explanation: "(a) every failure code that can flow into a CONNACK for an MQTT 3 client (constants returned by validateConnect/ConnectValidate and the literals at SendConnack's call sites) is a key of V5CodesToV3, whose values are 1..5; SendConnack applies the table on ProtocolVersion < 5; " +
			"(b) SUBACK codes above 2 become 0x80 for MQTT 3; " +
			"(c) every call of DisconnectClient (which writes a DISCONNECT packet, a type MQTT 3 reserves for clients) is guarded by ProtocolVersion == 5 at the site or inside DisconnectClient; " +
			"(d) in package packets every Properties.Encode call and the v5-only reason bytes are under pk.ProtocolVersion == 5 (AUTH is v5-only); " +
			"(e) every connection write happens under the client's lock after the Maximum Packet Size test (C34.b); " +
			"(f) Properties.Encode emits Reason String / User Properties only when problem information is allowed and Response Topic / Correlation Data / Response Information only when response information is allowed; WritePacket derives both from the CONNECT properties; " +
			"(h) only WritePacket (and Packet.Copy) store into packets.Mods: per-connection limits are bound at write time and never travel with a packet kept in session state.",
		NotDecided: []string{"actual byte streams", "Closed()-test / write check-then-act in WritePacket (nothing after DISCONNECT under a concurrent writer)", "wildcards in outbound topics (guaranteed by inbound validation, C17/C30)"},
		Run:        runC23,
	})
}

// modsBoundAtWrite: the per-connection encoding modifiers (packets.Mods: the receiver's Maximum Packet Size,
// problem/response-information switches) are set by WritePacket on its own copy of the packet, from the
// properties of the connection being written to. No other broker code stores into them, so a packet kept in the
// session state (in-flight map, retained store) never carries the limits of an earlier connection.
func modsBoundAtWrite(c *Ctx, rule string) {
	n := 0
	for _, fn := range c.ModFns {
		for _, ins := range instrs(fn) {
			st, ok := ins.(*ssa.Store)
			if !ok {
				continue
			}
			fa, ok := st.Addr.(*ssa.FieldAddr)
			if !ok {
				continue
			}
			pt, ok := fa.X.Type().Underlying().(*types.Pointer)
			if !ok || !strings.HasSuffix(pt.Elem().String(), "/packets.Mods") {
				continue
			}
			n++
			owner := fname(rootFn(fn))
			okw := owner == "(*mqtt.Client).WritePacket" || owner == "(*packets.Packet).Copy"
			c.ob(rule, fmt.Sprintf("%s stores Mods.%s — only WritePacket binds the encoding modifiers, at write time", fname(fn), fieldName(fa.X.Type(), fa.Field)), c.pos(st.Pos()), okw,
				"a modifier stored earlier travels with the packet into the session state; WritePacket keeps a non-zero Mods.MaxSize, so a resend after a reconnect is encoded against the old connection's limits")
		}
	}
	c.floor(rule+" stores to packets.Mods", n, 3)
}

func runC23(c *Ctx) {
	modsBoundAtWrite(c, "C23.h mods-bound-at-write")
	codes := c.codeValuesAST()
	// V5CodesToV3 table
	tbl := map[string]string{}
	if sp := c.SSA[modPath+"/packets"]; sp != nil {
		if initf := sp.Func("init"); initf != nil {
			for _, ins := range instrs(initf) {
				if mu, ok := ins.(*ssa.MapUpdate); ok && strings.HasPrefix(describe(mu.Key), "packets.") && strings.HasPrefix(describe(mu.Value), "packets.") {
					if _, isCode := codes[strings.TrimPrefix(describe(mu.Key), "packets.")]; isCode {
						if strings.Contains(mu.Map.Type().String(), "map[") && strings.Contains(mu.Map.Type().String(), "Code]") {
							tbl[strings.TrimPrefix(describe(mu.Key), "packets.")] = strings.TrimPrefix(describe(mu.Value), "packets.")
						}
					}
				}
			}
		}
	}
	c.floor("C23.a V5CodesToV3 entries", len(tbl), 6)
	for _, k := range sortedKeysS(tbl) {
		v := codes[tbl[k]]
		c.ob("C23.a connack-codes-v3", fmt.Sprintf("V5CodesToV3[%s] = %s is an MQTT 3 return code (1..5)", k, tbl[k]), "", v >= 1 && v <= 5, fmt.Sprintf("0x%02X", v))
	}
	if f := c.fn("mqtt", "(*Server).SendConnack"); f != nil {
		ok := false
		for _, ins := range instrs(f) {
			if l, isL := ins.(*ssa.Lookup); isL && describe(l.X) == "packets.V5CodesToV3" {
				ok = dominatedByFact(l, textEq("cl.Properties.ProtocolVersion < 5"), true)
			}
		}
		c.ob("C23.a connack-codes-v3", "(*mqtt.Server).SendConnack maps the reason through V5CodesToV3 for MQTT 3 clients", c.pos(f.Pos()), ok, "")
		// failure CONNACK: properties are irrelevant for v3 (ConnackEncode guards them), SessionPresent false: C14
	}
	// codes reaching SendConnack
	if f := c.fn("mqtt", "(*Server).attachClient"); f != nil {
		reach := map[string]string{}
		for _, ci := range c.callsNamed(f, fnSendConnack) {
			if dominatedByFact(ci, textEq("cl.Properties.ProtocolVersion < 5"), false) {
				continue // MQTT 5 only
			}
			r := ci.Common().Args[2]
			d := describe(r)
			if strings.HasPrefix(d, "packets.") {
				reach[strings.TrimPrefix(d, "packets.")] = "literal at " + c.pos(ci.Pos())
				continue
			}
			if call, ok := r.(*ssa.Call); ok && call.Call.StaticCallee() != nil {
				for g := range c.retGlobals(call.Call.StaticCallee(), 0, map[*ssa.Function]bool{}) {
					reach[g] = "returned by " + fname(call.Call.StaticCallee())
				}
			}
		}
		c.floor("C23.a codes that can reach an MQTT 3 CONNACK", len(reach), 10)
		for _, g := range sortedKeysS(reach) {
			v, known := codes[g]
			if g == "?" {
				c.ob("C23.a connack-codes-v3", "every reason passed to SendConnack is a constant code", "", false, "a non-constant reason reaches SendConnack: "+reach[g])
				continue
			}
			if !known || v < 0x80 {
				c.ob("C23.a connack-codes-v3", fmt.Sprintf("code %s (0x%02X) is a success code: no MQTT 3 mapping needed", g, v), "", known, reach[g])
				continue
			}
			_, mapped := tbl[g]
			c.ob("C23.a connack-codes-v3", fmt.Sprintf("failure code %s (0x%02X) that can reach an MQTT 3 CONNACK is mapped by V5CodesToV3", g, v), "", mapped,
				"an MQTT 3 client receives the raw MQTT 5 reason byte as CONNACK return code (allowed values are 0..5) — "+reach[g])
		}
	}
	// (b)
	if f := c.fn("mqtt", "(*Server).processSubscribe"); f != nil {
		clamp := false
		for _, ins := range instrs(f) {
			if st, ok := ins.(*ssa.Store); ok && describe(st.Val) == "packets.ErrUnspecifiedError.Code" {
				if dominatedByFact(st, textEq("cl.Properties.ProtocolVersion < 5"), true) && dominatedByFact(st, textHas("> packets.CodeGrantedQos2.Code"), true) {
					clamp = true
					// the clamp is inside the per-filter loop, after every store of a reason code
					c.ob("C23.b suback-codes-v3", "(*mqtt.Server).processSubscribe: the MQTT 3 clamp runs for every filter", c.pos(st.Pos()), strings.Contains(describe(st.Addr), "[φrangeindex"), "")
				}
			}
		}
		c.ob("C23.b suback-codes-v3", "(*mqtt.Server).processSubscribe: SUBACK codes above 2 become 0x80 for MQTT 3", c.pos(f.Pos()), clamp, "")
	}
	// (c) DISCONNECT is v5 only
	dc := c.fn("mqtt", "(*Server).DisconnectClient")
	if dc != nil {
		w := c.call1(dc, fnWritePacket)
		inner := w != nil && dominatedByFact(w, func(t string) bool {
			return strings.Contains(t, "ProtocolVersion == 5") || strings.Contains(t, "ProtocolVersion < 5")
		}, true)
		if w != nil && dominatedByFact(w, func(t string) bool { return strings.Contains(t, "ProtocolVersion < 5") }, false) {
			inner = true
		}
		n := 0
		for _, fn := range c.ModFns {
			for _, ci := range c.callsNamed(fn, fnDisconnect) {
				n++
				g := dominatedByFact(ci, func(t string) bool { return strings.HasSuffix(t, ".ProtocolVersion == 5") }, true)
				c.ob("C23.c v5-only-packets", fmt.Sprintf("%s: DisconnectClient(%s) writes a DISCONNECT packet only to MQTT 5 clients", fname(rootFn(fn)), describe(ci.Common().Args[2])), c.pos(ci.Pos()), inner || g,
					"a server-to-client DISCONNECT does not exist in MQTT 3.1.1; neither the call site nor DisconnectClient tests the protocol version")
			}
		}
		c.floor("C23.c DisconnectClient call sites", n, 5)
	}
	// AUTH is never written by the broker itself
	for _, fn := range c.ModFns {
		if fnPkgPath(fn) != modPath {
			continue
		}
		for _, ci := range c.callsNamed(fn, fnWritePacket) {
			for _, t := range ackTypesOf(ci.Common().Args[1], 0) {
				if c.pktTypes()[t] == "Auth" {
					c.underFact("C23.c v5-only-packets", fname(fn)+" writes AUTH only to MQTT 5 clients", ci, func(t string) bool { return strings.HasSuffix(t, ".ProtocolVersion == 5") }, true, "")
				}
			}
		}
	}
	// (d) properties only for v5
	n := 0
	for _, fn := range c.ModFns {
		if fnPkgPath(fn) != modPath+"/packets" || !strings.HasSuffix(fn.Name(), "Encode") && fn.Name() != "encodePubAckRelRecComp" {
			continue
		}
		if fn.Name() == "Encode" {
			continue
		}
		for _, ci := range c.callsNamed(fn, "(*packets.Properties).Encode") {
			n++
			if fn.Name() == "AuthEncode" {
				c.ob("C23.d no-properties-v3", fname(fn)+": AUTH is an MQTT 5-only packet type (tabled exception)", c.pos(ci.Pos()), true, "")
				continue
			}
			c.underFact("C23.d no-properties-v3", fmt.Sprintf("%s: properties (%s) are encoded only for protocol version 5", fname(fn), describe(ci.Common().Args[0])), ci, textEq("pk.ProtocolVersion == 5"), true, "")
		}
		// reason code bytes
		for _, w := range c.callsNamed(fn, "(*bytes.Buffer).WriteByte", "(*bytes.Buffer).Write") {
			d := describe(w.Common().Args[1])
			if (d == "pk.ReasonCode" || d == "pk.ReasonCodes") && fn.Name() != "ConnackEncode" && fn.Name() != "SubackEncode" && fn.Name() != "AuthEncode" {
				c.underFact("C23.d no-properties-v3", fname(fn)+": "+d+" is written only for protocol version 5", w, textEq("pk.ProtocolVersion == 5"), true, "")
			}
		}
	}
	c.floor("C23.d Properties.Encode call sites in the packet encoders", n, 11)
	// (f)
	if f := c.fn("packets", "(*Properties).Encode"); f != nil {
		for _, spec := range []struct {
			id    int64
			name  string
			guard string
			truth bool
		}{
			{31, "ReasonString", "mods.DisallowProblemInfo", false}, {38, "User", "mods.DisallowProblemInfo", false},
			{8, "ResponseTopic", "mods.AllowResponseInfo", true}, {9, "CorrelationData", "mods.AllowResponseInfo", true}, {26, "ResponseInfo", "mods.AllowResponseInfo", true},
		} {
			found := false
			for _, w := range c.callsNamed(f, "(*bytes.Buffer).WriteByte") {
				if k, ok := constInt(w.Common().Args[1]); ok && k == spec.id {
					found = true
					c.underFact("C23.f problem-response-info", fmt.Sprintf("(*packets.Properties).Encode emits %s only when %s is %v", spec.name, spec.guard, spec.truth), w, textEq(spec.guard), spec.truth, "")
				}
			}
			if !found {
				c.ob("C23.f problem-response-info", "(*packets.Properties).Encode emits "+spec.name, c.pos(f.Pos()), false, "branch not found")
			}
		}
	}
	if f := c.fn("mqtt", "(*Client).WritePacket"); f != nil {
		for _, st := range storesTo(f, "pk.Mods.DisallowProblemInfo") {
			ok := dominatedByFact(st, textEq("cl.Properties.Props.RequestProblemInfoFlag"), true) && dominatedByFact(st, textEq("cl.Properties.Props.RequestProblemInfo == 0"), true)
			c.ob("C23.f problem-response-info", "(*mqtt.Client).WritePacket disallows problem information exactly when the client sent Request Problem Information = 0", c.pos(st.Pos()), ok && describe(st.Val) == "true", "")
		}
		for _, st := range storesTo(f, "pk.Mods.AllowResponseInfo") {
			// unreachable for a CONNACK unless the client asked for response info (or the compatibility switch)
			_, hit := (&PathQuery{Fn: f, Target: isIns(st), Assume: []Assume{assumeEq("pk.FixedHeader.Type == 2", true), assumeEq("cl.Properties.Props.RequestResponseInfo == 1", false),
				assumeEq("cl.ops.options.Capabilities.Compatibilities.AlwaysReturnResponseInfo", false)}}).Find()
			c.ob("C23.f problem-response-info", "(*mqtt.Client).WritePacket allows response information in a CONNACK only when the client requested it", c.pos(st.Pos()), hit == nil, "")
		}
		sts := storesTo(f, "pk.ProtocolVersion")
		c.ob("C23.d no-properties-v3", "(*mqtt.Client).WritePacket encodes every packet with the client's protocol version", c.pos(f.Pos()),
			len(sts) == 1 && describe(sts[0].Val) == "cl.Properties.ProtocolVersion", "")
		ms := storesTo(f, "pk.Mods.MaxSize")
		c.ob("C23.e framing", "(*mqtt.Client).WritePacket takes the size limit from the client's Maximum Packet Size", c.pos(f.Pos()), len(ms) == 1 && describe(ms[0].Val) == "cl.Properties.Props.MaximumPacketSize", "")
	}
}

func sortedKeysS(m map[string]string) []string {
	var ks []string
	for k := range m {
		ks = append(ks, k)
	}
	sort.Strings(ks)
	return ks
}

// ---- C28 -----------------------------------------------------------------------------------

func init() {
	register(&Prop{
		ID:        "C28",
		Title:     "No client byte stream can crash the broker or disturb other clients",
		Technique: "panic-site enumeration over everything reachable from attachClient (module call graph) with the bounds prover of C27; size-limit-before-allocation ordering",
		Explanation: "(a) attachClient and the listeners' handler goroutines have no recover, so every instruction that can panic on client-controlled data in module functions reachable from attachClient is an obligation: index/slice sites outside package packets (C27 covers the decoders) must be discharged by a dominating guard, by ranging over the indexed slice, by a tabled library contract (strings.IndexRune < len) or a tabled caller-side invariant with its reason; unchecked type assertions, divisions by non-constants and explicit panics are reported; " +
			"(b) ReadFixedHeader compares the remaining length with MaximumPacketSize before it returns success, and ReadPacket's allocation of the body happens only after a successful ReadFixedHeader for the same header (in Read and readConnectionPacket); " +
			"(c) the remaining-length loop is bounded (C29.b); " +
			"(e) a pointer obtained from a (pointer, found) lookup of the module (Clients.Get …) is dereferenced only on the found edge — in every function of the root package, including the event loop.",
		NotDecided: []string{"resource exhaustion other than the single allocation", "quality of service for other clients", "panics inside third-party libraries and external hooks"},
		Run:        runC28,
	})
}

// commaOkDeref: a module lookup that returns (pointer, found) yields a nil pointer when found is false; every
// dereference of the pointer (field access, load, call of one of its pointer-receiver methods) is reached only
// on the found == true edge. No goroutine of the broker recovers from a nil dereference.
func commaOkDeref(c *Ctx, rule string) {
	nLook, nDeref := 0, 0
	for _, fn := range c.ModFns {
		if fnPkgPath(fn) != modPath {
			continue
		}
		for _, ins := range instrs(fn) {
			call, ok := ins.(*ssa.Call)
			if !ok {
				continue
			}
			callee := call.Common().StaticCallee()
			if callee == nil || !inModule(callee) {
				continue
			}
			tup, ok := call.Type().(*types.Tuple)
			if !ok || tup.Len() != 2 {
				continue
			}
			if _, isPtr := tup.At(0).Type().Underlying().(*types.Pointer); !isPtr {
				continue
			}
			if b, isB := tup.At(1).Type().Underlying().(*types.Basic); !isB || b.Kind() != types.Bool {
				continue
			}
			nLook++
			okText := describe(call) + "#1"
			for _, ref := range *call.Referrers() {
				e0, isE := ref.(*ssa.Extract)
				if !isE || e0.Index != 0 {
					continue
				}
				for _, use := range *e0.Referrers() {
					deref := false
					switch u := use.(type) {
					case *ssa.FieldAddr:
						deref = u.X == ssa.Value(e0)
					case *ssa.UnOp:
						deref = u.Op == token.MUL && u.X == ssa.Value(e0)
					case ssa.CallInstruction:
						cc := u.Common()
						if g := cc.StaticCallee(); g != nil && g.Signature.Recv() != nil && len(cc.Args) > 0 && cc.Args[0] == ssa.Value(e0) {
							if _, isP := g.Signature.Recv().Type().Underlying().(*types.Pointer); isP {
								deref = true
							}
						}
					}
					if !deref {
						continue
					}
					nDeref++
					c.ob(rule, fmt.Sprintf("%s: %s is dereferenced only where the lookup reported found (%s)", fname(fn), describe(e0), guardKey(use)), c.pos(use.Pos()),
						dominatedByFact(use, textEq(okText), true), "the lookup returns a nil pointer when nothing is found; the dereference panics and no goroutine of the broker recovers")
				}
			}
		}
	}
	c.floor(rule+" (pointer, found) lookups", nLook, 5)
	c.floor(rule+" dereferences of looked-up pointers", nDeref, 8)
}

func runC28(c *Ctx) {
	commaOkDeref(c, "C28.e found-before-deref")
	root := c.fn("mqtt", "(*Server).attachClient")
	if root == nil {
		return
	}
	// recover absence is a fact we state (if someone adds recover the obligations remain valid but weaker)
	seen := map[*ssa.Function]bool{}
	var order []*ssa.Function
	var walk func(f *ssa.Function)
	walk = func(f *ssa.Function) {
		if seen[f] || f.Blocks == nil || !inModule(f) {
			return
		}
		seen[f] = true
		order = append(order, f)
		var outs []*ssa.Function
		for g := range c.cg.out[f] {
			outs = append(outs, g)
		}
		sort.Slice(outs, func(i, j int) bool { return outs[i].String() < outs[j].String() })
		for _, g := range outs {
			walk(g)
		}
	}
	walk(root)
	c.floor("C28.a module functions reachable from attachClient", len(order), 150)
	bp := &boundsProver{c: c, safeMem: map[string]int{}}
	// tabled invariants: (function, access description substring) -> reason
	type exc struct{ fn, sub, why string }
	table := []exc{
		{"mqtt.isolateParticle", "filter[", "end = strings.IndexRune(filter, '/'): -1 or an index < len(filter); slices use end only on the end > -1 branches and next is constant 0"},
		{"(*mqtt.TopicsIndex).gatherSubscriptions", "topic[0]", "scanSubscribers returns before gathering when len(topic) == 0 (its only caller)"},
		{"(*mqtt.TopicsIndex).gatherSubscriptions", "sub.Filter[0]", "the conjunct len(sub.Filter) > 0 is evaluated first (short-circuit) — proved below as a path rule"},
		{"(*storage/badger.Hook).OnSubscribed", "reasonCodes[", "processSubscribe passes reasonCodes = make([]byte, len(pk.Filters)) with the same pk; Server.Subscribe passes one filter and one code"},
		{"(*storage/bolt.Hook).OnSubscribed", "reasonCodes[", "same caller-side invariant as badger"},
		{"(*storage/pebble.Hook).OnSubscribed", "reasonCodes[", "same caller-side invariant as badger"},
		{"(*storage/redis.Hook).OnSubscribed", "reasonCodes[", "same caller-side invariant as badger"},
		{"(*hooks/debug.Hook).", "", "debug hook: formats values for logging; not on the default path"},
		{"mqtt.IsValidFilter", "filter[0:", "guarded by len(filter) >= len(SysPrefix) on the same && chain — proved below as a path rule"},
		{"(*mqtt.Inflight).GetAll$1", "m[", "comparator called by sort.Slice(m, less): the library passes indices within [0, len(m))"},
		{"(*mqtt.Server).UnsubscribeClient", "[φi]", "filters = make(len(filterMap)) and i is incremented once per iteration of the range over the same filterMap, so i < len(filterMap)"},
	}
	nSites, nProved, nTabled := 0, 0, 0
	for _, f := range order {
		p := fnPkgPath(f)
		if p == modPath+"/packets" {
			continue // C27
		}
		for _, ins := range instrs(f) {
			if !isAccess(ins) {
				continue
			}
			// statically safe array accesses are skipped inside accessOb; count obligations by diffing
			before := len(c.obs)
			bp.accessOb("C28.a no-panic-site", f, ins)
			if len(c.obs) == before {
				continue
			}
			nSites++
			last := &c.obs[len(c.obs)-1]
			if last.OK {
				nProved++
				continue
			}
			desc := describe(ins.(ssa.Value))
			// second chance: conjunct / range / library reasoning
			if ok, why := c.secondChance(f, ins); ok {
				last.OK, last.Detail = true, why
				nProved++
				continue
			}
			for _, e := range table {
				if strings.HasPrefix(fname(f), e.fn) && strings.Contains(desc, e.sub) {
					last.OK, last.Detail = true, "tabled invariant: "+e.why
					nTabled++
					break
				}
			}
		}
		c.otherPanicsC28(f)
	}
	c.floor("C28.a index/slice obligations outside the decoders", nSites, 15)
	_ = nTabled
	// (b) size limit before allocation
	if f := c.fn("mqtt", "(*Client).ReadFixedHeader"); f != nil {
		for _, r := range returns(f) {
			if !nilErrReturn(r) {
				continue
			}
			// on a success return with a configured maximum the size test was false
			_, hit := (&PathQuery{Fn: f, Target: isIns(r), Assume: []Assume{assumeEq("cl.ops.options.Capabilities.MaximumPacketSize > 0", true),
				{Match: func(t string) bool { return strings.HasSuffix(t, "> cl.ops.options.Capabilities.MaximumPacketSize") }, Truth: true}}}).Find()
			c.ob("C28.b size-limit-before-allocation", "(*mqtt.Client).ReadFixedHeader never succeeds for a packet above MaximumPacketSize", c.pos(r.Pos()), hit == nil, "")
			tested := false
			for _, b := range f.Blocks {
				if t, _, ok := condOf(b); ok && strings.HasSuffix(t, "> cl.ops.options.Capabilities.MaximumPacketSize") && strings.Contains(t, "fh.Remaining") {
					tested = true
				}
			}
			c.ob("C28.b size-limit-before-allocation", "(*mqtt.Client).ReadFixedHeader compares the decoded remaining length with MaximumPacketSize", c.pos(f.Pos()), tested, "")
		}
	}
	if f := c.fn("mqtt", "(*Client).ReadPacket"); f != nil {
		okm := false
		for _, ins := range instrs(f) {
			if mk, ok := ins.(*ssa.MakeSlice); ok {
				okm = describe(mk.Len) == "pk.FixedHeader.Remaining" || strings.Contains(describe(mk.Len), "Remaining")
			}
		}
		c.ob("C28.b size-limit-before-allocation", "(*mqtt.Client).ReadPacket allocates exactly the remaining length of the header it was given", c.pos(f.Pos()), okm, "")
	}
	for _, spec := range []struct{ pkg, fn string }{{"mqtt", "(*Client).Read"}, {"mqtt", "(*Server).readConnectionPacket"}} {
		f := c.fn(spec.pkg, spec.fn)
		if f == nil {
			continue
		}
		rh := asCall(c.call1(f, "(*mqtt.Client).ReadFixedHeader"))
		rp := c.call1(f, "(*mqtt.Client).ReadPacket")
		if rh == nil || rp == nil {
			c.ob("C28.b size-limit-before-allocation", fname(f)+": header read then body read", c.pos(f.Pos()), false, "calls not found")
			continue
		}
		c.underFact("C28.b size-limit-before-allocation", fname(f)+": the body is read only after ReadFixedHeader succeeded", rp, textEq(describe(rh)+" == nil"), true, "")
		c.ob("C28.b size-limit-before-allocation", fname(f)+": the body is read for the header that was checked", c.pos(rp.Pos()), rp.Common().Args[1] == rh.Call.Args[1], "")
	}
	// (c)
	if f := c.fn("packets", "DecodeLength"); f != nil {
		maxReads, unbounded, _ := c.maxReads(f, 9)
		c.ob("C28.c bounded-header-loop", "packets.DecodeLength reads at most 4 bytes of remaining length", c.pos(f.Pos()), !unbounded && maxReads <= 4, fmt.Sprintf("max reads %d unbounded %v", maxReads, unbounded))
	}
	// no recover: informational obligation so that the evidence states the premise
	rec := 0
	for _, f := range order {
		for _, ci := range c.callsNamed(f, "builtin.recover") {
			_ = ci
			rec++
		}
	}
	c.ob("C28.a no-panic-site", "premise: no recover() on the connection path, so any panic in a reachable function ends the broker process", "", true, fmt.Sprintf("%d recover calls found in %d reachable functions", rec, len(order)))
}

// secondChance handles three idioms the dominating-fact prover does not: (i) an index guarded by an
// earlier conjunct of the same && chain whose failing edge skips the access (path formulation),
// (ii) an element access inside a range over the same slice, (iii) index = make-sized slice ranged in lockstep.
func (c *Ctx) secondChance(f *ssa.Function, ins ssa.Instruction) (bool, string) {
	var base, idx ssa.Value
	switch x := ins.(type) {
	case *ssa.IndexAddr:
		base, idx = x.X, x.Index
	case *ssa.Lookup:
		base, idx = x.X, x.Index
	case *ssa.Index:
		base, idx = x.X, x.Index
	case *ssa.Slice:
		// s[a:b] with b a strings.Index* result tested > -1 and a constant/0
		if x.High != nil {
			hd := describe(x.High)
			if strings.HasPrefix(hd, "strings.Index") && strings.Contains(hd, "("+describe(x.X)+",") {
				fs := factsAt(ins)
				ok1, _ := proveLess("-1", hd, fs)
				ok2, _ := proveLess("0", hd, fs)
				ok3, _ := proveLeq("0", hd, fs)
				if ok1 || ok2 || ok3 {
					return true, "library contract: " + hd + " is -1 or < len; guarded non-negative"
				}
			}
		}
		return false, ""
	default:
		return false, ""
	}
	L := lenOf(base)
	id := describe(idx)
	// (i) path rule: with len(base) > k (or != 0) false, the access is unreachable
	for _, b := range f.Blocks {
		t, _, ok := condOf(b)
		if !ok {
			continue
		}
		if k, isC := constInt(idx); isC && (t == fmt.Sprintf("%s > %d", L, k) || (k == 0 && t == L+" == 0")) {
			truth := false
			if t == L+" == 0" {
				truth = true
			}
			_, hit := (&PathQuery{Fn: f, Target: isIns(ins), Assume: []Assume{assumeEq(t, truth)}}).Find()
			if hit == nil {
				return true, "unreachable unless " + t + " is " + fmt.Sprint(!truth)
			}
		}
		if k, isC := constInt(idx); isC && k == 0 && strings.HasPrefix(t, L+" >= ") {
			_, hit := (&PathQuery{Fn: f, Target: isIns(ins), Assume: []Assume{assumeEq(t, false)}}).Find()
			if hit == nil {
				return true, "unreachable unless " + t
			}
		}
	}
	// (iii) make([]T, len(S)) indexed by the index of a range over S
	if mk, ok := base.(*ssa.MakeSlice); ok {
		n := describe(mk.Len)
		if ok2, why := proveLess(id, n, factsAt(ins)); ok2 {
			return true, "slice made with length " + n + ": " + why
		}
	}
	// (ii) ranging over a copy: index variable bounded by len of a slice with the same length expression
	if ok2, why := proveLess(id, L, factsAt(ins)); ok2 {
		return true, why
	}
	return false, ""
}

// otherPanicsC28: unchecked assertions, divisions, explicit panics in a function on the connection path.
func (c *Ctx) otherPanicsC28(f *ssa.Function) {
	for _, ins := range instrs(f) {
		switch x := ins.(type) {
		case *ssa.TypeAssert:
			if x.CommaOk {
				continue
			}
			// err.(packets.Code) right after errors.As(err, new(packets.Code)) succeeded
			d := describe(x)
			guard := dominatedByFact(x, func(t string) bool { return strings.HasPrefix(t, "errors.As(") }, true)
			why := "a single-value type assertion panics when the dynamic type differs"
			if guard {
				why = "guarded by errors.As for the same target type: panics only if a hook returns a *wrapped* Code (external hook behaviour, stated as an assumption)"
			}
			c.ob("C28.a no-panic-site", fmt.Sprintf("%s: unchecked type assertion %s", fname(f), d), c.pos(x.Pos()), guard || isAtomicValueLoad(x), why)
		case *ssa.BinOp:
			if x.Op == token.QUO || x.Op == token.REM {
				if _, isC := constInt(x.Y); !isC {
					if b, ok := x.Y.Type().Underlying().(*types.Basic); ok && b.Info()&types.IsInteger != 0 {
						c.ob("C28.a no-panic-site", fmt.Sprintf("%s: integer division by %s", fname(f), describe(x.Y)), c.pos(x.Pos()), false, "division by zero panics")
					}
				}
			}
		case *ssa.Panic:
			if strings.Contains(describe(x.X), "blocking select matched no case") {
				continue // go/ssa's synthetic default of a blocking select: unreachable
			}
			c.ob("C28.a no-panic-site", fmt.Sprintf("%s: explicit panic", fname(f)), c.pos(x.Pos()), false, "explicit panic on the connection path")
		}
	}
}

// isAtomicValueLoad: x.(T) applied to the result of (*atomic.Value).Load, whose only stores are of type T.
func isAtomicValueLoad(x *ssa.TypeAssert) bool {
	call, ok := x.X.(*ssa.Call)
	if !ok {
		return false
	}
	n := cname(&call.Call)
	return n == "(*sync/atomic.Value).Load" || n == "(*sync.Pool).Get"
}
