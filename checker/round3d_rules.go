package main

// Rules added after the third round of seeded changes, fourth batch (properties C29–C35).

import (
	"fmt"
	"strings"

	"golang.org/x/tools/go/ssa"
)

func round3dHooks(c *Ctx, id string) {
	switch id {
	case "C02":
		clearAlwaysTrims(c, "C02.k clear-always-trims")
	case "C23":
		failureVerdictReachesClamp(c, "C23.i failure-verdict-reaches-clamp")
	case "C26":
		headerLengthByEncodeLength(c, "C26.h header-length-by-encodeLength")
	case "C29":
		headerLengthByEncodeLength(c, "C29.d header-length-by-encodeLength")
	case "C30":
		failureVerdictReachesClamp(c, "C30.e failure-verdict-reaches-clamp")
	case "C31":
		clearAlwaysTrims(c, "C31.h clear-always-trims")
	case "C32":
		noLockAcrossEstablish(c, "C32.d no-lock-across-establish")
	case "C35":
		slotBeforeBlockingWrite(c, "C35.g slot-before-connack")
		freshDefaultCapabilities(c, "C35.h fresh-default-capabilities")
		limitReadAfterConnect(c, "C35.i limit-read-after-connect")
	case "C36":
		noLockAcrossEstablish(c, "C36.h no-lock-across-establish")
	}
}

// headerLengthByEncodeLength: FixedHeader.Encode writes the remaining length through encodeLength on every path (the
// one encoder of variable byte integers, whose continuation bits C29 decides); no hand-written fast path beside it.
func headerLengthByEncodeLength(c *Ctx, rule string) {
	f := c.fn("packets", "(*FixedHeader).Encode")
	if f == nil {
		return
	}
	c.noPath(rule, "(*packets.FixedHeader).Encode: every path encodes the remaining length with encodeLength", f, nil, anyReturn, isNamed("packets.encodeLength"), nil,
		"a second, hand-written length encoder has its own continuation bits to get wrong")
	for _, ci := range c.callsNamed(f, "packets.encodeLength") {
		c.ob(rule, "(*packets.FixedHeader).Encode passes fh.Remaining to encodeLength", c.pos(ci.Pos()), strings.Contains(describe(ci.Common().Args[1]), "fh.Remaining"), "passes "+describe(ci.Common().Args[1]))
	}
}

// failureVerdictReachesClamp: in processSubscribe's per-filter loop a failure verdict stored for the filter (invalid
// filter, shared no-local, not authorised) reaches the MQTT 3 fold (codes above 2 become 0x80 for clients below
// version 5) before the next filter: no `continue` between the store and the fold.
func failureVerdictReachesClamp(c *Ctx, rule string) {
	f := c.fn("mqtt", "(*Server).processSubscribe")
	if f == nil {
		return
	}
	var head *ssa.BasicBlock
	for _, b := range f.Blocks {
		if b.Comment == "rangeindex.loop" && head == nil {
			head = b
		}
	}
	if head == nil {
		c.ob(rule, "(*mqtt.Server).processSubscribe has a per-filter loop", c.pos(f.Pos()), false, "no range loop found")
		return
	}
	isClampTest := func(x ssa.Instruction) bool {
		if _, isIf := x.(*ssa.If); !isIf {
			return false
		}
		t, _, ok := condOf(x.Block())
		if !ok {
			return false
		}
		for _, sp := range factSpellings(t, true) {
			if strings.Contains(sp[0].(string), "> packets.CodeGrantedQos2.Code") {
				return true
			}
		}
		return false
	}
	next := func(x ssa.Instruction) bool {
		if _, isRet := x.(*ssa.Return); isRet {
			return true
		}
		return x == head.Instrs[0]
	}
	n := 0
	for _, ins := range instrs(f) {
		st, ok := ins.(*ssa.Store)
		if !ok {
			continue
		}
		ia, isIdx := st.Addr.(*ssa.IndexAddr)
		if !isIdx || !strings.HasPrefix(describe(st.Val), "packets.Err") || !strings.HasSuffix(describe(st.Val), ".Code") {
			continue
		}
		if mk, isMk := ia.X.(*ssa.MakeSlice); !isMk || !strings.Contains(mk.Type().String(), "[]byte") {
			continue
		}
		if isClampStore := dominatedByFact(st, textEq("cl.Properties.ProtocolVersion < 5"), true); isClampStore {
			continue
		}
		n++
		_, hit := (&PathQuery{Fn: f, From: st, Target: next, Barrier: isClampTest}).Find()
		c.ob(rule, fmt.Sprintf("(*mqtt.Server).processSubscribe: the verdict %s reaches the MQTT 3 fold before the next filter", strings.TrimSuffix(strings.TrimPrefix(describe(st.Val), "packets."), ".Code")), c.pos(st.Pos()), hit == nil,
			"an MQTT 3 client would get an MQTT 5 reason byte in its SUBACK")
	}
	c.floor(rule+" failure verdicts in processSubscribe", n, 3)
}

// clearAlwaysTrims: an empty retained publish (a clear) always ends in trim(n): RetainMessage has just created the
// node path with set(), and a path left behind makes later Unsubscribe calls of people who never subscribed succeed.
func clearAlwaysTrims(c *Ctx, rule string) {
	f := c.fn("mqtt", "(*TopicsIndex).RetainMessage")
	if f == nil {
		return
	}
	c.noPath(rule, "(*mqtt.TopicsIndex).RetainMessage: clearing a topic trims the node on every path (also when nothing was retained)", f, nil, anyReturn, isNamed("(*mqtt.TopicsIndex).trim"),
		[]Assume{assumeEq("builtin.len(pk.Payload) == 0", true)}, "the path created for the clear stays in the index")
}

// noLockAcrossEstablish: a listener calls its establish callback — which returns when the connection ends — with none
// of its own locks held: Close needs the write lock to shut the listener down.
func noLockAcrossEstablish(c *Ctx, rule string) {
	n := 0
	for _, fn := range c.ModFns {
		if fnPkgPath(fn) != modPath+"/listeners" {
			continue
		}
		var lf *lockFlow
		for _, ins := range instrs(fn) {
			cc := callOf(ins)
			if cc == nil || cc.IsInvoke() || cc.StaticCallee() != nil || !strings.HasSuffix(describe(cc.Value), ".establish") && describe(cc.Value) != "establish" {
				continue
			}
			if lf == nil {
				lf = lockFlowOf(fn)
			}
			n++
			h := lf.before[ins]
			c.ob(rule, fmt.Sprintf("%s calls the establish callback with no lock held", fname(fn)), c.pos(ins.Pos()), len(h) == 0,
				"holds "+heldKeys(h)+" for the lifetime of the connection: Close blocks on the write lock")
		}
	}
	c.floor(rule+" establish call sites in listeners", n, 3)
}

// slotBeforeBlockingWrite: attachClient takes the connection's slot before it writes any CONNACK: a client that is
// slow to read its CONNACK is already counted while the write blocks.
func slotBeforeBlockingWrite(c *Ctx, rule string) {
	f := c.fn("mqtt", "(*Server).attachClient")
	if f == nil {
		return
	}
	var add ssa.CallInstruction
	for _, ci := range c.callsNamed(f, "sync/atomic.AddInt64") {
		if describe(ci.Common().Args[0]) == "s.Info.ClientsConnected" && describe(ci.Common().Args[1]) == "1" {
			if _, isDefer := ci.(*ssa.Defer); !isDefer {
				add = ci
			}
		}
	}
	if add == nil {
		return // reported by C35.a
	}
	n := 0
	for _, ci := range c.callsNamed(f, fnSendConnack) {
		d := describe(ci.Common().Args[2])
		if d == "packets.ErrServerUnavailable" || d == "packets.ErrServerBusy" {
			continue // C35.b
		}
		n++
		c.ob(rule, fmt.Sprintf("(*mqtt.Server).attachClient: no slot is taken after SendConnack(%s)", d), c.pos(ci.Pos()), !reachableFrom(ci, add),
			"the connection is registered and holds the link while the CONNACK write blocks, but is not counted")
	}
	c.floor(rule+" CONNACK writes in attachClient", n, 2)
}

// freshDefaultCapabilities: a server built without capabilities gets its own Capabilities object; a shared default
// would let one server's MaximumClients (or any other limit) overwrite another's.
func freshDefaultCapabilities(c *Ctx, rule string) {
	f := c.fn("mqtt", "(*Options).ensureDefaults")
	if f == nil {
		return
	}
	n := 0
	for _, st := range storesTo(f, "o.Capabilities") {
		n++
		call, ok := st.Val.(*ssa.Call)
		c.ob(rule, "(*mqtt.Options).ensureDefaults gives the server a fresh Capabilities object", c.pos(st.Pos()), ok && cname(&call.Call) == "mqtt.NewDefaultServerCapabilities",
			"stores "+describe(st.Val)+": a package-level default is shared by every server of the process")
	}
	c.floor(rule+" default Capabilities stores", n, 1)
}

// limitReadAfterConnect: the client count compared with MaximumClients is read after the CONNECT packet arrived: a
// count taken before the blocking read is stale by the time it is used.
func limitReadAfterConnect(c *Ctx, rule string) {
	f := c.fn("mqtt", "(*Server).attachClient")
	if f == nil {
		return
	}
	read := c.call1(f, "(*mqtt.Server).readConnectionPacket")
	if read == nil {
		return
	}
	n := 0
	for _, ci := range c.callsNamed(f, "sync/atomic.LoadInt64") {
		if describe(ci.Common().Args[0]) != "s.Info.ClientsConnected" {
			continue
		}
		n++
		c.ob(rule, "(*mqtt.Server).attachClient reads the client count for the limit test after the CONNECT packet was read", c.pos(ci.Pos()), domInstr(read, ci),
			"others can fill the broker while this connection's CONNECT is still on its way")
	}
	c.floor(rule+" reads of ClientsConnected in attachClient", n, 1)
}
