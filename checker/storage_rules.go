package main

import (
	"strconv"
	"fmt"
	"go/constant"
	"go/token"
	"go/types"
	"sort"
	"strings"

	"golang.org/x/tools/go/ssa"
)

var backends = []string{"badger", "bolt", "pebble", "redis"}

func bpath(b string) string  { return "hooks/storage/" + b }
func bshort(b string) string { return "storage/" + b }

// litFields: fields assigned in composite literals (or later field stores) of struct type typ
// (package path + name) built inside f. Returns per-alloc field sets merged.
func litFields(f *ssa.Function, typPkg, typName string) (map[string]bool, bool) {
	out := map[string]bool{}
	found := false
	for _, ins := range instrs(f) {
		st, ok := ins.(*ssa.Store)
		if !ok {
			continue
		}
		fa, ok := st.Addr.(*ssa.FieldAddr)
		if !ok {
			continue
		}
		t := fa.X.Type()
		if p, ok := t.Underlying().(*types.Pointer); ok {
			t = p.Elem()
		}
		n, ok := t.(*types.Named)
		if !ok || n.Obj().Name() != typName || n.Obj().Pkg() == nil || n.Obj().Pkg().Path() != typPkg {
			continue
		}
		// only freshly built values (allocs / fields of allocs), not parameters
		root := fa.X
		for {
			if x, ok := root.(*ssa.FieldAddr); ok {
				root = x.X
				continue
			}
			break
		}
		if _, isAlloc := root.(*ssa.Alloc); !isAlloc {
			continue
		}
		found = true
		out[fieldName(fa.X.Type(), fa.Field)] = true
	}
	// a nested literal (Properties: T2{…}) assigns the parent field through its sub-fields
	for _, ins := range instrs(f) {
		st, ok := ins.(*ssa.Store)
		if !ok {
			continue
		}
		inner, ok := st.Addr.(*ssa.FieldAddr)
		if !ok {
			continue
		}
		for v := inner.X; ; {
			outer, ok := v.(*ssa.FieldAddr)
			if !ok {
				break
			}
			t := outer.X.Type()
			if p, ok := t.Underlying().(*types.Pointer); ok {
				t = p.Elem()
			}
			if n, ok := t.(*types.Named); ok && n.Obj().Name() == typName && n.Obj().Pkg() != nil && n.Obj().Pkg().Path() == typPkg {
				root := outer.X
				for {
					if x, ok := root.(*ssa.FieldAddr); ok {
						root = x.X
						continue
					}
					break
				}
				if _, isAlloc := root.(*ssa.Alloc); isAlloc {
					found = true
					out[fieldName(outer.X.Type(), outer.Field)] = true
				}
			}
			v = outer.X
		}
	}
	return out, found
}

// readFields: fields of struct type typ that f reads (loads through FieldAddr/Field).
func readFields(f *ssa.Function, typPkg, typName string) map[string]bool {
	out := map[string]bool{}
	is := func(t types.Type) bool {
		if p, ok := t.Underlying().(*types.Pointer); ok {
			t = p.Elem()
		}
		n, ok := t.(*types.Named)
		return ok && n.Obj().Name() == typName && n.Obj().Pkg() != nil && n.Obj().Pkg().Path() == typPkg
	}
	for _, ins := range instrs(f) {
		switch x := ins.(type) {
		case *ssa.Field:
			if is(x.X.Type()) {
				out[fieldName(x.X.Type(), x.Field)] = true
			}
		case *ssa.FieldAddr:
			if !is(x.X.Type()) {
				continue
			}
			for _, ref := range *x.Referrers() {
				switch r := ref.(type) {
				case *ssa.UnOp:
					if r.Op == token.MUL {
						out[fieldName(x.X.Type(), x.Field)] = true
					}
				case *ssa.FieldAddr:
					out[fieldName(x.X.Type(), x.Field)] = true
				}
			}
		}
	}
	return out
}

func sortedKeys(m map[string]bool) []string {
	var ks []string
	for k := range m {
		ks = append(ks, k)
	}
	sort.Strings(ks)
	return ks
}

// ---- C20 -----------------------------------------------------------------------------------

func init() {
	register(&Prop{
		ID:        "C20",
		Title:     "Persistent state is restored faithfully after a restart",
		Technique: "writer/reader field agreement between the backends' record literals and the restore functions; injectivity of key functions (string-concatenation shape); prefix-freeness of key kinds",
		Explanation: "Restart behaviour is out of reach; the record mappings are decided for each of the four backends: " +
			"(a) every field of a storage record that the restore side reads (loadClients, loadSubscriptions, loadInflight, loadRetained, Message.ToPacket) is set by the backend's writer (updateClient, OnSubscribed, OnRetainMessage, OnQosPublish); " +
			"(b) the restore side produces every field the session-relevant code reads afterwards: ToPacket must produce Expiry and ProtocolVersion (read by the expiry housekeeping), loadClients must fill every persisted client property; " +
			"(c) a key function that concatenates two or more unconstrained strings with a constant separator is not injective; the key-kind prefixes are pairwise prefix-free and the iteration prefix matches the key function's; " +
			"(d) every Stored* row is decoded into a fresh zero record (declared inside the row callback / loop body): json.Unmarshal leaves omitted fields untouched; (e) ResendInflightMessages re-persists every resumed record before the write that may fail.",
		NotDecided: []string{"anything that needs a running store", "JSON encoding of the records", "ordering and durability of the engines"},
		Run:        runC20,
	})
}

const storagePkg = modPath + "/hooks/storage"

func runC20(c *Ctx) {
	resendRepersists(c, "C20.e resend-repersists")
	// reader sets
	R := map[string]map[string]bool{}
	add := func(typ string, m map[string]bool) {
		if R[typ] == nil {
			R[typ] = map[string]bool{}
		}
		for k := range m {
			R[typ][k] = true
		}
	}
	for _, spec := range []struct {
		pkg, fn string
		typs    []string
	}{
		{"mqtt", "(*Server).loadClients", []string{"Client", "ClientProperties"}},
		{"mqtt", "(*Server).loadSubscriptions", []string{"Subscription"}},
		{"mqtt", "(*Server).loadInflight", []string{"Message"}},
		{"hooks/storage", "(*Message).ToPacket", []string{"Message", "MessageProperties"}},
	} {
		f := c.fn(spec.pkg, spec.fn)
		if f == nil {
			continue
		}
		for _, t := range spec.typs {
			add(t, readFields(f, storagePkg, t))
		}
	}
	c.floor("C20.a reader fields of storage.Client", len(R["Client"]), 6)
	c.floor("C20.a reader fields of storage.ClientProperties", len(R["ClientProperties"]), 10)
	c.floor("C20.a reader fields of storage.Message", len(R["Message"]), 7)
	c.floor("C20.a reader fields of storage.MessageProperties", len(R["MessageProperties"]), 8)
	c.floor("C20.a reader fields of storage.Subscription", len(R["Subscription"]), 7)
	exempt := map[string]map[string]string{
		"OnRetainMessage": {"PacketID": "a retained message has no packet identifier of its own; a fresh one is assigned on every replay"},
	}
	for _, b := range backends {
		for _, w := range []struct {
			fn   string
			typs []string
		}{
			{"(*Hook).updateClient", []string{"Client", "ClientProperties"}},
			{"(*Hook).OnSubscribed", []string{"Subscription"}},
			{"(*Hook).OnRetainMessage", []string{"Message", "MessageProperties"}},
			{"(*Hook).OnQosPublish", []string{"Message", "MessageProperties"}},
		} {
			f := c.fn(bpath(b), w.fn)
			if f == nil {
				continue
			}
			short := strings.TrimPrefix(w.fn, "(*Hook).")
			for _, t := range w.typs {
				got, found := litFields(f, storagePkg, t)
				if !found {
					c.ob("C20.a writer-covers-reader", fmt.Sprintf("%s %s builds a storage.%s record", b, short, t), c.pos(f.Pos()), false, "no composite literal of the record type")
					continue
				}
				for _, fld := range sortedKeys(R[t]) {
					if why, ex := exempt[short][fld]; ex {
						c.ob("C20.a writer-covers-reader", fmt.Sprintf("%s %s: storage.%s.%s (exempt)", b, short, t, fld), c.pos(f.Pos()), true, why)
						continue
					}
					c.ob("C20.a writer-covers-reader", fmt.Sprintf("%s %s sets storage.%s.%s, which the restore side reads", b, short, t, fld), c.pos(f.Pos()), got[fld],
						"the field is read back after a restart but never written: it is restored as its zero value")
				}
			}
		}
		// the will is converted wholesale: identical struct layout is enforced by the compiler for T(x) conversions
		if f := c.fn(bpath(b), "(*Hook).updateClient"); f != nil {
			conv := false
			for _, ins := range instrs(f) {
				if ct, ok := ins.(*ssa.ChangeType); ok && strings.HasSuffix(ct.Type().String(), "storage.ClientWill") {
					conv = true
				}
			}
			got, _ := litFields(f, storagePkg, "Client")
			c.ob("C20.a writer-covers-reader", b+" updateClient persists the whole will (struct conversion) ", c.pos(f.Pos()), conv && got["Will"], "")
		}
	}
	// (b) restore side
	if f := c.fn("hooks/storage", "(*Message).ToPacket"); f != nil {
		got, _ := litFields(f, modPath+"/packets", "Packet")
		for _, fld := range []string{"FixedHeader", "PacketID", "TopicName", "Payload", "Origin", "Created", "Properties", "Expiry", "ProtocolVersion"} {
			c.ob("C20.b reader-covers-session", "(*hooks/storage.Message).ToPacket produces Packet."+fld, c.pos(f.Pos()), got[fld],
				"clearExpiredRetainedMessages / ClearExpiredInflights expire a message by its own interval only when ProtocolVersion == 5 and Expiry > 0: a restored message without them never expires by its Message Expiry Interval")
		}
		pgot, _ := litFields(f, modPath+"/packets", "Properties")
		for _, fld := range sortedKeys(R["MessageProperties"]) {
			c.ob("C20.b reader-covers-session", "(*hooks/storage.Message).ToPacket restores Properties."+fld, c.pos(f.Pos()), pgot[fld], "")
		}
	}
	if f := c.fn("mqtt", "(*Server).loadClients"); f != nil {
		pgot, _ := litFields(f, modPath+"/packets", "Properties")
		if t := c.namedType("hooks/storage", "ClientProperties"); t != nil {
			st := t.Underlying().(*types.Struct)
			for i := 0; i < st.NumFields(); i++ {
				c.ob("C20.b reader-covers-session", "(*mqtt.Server).loadClients restores client property "+st.Field(i).Name(), c.pos(f.Pos()), pgot[st.Field(i).Name()], "")
			}
		}
		for _, a := range []string{".Properties.Username", ".Properties.Clean", ".Properties.ProtocolVersion", ".Properties.Will"} {
			n := 0
			for _, ins := range instrs(f) {
				if st, ok := ins.(*ssa.Store); ok && strings.HasSuffix(describe(st.Addr), a) && strings.Contains(describe(st.Addr), "NewClient(") {
					n++
				}
			}
			c.ob("C20.b reader-covers-session", "(*mqtt.Server).loadClients restores cl"+a, c.pos(f.Pos()), n > 0, "")
		}
		nc := c.call1(f, "(*mqtt.Server).NewClient")
		c.ob("C20.b reader-covers-session", "(*mqtt.Server).loadClients re-creates the client under its stored id and listener", c.pos(f.Pos()),
			nc != nil && strings.HasSuffix(describe(nc.Common().Args[2]), ".Listener") && strings.HasSuffix(describe(nc.Common().Args[3]), ".ID"), "")
	}
	if f := c.fn("mqtt", "(*Server).loadSubscriptions"); f != nil {
		got, _ := litFields(f, modPath+"/packets", "Subscription")
		for _, fld := range []string{"Filter", "RetainHandling", "Qos", "RetainAsPublished", "NoLocal", "Identifier"} {
			c.ob("C20.b reader-covers-session", "(*mqtt.Server).loadSubscriptions restores subscription option "+fld, c.pos(f.Pos()), got[fld], "")
		}
	}
	// (c) keys
	for _, b := range backends {
		prefixes := map[string]string{}
		for _, k := range []string{"clientKey", "subscriptionKey", "retainedKey", "inflightKey"} {
			f := c.fn(bpath(b), k)
			if f == nil {
				continue
			}
			rets := returns(f)
			if len(rets) != 1 {
				continue
			}
			var free []string
			prefix := ""
			var walk func(v ssa.Value)
			walk = func(v ssa.Value) {
				switch x := v.(type) {
				case *ssa.BinOp:
					if x.Op == token.ADD {
						walk(x.X)
						walk(x.Y)
						return
					}
				case *ssa.Const:
					if x.Value != nil && x.Value.Kind() == constant.String && prefix == "" && len(free) == 0 {
						prefix = constant.StringVal(x.Value)
					}
					return
				case *ssa.Call:
					n := cname(&x.Call)
					if n == "(*packets.Packet).FormatID" || strings.HasPrefix(n, "strconv.Format") || n == "strconv.Itoa" {
						return // digits only
					}
				}
				free = append(free, describe(v))
			}
			walk(rvs(rets[0])[0])
			prefixes[k] = prefix
			c.ob("C20.c injective-keys", fmt.Sprintf("%s %s is injective (at most one unconstrained string operand)", b, k), c.pos(f.Pos()), len(free) <= 1,
				"concatenation of "+strings.Join(free, " and ")+" with a constant separator: (\"a:b\",\"c\") and (\"a\",\"b:c\") give the same key and overwrite each other")
		}
		if b == "redis" {
			continue // one hash per kind; fields carry no kind prefix
		}
		var ks []string
		for k := range prefixes {
			ks = append(ks, k)
		}
		sort.Strings(ks)
		for i, a := range ks {
			for _, bb := range ks[i+1:] {
				pa, pb := prefixes[a], prefixes[bb]
				c.ob("C20.c injective-keys", fmt.Sprintf("%s: key kinds %s (%q) and %s (%q) are prefix-free", b, a, pa, bb, pb), "", pa != "" && pb != "" && !strings.HasPrefix(pa, pb) && !strings.HasPrefix(pb, pa), "")
			}
		}
	}
	// (d) every stored row is decoded into a zero record: json.Unmarshal leaves absent (omitempty) fields
	// untouched, so a target reused across rows hands one row's options to the next
	nDec := 0
	for _, b := range backends {
		for _, name := range []string{"StoredClients", "StoredSubscriptions", "StoredRetainedMessages", "StoredInflightMessages"} {
			f := c.fn(bpath(b), "(*Hook)."+name)
			if f == nil {
				continue
			}
			for _, g := range withAnon(f) {
				for _, ins := range instrs(g) {
					ci, ok := ins.(ssa.CallInstruction)
					if !ok || !strings.HasSuffix(cname(ci.Common()), ").UnmarshalBinary") {
						continue
					}
					nDec++
					var recv ssa.Value
					if ci.Common().IsInvoke() {
						recv = ci.Common().Value
					} else {
						recv = ci.Common().Args[0]
					}
					al, isAlloc := recv.(*ssa.Alloc)
					fresh := isAlloc && al.Parent() == g
					why := "the decode target " + describe(recv) + " is not a variable declared in the row callback / loop body"
					if fresh {
						// when the call sits in a loop the declaration must be passed again on every iteration
						_, hit := (&PathQuery{Fn: g, From: ins, Target: isIns(ins), Barrier: func(x ssa.Instruction) bool { return x == ssa.Instruction(al) }}).Find()
						if hit != nil {
							fresh = false
							why = "the decode target is declared outside the loop that decodes the rows"
						}
					}
					c.ob("C20.d fresh-decode-target", fmt.Sprintf("%s %s: each row is decoded into a fresh zero record", b, fname(g)), c.pos(ins.Pos()), fresh, why+": fields a row omits keep the previous row's values")
				}
			}
		}
	}
	c.floor("C20.d row decode sites", nDec, 16)
}

// ---- C22 -----------------------------------------------------------------------------------

func init() {
	register(&Prop{
		ID:        "C22",
		Title:     "All bundled storage backends behave identically",
		Technique: "sibling cross-check: normalised effect summaries of every hook method of the four backends (operation, key function, record type, fields set, guards on the hook parameters, error convention of Stored*) compared pairwise",
		Explanation: "For every mqtt.Hook method that a backend implements, a summary is extracted: the sequence of store operations (set/delete, key function, record type and the record fields assigned — helper calls such as updateClient are expanded), the guards in terms of the hook parameters under which they run, and for the Stored* readers their error convention (result on a nil db, whether a record is appended only after a successful decode, whether an iteration/decode error is returned). " +
			"The Provides sets are compared too. Summaries must be equal across badger, bolt, pebble and redis; each difference is reported with the backends that disagree.",
		NotDecided: []string{"the engines' own behaviour (ordering, durability, transactions)", "values written (JSON encoding)"},
		Run:        runC22,
	})
}

type opSummary struct {
	kind, key, rec string
	fields         []string
	guards         []string
}

func (o opSummary) String() string {
	return fmt.Sprintf("%s(%s %s{%s}) when [%s]", o.kind, o.key, o.rec, strings.Join(o.fields, ","), strings.Join(o.guards, " & "))
}

func (c *Ctx) hookSummary(b string, f *ssa.Function, depth int) []opSummary {
	var out []opSummary
	if f == nil || depth > 2 {
		return nil
	}
	pfx := "(*" + bshort(b) + ".Hook)."
	keyOf := func(v0 ssa.Value) string {
		k := "?"
		for _, v := range append([]ssa.Value{v0}, varargVals(v0)...) {
			walkVal(v, func(x ssa.Value) {
				if call, ok := x.(*ssa.Call); ok {
					n := cname(&call.Call)
					if strings.HasPrefix(n, bshort(b)+".") && strings.HasSuffix(n, "Key") {
						k = strings.TrimPrefix(n, bshort(b)+".")
					}
				}
				if fa, ok := x.(*ssa.FieldAddr); ok && fieldName(fa.X.Type(), fa.Field) == "ID" && k == "?" {
					k = "record.ID"
				}
			})
		}
		if k == "record.ID" {
			// the key is the record's ID field: name it by the key function that fills that field
			for _, ins := range instrs(f) {
				st, ok := ins.(*ssa.Store)
				if !ok {
					continue
				}
				if fa, ok := st.Addr.(*ssa.FieldAddr); ok && fieldName(fa.X.Type(), fa.Field) == "ID" {
					walkVal(st.Val, func(x ssa.Value) {
						if call, ok := x.(*ssa.Call); ok {
							n := cname(&call.Call)
							if strings.HasPrefix(n, bshort(b)+".") && strings.HasSuffix(n, "Key") {
								k = strings.TrimPrefix(n, bshort(b)+".")
							}
						}
					})
				}
			}
		}
		return k
	}
	recOf := func(v0 ssa.Value) (string, []string) {
		rec := ""
		for _, v := range append([]ssa.Value{v0}, varargVals(v0)...) {
			walkVal(v, func(x ssa.Value) {
				if a, ok := x.(*ssa.Alloc); ok && rec == "" {
					if n, ok := a.Type().(*types.Pointer).Elem().(*types.Named); ok && n.Obj().Pkg() != nil && n.Obj().Pkg().Path() == storagePkg {
						rec = n.Obj().Name()
					}
				}
			})
		}
		if rec == "" {
			return "-", nil
		}
		fs, _ := litFields(f, storagePkg, rec)
		fields := sortedKeys(fs)
		// nested property records
		for _, nested := range []string{"ClientProperties", "MessageProperties"} {
			if nf, ok := litFields(f, storagePkg, nested); ok {
				for _, k := range sortedKeys(nf) {
					fields = append(fields, nested+"."+k)
				}
			}
		}
		return rec, fields
	}
	guardsOf := func(ins ssa.Instruction) []string {
		var gs []string
		for _, ed := range edgeDoms(ins) {
			t, neg, _ := condOf(ed.b)
			truth := ed.truth
			if neg {
				truth = !truth
			}
			// keep guards about hook parameters / client state; drop plumbing (err checks, range loops)
			keep := t == "expire" || strings.HasPrefix(t, "r == ") || strings.HasPrefix(t, "r < ") || strings.HasPrefix(t, "r > ") || strings.Contains(t, "StopCause") || t == "h.db == nil" ||
				// a guard on state the hook keeps for itself (a cache, a flag) or on the hook's own parameters other than
				// plumbing: the siblings would have to share it
				(strings.Contains(t, "h.") && !strings.Contains(t, "h.db") && !strings.Contains(t, "h.Log") && !strings.Contains(t, "h.config") && !strings.Contains(t, "h.ctx")) ||
				strings.Contains(t, "errors.Is(err,") ||
				// a guard on the event's packet (its type, flags): "this kind of packet is not stored" must hold for all
				// backends or for none
				(strings.Contains(t, "pk.") && !strings.Contains(t, "builtin.len(pk.")) // (not the bound of a loop over the packet's filters)
			if !keep {
				continue
			}
			t = strings.ReplaceAll(t, "errors.Is((*mqtt.Client).StopCause(cl), packets.ErrSessionTakenOver)", "takenOver")
			t = strings.ReplaceAll(t, "(*mqtt.Client).StopCause(cl) == packets.ErrSessionTakenOver", "takenOver")
			if !truth {
				t = "!" + t
			}
			gs = append(gs, t)
		}
		// an operation that can be skipped depending on state the hook keeps for itself (a cache of written records,
		// a flag): the siblings do not share that state, so the operation is conditional here and not there
		for _, b := range f.Blocks {
			t, _, ok := condOf(b)
			if !ok {
				continue
			}
			onHookState := strings.Contains(t, "h.") && !strings.Contains(t, "h.db") && !strings.Contains(t, "h.Log") && !strings.Contains(t, "h.config") && !strings.Contains(t, "h.ctx")
			// … or depending on the event's packet (`if pk.FixedHeader.Type == Publish && pk.FixedHeader.Dup { return }`:
			// no single edge dominates the operation, so the guard list above does not show it)
			onPacket := strings.Contains(t, "pk.") && !strings.Contains(t, "builtin.len(pk.")
			if !onHookState && !onPacket {
				continue
			}
			last := b.Instrs[len(b.Instrs)-1]
			if _, hit := (&PathQuery{Fn: f, From: last, Target: anyReturn, Barrier: isIns(ins)}).Find(); hit != nil && reachableFrom(last, ins) {
				if onHookState {
					gs = append(gs, "skippable-on-hook-state:"+t)
				} else {
					gs = append(gs, "skippable-on-packet:"+t)
				}
			}
		}
		sort.Strings(gs)
		return dedup(gs)
	}
	for _, ins := range instrs(f) {
		cc := callOf(ins)
		if cc == nil {
			continue
		}
		n := cname(cc)
		switch {
		case n == pfx+"setKv":
			rec, fields := recOf(cc.Args[2])
			out = append(out, opSummary{"set", keyOf(cc.Args[1]), rec, fields, guardsOf(ins)})
		case n == pfx+"delKv":
			out = append(out, opSummary{"del", keyOf(cc.Args[1]), "-", nil, guardsOf(ins)})
		case strings.HasSuffix(n, ".HSet") && b == "redis":
			rec, fields := "-", []string(nil)
			if len(cc.Args) >= 3 {
				// variadic values: the record is among the trailing args
				for _, a := range cc.Args[2:] {
					if r, fl := recOf(a); r != "-" {
						rec, fields = r, fl
					}
				}
			}
			k := "?"
			for _, a := range cc.Args {
				if kk := keyOf(a); kk != "?" && kk != "record.ID" {
					k = kk
				}
			}
			out = append(out, opSummary{"set", k, rec, fields, guardsOf(ins)})
		case strings.HasSuffix(n, ".HDel") && b == "redis":
			k := "?"
			for _, a := range cc.Args {
				if kk := keyOf(a); kk != "?" {
					k = kk
				}
			}
			out = append(out, opSummary{"del", k, "-", nil, guardsOf(ins)})
		case b != "redis" && len(cc.Args) > 0 && describe(cc.Args[0]) == "h.db" && !strings.HasPrefix(n, pfx) && strings.HasPrefix(f.Name(), "On"):
			// an event method talks to the storage engine directly instead of through setKv/delKv: part of the
			// summary, so that a range delete or a write with other options shows up as a sibling difference
			k := "?"
			for _, a := range cc.Args[1:] {
				if kk := keyOf(a); kk != "?" {
					k = kk
				}
			}
			out = append(out, opSummary{"engine:" + n[strings.LastIndex(n, ".")+1:], k, "-", nil, guardsOf(ins)})
		case strings.HasPrefix(n, pfx) && cc.StaticCallee() != nil && cc.StaticCallee() != f:
			// helper of the same hook (updateClient, OnQosComplete…): expand, prefixing the caller's guards
			g := guardsOf(ins)
			for _, o := range c.hookSummary(b, cc.StaticCallee(), depth+1) {
				o.guards = append(append([]string{}, g...), o.guards...)
				sort.Strings(o.guards)
				o.guards = dedup(o.guards)
				out = append(out, o)
			}
		}
	}
	return out
}

// varargVals: the values stored into a variadic-argument slice (new [n]T (varargs); slice t[:]).
func varargVals(v ssa.Value) []ssa.Value {
	sl, ok := v.(*ssa.Slice)
	if !ok {
		return nil
	}
	a, ok := sl.X.(*ssa.Alloc)
	if !ok {
		return nil
	}
	var out []ssa.Value
	for _, ref := range *a.Referrers() {
		if ia, ok := ref.(*ssa.IndexAddr); ok {
			for _, rr := range *ia.Referrers() {
				if st, ok := rr.(*ssa.Store); ok {
					out = append(out, st.Val)
				}
			}
		}
	}
	return out
}

// retIsNil: the idx-th result of return r is nil — a nil constant, or a named result that no store reaches.
func retIsNil(f *ssa.Function, r *ssa.Return, idx int) bool {
	v := rvs(r)[idx]
	if isNilConst(v) {
		return true
	}
	u, ok := v.(*ssa.UnOp)
	if !ok {
		return false
	}
	a, ok := u.X.(*ssa.Alloc)
	if !ok {
		return false
	}
	for _, ref := range *a.Referrers() {
		if st, ok := ref.(*ssa.Store); ok && st.Addr == ssa.Value(a) && reachableFrom(st, r) {
			return false
		}
	}
	return true
}

func dedup(s []string) []string {
	var out []string
	for i, x := range s {
		if i == 0 || x != s[i-1] {
			out = append(out, x)
		}
	}
	return out
}

func runC22(c *Ctx) {
	hookT := c.namedType("mqtt", "Hook")
	if hookT == nil {
		return
	}
	iface := hookT.Underlying().(*types.Interface)
	var methods []string
	for i := 0; i < iface.NumMethods(); i++ {
		methods = append(methods, iface.Method(i).Name())
	}
	sort.Strings(methods)
	nCompared := 0
	for _, m := range methods {
		if m == "ID" || m == "Init" || m == "Stop" || m == "SetOpts" || m == "Provides" {
			continue
		}
		sums := map[string]string{}
		impl := 0
		for _, b := range backends {
			f := c.optFn(bpath(b), "(*Hook)."+m)
			if f == nil || fnPkgPath(f) != modPath+"/"+bpath(b) {
				sums[b] = "(not implemented)"
				continue
			}
			impl++
			c.fnsSeen[f] = true
			if strings.HasPrefix(m, "Stored") {
				sums[b] = c.storedSummary(b, f)
				continue
			}
			var parts []string
			for _, o := range c.hookSummary(b, f, 0) {
				parts = append(parts, o.String())
			}
			sums[b] = strings.Join(parts, " ; ")
		}
		if impl == 0 {
			continue
		}
		nCompared++
		// group backends by summary
		groups := map[string][]string{}
		for _, b := range backends {
			groups[sums[b]] = append(groups[sums[b]], b)
		}
		if len(groups) == 1 {
			c.ob("C22 sibling-summaries", "hook method "+m+": the four backends have the same effect summary", "", true, sums[backends[0]])
			continue
		}
		var gs []string
		for s, bs := range groups {
			gs = append(gs, strings.Join(bs, "+")+": "+s)
		}
		sort.Strings(gs)
		// one obligation per disagreeing partition, keyed by the partition (not by the summary text)
		var parts []string
		for _, bs := range groups {
			parts = append(parts, strings.Join(bs, "+"))
		}
		sort.Strings(parts)
		c.ob("C22 sibling-summaries", fmt.Sprintf("hook method %s: backends agree (partition %s)", m, strings.Join(parts, " | ")), "", false, strings.Join(gs, "  ≠  "))
	}
	c.floor("C22 hook methods compared", nCompared, 17)
	// Provides sets
	prov := map[string]string{}
	for _, b := range backends {
		f := c.fn(bpath(b), "(*Hook).Provides")
		if f == nil {
			continue
		}
		var ks []int64
		for _, ins := range instrs(f) {
			if st, ok := ins.(*ssa.Store); ok {
				if _, isIA := st.Addr.(*ssa.IndexAddr); isIA {
					if k, isC := constInt(st.Val); isC {
						ks = append(ks, k)
					}
				}
			}
		}
		// the same set written as a switch / chain of comparisons of the parameter with the hook constants
		if len(ks) == 0 && len(f.Params) == 2 {
			pn := canonName(f.Params[1], f.Params[1].Name())
			seen := map[int64]bool{}
			for _, blk := range f.Blocks {
				if t, _, ok := condOf(blk); ok && strings.HasPrefix(t, pn+" == ") {
					if k, err := strconv.ParseInt(strings.TrimPrefix(t, pn+" == "), 0, 64); err == nil && !seen[k] {
						seen[k] = true
						ks = append(ks, k)
					}
				}
			}
		}
		sort.Slice(ks, func(i, j int) bool { return ks[i] < ks[j] })
		prov[b] = fmt.Sprint(ks)
	}
	same := true
	for _, b := range backends {
		if prov[b] != prov[backends[0]] {
			same = false
		}
	}
	c.ob("C22 provides-sets", "the four backends provide the same set of hook methods", "", same, fmt.Sprint(prov))
}

// storedSummary: error convention of a Stored* reader.
func (c *Ctx) storedSummary(b string, f *ssa.Function) string {
	var parts []string
	// result on db == nil
	for _, r := range returns(f) {
		if dominatedByFact(r, textEq("h.db == nil"), true) {
			e := "error"
			if retIsNil(f, r, len(r.Results)-1) {
				e = "nil"
			}
			parts = append(parts, "nil-db→"+e)
		}
	}
	// append only after successful decode?
	fns := withAnon(f)
	guarded, unguarded := 0, 0
	returnsDecodeErr := false
	for _, g := range fns {
		for _, ci := range c.callsNamed(g, "builtin.append") {
			ok := false
			for _, ed := range edgeDoms(ci) {
				t, neg, _ := condOf(ed.b)
				truth := ed.truth
				if neg {
					truth = !truth
				}
				if strings.Contains(t, "UnmarshalBinary(") && strings.HasSuffix(t, "== nil") && truth || (t == "err == nil" && truth) {
					ok = true
				}
			}
			if ok {
				guarded++
			} else {
				unguarded++
			}
		}
		// does a decode error reach the caller? (closure returns err to iterKv / function returns err)
		for _, r := range returns(g) {
			vs := rvs(r)
			if len(vs) == 0 {
				continue
			}
			d := describe(vs[len(vs)-1])
			if g != f && (d == "err" || strings.Contains(d, "UnmarshalBinary(")) {
				returnsDecodeErr = true
			}
		}
	}
	if unguarded > 0 {
		parts = append(parts, "appends-even-on-decode-error")
	} else if guarded > 0 {
		parts = append(parts, "appends-only-decoded")
	}
	// final error propagated?
	prop := false
	for _, r := range returns(f) {
		vs := rvs(r)
		if len(vs) == 2 && !dominatedByFact(r, textEq("h.db == nil"), true) {
			d := describe(vs[1])
			if d != "nil" {
				prop = true
			}
		}
	}
	if returnsDecodeErr && prop {
		parts = append(parts, "decode-error→returned")
	} else {
		parts = append(parts, "decode-error→swallowed")
	}
	return strings.Join(parts, ", ")
}
