package main

// round4Explain: rules added after the fourth (partial) round of seeded changes (round4_rules.go).
var round4Explain = map[string]string{
	"C03": "WriteLoop is started in attachClient only (one consumer of the outbound queue).",
	"C09": "buildAck stamps acknowledgement records with their creation time.",
	"C11": "buildAck dates its records; the quotas are reset only where a client's in-flight state is set up.",
	"C12": "Quota resets only at set-up; processPublish stamps the arrival time unconditionally; one write loop per client; the expiry sweep leaves its loop only when the list is exhausted.",
	"C13": "A ledger user's password is compared literally (RString.Matches would treat '*' as a wildcard).",
	"C16": "A DISCONNECT whose session expiry interval is 0 is never a protocol violation; attachClient handles the will before the OnDisconnect hooks.",
	"C18": "A ledger user's password is compared literally.",
	"C20": "The storage hooks copy the packet's properties whatever the recipient's protocol version; their per-filter loops contain no return.",
	"C21": "The per-filter loops of the storage hooks' OnSubscribed/OnUnsubscribed contain no return (every filter of the packet is handled).",
	"C22": "The storage hooks copy the packet's properties whatever the recipient's protocol version; their per-filter loops contain no return.",
	"C25": "Acknowledgement records are dated; the expiry sweep has no early exit.",
	"C26": "ConnectDecode takes the will QoS from two bits of the connect flags.",
	"C42": "ConnectDecode takes the will QoS from two bits of the connect flags.",
}
