package main

import (
	"fmt"
	"go/token"
	"strings"

	"golang.org/x/tools/go/ssa"
)

const (
	fnSendConnack   = "(*mqtt.Server).SendConnack"
	fnClientsAdd    = "(*mqtt.Clients).Add"
	fnClientsDelete = "(*mqtt.Clients).Delete"
	fnClientsGet    = "(*mqtt.Clients).Get"
	fnPubToSubs     = "(*mqtt.Server).publishToSubscribers"
	fnRetainMsg     = "(*mqtt.Server).retainMessage"
	fnPubToClient   = "(*mqtt.Server).publishToClient"
	fnACL           = "(*mqtt.Hooks).OnACLCheck"
	fnTopicsSub     = "(*mqtt.TopicsIndex).Subscribe"
	fnUnsubClient   = "(*mqtt.Server).UnsubscribeClient"
	fnClearInfl     = "(*mqtt.Client).ClearInflights"
	fnSendLWT       = "(*mqtt.Server).sendLWT"
)

// successConnack: the SendConnack call in attachClient whose reason is the validated code (not an Err* global).
func (c *Ctx) successConnack(f *ssa.Function) ssa.CallInstruction {
	for _, ci := range c.callsNamed(f, fnSendConnack) {
		if strings.Contains(describe(ci.Common().Args[3]), "inheritClientSession") {
			return ci
		}
	}
	return nil
}

// ---- C13 -----------------------------------------------------------------------------------

func init() {
	register(&Prop{
		ID:        "C13",
		Title:     "Connections start with one CONNACK and only authenticated clients are admitted",
		Technique: "ordering / dominance and counting rules on attachClient's SSA CFG; who-may-call SendConnack; existential-loop shape of the authentication hook chain",
		Explanation: "(a) the publication point Clients.Add (after which other goroutines can enqueue to the client) and ResendInflightMessages / OnSessionEstablished are dominated by the success SendConnack; " +
			"(b) at most one SendConnack on any path of attachClient and no other caller of SendConnack in the module; " +
			"(c) the success SendConnack is reached only on the true edge of hooks.OnConnectAuthenticate, whose every `return true` depends on a hook returning true and whose fall-through (no hooks) returns false; HookBase's default is false; " +
			"(d) Clients.Add is reached only after a CONNECT was read (fixed-header type test), validateConnect == CodeSuccess and OnConnect == nil.",
		NotDecided: []string{"what actually hits the wire first under a real schedule", "CONNECT validation rules themselves (ConnectValidate's truth table)"},
		Run:        runC13,
	})
}

func runC13(c *Ctx) {
	f := c.fn("mqtt", "(*Server).attachClient")
	if f == nil {
		return
	}
	ok := c.successConnack(f)
	add := c.call1(f, fnClientsAdd)
	if ok == nil {
		c.ob("C13.a nothing-before-connack", "(*mqtt.Server).attachClient: success SendConnack(code, sessionPresent)", "", false, "no SendConnack call carrying inheritClientSession's result")
		return
	}
	c.dom("C13.a nothing-before-connack", "(*mqtt.Server).attachClient: Clients.Add (publication point) after the success SendConnack", ok, add,
		"once the client is in the registry, publishToSubscribers on other goroutines can enqueue packets that WriteLoop writes; that must not happen before the CONNACK is written")
	c.dom("C13.a nothing-before-connack", "(*mqtt.Server).attachClient: ResendInflightMessages after the success SendConnack", ok, c.call1(f, "(*mqtt.Client).ResendInflightMessages"), "")
	c.dom("C13.a nothing-before-connack", "(*mqtt.Server).attachClient: OnSessionEstablished after the success SendConnack", ok, c.call1(f, "(*mqtt.Hooks).OnSessionEstablished"), "")
	// (b) at most one CONNACK per path
	calls := c.callsNamed(f, fnSendConnack)
	c.floor("C13.b SendConnack sites in attachClient", len(calls), 5)
	for _, ci := range calls {
		c.noPath("C13.b one-connack", fmt.Sprintf("(*mqtt.Server).attachClient: no second SendConnack after SendConnack(%s)", describe(ci.Common().Args[2])), f, ci,
			isNamed(fnSendConnack), nil, nil, "a connection gets exactly one CONNACK")
	}
	c.whoCalls("C13.b one-connack", c.fn("mqtt", "(*Server).SendConnack"), map[string]string{"(*mqtt.Server).attachClient": "the only connection-establishment path"})
	// nothing is written before: no WritePacket/DisconnectClient call in attachClient precedes every SendConnack
	for _, ci := range c.callsNamed(f, fnWritePacket, fnDisconnect) {
		c.ob("C13.a nothing-before-connack", "(*mqtt.Server).attachClient: direct write "+cname(ci.Common()), c.pos(ci.Pos()), false, "attachClient must write only through SendConnack before the session is established")
	}
	// (c) success only when a hook allowed
	c.underFact("C13.c auth-gates-success", "(*mqtt.Server).attachClient: success SendConnack only on OnConnectAuthenticate == true", ok,
		func(t string) bool { return strings.HasPrefix(t, "(*mqtt.Hooks).OnConnectAuthenticate(") }, true, "")
	c.underFact("C13.c auth-gates-success", "(*mqtt.Server).attachClient: Clients.Add only on OnConnectAuthenticate == true", add,
		func(t string) bool { return strings.HasPrefix(t, "(*mqtt.Hooks).OnConnectAuthenticate(") }, true, "")
	// every CONNACK sent before authentication carries a failure code
	codes := c.codeValuesAST()
	failureOnly := func(fn *ssa.Function) (bool, string) { // all Code globals fn can return, except CodeSuccess, are >= 0x80
		gl := c.retGlobals(fn, 0, map[*ssa.Function]bool{})
		if len(gl) == 0 {
			return false, "no constant return codes found"
		}
		for g := range gl {
			if g == "CodeSuccess" {
				continue
			}
			if v, ok := codes[g]; !ok || v < 0x80 {
				return false, fmt.Sprintf("%s (0x%02X) is not a failure code", g, v)
			}
		}
		return true, fmt.Sprintf("%d possible codes, all failures", len(gl))
	}
	for _, ci := range calls {
		if dominatedByFact(ci, func(t string) bool { return strings.HasPrefix(t, "(*mqtt.Hooks).OnConnectAuthenticate(") }, true) {
			continue
		}
		reason := ci.Common().Args[2]
		d := describe(reason)
		construct := fmt.Sprintf("(*mqtt.Server).attachClient: SendConnack(%s) before authentication carries a failure code", d)
		if strings.HasPrefix(d, "packets.") {
			v, known := codes[strings.TrimPrefix(d, "packets.")]
			c.ob("C13.c auth-gates-success", construct, c.pos(ci.Pos()), known && v >= 0x80, fmt.Sprintf("code 0x%02X", v))
			continue
		}
		if call, isCall := reason.(*ssa.Call); isCall && cname(&call.Call) == "(*mqtt.Server).validateConnect" {
			okc, why := failureOnly(call.Call.StaticCallee())
			okc = okc && dominatedByFact(ci, textEq(describe(call)+" == packets.CodeSuccess"), false)
			c.ob("C13.c auth-gates-success", construct, c.pos(ci.Pos()), okc, why)
			continue
		}
		c.ob("C13.c auth-gates-success", construct, c.pos(ci.Pos()), false,
			"SendConnack writes the success form of the CONNACK for any code below 0x80; this code is not a constant failure and the call is not gated by OnConnectAuthenticate")
	}
	// the connection is closed whatever the first packet was: the deferred Stop is registered before the first read
	var stopDefer ssa.Instruction
	for _, ins := range instrs(f) {
		if d, isDefer := ins.(*ssa.Defer); isDefer && cname(&d.Call) == "(*mqtt.Client).Stop" {
			stopDefer = d
		}
	}
	c.dom("C13.d valid-connect-only", "(*mqtt.Server).attachClient: Client.Stop is deferred before the first packet is read, so a bad first packet still closes the connection", stopDefer, c.call1(f, "(*mqtt.Server).readConnectionPacket"), "")
	c.existentialHook("C13.c auth-gates-success", "OnConnectAuthenticate")
	if hb := c.fn("mqtt", "(*HookBase).OnConnectAuthenticate"); hb != nil {
		good := true
		for _, r := range returns(hb) {
			if describe(rvs(r)[0]) != "false" {
				good = false
			}
		}
		c.ob("C13.c auth-gates-success", "(*mqtt.HookBase).OnConnectAuthenticate returns false", c.pos(hb.Pos()), good, "a hook that does not implement authentication must not admit clients")
	}
	// (d) no session without a valid CONNECT
	c.underFact("C13.d valid-connect-only", "(*mqtt.Server).attachClient: Clients.Add only after readConnectionPacket succeeded", add,
		func(t string) bool { return t == "(*mqtt.Server).readConnectionPacket(s, cl)#1 == nil" }, true, "")
	c.underFact("C13.d valid-connect-only", "(*mqtt.Server).attachClient: Clients.Add only when validateConnect == CodeSuccess", add,
		func(t string) bool {
			return strings.HasPrefix(t, "(*mqtt.Server).validateConnect(") && strings.HasSuffix(t, "== packets.CodeSuccess")
		}, true, "")
	c.underFact("C13.d valid-connect-only", "(*mqtt.Server).attachClient: Clients.Add only when hooks.OnConnect returned nil", add,
		func(t string) bool {
			return strings.HasPrefix(t, "(*mqtt.Hooks).OnConnect(") && strings.HasSuffix(t, "== nil")
		}, true, "")
	if vc := c.fn("mqtt", "(*Server).validateConnect"); vc != nil {
		cv := c.call1(vc, "(*packets.Packet).ConnectValidate")
		good := cv != nil
		if good {
			// a failing ConnectValidate is returned
			call := asCall(cv)
			good = false
			for _, r := range returns(vc) {
				if rvs(r)[0] == ssa.Value(call) && dominatedByFact(r, textEq(describe(call)+" == packets.CodeSuccess"), false) {
					good = true
				}
			}
		}
		c.ob("C13.d valid-connect-only", "(*mqtt.Server).validateConnect returns ConnectValidate's failure code", c.pos(vc.Pos()), good, "")
	}
	if rc := c.fn("mqtt", "(*Server).readConnectionPacket"); rc != nil {
		c.underFact("C13.d valid-connect-only", "(*mqtt.Server).readConnectionPacket: the body is read only for a CONNECT fixed header", c.call1(rc, "(*mqtt.Client).ReadPacket"),
			func(t string) bool { return strings.HasSuffix(t, ".Type == 1") }, true, "the first packet must be CONNECT")
		// every nil-error return is after ReadPacket
		for _, r := range returns(rc) {
			_ = r
		}
	}
	// the failure CONNACKs are followed by a return (connection closed by the deferred Stop)
	for _, ci := range calls {
		if ci == ok {
			continue
		}
		c.noPath("C13.d valid-connect-only", fmt.Sprintf("(*mqtt.Server).attachClient: failure SendConnack(%s) never reaches Clients.Add", describe(ci.Common().Args[2])), f, ci,
			isNamed(fnClientsAdd, "(*mqtt.Client).Read"), nil, nil, "after a failure CONNACK the connection must be closed")
	}
}

// existentialHook checks (*Hooks).<name>: `return true` only when a hook returned true; fall-through false.
func (c *Ctx) existentialHook(rule, name string) {
	f := c.fn("mqtt", "(*Hooks)."+name)
	if f == nil {
		return
	}
	inv := c.callsIn(f, func(n string, cc *ssa.CallCommon) bool { return cc.IsInvoke() && cc.Method.Name() == name })
	if len(inv) != 1 {
		c.ob(rule, "(*mqtt.Hooks)."+name+": one hook invocation in the chain loop", c.pos(f.Pos()), false, fmt.Sprintf("%d invocations", len(inv)))
		return
	}
	call := asCall(inv[0])
	for _, r := range returns(f) {
		d := describe(rvs(r)[0])
		switch d {
		case "true":
			c.ob(rule, "(*mqtt.Hooks)."+name+": `return true` only after a hook returned true", c.pos(r.Pos()),
				dominatedByFact(r, textEq(describe(call)), true), "any hook may allow; nothing else may")
		case "false":
			c.ob(rule, "(*mqtt.Hooks)."+name+": falling out of the hook loop returns false", c.pos(r.Pos()), true, "no hook allowed ⇒ refused (also with no hooks at all)")
		default:
			c.ob(rule, "(*mqtt.Hooks)."+name+": returns "+d, c.pos(r.Pos()), false, "the chain result must be the constant true (a hook allowed) or false")
		}
	}
	// the hook is consulted only if it provides the capability
	c.underFact(rule, "(*mqtt.Hooks)."+name+": a hook is consulted only when it Provides the capability", inv[0],
		func(t string) bool { return strings.Contains(t, ".Provides(") }, true, "")
}

// ---- C14 -----------------------------------------------------------------------------------

func init() {
	register(&Prop{
		ID:        "C14",
		Title:     "Session present flag and session takeover behave per clean start",
		Technique: "path/dominance rules on inheritClientSession, SendConnack and attachClient (SSA CFG)",
		Explanation: "(a) inheritClientSession returns true only when a registered session exists, the CONNECT is not clean and the existing session is not an MQTT 3 clean session; every other exit returns false; " +
			"attachClient passes that value to the success SendConnack, and SendConnack's failure branch forces SessionPresent false; " +
			"(b) on the clean edge UnsubscribeClient(existing) and existing.ClearInflights() run before isTakenOver is set, and nothing is copied to the new client; " +
			"(c) on the resume edge the in-flight map is cloned and every subscription of the old client is re-subscribed for and added to the new client; " +
			"(d) DisconnectClient(existing, ErrSessionTakenOver) precedes every other action on the existing session.",
		NotDecided: []string{"concurrent traffic during takeover", "what the old connection actually receives after its DISCONNECT"},
		Run:        runC14,
	})
}

func runC14(c *Ctx) {
	f := c.fn("mqtt", "(*Server).inheritClientSession")
	if f == nil {
		return
	}
	getOK := func(t string) bool { return strings.HasPrefix(t, fnClientsGet+"(") && strings.HasSuffix(t, "#1") }
	existing := "existing"
	if g := asCall(c.call1(f, fnClientsGet)); g != nil {
		existing = describe(g) + "#0"
	}
	nTrue := 0
	for _, r := range returns(f) {
		d := describe(rvs(r)[0])
		if d == "true" {
			nTrue++
			c.underFact("C14.a session-present", "(*mqtt.Server).inheritClientSession: `return true` only when a session for the id exists", r, getOK, true, "")
			c.underFact("C14.a session-present", "(*mqtt.Server).inheritClientSession: `return true` only when the CONNECT has Clean Start 0", r, textEq("pk.Connect.Clean"), false, "")
			// not an MQTT 3 clean existing session
			q := &PathQuery{Fn: f, Target: isIns(r), Assume: []Assume{assumeHas("existing.Properties.Clean", true), assumeHas("existing.Properties.ProtocolVersion < 5", true)}}
			_ = q
			ok := true
			for _, b := range f.Blocks {
				t, _, isIf := condOf(b)
				_ = t
				_ = isIf
			}
			// path with existing.Clean ∧ v<5 both true must not reach return true
			p, hit := (&PathQuery{Fn: f, Target: isIns(r), Assume: []Assume{
				{Match: func(t string) bool { return strings.HasSuffix(t, ".Properties.Clean") && !strings.HasPrefix(t, "pk.") }, Truth: true},
				{Match: func(t string) bool { return strings.HasSuffix(t, ".Properties.ProtocolVersion < 5") }, Truth: true}}}).Find()
			if hit != nil {
				ok = false
			}
			c.ob("C14.a session-present", "(*mqtt.Server).inheritClientSession: an MQTT 3 clean existing session is never resumed", c.pos(r.Pos()), ok, pathStr(f, p))
		} else if d != "false" {
			c.ob("C14.a session-present", "(*mqtt.Server).inheritClientSession: returns "+d, c.pos(r.Pos()), false, "session-present must be a constant decided by the branch taken")
		}
	}
	c.floor("C14.a `return true` sites", nTrue, 1)
	// attachClient passes it on
	if ac := c.fn("mqtt", "(*Server).attachClient"); ac != nil {
		ok := c.successConnack(ac)
		c.ob("C14.a session-present", "(*mqtt.Server).attachClient passes inheritClientSession's result to the success SendConnack", c.pos(ac.Pos()), ok != nil &&
			strings.HasPrefix(describe(ok.Common().Args[3]), "(*mqtt.Server).inheritClientSession("), "")
		for _, ci := range c.callsNamed(ac, fnSendConnack) {
			if ci != ok {
				c.ob("C14.a session-present", "(*mqtt.Server).attachClient: failure SendConnack("+describe(ci.Common().Args[2])+") passes present=false", c.pos(ci.Pos()), describe(ci.Common().Args[3]) == "false", "")
			}
		}
	}
	if sc := c.fn("mqtt", "(*Server).SendConnack"); sc != nil {
		n := 0
		for _, ins := range instrs(sc) {
			st, ok := ins.(*ssa.Store)
			if !ok {
				continue
			}
			fa, ok := st.Addr.(*ssa.FieldAddr)
			if !ok || fieldName(fa.X.Type(), fa.Field) != "SessionPresent" {
				continue
			}
			n++
			if describe(st.Val) == "present" {
				c.underFact("C14.a session-present", "(*mqtt.Server).SendConnack: the caller's session-present value is used only for a success code", st,
					textEq("reason.Code < packets.ErrUnspecifiedError.Code"), true, "a failure CONNACK must carry Session Present 0")
			} else {
				c.ob("C14.a session-present", "(*mqtt.Server).SendConnack: failure CONNACK has SessionPresent "+describe(st.Val), c.pos(st.Pos()), describe(st.Val) == "false", "")
			}
		}
		c.floor("C14.a SessionPresent stores in SendConnack", n, 2)
	}
	// (d) disconnect first
	disc := c.call1(f, fnDisconnect)
	good := disc != nil && strings.Contains(describe(disc.Common().Args[2]), "ErrSessionTakenOver") && describe(disc.Common().Args[1]) == existing
	c.ob("C14.d old-connection-cut-first", "(*mqtt.Server).inheritClientSession: DisconnectClient(existing, ErrSessionTakenOver)", c.pos(f.Pos()), good, "")
	if disc != nil {
		for _, n := range []string{fnUnsubClient, fnClearInfl, fnTopicsSub, "(*mqtt.Inflight).Clone", "(*sync/atomic.Bool).Store"} {
			for _, ci := range c.callsNamed(f, n) {
				c.ob("C14.d old-connection-cut-first", fmt.Sprintf("(*mqtt.Server).inheritClientSession: %s after the old connection was disconnected", describe(ci.(ssa.Value))), c.pos(ci.Pos()), domInstr(disc, ci), "")
			}
		}
	}
	// (b) clean edge: the `return false` that follows isTakenOver.Store inside the existing-branch
	var cleanRet *ssa.Return
	for _, r := range returns(f) {
		if describe(rvs(r)[0]) == "false" && dominatedByFact(r, getOK, true) {
			cleanRet = r
		}
	}
	if cleanRet == nil {
		c.ob("C14.b clean-start-discards", "(*mqtt.Server).inheritClientSession: clean-start exit of the existing-session branch", c.pos(f.Pos()), false, "not found")
	} else {
		var store ssa.Instruction
		for _, ci := range c.callsNamed(f, "(*sync/atomic.Bool).Store") {
			if ci.Block() == cleanRet.Block() || ci.Block().Dominates(cleanRet.Block()) {
				if !dominatedByFact(ci, textEq("pk.Connect.Clean"), false) {
					store = ci
				}
			}
		}
		var unsub, clear ssa.Instruction
		for _, ci := range c.callsNamed(f, fnUnsubClient) {
			if domInstr(ci, cleanRet) {
				unsub = ci
			}
		}
		for _, ci := range c.callsNamed(f, fnClearInfl) {
			if domInstr(ci, cleanRet) {
				clear = ci
			}
		}
		c.dom("C14.b clean-start-discards", "(*mqtt.Server).inheritClientSession: clean edge unsubscribes the old session before marking it taken over", unsub, store,
			"UnsubscribeClient is a no-op once isTakenOver is set")
		c.dom("C14.b clean-start-discards", "(*mqtt.Server).inheritClientSession: clean edge clears the old in-flight messages", clear, cleanRet, "")
		copied := false
		for _, ci := range c.callsNamed(f, "(*mqtt.Inflight).Clone", fnTopicsSub, "(*mqtt.Subscriptions).Add") {
			if reachableFrom(ci, cleanRet) {
				copied = true
			}
		}
		c.ob("C14.b clean-start-discards", "(*mqtt.Server).inheritClientSession: nothing is copied to the new client on the clean edge", c.pos(cleanRet.Pos()), !copied, "")
	}
	// "… whether held by the broker or restored later": a stored subscription without a restored session is not re-installed
	if ls := c.fn("mqtt", "(*Server).loadSubscriptions"); ls != nil {
		c.underFact("C14.b clean-start-discards", "(*mqtt.Server).loadSubscriptions: a stored subscription is restored only for a client id whose session was restored", c.call1(ls, fnTopicsSub),
			func(t string) bool { return strings.HasPrefix(t, fnClientsGet+"(") && strings.HasSuffix(t, "#1") }, true,
			"records of a clean / expired session left in the store would deliver to the next connection with that id although Session Present is 0")
	}
	if lc := c.fn("mqtt", "(*Server).loadClients"); lc != nil {
		c.underFact("C14.b clean-start-discards", "(*mqtt.Server).loadClients does not register a session that ended with its connection (clean / expiry 0)", c.call1(lc, fnClientsAdd), textEq("φ||"), false, "")
	}
	// (c) resume edge
	for _, r := range returns(f) {
		if describe(rvs(r)[0]) != "true" {
			continue
		}
		clone := c.call1(f, "(*mqtt.Inflight).Clone")
		c.ob("C14.c resume-keeps-state", "(*mqtt.Server).inheritClientSession: the old in-flight map is cloned into the new client on the resume edge", c.pos(f.Pos()),
			clone != nil && domInstrOrSameFn(clone, r) && strings.HasPrefix(describe(clone.Common().Args[0]), existing+"."), "")
		if clone != nil {
			c.underFact("C14.c resume-keeps-state", "(*mqtt.Server).inheritClientSession: the clone is skipped only when the old in-flight map is empty", clone,
				textHas(existing+".State.Inflight", "Len", "> 0"), true, "")
			// stored into cl.State.Inflight
			stored := false
			for _, st := range storesTo(f, "cl.State.Inflight") {
				if st.Val == clone.(ssa.Value) {
					stored = true
				}
			}
			c.ob("C14.c resume-keeps-state", "(*mqtt.Server).inheritClientSession: the clone becomes the new client's in-flight map", c.pos(clone.Pos()), stored, "")
		}
		sub := c.call1(f, fnTopicsSub)
		add := c.call1(f, "(*mqtt.Subscriptions).Add")
		c.ob("C14.c resume-keeps-state", "(*mqtt.Server).inheritClientSession: every old subscription is re-subscribed for the new client", c.pos(f.Pos()),
			sub != nil && describe(sub.Common().Args[1]) == "cl.ID" && (strings.Contains(describe(sub.Common().Args[2]), existing+".State.Subscriptions") || describe(sub.Common().Args[2]) == "sub"), "")
		c.ob("C14.c resume-keeps-state", "(*mqtt.Server).inheritClientSession: every old subscription is added to the new client's own set", c.pos(f.Pos()),
			add != nil && strings.HasPrefix(describe(add.Common().Args[0]), "cl.State.Subscriptions") && sub != nil && add.Block() == sub.Block() || (add != nil && sub != nil && domInstr(sub, add)), "")
		// re-subscribe before the old session's entries are removed
		for _, ci := range c.callsNamed(f, fnUnsubClient) {
			if domInstr(ci, r) && sub != nil && !dominatedByFact(ci, textEq("pk.Connect.Clean"), true) {
				if !domInstrLoop(sub, ci) {
					c.ob("C14.c resume-keeps-state", "(*mqtt.Server).inheritClientSession: old entries are removed only after the new client was subscribed", c.pos(ci.Pos()), false, "")
				}
			}
		}
	}
}

func domInstrOrSameFn(a, b ssa.Instruction) bool {
	return a.Parent() == b.Parent() && reachableFrom(a, b)
}

// domInstrLoop: a (inside a loop) executes before b on every path that executes a at all: b is not reachable without passing a's loop header.
func domInstrLoop(a, b ssa.Instruction) bool {
	return reachableFrom(a, b) && !reachableFrom(b, a)
}

// ---- C15 -----------------------------------------------------------------------------------

func init() {
	register(&Prop{
		ID:        "C15",
		Title:     "Expired or ended sessions leave nothing behind",
		Technique: "effect pairing (Clients.Delete ↔ ClearInflights + UnsubscribeClient) and guard dominance on the SSA CFG",
		Explanation: "(a) every Clients.Delete site is dominated, for the same client, by ClearInflights and UnsubscribeClient — the only functions that remove a client's in-flight records and trie entries; " +
			"(b) the deletion in clearExpiredClients is guarded by StopTime != 0 and by the expiry comparison, in attachClient by `expire ∧ ¬IsTakenOver` where expire tests (v5 ∧ interval == 0) ∨ (v<5 ∧ clean); " +
			"(c) in processDisconnect the session expiry interval is never stored on the path where the packet's interval is > 0 and the session's is 0; " +
			"(d) a DISCONNECT's interval is capped by the server maximum before or when it is stored.",
		NotDecided: []string{"clock arithmetic and when the housekeeping tick runs", "hooks' own cleanup"},
		Run:        runC15,
	})
}

func runC15(c *Ctx) {
	listAndIndexInStep(c, "C15.f list-and-index-in-step")
	sites := 0
	for _, fn := range c.ModFns {
		for _, ci := range c.callsNamed(fn, fnClientsDelete) {
			sites++
			var clear, unsub ssa.CallInstruction
			for _, x := range c.callsNamed(fn, fnClearInfl) {
				if domInstr(x, ci) {
					clear = x
				}
			}
			for _, x := range c.callsNamed(fn, fnUnsubClient) {
				if domInstr(x, ci) {
					unsub = x
				}
			}
			base := fmt.Sprintf("%s: Clients.Delete(%s)", fname(fn), describe(ci.Common().Args[1]))
			c.ob("C15.a discard-pairing", base+" is preceded by ClearInflights", c.pos(ci.Pos()), clear != nil, "a deleted session must not leave in-flight messages (memory and store) behind")
			c.ob("C15.a discard-pairing", base+" is preceded by UnsubscribeClient", c.pos(ci.Pos()), unsub != nil, "a deleted session must not leave subscriptions in the topic index")
			if clear != nil && unsub != nil {
				a, b := describe(clear.Common().Args[0]), describe(unsub.Common().Args[1])
				id := describe(ci.Common().Args[1])
				same := a == b && (id == a+".ID" || strings.HasPrefix(id, "next(range("))
				c.ob("C15.a discard-pairing", base+": the same client is cleared, unsubscribed and deleted", c.pos(ci.Pos()), same, fmt.Sprintf("cleared %s, unsubscribed %s, deleted %s", a, b, id))
			}
		}
	}
	c.floor("C15.a Clients.Delete sites", sites, 2)
	if f := c.fn("mqtt", "(*Server).clearExpiredClients"); f != nil {
		del := c.call1(f, fnClientsDelete)
		c.underFact("C15.b discard-when", "(*mqtt.Server).clearExpiredClients: only stopped clients are discarded", del, textHas("StopTime", "== 0"), false, "a connected session is never discarded")
		c.underFact("C15.b discard-when", "(*mqtt.Server).clearExpiredClients: only after disconnected + expiry < now", del,
			func(t string) bool {
				return strings.Contains(t, "StopTime") && strings.Contains(t, " + ") && strings.HasSuffix(t, "< dt")
			}, true, "")
		// expiry = client's interval if v5 and flagged, else server maximum
		ok := false
		for _, ins := range instrs(f) {
			if p, isPhi := ins.(*ssa.Phi); isPhi && canonName(p, p.Comment) == "expire" {
				var ds []string
				for _, e := range p.Edges {
					ds = append(ds, describe(e))
				}
				j := strings.Join(ds, "|")
				ok = strings.Contains(j, "s.Options.Capabilities.MaximumSessionExpiryInterval") && strings.Contains(j, "Properties.Props.SessionExpiryInterval")
			}
		}
		c.ob("C15.b discard-when", "(*mqtt.Server).clearExpiredClients: expiry is the client's interval (MQTT 5, flagged) or the server maximum", c.pos(f.Pos()), ok, "")
	}
	if f := c.fn("mqtt", "(*Server).attachClient"); f != nil {
		del := c.call1(f, fnClientsDelete)
		c.underFact("C15.b discard-when", "(*mqtt.Server).attachClient: the session is discarded at disconnect only when it expires immediately", del, textEq("φ||"), true, "")
		c.underFact("C15.b discard-when", "(*mqtt.Server).attachClient: a taken-over session is not discarded by the old connection", del, textEq("(*mqtt.Client).IsTakenOver(cl)"), false, "")
		want := []string{"cl.Properties.ProtocolVersion == 5", "cl.Properties.Props.SessionExpiryInterval == 0", "cl.Properties.ProtocolVersion < 5", "cl.Properties.Clean"}
		have := map[string]bool{}
		for _, b := range f.Blocks {
			if t, _, ok := condOf(b); ok {
				have[t] = true
			}
		}
		// cl.Properties.Clean is the last operand: it is the φ's value, not a branch
		for _, ins := range instrs(f) {
			if p, isPhi := ins.(*ssa.Phi); isPhi && p.Comment == "||" {
				for _, e := range p.Edges {
					have[describe(e)] = true
					if pp, ok := e.(*ssa.Phi); ok {
						for _, ee := range pp.Edges {
							have[describe(ee)] = true
						}
					}
				}
			}
		}
		for _, w := range want {
			c.ob("C15.b discard-when", "(*mqtt.Server).attachClient: expire tests "+w, c.pos(f.Pos()), have[w], "expire = (v5 ∧ interval == 0) ∨ (v<5 ∧ clean)")
		}
	}
	if f := c.fn("mqtt", "(*Server).processDisconnect"); f != nil {
		sts := storesTo(f, "cl.Properties.Props.SessionExpiryInterval")
		c.floor("C15.c stores of the session expiry interval in processDisconnect", len(sts), 1)
		for _, st := range sts {
			c.noPath("C15.c zero-not-raised", "(*mqtt.Server).processDisconnect: the interval is not stored when the packet's is > 0 and the session's is 0", f, nil, isIns(st), nil,
				[]Assume{assumeEq("pk.Properties.SessionExpiryInterval > 0", true), assumeEq("cl.Properties.Props.SessionExpiryInterval == 0", true)}, "[MQTT-3.1.2-23]/3.14.2.2.2: a zero interval cannot be raised by DISCONNECT")
			c.underFact("C15.c zero-not-raised", "(*mqtt.Server).processDisconnect: the interval is stored only when the DISCONNECT carries one", st, textEq("pk.Properties.SessionExpiryIntervalFlag"), true, "")
			// a DISCONNECT may lower the interval, in particular to 0 (session ends at this disconnect)
			_, hit := (&PathQuery{Fn: f, Target: isIns(st), Assume: []Assume{assumeEq("pk.Properties.SessionExpiryIntervalFlag", true), assumeEq("pk.Properties.SessionExpiryInterval > 0", false)}}).Find()
			c.ob("C15.c zero-not-raised", "(*mqtt.Server).processDisconnect: a DISCONNECT carrying interval 0 is honoured (the session then ends at disconnect)", c.pos(st.Pos()), hit != nil,
				"the store is unreachable when the packet's interval is 0: the session is kept for its connect-time interval")
			// (d) cap
			capped := strings.Contains(describe(st.Val), "MaximumSessionExpiryInterval")
			if !capped {
				for _, b := range f.Blocks {
					if t, _, ok := condOf(b); ok && strings.Contains(t, "MaximumSessionExpiryInterval") {
						capped = true
					}
				}
			}
			c.ob("C15.d interval-capped", "(*mqtt.Server).processDisconnect: the stored interval is capped by Capabilities.MaximumSessionExpiryInterval", c.pos(st.Pos()), capped,
				"the session would outlive the server maximum: stored value "+describe(st.Val))
			// (e) what is stored is the packet's own interval, or the server maximum on the edge where the interval
			// exceeds it (or the builtin min of the two): any other function of the value has to keep 0 as 0
			v := describe(st.Val)
			okv := v == "pk.Properties.SessionExpiryInterval" ||
				(strings.HasPrefix(v, "builtin.min(") && strings.Contains(v, "pk.Properties.SessionExpiryInterval")) ||
				(v == "s.Options.Capabilities.MaximumSessionExpiryInterval" && dominatedByFact(st, textHas("SessionExpiryInterval > s.Options.Capabilities.MaximumSessionExpiryInterval"), true))
			c.ob("C15.e interval-as-given", fmt.Sprintf("(*mqtt.Server).processDisconnect: the interval stored under %s is the packet's own value or the explicit cap", guardKey(st)), c.pos(st.Pos()), okv,
				"stored value "+v+": a helper that treats 0 as 'unset' (mqtt.minimum) turns 'end the session now' into the server maximum")
		}
	}
	if f := c.fn("mqtt", "(*Server).SendConnack"); f != nil {
		ok := false
		for _, st := range storesTo(f, "cl.Properties.Props.SessionExpiryInterval") {
			if dominatedByFact(st, textEq("cl.Properties.Props.SessionExpiryInterval > s.Options.Capabilities.MaximumSessionExpiryInterval"), true) {
				ok = true
			}
			// the same cap written with the builtin: min(interval, maximum), in either order
			if v := describe(st.Val); strings.HasPrefix(v, "builtin.min(") && strings.Contains(v, "cl.Properties.Props.SessionExpiryInterval") && strings.Contains(v, "s.Options.Capabilities.MaximumSessionExpiryInterval") {
				ok = true
			}
		}
		c.ob("C15.d interval-capped", "(*mqtt.Server).SendConnack caps the CONNECT's interval at the server maximum", c.pos(f.Pos()), ok, "")
	}
}

// ---- C16 -----------------------------------------------------------------------------------

func init() {
	register(&Prop{
		ID:        "C16",
		Title:     "Will messages are published exactly when the protocol requires",
		Technique: "who-may-call + guard dominance + field-flow on sendLWT / sendDelayedLWT / attachClient / processDisconnect",
		Explanation: "(a) sendLWT is called only from attachClient's Read-error edge and from processConnect; on the normal-DISCONNECT edge the will is cleared; processDisconnect returns the will-disconnect error exactly for reason 0x04 and cancels a pending delayed will otherwise; " +
			"(b) sendLWT is guarded by Will.Flag != 0, clears the flag after an immediate publish, and sendDelayedLWT deletes the entry it published; " +
			"(c) the published packet takes topic, payload, QoS, retain and user properties from the (hook-modified) will and is retained through retainMessage when Retain is set; " +
			"(d) the delayed will is registered under the client id and cancelled by attachClient after the CONNACK of the resuming connection.",
		NotDecided: []string{"timing of the delay", "interleaving of an old connection's teardown with a resuming connection (schedule-level; see DESIGN.md)"},
		Run:        runC16,
	})
}

func runC16(c *Ctx) {
	lwt := c.fn("mqtt", "(*Server).sendLWT")
	c.whoCalls("C16.a will-call-sites", lwt, map[string]string{"(*mqtt.Server).attachClient": "abnormal end of connection", "(*mqtt.Server).processConnect": "second CONNECT is a protocol error"})
	if f := c.fn("mqtt", "(*Server).attachClient"); f != nil {
		readErr := func(t string) bool {
			return strings.HasPrefix(t, "(*mqtt.Client).Read(") && strings.HasSuffix(t, "== nil")
		}
		c.underFact("C16.a will-call-sites", "(*mqtt.Server).attachClient: sendLWT only when Read ended with an error", c.call1(f, fnSendLWT), readErr, false, "")
		sts := storesTo(f, "cl.Properties.Will")
		c.floor("C16.a will cleared on normal disconnect", len(sts), 1)
		for _, st := range sts {
			c.underFact("C16.a will-call-sites", "(*mqtt.Server).attachClient: the will is discarded when Read ended without error (normal DISCONNECT)", st, readErr, true, "")
		}
		// cancel delayed will after connack
		del := c.call1(f, "(*packets.Packets).Delete")
		c.dom("C16.d delayed-will-cancel", "(*mqtt.Server).attachClient: a pending delayed will of the client id is cancelled once the new connection got its CONNACK", c.successConnack(f), del, "")
		if del != nil {
			c.ob("C16.d delayed-will-cancel", "(*mqtt.Server).attachClient: the cancelled entry is keyed by the client id", c.pos(del.Pos()), describe(del.Common().Args[1]) == "cl.ID" && strings.Contains(describe(del.Common().Args[0]), "willDelayed"), "")
		}
	}
	if f := c.fn("mqtt", "(*Server).processDisconnect"); f != nil {
		del := c.call1(f, "(*packets.Packets).Delete")
		c.ob("C16.a will-call-sites", "(*mqtt.Server).processDisconnect cancels a pending delayed will on a normal DISCONNECT", c.pos(f.Pos()), del != nil && strings.Contains(describe(del.Common().Args[0]), "willDelayed"), "")
		if del != nil {
			c.underFact("C16.a will-call-sites", "(*mqtt.Server).processDisconnect: the delayed will is kept for reason 0x04", del, textEq("pk.ReasonCode == packets.CodeDisconnectWillMessage.Code"), false, "")
		}
		for _, r := range returns(f) {
			if describe(rvs(r)[0]) == "packets.CodeDisconnectWillMessage" {
				c.underFact("C16.a will-call-sites", "(*mqtt.Server).processDisconnect: reason 0x04 is turned into the error that makes attachClient publish the will", r,
					textEq("pk.ReasonCode == packets.CodeDisconnectWillMessage.Code"), true, "")
			}
		}
		c.ob("C16.a will-call-sites", "(*mqtt.Server).processDisconnect does not publish the will itself", c.pos(f.Pos()), len(c.callsNamed(f, fnSendLWT, fnPubToSubs)) == 0, "")
	}
	if lwt != nil {
		// (b)
		pub := c.call1(lwt, fnPubToSubs)
		flagZero := func(t string) bool {
			return strings.HasPrefix(t, "sync/atomic.LoadUint32(cl.Properties.Will.Flag) == 0")
		}
		c.underFact("C16.b will-at-most-once", "(*mqtt.Server).sendLWT publishes only while Will.Flag != 0", pub, flagZero, false, "")
		var clr ssa.Instruction
		for _, ci := range c.callsNamed(lwt, "sync/atomic.StoreUint32") {
			if describe(ci.Common().Args[0]) == "cl.Properties.Will.Flag" && describe(ci.Common().Args[1]) == "0" {
				clr = ci
			}
		}
		c.dom("C16.b will-at-most-once", "(*mqtt.Server).sendLWT clears Will.Flag after publishing", pub, clr, "")
		if clr != nil && pub != nil {
			c.noPath("C16.b will-at-most-once", "(*mqtt.Server).sendLWT: every return after the publish has cleared the flag", lwt, pub, anyReturn, isIns(clr), nil, "")
		}
		// delayed registration
		addD := c.call1(lwt, "(*packets.Packets).Add")
		c.ob("C16.d delayed-will-cancel", "(*mqtt.Server).sendLWT registers a delayed will under the client id", c.pos(lwt.Pos()),
			addD != nil && describe(addD.Common().Args[1]) == "cl.ID" && strings.Contains(describe(addD.Common().Args[0]), "willDelayed"), "")
		if addD != nil {
			c.underFact("C16.b will-at-most-once", "(*mqtt.Server).sendLWT delays only when the will delay interval is > 0", addD, textEq("cl.Properties.Will.WillDelayInterval > 0"), true, "")
			c.noPath("C16.b will-at-most-once", "(*mqtt.Server).sendLWT: a delayed will is not also published immediately", lwt, addD, isNamed(fnPubToSubs, fnRetainMsg), nil, nil, "")
		}
		// (c) fidelity
		want := map[string]string{"TopicName": "TopicName", "Payload": "Payload", "Qos": "Qos", "Retain": "Retain", "User": "User"}
		got := map[string]string{}
		for _, ins := range instrs(lwt) {
			if st, ok := ins.(*ssa.Store); ok {
				if fa, ok := st.Addr.(*ssa.FieldAddr); ok {
					fn_ := fieldName(fa.X.Type(), fa.Field)
					d := describe(st.Val)
					if i := strings.LastIndex(d, "."); i >= 0 && (strings.Contains(d, "OnWill(") || strings.Contains(d, "modifiedLWT")) {
						got[fn_] = d[i+1:]
					}
				}
			}
		}
		for k, v := range want {
			c.ob("C16.c will-fidelity", "(*mqtt.Server).sendLWT: the published packet's "+k+" comes from the (hook-modified) will's "+v, c.pos(lwt.Pos()), got[k] == v, "found "+got[k])
		}
		c.underFact("C16.c will-fidelity", "(*mqtt.Server).sendLWT retains the will through retainMessage exactly when Retain is set", c.call1(lwt, fnRetainMsg), textEq("pk.FixedHeader.Retain"), true, "")
	}
	if f := c.fn("mqtt", "(*Server).sendDelayedLWT"); f != nil {
		pub := c.call1(f, fnPubToSubs)
		var del ssa.CallInstruction
		for _, ci := range c.callsNamed(f, "(*packets.Packets).Delete") {
			del = ci
		}
		c.underFact("C16.b will-at-most-once", "(*mqtt.Server).sendDelayedLWT publishes only entries whose delay elapsed", pub, textHas("dt >", ".Expiry"), true, "")
		// … and every entry whose delay elapsed: from the elapsed edge no path reaches the next entry without publishing
		for _, b := range f.Blocks {
			t, _, ok := condOf(b)
			if !ok || !strings.Contains(t, "dt >") || !strings.Contains(t, ".Expiry") {
				continue
			}
			c.noPath("C16.b will-when-due", "(*mqtt.Server).sendDelayedLWT: an entry whose delay elapsed is always published (whether or not the session record still exists)", f, b.Instrs[len(b.Instrs)-1],
				func(x ssa.Instruction) bool { _, isNext := x.(*ssa.Next); return isNext || anyReturn(x) }, isNamed(fnPubToSubs), []Assume{{Match: textHas("dt >", ".Expiry"), Truth: true}},
				"the will is due when its delay elapses or the session ends, whichever is first")
		}
		c.ob("C16.b will-at-most-once", "(*mqtt.Server).sendDelayedLWT deletes the entry it published", c.pos(f.Pos()), pub != nil && del != nil && reachableFrom(pub, del) &&
			dominatedByFact(del, textHas("dt >", ".Expiry"), true), "a delayed will must be published once")
		if pub != nil && del != nil {
			c.noPath("C16.b will-at-most-once", "(*mqtt.Server).sendDelayedLWT: no path from the publish back to the loop without deleting the entry", f, pub,
				func(x ssa.Instruction) bool { _, isNext := x.(*ssa.Next); return isNext }, isIns(del), nil, "")
		}
	}
}

// ---- C17 -----------------------------------------------------------------------------------

func init() {
	register(&Prop{
		ID:        "C17",
		Title:     "Authorisation is enforced on every route a message can take",
		Technique: "taint-style must-pass-through: every path from a client-originated source to a routing sink crosses the true edge of the matching OnACLCheck / IsValidFilter test; who-may-call on the sinks",
		Explanation: "(a) write check: in every module function that routes a client-originated message (processPublish, sendLWT, sendDelayedLWT) each path to publishToSubscribers / retainMessage crosses the true edge of hooks.OnACLCheck(cl, topic, true) unless the client is inline; " +
			"(b) topic sanitiser: the same routes cross IsValidFilter(topic, true) (no wildcards, no $SYS), for wills at CONNECT validation or at send time; " +
			"(c) read check: the enqueue in publishToClient is dominated by the true edge of OnACLCheck(cl, topic, false), and publishToClient is the only function that enqueues; " +
			"(d) subscribe check: Topics.Subscribe in processSubscribe is dominated by the true edge of OnACLCheck(cl, filter, false); the denied edge stores 0x87 (0x80 when obscured); other Topics.Subscribe callers only re-install checked subscriptions.",
		NotDecided: []string{"the permission relation itself (hook behaviour)", "permissions that change between subscribe and delivery"},
		Run:        runC17,
	})
}

func runC17(c *Ctx) {
	aclWrite := func(t string) bool { return strings.HasPrefix(t, fnACL+"(") && strings.HasSuffix(t, ", true)") }
	aclRead := func(t string) bool { return strings.HasPrefix(t, fnACL+"(") && strings.HasSuffix(t, ", false)") }
	validPub := func(t string) bool {
		return strings.HasPrefix(t, "mqtt.IsValidFilter(") && strings.HasSuffix(t, ", true)")
	}
	inline := []Assume{assumeEq("cl.Net.Inline", false)}
	// routes: every module function calling a sink directly
	sinks := []string{fnPubToSubs, fnRetainMsg}
	routes := map[string]string{
		"(*mqtt.Server).processPublish":       "client",
		"(*mqtt.Server).sendLWT":              "client-will",
		"(*mqtt.Server).sendDelayedLWT":       "client-will-delayed",
		"(*mqtt.Server).publishSysTopics":     "broker-originated $SYS values",
		"(*mqtt.Server).retainMessage":        "-",
		"(*mqtt.Server).publishToSubscribers": "-",
	}
	for _, fn := range c.ModFns {
		if fn.Parent() != nil {
			continue
		}
		calls := c.callsNamed(fn, sinks...)
		if len(calls) == 0 {
			continue
		}
		kind, listed := routes[fname(fn)]
		if !listed {
			c.ob("C17.a write-check", fname(fn)+" routes messages to subscribers / the retained store", c.pos(fn.Pos()), false, "a new route to the routing sinks that is not in the reviewed table of routes")
			continue
		}
		if !strings.HasPrefix(kind, "client") {
			c.ob("C17.a write-check", fname(fn)+" is a reviewed non-client route", c.pos(fn.Pos()), true, kind)
			continue
		}
		for _, ci := range calls {
			sink := strings.TrimPrefix(cname(ci.Common()), "(*mqtt.Server).")
			c.factGate("C17.a write-check", fmt.Sprintf("%s → %s crosses OnACLCheck(write) == true", fname(fn), sink), fn, ci, aclWrite, inline,
				"a message from a client that may not write the topic is delivered or retained")
			if kind == "client" {
				c.factGate("C17.b topic-sanitiser", fmt.Sprintf("%s → %s crosses IsValidFilter(topic, forPublish) == true", fname(fn), sink), fn, ci, validPub, inline,
					"client publishes to $SYS or wildcard topics must not be routed")
			}
		}
	}
	// will topic validated at CONNECT or at send time
	willOK := false
	for _, name := range []string{"(*Server).validateConnect", "(*Server).sendLWT"} {
		if f := c.fn("mqtt", name); f != nil {
			for _, ci := range c.callsNamed(f, "mqtt.IsValidFilter") {
				if strings.Contains(describe(ci.Common().Args[0]), "Will") {
					willOK = true
				}
			}
		}
	}
	if cv := c.fn("packets", "(*Packet).ConnectValidate"); cv != nil {
		for _, ci := range c.callsIn(cv, func(n string, cc *ssa.CallCommon) bool { return strings.HasPrefix(n, "strings.Contains") }) {
			if strings.Contains(describe(ci.Common().Args[0]), "WillTopic") {
				willOK = true
			}
		}
	}
	c.ob("C17.b topic-sanitiser", "will topics are validated as topic names (no wildcards, no $SYS) at CONNECT or before publication", "", willOK,
		"neither validateConnect/ConnectValidate nor sendLWT tests the will topic")
	// (c) read check
	if f := c.fn("mqtt", "(*Server).publishToClient"); f != nil {
		sends := sendSites(f, "State.outbound")
		c.floor("C17.c enqueue sites in publishToClient", len(sends), 1)
		for _, s := range sends {
			c.underFact("C17.c read-check", "(*mqtt.Server).publishToClient: the enqueue happens only on OnACLCheck(read) == true", s, aclRead, true, "")
		}
		for _, ci := range c.callsNamed(f, "(*mqtt.Inflight).Set") {
			c.underFact("C17.c read-check", "(*mqtt.Server).publishToClient: a message is stored for the session only on OnACLCheck(read) == true", ci, aclRead, true, "")
		}
		// the check uses the message topic
		for _, ci := range c.callsNamed(f, fnACL) {
			c.ob("C17.c read-check", "(*mqtt.Server).publishToClient checks the message's topic for this client", c.pos(ci.Pos()),
				describe(ci.Common().Args[1]) == "cl" && describe(ci.Common().Args[2]) == "pk.TopicName", "")
		}
	}
	// only publishToClient (and nothing else) sends on a client's outbound queue
	for _, fn := range c.ModFns {
		if len(sendSites(fn, "State.outbound")) > 0 && fname(fn) != fnPubToClient {
			c.ob("C17.c read-check", fname(fn)+" enqueues on a client's outbound queue", c.pos(fn.Pos()), false, "only publishToClient (which performs the read check) may enqueue")
		}
	}
	c.whoCalls("C17.c read-check", c.fn("mqtt", "(*Server).publishToClient"), map[string]string{fnPubToSubs: "live delivery", "(*mqtt.Server).publishRetainedToClient": "retained replay"})
	// (d) subscribe check
	if f := c.fn("mqtt", "(*Server).processSubscribe"); f != nil {
		sub := c.call1(f, fnTopicsSub)
		c.underFact("C17.d subscribe-check", "(*mqtt.Server).processSubscribe: Topics.Subscribe only on OnACLCheck(filter, read) == true", sub, aclRead, true, "")
		c.underFact("C17.d subscribe-check", "(*mqtt.Server).processSubscribe: the client's own subscription set grows only on OnACLCheck == true", c.call1(f, "(*mqtt.Subscriptions).Add"), aclRead, true, "")
		for _, ci := range c.callsNamed(f, fnACL) {
			c.ob("C17.d subscribe-check", "(*mqtt.Server).processSubscribe checks the requested filter for this client", c.pos(ci.Pos()),
				describe(ci.Common().Args[1]) == "cl" && strings.HasSuffix(describe(ci.Common().Args[2]), ".Filter"), describe(ci.Common().Args[2]))
		}
		n := 0
		for _, ins := range instrs(f) {
			st, ok := ins.(*ssa.Store)
			if !ok {
				continue
			}
			d := describe(st.Val)
			if d == "packets.ErrNotAuthorized.Code" {
				n++
				c.underFact("C17.d subscribe-check", "(*mqtt.Server).processSubscribe: 0x87 is stored on the denied edge", st, aclRead, false, "")
			}
		}
		c.floor("C17.d denied reason stores", n, 1)
	}
	c.whoCalls("C17.d subscribe-check", c.fn("mqtt", "(*TopicsIndex).Subscribe"), map[string]string{
		"(*mqtt.Server).processSubscribe":     "checked above",
		"(*mqtt.Server).inheritClientSession": "re-installs subscriptions of the resumed session, which passed the check when they were made",
		"(*mqtt.Server).loadSubscriptions":    "restores persisted subscriptions, which passed the check when they were made",
	})
}

// factGate: every path from entry to `at` takes an edge on which a condition matching `match` is true.
func (c *Ctx) factGate(rule, construct string, f *ssa.Function, at ssa.Instruction, match func(string) bool, as []Assume, why string) {
	found := false
	q := &PathQuery{Fn: f, Target: isIns(at), Assume: as, EdgeOK: func(b *ssa.BasicBlock, i int) bool {
		t, truth, ok := edgeFact(b, i)
		if ok && match(t) {
			found = true
			return !truth
		}
		return true
	}}
	p, hit := q.Find()
	if hit != nil {
		c.ob(rule, construct, c.pos(at.Pos()), false, why+" — path that avoids the check: "+pathStr(f, p))
		return
	}
	if !found {
		// vacuous: no such check exists at all in f (and `at` unreachable is impossible)
		c.ob(rule, construct, c.pos(at.Pos()), false, why+" — the function performs no such check")
		return
	}
	c.ob(rule, construct, c.pos(at.Pos()), true, "")
}

// ---- C19 -----------------------------------------------------------------------------------

func init() {
	register(&Prop{
		ID:        "C19",
		Title:     "Hook chain results are honoured consistently",
		Technique: "path rule on processPublish's OnPublish error edge; field-flow/loop-shape rules on the (*Hooks) chain methods",
		Explanation: "(a) in processPublish, from the err != nil edge of hooks.OnPublish every path to publishToSubscribers or retainMessage crosses the store pk.Ignore = true (both sinks return early on Ignore, which is checked); " +
			"(b) in the packet-modifying chain methods the packet passed to hook n+1 is hook n's result, hooks are iterated in the order Add appended them; " +
			"(c) OnConnectAuthenticate / OnACLCheck are existential loops (any hook may allow; none ⇒ refused); " +
			"(d) ReadPacket returns OnPacketRead's error and Client.Read does not call the packet handler on that edge.",
		NotDecided: []string{"what custom hooks do", "negative acknowledgement contents"},
		Run:        runC19,
	})
}

func runC19(c *Ctx) {
	if f := c.fn("mqtt", "(*Server).processPublish"); f != nil {
		hook := asCall(c.call1(f, "(*mqtt.Hooks).OnPublish"))
		if hook == nil {
			c.ob("C19.a rejected-not-routed", "(*mqtt.Server).processPublish calls hooks.OnPublish", c.pos(f.Pos()), false, "")
		} else {
			errNil := describe(hook) + "#1 == nil"
			isIgnore := func(x ssa.Instruction) bool {
				st, ok := x.(*ssa.Store)
				return ok && describe(st.Addr) == "pk.Ignore" && describe(st.Val) == "true"
			}
			for _, sink := range []string{fnPubToSubs, fnRetainMsg} {
				c.noPath("C19.a rejected-not-routed", "(*mqtt.Server).processPublish: after a failing OnPublish no path reaches "+strings.TrimPrefix(sink, "(*mqtt.Server).")+" without pk.Ignore = true",
					f, hook, isNamed(sink), isIgnore, []Assume{assumeEq(errNil, false)},
					"a publish that a hook rejected or answered with an error must not be forwarded or retained, whatever the protocol version and QoS")
			}
		}
	}
	for _, name := range []string{"(*Server).publishToSubscribers", "(*Server).retainMessage"} {
		if f := c.fn("mqtt", name); f != nil {
			// every effectful call is under !pk.Ignore
			for _, ci := range c.callsNamed(f, "(*mqtt.TopicsIndex).Subscribers", "(*mqtt.TopicsIndex).RetainMessage", fnPubToClient) {
				c.underFact("C19.a rejected-not-routed", fname(f)+": "+cname(ci.Common())+" only when the packet is not marked Ignore", ci, textEq("pk.Ignore"), false, "")
			}
		}
	}
	// (b) chaining
	for _, m := range []string{"OnPublish", "OnPacketRead", "OnSubscribe", "OnUnsubscribe", "OnPacketEncode", "OnAuthPacket", "OnWill", "OnSelectSubscribers"} {
		f := c.fn("mqtt", "(*Hooks)."+m)
		if f == nil {
			continue
		}
		inv := c.callsIn(f, func(n string, cc *ssa.CallCommon) bool { return cc.IsInvoke() && cc.Method.Name() == m })
		if len(inv) != 1 {
			c.ob("C19.b chain-threads-result", "(*mqtt.Hooks)."+m+": one hook invocation in the chain loop", c.pos(f.Pos()), false, fmt.Sprintf("%d invocations", len(inv)))
			continue
		}
		call := asCall(inv[0])
		// the threaded argument: last pointer-free struct/pointer argument (packet, will or subscribers)
		args := call.Call.Args
		var threaded ssa.Value
		idx := len(args) - 1
		if m == "OnSelectSubscribers" {
			idx = 0
		}
		threaded = args[idx]
		ok, why := chainThreads(call, threaded)
		c.ob("C19.b chain-threads-result", "(*mqtt.Hooks)."+m+": each hook receives the previous hook's result", c.pos(call.Pos()), ok, why)
		// a hook's verdict (error) ends the chain and is returned: no later hook can overwrite it
		if m == "OnPublish" || m == "OnAuthPacket" {
			errNilT := func(t string) bool { return t == describe(call)+"#1 == nil" || t == "err == nil" }
			c.noPath("C19.b chain-stops-on-error", "(*mqtt.Hooks)."+m+": after a hook returned an error no further hook is consulted", f, call, isIns(call), nil,
				[]Assume{{Match: errNilT, Truth: false}}, "a later hook returning nil would overwrite a rejection / ignore verdict")
			for _, r := range returns(f) {
				if !reachableFrom(call, r) || !dominatedByFact(r, errNilT, false) {
					continue
				}
				vs := rvs(r)
				c.ob("C19.b chain-stops-on-error", fmt.Sprintf("(*mqtt.Hooks).%s: the return under %s yields the hook's error", m, guardKey(r)), c.pos(r.Pos()), !isNilConst(vs[len(vs)-1]), "")
			}
			// the chain's nil-error return is reached only when no hook reported an error
			for _, r := range returns(f) {
				vs := rvs(r)
				if isNilConst(vs[len(vs)-1]) || describe(vs[len(vs)-1]) == "err" || strings.HasPrefix(describe(vs[len(vs)-1]), "φ") {
					_, hit := (&PathQuery{Fn: f, From: call, Target: isIns(r), Assume: []Assume{{Match: errNilT, Truth: false}}}).Find()
					c.ob("C19.b chain-stops-on-error", fmt.Sprintf("(*mqtt.Hooks).%s: the fall-through return is not reachable once a hook returned an error", m), c.pos(r.Pos()), hit == nil || !isNilConst(vs[len(vs)-1]) && false || hit == nil, "")
				}
			}
		}
		// iteration order: ranges over GetAll()
		ranged := false
		for _, ins := range instrs(f) {
			if ia, isIA := ins.(*ssa.IndexAddr); isIA && strings.Contains(describe(ia.X), "(*mqtt.Hooks).GetAll(") {
				ranged = true
			}
		}
		c.ob("C19.b chain-order", "(*mqtt.Hooks)."+m+": iterates the hooks slice in index order", c.pos(f.Pos()), ranged, "")
	}
	if f := c.fn("mqtt", "(*Hooks).Add"); f != nil {
		ok := false
		for _, ci := range c.callsNamed(f, "builtin.append") {
			if describe(ci.Common().Args[1]) != "" && strings.Contains(describe(ci.Common().Args[1]), "hook") || strings.Contains(describe(ci.Common().Args[1]), "varargs") {
				ok = true
			}
		}
		c.ob("C19.b chain-order", "(*mqtt.Hooks).Add appends the new hook at the end", c.pos(f.Pos()), ok, "registration order = call order")
	}
	// (c)
	c.existentialHook("C19.c any-allows", "OnConnectAuthenticate")
	c.existentialHook("C19.c any-allows", "OnACLCheck")
	// (d)
	if f := c.fn("mqtt", "(*Client).ReadPacket"); f != nil {
		ok := false
		for _, ci := range c.callsNamed(f, "(*mqtt.Hooks).OnPacketRead") {
			call := asCall(ci)
			for _, st := range storesTo(f, "err") {
				if ex, isEx := st.Val.(*ssa.Extract); isEx && ex.Tuple == ssa.Value(call) && ex.Index == 1 {
					ok = true
				}
			}
			for _, r := range returns(f) {
				if len(r.Results) == 2 {
					if ex, isEx := rvs(r)[1].(*ssa.Extract); isEx && ex.Tuple == ssa.Value(call) {
						ok = true
					}
				}
			}
		}
		c.ob("C19.d read-rejection", "(*mqtt.Client).ReadPacket returns OnPacketRead's error", c.pos(f.Pos()), ok, "")
	}
	if f := c.fn("mqtt", "(*Client).Read"); f != nil {
		rp := asCall(c.call1(f, "(*mqtt.Client).ReadPacket"))
		for _, ins := range instrs(f) {
			if call, isCall := ins.(*ssa.Call); isCall && describe(call.Call.Value) == "packetHandler" && rp != nil {
				c.underFact("C19.d read-rejection", "(*mqtt.Client).Read: the packet handler runs only when ReadPacket returned no error", call, textEq(describe(rp)+"#1 == nil"), true, "a packet rejected on read is not processed")
			}
		}
	}
	if f := c.fn("mqtt", "(*Hooks).OnPacketRead"); f != nil {
		// ErrRejectPacket from a hook is returned
		ok := false
		for _, r := range returns(f) {
			if len(r.Results) == 2 && !isNilConst(rvs(r)[1]) && dominatedByFact(r, textHas("errors.Is(", "packets.ErrRejectPacket"), true) {
				ok = true
			}
		}
		c.ob("C19.d read-rejection", "(*mqtt.Hooks).OnPacketRead returns a hook's ErrRejectPacket", c.pos(f.Pos()), ok, "")
	}
}

// chainThreads: the argument passed to the hook is (a load of) the variable that the hook's result is stored to, or a φ fed by the result.
func chainThreads(call *ssa.Call, arg ssa.Value) (bool, string) {
	// result value: the call itself (single result) or extract #0
	isResult := func(v ssa.Value) bool {
		v = stripConv(v)
		if v == ssa.Value(call) {
			return true
		}
		if ex, ok := v.(*ssa.Extract); ok && ex.Tuple == ssa.Value(call) && ex.Index == 0 {
			return true
		}
		return false
	}
	switch a := arg.(type) {
	case *ssa.Phi:
		for _, e := range a.Edges {
			if isResult(e) {
				return true, "loop-carried φ fed by the hook result"
			}
			if p2, ok := e.(*ssa.Phi); ok {
				for _, e2 := range p2.Edges {
					if isResult(e2) {
						return true, "loop-carried φ fed by the hook result"
					}
				}
			}
		}
		return false, "the hook argument is not fed by the previous hook's result"
	case *ssa.UnOp:
		if a.Op == token.MUL {
			if al, ok := a.X.(*ssa.Alloc); ok {
				for _, ref := range *al.Referrers() {
					if st, ok := ref.(*ssa.Store); ok && st.Addr == ssa.Value(al) && isResult(st.Val) {
						return true, "result stored back into the variable that is passed on"
					}
				}
				return false, "the variable passed to the hook is never updated with a hook's result"
			}
		}
	}
	return false, "the hook argument " + describe(arg) + " is not a loop-carried value"
}

// ---- C21 -----------------------------------------------------------------------------------

func init() {
	register(&Prop{
		ID:        "C21",
		Title:     "A crash never loses acknowledged state or resurrects discarded state",
		Technique: "persist-before-acknowledge ordering (dominance on SSA CFG); restore-side guards in loadSubscriptions / loadClients",
		Explanation: "(a) the persisting hook call dominates the acknowledgement write: OnSubscribed before SUBACK, OnUnsubscribed before UNSUBACK, retainMessage (→ OnRetainMessage) before PUBACK/PUBREC on the retain path, Inflight.Set/OnQosPublish of the inbound marker before the acknowledgement; " +
			"(c) loadSubscriptions subscribes only ids whose session was restored (Topics.Subscribe is control-dependent on Clients.Get succeeding), and loadClients does not register an expired session.",
		NotDecided: []string{"crash points inside a storage engine, durability of the backends' writes (pebble defaults to NoSync)",
			"storage writes issued for a superseded session after takeover (schedule-level, see DESIGN.md)"},
		Run: runC21,
	})
}

func runC21(c *Ctx) {
	if f := c.fn("mqtt", "(*Server).processSubscribe"); f != nil {
		c.dom("C21.a persist-before-ack", "(*mqtt.Server).processSubscribe: hooks.OnSubscribed before the SUBACK is written", c.call1(f, "(*mqtt.Hooks).OnSubscribed"), c.call1(f, fnWritePacket), "a subscription acknowledged to the client must already be in the store")
		c.before("C21.a persist-before-ack", "(*mqtt.Server).processSubscribe: the subscription is in the topic index before the SUBACK is written", lastCall(c, f, fnTopicsSub), c.call1(f, fnWritePacket), "")
	}
	if f := c.fn("mqtt", "(*Server).processUnsubscribe"); f != nil {
		c.dom("C21.a persist-before-ack", "(*mqtt.Server).processUnsubscribe: hooks.OnUnsubscribed before the UNSUBACK is written", c.call1(f, "(*mqtt.Hooks).OnUnsubscribed"), c.call1(f, fnWritePacket), "")
	}
	if f := c.fn("mqtt", "(*Server).processPublish"); f != nil {
		// final ack write: the WritePacket whose argument is the local `ack`
		var ackW ssa.CallInstruction
		for _, ci := range c.callsNamed(f, fnWritePacket) {
			if describe(ci.Common().Args[1]) == "ack" {
				ackW = ci
			}
		}
		if ackW == nil {
			c.ob("C21.a persist-before-ack", "(*mqtt.Server).processPublish: acknowledgement write of the accepted publish", c.pos(f.Pos()), false, "not found")
		} else {
			c.noPath("C21.a persist-before-ack", "(*mqtt.Server).processPublish: a retained publish is stored (retainMessage) before it is acknowledged", f, nil, isIns(ackW), isNamed(fnRetainMsg),
				[]Assume{assumeEq("pk.FixedHeader.Retain", true)}, "")
			var set ssa.CallInstruction
			for _, ci := range c.callsNamed(f, "(*mqtt.Inflight).Set") {
				set = ci
			}
			c.dom("C21.a persist-before-ack", "(*mqtt.Server).processPublish: the inbound QoS marker is recorded (Inflight.Set → OnQosPublish) before the acknowledgement is written", set, ackW, "")
			c.before("C21.a persist-before-ack", "(*mqtt.Server).processPublish: OnQosPublish (persistence of the inbound marker) precedes the acknowledgement write", c.call1(f, "(*mqtt.Hooks).OnQosPublish"), ackW,
				"an acknowledged QoS 2 publish whose marker is not in the store is forwarded again after a restart")
		}
	}
	if f := c.fn("mqtt", "(*Server).retainMessage"); f != nil {
		c.dom("C21.a persist-before-ack", "(*mqtt.Server).retainMessage persists through hooks.OnRetainMessage", c.call1(f, "(*mqtt.TopicsIndex).RetainMessage"), c.call1(f, "(*mqtt.Hooks).OnRetainMessage"), "")
	}
	// (b) storage-deleting hooks issued for a superseded (taken-over) client object must be guarded:
	// the records are keyed by client id alone and belong to the live session that took over.
	notTaken := func(t string) bool { return strings.HasPrefix(t, "(*mqtt.Client).IsTakenOver(") }
	for _, spec := range []struct{ fn, hook, what string }{
		{"(*Server).UnsubscribeClient", "(*mqtt.Hooks).OnUnsubscribed", "stored subscriptions"},
		{"(*Client).ClearInflights", "(*mqtt.Hooks).OnQosDropped", "stored in-flight messages"},
	} {
		if f := c.fn("mqtt", spec.fn); f != nil {
			hs := c.callsNamed(f, spec.hook)
			c.floor("C21.b deleting hook in "+spec.fn, len(hs), 1)
			for _, h := range hs {
				c.underFact("C21.b superseded-session-deletes-nothing", fname(f)+": "+strings.TrimPrefix(spec.hook, "(*mqtt.Hooks).")+" (deletes "+spec.what+" keyed by client id) is skipped for a taken-over client", h, notTaken, false,
					"inheritClientSession calls this for the superseded client after the live session took the records over: the hook deletes state that belongs to the live session")
			}
		}
	}
	if f := c.fn("mqtt", "(*Server).loadSubscriptions"); f != nil {
		c.underFact("C21.c no-subscription-without-session", "(*mqtt.Server).loadSubscriptions: Topics.Subscribe only for a client id with a restored session", c.call1(f, fnTopicsSub),
			func(t string) bool { return strings.HasPrefix(t, fnClientsGet+"(") && strings.HasSuffix(t, "#1") }, true,
			"a stored subscription whose session record is gone must not deliver to the next client using the id")
	}
	if f := c.fn("mqtt", "(*Server).loadClients"); f != nil {
		add := c.call1(f, fnClientsAdd)
		c.underFact("C21.c no-subscription-without-session", "(*mqtt.Server).loadClients: an expired session is not registered", add, textEq("φ||"), false, "")
	}
	if f := c.fn("mqtt", "(*Server).readStore"); f != nil {
		c.before("C21.c no-subscription-without-session", "(*mqtt.Server).readStore restores clients before subscriptions and in-flight messages", c.call1(f, "(*mqtt.Server).loadClients"), c.call1(f, "(*mqtt.Server).loadSubscriptions"), "")
		c.before("C21.c no-subscription-without-session", "(*mqtt.Server).readStore restores clients before in-flight messages", c.call1(f, "(*mqtt.Server).loadClients"), c.call1(f, "(*mqtt.Server).loadInflight"), "")
	}
	if f := c.fn("mqtt", "(*Server).loadInflight"); f != nil {
		c.underFact("C21.c no-subscription-without-session", "(*mqtt.Server).loadInflight: records are restored only into a restored session", c.call1(f, "(*mqtt.Inflight).Set"),
			func(t string) bool { return strings.HasPrefix(t, fnClientsGet+"(") && strings.HasSuffix(t, "#1") }, true, "")
	}
}

func lastCall(c *Ctx, f *ssa.Function, name string) ssa.CallInstruction {
	cs := c.callsNamed(f, name)
	if len(cs) == 0 {
		return nil
	}
	return cs[len(cs)-1]
}
