package main

// Rules added after the third round of seeded changes, second batch (properties C15–C21).

import (
	"fmt"
	"strings"

	"golang.org/x/tools/go/ssa"
)

func round3bHooks(c *Ctx, id string) {
	switch id {
	case "C03":
		inheritCopiesSubscriptionList(c, "C03.k inherit-copies-list")
	case "C07":
		handledPacketReturnsNil(c, "C07.h handled-packet-returns-nil")
	case "C08":
		hookAnswerStopsPublish(c, "C08.h hook-answer-stops-publish")
	case "C14":
		inheritCopiesSubscriptionList(c, "C14.f inherit-copies-list")
		storeReadBeforeServing(c, "C14.g store-read-before-serving")
	case "C15":
		inheritCopiesSubscriptionList(c, "C15.i inherit-copies-list")
		connackCapUnconditional(c, "C15.j connack-cap-unconditional")
		subscriptionListKeyedByFilter(c, "C15.k list-keyed-by-filter")
	case "C16":
		handledPacketReturnsNil(c, "C16.g handled-packet-returns-nil")
		willDelayClampOnFlag(c, "C16.h will-delay-clamp")
		readEndsOnlyWhenClosed(c, "C16.i read-ends-only-when-closed")
	case "C17":
		aliasBoundAfterACL(c, "C17.g alias-bound-after-acl")
	case "C18":
		ledgerUsersFirst(c, "C18.f users-first")
		prefixPatternNeedsMore(c, "C18.g prefix-pattern")
	case "C19":
		hookAnswerStopsPublish(c, "C19.f hook-answer-stops-publish")
	case "C20":
		storeReadBeforeServing(c, "C20.g store-read-before-serving")
		subscriptionListKeyedByFilter(c, "C20.h list-keyed-by-filter")
	case "C21":
		stopCauseIsTheCode(c, "C21.d stop-cause-is-the-code")
		subscriptionListKeyedByFilter(c, "C21.e list-keyed-by-filter")
	case "C24":
		aliasBoundAfterACL(c, "C24.e alias-bound-after-acl")
	case "C36":
		readEndsOnlyWhenClosed(c, "C36.g read-ends-only-when-closed")
	}
}

// inheritCopiesSubscriptionList: inheritClientSession re-installs each inherited subscription in the index and puts
// it on the new client's own list on every iteration — whether or not the index already had it (for a resumed session
// it always has: the index is keyed by client id). The list is what UnsubscribeClient walks when the session ends.
func inheritCopiesSubscriptionList(c *Ctx, rule string) {
	f := c.fn("mqtt", "(*Server).inheritClientSession")
	if f == nil {
		return
	}
	n := 0
	for _, ci := range c.callsNamed(f, fnTopicsSub) {
		n++
		isAdd := func(x ssa.Instruction) bool {
			cc := callOf(x)
			return cc != nil && cname(cc) == "(*mqtt.Subscriptions).Add" && describe(cc.Args[0]) == "cl.State.Subscriptions"
		}
		next := func(x ssa.Instruction) bool {
			if _, isRet := x.(*ssa.Return); isRet {
				return true
			}
			return x == ssa.Instruction(ci)
		}
		c.noPath(rule, "(*mqtt.Server).inheritClientSession: every inherited subscription is put on the new client's own list (whatever Topics.Subscribe reported)", f, ci, next, isAdd, nil,
			"a filter that stays in the index but not on the list survives the end of the session")
	}
	c.floor(rule+" re-subscriptions in inheritClientSession", n, 1)
}

// connackCapUnconditional: SendConnack caps the client's session expiry interval at the server maximum whenever it
// exceeds it — a maximum of 0 included ("sessions end at disconnect"): on a success CONNACK with interval > maximum
// no path reaches the write without the capping store.
func connackCapUnconditional(c *Ctx, rule string) {
	f := c.fn("mqtt", "(*Server).SendConnack")
	if f == nil {
		return
	}
	stores := storesTo(f, "cl.Properties.Props.SessionExpiryInterval")
	if len(stores) == 0 {
		c.floor(rule+" capping stores in SendConnack", 0, 1)
		return
	}
	for _, st := range stores {
		if v := describe(st.Val); strings.HasPrefix(v, "builtin.min(") {
			c.ob(rule, "(*mqtt.Server).SendConnack: with interval > maximum every success path caps the interval", c.pos(st.Pos()), true, "written with min(): decided by C15.d")
			return
		}
	}
	isCap := func(x ssa.Instruction) bool {
		st, ok := x.(*ssa.Store)
		return ok && describe(st.Addr) == "cl.Properties.Props.SessionExpiryInterval"
	}
	c.noPath(rule, "(*mqtt.Server).SendConnack: with interval > maximum every success path caps the interval", f, nil, isNamed(fnWritePacket), isCap,
		[]Assume{assumeEq("cl.Properties.Props.SessionExpiryInterval > s.Options.Capabilities.MaximumSessionExpiryInterval", true),
			c.assumeIntRange("reason.Code", 0, 127)},
		"a further condition on the cap (maximum > 0, say) lets a session outlive a server maximum of 0")
}

// handledPacketReturnsNil: once the packet's handler returned no error, processPacket returns nil: the release of a
// parked message that follows is best effort, and an error from it would be taken by attachClient for a failed
// connection (the will is published although the client sent DISCONNECT).
func handledPacketReturnsNil(c *Ctx, rule string) {
	f := c.fn("mqtt", "(*Server).processPacket")
	if f == nil {
		return
	}
	hook := c.call1(f, "(*mqtt.Hooks).OnPacketProcessed")
	if hook == nil {
		c.ob(rule, "(*mqtt.Server).processPacket reports the handled packet to OnPacketProcessed", c.pos(f.Pos()), false, "call not found")
		return
	}
	// the test of the handler's error that follows the hook
	var test *ssa.BasicBlock
	for _, b := range f.Blocks {
		if t, _, ok := condOf(b); ok && strings.HasSuffix(t, "err == nil") && (b == hook.Block() || hook.Block().Dominates(b)) && test == nil {
			test = b
		}
	}
	if test == nil {
		c.ob(rule, "(*mqtt.Server).processPacket tests the handler's error after OnPacketProcessed", c.pos(hook.Pos()), false, "test not found")
		return
	}
	// successor on which err == nil
	okSucc := -1
	for i := range test.Succs {
		if _, truth, ok := edgeFact(test, i); ok && truth {
			okSucc = i
		}
	}
	if okSucc < 0 {
		return
	}
	start := test.Succs[okSucc]
	n := 0
	for _, r := range returns(f) {
		if r.Block() != start && !start.Dominates(r.Block()) {
			continue
		}
		n++
		vs := rvs(r)
		c.ob(rule, "(*mqtt.Server).processPacket: after a handler that returned no error the result is nil (return under "+guardKey(r)+")", c.pos(r.Pos()), len(vs) == 1 && isNilConst(vs[0]),
			"returns "+describe(vs[0])+": attachClient treats any error as a broken connection and publishes the will")
	}
	c.floor(rule+" returns after the handled packet", n, 1)
}

// willDelayClampOnFlag: ParseConnect shortens the will delay to the session expiry interval when the CONNECT carries
// that property — an explicit 0 included (the session ends with the connection, so the will is due at once).
func willDelayClampOnFlag(c *Ctx, rule string) {
	f := c.fn("mqtt", "(*Client).ParseConnect")
	if f == nil {
		return
	}
	n := 0
	for _, st := range storesTo(f, "cl.Properties.Will.WillDelayInterval") {
		n++
		c.underFact(rule, "(*mqtt.Client).ParseConnect: the will delay is clamped exactly when the CONNECT carries a session expiry interval", st, textEq("pk.Properties.SessionExpiryIntervalFlag"), true,
			"a test of the value (> 0) misses the explicit 0")
		c.ob(rule, "(*mqtt.Client).ParseConnect: the clamped will delay is the CONNECT's session expiry interval", c.pos(st.Pos()),
			// (or the will's own delay again, when the clamp is written as `d = own; if d > expiry { d = expiry }`)
			describe(st.Val) == "pk.Properties.SessionExpiryInterval" || describe(st.Val) == "pk.Connect.WillProperties.WillDelayInterval", "stores "+describe(st.Val))
	}
	c.floor(rule+" will-delay clamps in ParseConnect", n, 1)
}

// readEndsOnlyWhenClosed: Client.Read returns nil only when it finds the client closed at the top of its loop; a
// failed read is returned as an error (attachClient publishes the will on an error and clears it on nil).
func readEndsOnlyWhenClosed(c *Ctx, rule string) {
	f := c.fn("mqtt", "(*Client).Read")
	if f == nil {
		return
	}
	n := 0
	for _, r := range returns(f) {
		vs := rvs(r)
		if len(vs) != 1 || !isNilConst(vs[0]) {
			continue
		}
		n++
		c.underFact(rule, "(*mqtt.Client).Read returns nil only when the client is closed (return under "+guardKey(r)+")", r, textEq("(*mqtt.Client).Closed(cl)"), true,
			"a read error turned into nil looks like a normal DISCONNECT: the will of a connection the broker closed is dropped")
	}
	c.floor(rule+" nil returns of Client.Read", n, 1)
}

// aliasBoundAfterACL: processPublish records an inbound topic alias only for a publish that passed the write check:
// an alias bound by a refused publish would let a later alias-only publish (empty topic, which the check sees) reach
// the refused topic.
func aliasBoundAfterACL(c *Ctx, rule string) {
	f := c.fn("mqtt", "(*Server).processPublish")
	if f == nil {
		return
	}
	n := 0
	for _, ci := range c.callsNamed(f, "(*mqtt.InboundTopicAliases).Set") {
		n++
		c.factGate(rule, "(*mqtt.Server).processPublish: an inbound alias is bound only after the write check passed (or for the inline client)", f, ci,
			func(t string) bool { return strings.HasPrefix(t, "(*mqtt.Hooks).OnACLCheck(") && strings.HasSuffix(t, ", true)") }, []Assume{assumeEq("cl.Net.Inline", false)}, "")
	}
	c.floor(rule+" alias bindings in processPublish", n, 1)
}

// ledgerUsersFirst: AuthOk and ACLOk decide nothing before they looked for the user's own entry: every return is
// reached through the test of the Users map.
func ledgerUsersFirst(c *Ctx, rule string) {
	for _, name := range []string{"(*Ledger).AuthOk", "(*Ledger).ACLOk"} {
		f := c.fn("hooks/auth", name)
		if f == nil {
			continue
		}
		found := false
		q := &PathQuery{Fn: f, Target: anyReturn, EdgeOK: func(b *ssa.BasicBlock, i int) bool {
			if t, _, ok := condOf(b); ok && t == "l.Users == nil" {
				found = true
				return false
			}
			return true
		}}
		p, hit := q.Find()
		detail := ""
		if hit != nil {
			detail = "a return is reached without looking at Users: " + pathStr(f, p)
		}
		c.ob(rule, fname(f)+" decides only after looking for the user's own entry", c.pos(f.Pos()), hit == nil && found, detail)
	}
}

// prefixPatternNeedsMore: a rule value "abc*" matches strings that continue after the literal part; the bare "abc" is
// left to the rules that follow (RString.Matches tests len(a) > index of '*').
func prefixPatternNeedsMore(c *Ctx, rule string) {
	f := c.fn("hooks/auth", "(RString).Matches")
	if f == nil {
		return
	}
	has := false
	for _, b := range f.Blocks {
		if t, _, ok := condOf(b); ok {
			for _, sp := range factSpellings(t, true) {
				s := sp[0].(string)
				if strings.HasPrefix(s, "builtin.len(a) > strings.Index") || strings.HasPrefix(s, "strings.Index") && strings.HasSuffix(s, " < builtin.len(a)") {
					has = true
				}
			}
		}
	}
	c.ob(rule, "(hooks/auth.RString).Matches: a prefix pattern matches only a longer string (len(a) > position of '*')", c.pos(f.Pos()), has,
		"with HasPrefix the bare literal part matches too, and an earlier rule decides for a client a later rule was written for")
}

// hookAnswerStopsPublish: when an OnPublish hook answers a QoS>0 publish of an MQTT 5 client with a reason code
// (any packets.Code returned as the error, success class included), the publisher gets that code and the message
// goes no further: no path reaches publishToSubscribers or retainMessage.
func hookAnswerStopsPublish(c *Ctx, rule string) {
	f := c.fn("mqtt", "(*Server).processPublish")
	if f == nil {
		return
	}
	as := []Assume{
		{Match: func(t string) bool { return strings.HasSuffix(t, "OnPublish(s.hooks, cl, pk)#1 == nil") }, Truth: false},
		{Match: func(t string) bool { return strings.HasPrefix(t, "errors.Is(") && strings.HasSuffix(t, "packets.ErrRejectPacket)") }, Truth: false},
		{Match: func(t string) bool { return strings.HasPrefix(t, "errors.Is(") && strings.HasSuffix(t, "packets.CodeSuccessIgnore)") }, Truth: false},
		{Match: func(t string) bool { return strings.HasPrefix(t, "errors.As(") }, Truth: true},
		c.assumeIntRange("cl.Properties.ProtocolVersion", 5, 5),
		c.assumeIntRange("pk.FixedHeader.Qos", 1, 2),
	}
	for _, sink := range []string{fnPubToSubs, fnRetainMsg} {
		c.noPath(rule, "(*mqtt.Server).processPublish: a QoS>0 publish of an MQTT 5 client that a hook answered with a reason code never reaches "+strings.TrimPrefix(sink, "(*mqtt.Server)."), f, nil, isNamed(sink), nil, as,
			"whatever class the code has: the publisher was told the outcome")
	}
}

// storeReadBeforeServing: Server.Serve restores the stored state before it starts the listeners and the event loop:
// a client that reconnects while the store is still being read would be answered without its session and then be
// replaced by the restored, offline object.
func storeReadBeforeServing(c *Ctx, rule string) {
	f := c.fn("mqtt", "(*Server).Serve")
	if f == nil {
		return
	}
	read := c.call1(f, "(*mqtt.Server).readStore")
	serve := c.call1(f, "(*listeners.Listeners).ServeAll")
	if read == nil || serve == nil {
		c.ob(rule, "(*mqtt.Server).Serve reads the store and starts the listeners", c.pos(f.Pos()), false, "readStore or ServeAll not found")
		return
	}
	c.ob(rule, "(*mqtt.Server).Serve: the listeners start only after the store was read", c.pos(serve.Pos()), !reachableFrom(serve, read), "readStore runs after ServeAll")
	for _, ins := range instrs(f) {
		if g, ok := ins.(*ssa.Go); ok && strings.HasSuffix(cname(&g.Call), ".eventLoop") {
			c.ob(rule, "(*mqtt.Server).Serve: the event loop (expiry sweeps) starts only after the store was read", c.pos(g.Pos()), !reachableFrom(g, read), "readStore runs after the event loop was started")
		}
	}
}

// stopCauseIsTheCode: DisconnectClient stops the client with the code itself: the storage hooks compare the stop cause
// with packets.ErrSessionTakenOver by == to leave the live session's records alone.
func stopCauseIsTheCode(c *Ctx, rule string) {
	f := c.fn("mqtt", "(*Server).DisconnectClient")
	if f == nil {
		return
	}
	n := 0
	for _, ci := range c.callsNamed(f, "(*mqtt.Client).Stop") {
		n++
		arg := ci.Common().Args[1]
		ok := false
		if mi, isMI := arg.(*ssa.MakeInterface); isMI && describe(mi.X) == "code" {
			ok = true
		}
		c.ob(rule, "(*mqtt.Server).DisconnectClient stops the client with the reason code itself", c.pos(ci.Pos()), ok,
			"stop cause "+describe(arg)+": hooks that test StopCause() == packets.ErrSessionTakenOver no longer recognise a takeover and delete the live session's records")
	}
	c.floor(rule+" Stop calls in DisconnectClient", n, 1)
}

// subscriptionListKeyedByFilter: a client's own subscription list is keyed by the filter everywhere it is filled
// (UnsubscribeClient removes index entries by these keys).
func subscriptionListKeyedByFilter(c *Ctx, rule string) {
	n := 0
	for _, fn := range c.ModFns {
		for _, ci := range c.callsNamed(fn, "(*mqtt.Subscriptions).Add") {
			cc := ci.Common()
			if !strings.HasSuffix(describe(cc.Args[0]), ".State.Subscriptions") {
				continue
			}
			n++
			k := describe(cc.Args[1])
			c.ob(rule, fmt.Sprintf("%s: the client's subscription list is keyed by the subscription's filter", fname(rootFn(fn))), c.pos(ci.Pos()), strings.HasSuffix(k, ".Filter"),
				"key "+k+": UnsubscribeClient would not find the index entry under it")
		}
	}
	c.floor(rule+" fills of a client's subscription list", n, 3)
}
