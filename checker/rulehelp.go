package main

import (
	"fmt"
	"go/token"
	"reflect"
	"strings"

	"golang.org/x/tools/go/ssa"
)

// small combinators shared by the path rules

func (c *Ctx) call1(f *ssa.Function, name string) ssa.CallInstruction {
	cs := c.callsNamed(f, name)
	if len(cs) == 0 {
		return nil
	}
	return cs[0]
}

func isNamed(names ...string) func(ssa.Instruction) bool {
	return func(ins ssa.Instruction) bool { return isCallTo(ins, names...) }
}

func isIns(target ssa.Instruction) func(ssa.Instruction) bool {
	return func(x ssa.Instruction) bool { return x == target }
}

func anyReturn(x ssa.Instruction) bool { _, ok := x.(*ssa.Return); return ok }

// noPath asserts that no path from `from` (nil = entry) reaches a target without crossing a barrier.
func (c *Ctx) noPath(rule, construct string, f *ssa.Function, from ssa.Instruction, target, barrier func(ssa.Instruction) bool, as []Assume, why string) bool {
	q := &PathQuery{Fn: f, From: from, Target: target, Barrier: barrier, Assume: as}
	p, hit := q.Find()
	if hit != nil {
		c.ob(rule, construct, c.pos(hit.Pos()), false, why+" — witness path: "+pathStr(f, p))
		return false
	}
	c.ob(rule, construct, c.pos(f.Pos()), true, why)
	return true
}

// dom asserts that a dominates b (both non-nil).
func (c *Ctx) dom(rule, construct string, a, b ssa.Instruction, why string) bool {
	if a == nil || b == nil {
		c.ob(rule, construct, "", false, why+" — one of the two sites was not found")
		return false
	}
	ok := domInstr(a, b)
	c.ob(rule, construct, c.pos(b.Pos()), ok, why)
	return ok
}

// underFact asserts that ins executes only on the edge where cond text has the given truth.
func (c *Ctx) underFact(rule, construct string, ins ssa.Instruction, match func(string) bool, truth bool, why string) bool {
	if ins == nil || reflect.ValueOf(ins).IsNil() {
		c.ob(rule, construct, "", false, why+" — site not found")
		return false
	}
	ok := dominatedByFact(ins, match, truth)
	c.ob(rule, construct, c.pos(ins.Pos()), ok, why)
	return ok
}

func textEq(s string) func(string) bool { return func(t string) bool { return t == s } }
func textHas(subs ...string) func(string) bool {
	return func(t string) bool {
		for _, s := range subs {
			if !strings.Contains(t, s) {
				return false
			}
		}
		return true
	}
}

// storesTo lists stores in f whose address description equals addr.
func storesTo(f *ssa.Function, addr string) []*ssa.Store {
	var out []*ssa.Store
	for _, ins := range instrs(f) {
		if st, ok := ins.(*ssa.Store); ok && describe(st.Addr) == addr {
			out = append(out, st)
		}
	}
	return out
}

// whoCalls asserts that the module callers of target are within allowed (by short name).
func (c *Ctx) whoCalls(rule string, target *ssa.Function, allowed map[string]string) {
	if target == nil {
		return
	}
	for _, caller := range c.callers(target) {
		n := fname(rootFn(caller))
		why, ok := allowed[n]
		c.ob(rule, fmt.Sprintf("%s is called from %s", fname(target), n), c.pos(caller.Pos()), ok, why)
	}
}

// valueOfCall returns the *ssa.Call for a call instruction (nil for defer/go).
func asCall(ci ssa.CallInstruction) *ssa.Call {
	if ci == nil {
		return nil
	}
	call, _ := ci.(*ssa.Call)
	return call
}

// sendSites lists channel sends in f (plain sends and select cases).
func sendSites(f *ssa.Function, chanDesc string) []ssa.Instruction {
	var out []ssa.Instruction
	for _, ins := range instrs(f) {
		switch x := ins.(type) {
		case *ssa.Send:
			if strings.Contains(describe(x.Chan), chanDesc) {
				out = append(out, x)
			}
		case *ssa.Select:
			for _, st := range x.States {
				if st.Send != nil && strings.Contains(describe(st.Chan), chanDesc) {
					out = append(out, x)
				}
			}
		}
	}
	return out
}

// before asserts that a precedes b in execution order without requiring dominance:
// b is reachable from a and a is not reachable from b.
func (c *Ctx) before(rule, construct string, a, b ssa.Instruction, why string) bool {
	if a == nil || b == nil {
		c.ob(rule, construct, "", false, why+" — one of the two sites was not found")
		return false
	}
	ok := reachableFrom(a, b) && !reachableFrom(b, a)
	c.ob(rule, construct, c.pos(b.Pos()), ok, why)
	return ok
}

// rvs returns the operands of a return with go/ssa's defer-spill idiom resolved: in a function
// with defers and named/spilled results the return reads `*alloc`; the value is the one stored to
// that alloc last in the return's own block.
func rvs(r *ssa.Return) []ssa.Value {
	out := make([]ssa.Value, len(r.Results))
	for i, v := range r.Results {
		out[i] = v
		u, ok := v.(*ssa.UnOp)
		if !ok || u.Op != token.MUL {
			continue
		}
		a, ok := u.X.(*ssa.Alloc)
		if !ok {
			continue
		}
		instrs := r.Block().Instrs
		for j := len(instrs) - 1; j >= 0; j-- {
			if st, ok := instrs[j].(*ssa.Store); ok && st.Addr == ssa.Value(a) {
				out[i] = st.Val
				break
			}
		}
	}
	return out
}
