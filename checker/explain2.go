package main

// round2ExplainMore: rules of round2g–round2i (third to ninth batch), appended after round2Explain.
var round2ExplainMore = map[string]string{
	"C02": "RetainMessage changes the retained store only under the index root lock.",
	"C05": "RetainMessage changes the retained store only under the index root lock; Server.retainMessage stores a copy of the packet.",
	"C23": "Properties.Copy, Packet.Copy and ParseConnect copy each field from the source field of the same name; packets.validPacketProperties equals MQTT 5.0 table 2-4.",
	"C26": "The v5 acknowledgement encoder writes every failure reason code; in ConnectEncode a field whose flag is set is written on every path (also when empty); packets.validPacketProperties equals MQTT 5.0 table 2-4.",
	"C27": "In package packets the next decoding step after a checked helper runs only once that helper's error was tested (on failure the helpers return offset 0).",
	"C28": "Helper results are used only after their error check (a crafted property section cannot make the decoder revisit the same bytes forever).",
	"C29": "DecodeLength rejects an input only for a reader error, a value above 268435455 or a fifth byte.",
	"C31": "RetainMessage changes the retained store only under the root lock; TopicsIndex.Subscribe stores the given subscription on every path.",
	"C32": "Client.Stop closes the connection without taking the client's mutex or writing to the connection (a writer parked in Conn.Write holds that mutex until the close); no value containing a sync lock is copied.",
	"C33": "flushOutbuf is called only from WritePacket's locked section; no value containing a sync lock is copied.",
	"C34": "flushOutbuf is called only from WritePacket's locked section.",
	"C37": "Only ParseConnect stores the client's keepalive (from the CONNECT packet); a resumed session does not bring the previous connection's value along.",
	"C38": "Info.Inflight is decremented only on the edge where an Inflight.Delete reported a removal.",
	"C40": "Server.retainMessage stores a copy of the packet, never the caller's own payload slice.",
	"C41": "A capped pool owns its inner pool (newBuffer()) and keeps the cap it was given unchanged.",
	"C42": "DecodeLength rejects only for the three tabled reasons; ConnectDecode decodes every field whose flag is set, independent of the other flags; Client.Read uses a fresh FixedHeader per packet; the property table equals MQTT 5.0 table 2-4; the v5 acknowledgement encoder writes every failure code.",
}
