package main

// round2Explain: what the rules added after the second round of seeded changes (round2*_rules.go) decide, per
// property; appended to the property's explanation in the evidence and in MANIFEST.json.
var round2Explain = map[string]string{
	"C01": "Added after round 2: SharedSubscriptions.Delete removes exactly the given member and drops a group only when it is empty afterwards.",
	"C02": "Added after round 2: the retained replay loop is left only when the matching messages are exhausted (a message that cannot be delivered does not cut the others off).",
	"C03": "Added after round 2: the session's own subscription list and the topic index change together (list entry removed only after the index removal, added only after Topics.Subscribe, and updated after every Topics.Subscribe — new or replaced); InboundTopicAliases.Set re-binds an alias whenever a topic is given.",
	"C04": "Added after round 2: processSubscribe updates the session copy on re-subscribe; the subscription identifiers are attached before the copy is stored in the in-flight map or queued; loadSubscriptions copies every option from the stored field of the same name; publishToClient's QoS-dependent decisions read the delivered (clamped) QoS only.",
	"C05": "Added after round 2: every comparison with the share keyword takes the filter's whole first level (isolateParticle(filter,0)) — IsSharedFilter, the trie and the validator classify alike; the retained replay loop is exhaustive.",
	"C06": "Added after round 2: share classifiers agree (whole first level); list and index change together in processUnsubscribe/processSubscribe; SharedSubscriptions.Delete removes exactly the given member.",
	"C07": "Added after round 2: SubscribeDecode/UnsubscribeDecode append exactly one list element per decoded filter (nothing skipped, merged or de-duplicated), so reason codes line up with the request.",
	"C08": "Added after round 2: after inheritClientSession the connecting client is registered in Clients on every path, also when the CONNACK cannot be written (the inherited state, markers included, lives only in the new object).",
	"C09": "Added after round 2: the inherited session is registered on every path; ClearExpiredInflights decides from the record, the clock and the server maximum only (no property of the receiving client); a PUBACK for a known id always removes the record, whatever its reason code.",
	"C10": "Added after round 2: expiry reads the record only; loadInflight restores every stored record of a restored session exactly as Message.ToPacket built it (no type filter, no rewritten field).",
	"C11": "Added after round 2: in processPuback/processPubcomp removing the record and returning the send slot go together; processPacket runs the held-back-message release test after every acknowledgement handler; publishToClient's rollback reads the delivered QoS; a record's Expiry is compared with the clock only when it is > 0 (0 none, -1 parked).",
	"C12": "Added after round 2: GetAll's comparator reads the creation time (packet ids wrap); the release test runs after PUBREC/PUBREL/PUBCOMP too; loadInflight keeps the stored creation time.",
	"C13": "Added after round 2: ConnectValidate accepts only the pairs (MQIsdp,3), (MQTT,4), (MQTT,5); attachClient calls no hook between Clients.Add and the CONNACK write.",
	"C14": "Added after round 2: the inherited session is registered (Clients.Add) on every path after inheritClientSession.",
	"C15": "Added after round 2: list and index change together; the interval a DISCONNECT stores is the packet's own value or the explicit cap (a helper that treats 0 as unset is refused); processSubscribe updates the session copy on re-subscribe.",
	"C16": "Added after round 2: after a successful CONNACK the pending delayed will of the client id is cancelled on every path; Hooks.OnWill takes a hook's result only when that hook returned no error; the will packet carries no ProtocolVersion while its Expiry doubles as the delayed-will due time.",
	"C18": "Added after round 2: a user with an entry in Users and the matching password is decided by that entry and never falls through to the global rules; a '+' filter level accepts the topic level unconditionally.",
	"C19": "Added after round 2: Hooks.OnWill takes a hook's result only on err == nil; processPublish continues with the packet exactly as OnPublish returned it (no derived copy that drops hook marks such as Ignore).",
	"C20": "Added after round 2: restore functions copy fields from the stored field of the same name; loadInflight stores the packet as ToPacket built it; Server.Close stops the hooks only after listeners and connections were closed; every removal of an in-flight record outside the tabled functions is reported through OnQosComplete/OnQosDropped (the events the storage hooks implement).",
	"C21": "Added after round 2: hooks outlive the connections at shutdown; removals of in-flight records reach the storage hooks.",
	"C22": "Added after round 2: a direct call of the storage engine in an event method (instead of setKv/delKv) is part of the sibling summary.",
	"C24": "Added after round 2: InboundTopicAliases.Set re-binds an alias whenever a non-empty topic is given.",
	"C25": "Added after round 2: expiry reads the record only; Expiry is compared with the clock only when > 0; for an MQTT 5 record there is a path to the deletion under the server maximum that asks at most whether Expiry is set.",
	"C26": "Added after round 2: the filter loops of SubscribeDecode/UnsubscribeDecode append exactly one element per decoded filter.",
	"C30": "Added after round 2: the guard in front of a prefix slice in IsValidFilter is exactly the slice's bounds requirement (the bare prefix is tested too); in processSubscribe every verdict other than 'filter invalid' is stored only for a filter that passed IsValidFilter.",
	"C31": "Added after round 2: SharedSubscriptions.Delete removes exactly the given member.",
	"C35": "Added after round 2: attachClient reads cl.Properties only after ParseConnect (the limit refusal picks its code from the parsed protocol version).",
	"C36": "Added after round 2: DisconnectClient stops the client on every path unless PassiveClientDisconnect (also when the DISCONNECT cannot be written); Server.Close stops the hooks after the connections.",
	"C39": "Added after round 2: the connection's buffered reader is consumed by blocking reads only (ReadByte, DecodeLength on the reader, io.ReadFull — no Peek/Discard/Buffered); the websocket adapter uses only the tabled gorilla calls (no read limit).",
	"C42": "Added after round 2: the filter loops append exactly one element per decoded filter.",
}

func fullExplanation(p *Prop) string {
	s := p.Explanation
	if x, ok := round2Explain[p.ID]; ok {
		s += " " + x
	}
	if x, ok := round2ExplainMore[p.ID]; ok {
		if _, had := round2Explain[p.ID]; !had {
			s += " Added after round 2:"
		}
		s += " " + x
	}
	if x, ok := round3Explain[p.ID]; ok {
		s += " Added after round 3: " + x
	}
	if x, ok := round4Explain[p.ID]; ok {
		s += " Added after round 4: " + x
	}
	return s
}
