package main

import (
	"fmt"
	"go/token"
	"sort"
	"strings"

	"golang.org/x/tools/go/ssa"
)

const (
	fnInflSet    = "(*mqtt.Inflight).Set"
	fnInflGet    = "(*mqtt.Inflight).Get"
	fnInflDelete = "(*mqtt.Inflight).Delete"
)

func inflGetOK(t string) bool {
	return strings.HasPrefix(t, fnInflGet+"(") && strings.HasSuffix(t, "#1")
}

// ---- C08 -----------------------------------------------------------------------------------

func init() {
	register(&Prop{
		ID:        "C08",
		Title:     "Inbound QoS 2 messages are forwarded exactly once",
		Technique: "must / must-not path rules on processPublish; constant folding of the reason code answered on the duplicate edge",
		Explanation: "(a) from the edge where the in-flight lookup finds a PUBREC marker for the packet id (a retransmission) no path reaches publishToSubscribers or retainMessage; " +
			"(b) for QoS 2 every path to publishToSubscribers first records the PUBREC marker with Inflight.Set, and a resumed session takes the whole in-flight map over (Inflight.Clone), so the marker survives reconnects; " +
			"processPubrel removes the marker only after writing PUBCOMP; " +
			"(c) the PUBREC written on the duplicate edge carries a reason code below 0x80; " +
			"(d) the marker survives: the resend on session resume never deletes a stored PUBREC record, and processPublish hands the freshly stored marker to hooks.OnQosPublish (persistence) guarded by the result of Inflight.Set.",
		NotDecided: []string{"counting deliveries in a history", "interleaving with other clients' traffic"},
		Run:        runC08,
	})
}

func runC08(c *Ctx) {
	f := c.fn("mqtt", "(*Server).processPublish")
	if f == nil {
		return
	}
	types_ := c.pktTypes()
	var pubrec int64 = -1
	for k, n := range types_ {
		if n == "Pubrec" {
			pubrec = k
		}
	}
	dupText := fmt.Sprintf("pki.FixedHeader.Type == %d", pubrec)
	// the duplicate edge
	var dupIf *ssa.BasicBlock
	for _, b := range f.Blocks {
		if t, _, ok := condOf(b); ok && t == dupText {
			dupIf = b
		}
	}
	if dupIf == nil {
		c.ob("C08.a duplicate-not-forwarded", "(*mqtt.Server).processPublish: test of the stored record's type against PUBREC", c.pos(f.Pos()), false, "the duplicate-detection branch is gone")
		return
	}
	c.underFact("C08.a duplicate-not-forwarded", "(*mqtt.Server).processPublish: the record type is tested only when the in-flight lookup found a record", dupIf.Instrs[len(dupIf.Instrs)-1], inflGetOK, true, "")
	// the looked-up id is the publish's id
	if g := c.call1(f, fnInflGet); g != nil {
		c.ob("C08.a duplicate-not-forwarded", "(*mqtt.Server).processPublish: the in-flight lookup uses the publish's packet id", c.pos(g.Pos()), describe(g.Common().Args[1]) == "pk.PacketID", "")
	}
	for _, sink := range []string{fnPubToSubs, fnRetainMsg} {
		q := &PathQuery{Fn: f, Target: isNamed(sink), Assume: []Assume{assumeEq(dupText, true)}}
		// start from the If itself: search from entry but require passing the true edge: cut the false edge
		q.EdgeOK = func(b *ssa.BasicBlock, i int) bool { return true }
		first := dupIf.Succs[0].Instrs[0]
		q.From = nil
		p, hit := (&PathQuery{Fn: f, From: dupIf.Instrs[len(dupIf.Instrs)-1], Target: isNamed(sink), Assume: []Assume{assumeEq(dupText, true)}}).Find()
		_ = first
		// From=the If instruction: successors are explored with the assumption pruning the false edge
		c.ob("C08.a duplicate-not-forwarded", "(*mqtt.Server).processPublish: a retransmitted QoS 2 PUBLISH (PUBREC marker present) never reaches "+strings.TrimPrefix(sink, "(*mqtt.Server)."),
			c.pos(dupIf.Instrs[len(dupIf.Instrs)-1].Pos()), hit == nil, "witness: "+pathStr(f, p))
	}
	// (b) marker before forwarding
	as := []Assume{assumeEq("pk.FixedHeader.Qos == 0", false), assumeEq("cl.Net.Inline", false), assumeEq("pk.FixedHeader.Qos == 2", true)}
	c.noPath("C08.b marker-before-forward", "(*mqtt.Server).processPublish: QoS 2 is forwarded only after the PUBREC marker was stored (Inflight.Set)", f, nil, isNamed(fnPubToSubs), isNamed(fnInflSet), as,
		"without the marker a retransmission is forwarded again")
	// the value stored is the ack with type φ(Puback,Pubrec)
	for _, ci := range c.callsNamed(f, fnInflSet) {
		ts := ackTypesOf(ci.Common().Args[1], 0)
		has := false
		for _, t := range ts {
			if t == pubrec {
				has = true
			}
		}
		c.ob("C08.b marker-before-forward", "(*mqtt.Server).processPublish: the stored marker is the PUBREC built for this packet id", c.pos(ci.Pos()), has, fmt.Sprint(ts))
	}
	// the QoS 1 marker is removed right away, the QoS 2 marker is not
	for _, ci := range c.callsNamed(f, fnInflDelete) {
		if describe(ci.Common().Args[1]) == "ack.PacketID" {
			c.underFact("C08.b marker-before-forward", "(*mqtt.Server).processPublish: only the QoS 1 marker is deleted after the acknowledgement", ci, textEq("pk.FixedHeader.Qos == 1"), true, "the QoS 2 marker must stay until PUBREL")
		}
	}
	if g := c.fn("mqtt", "(*Server).processPubrel"); g != nil {
		var del ssa.CallInstruction
		for _, ci := range c.callsNamed(g, fnInflDelete) {
			if dominatedByFact(ci, textEq("pk.ReasonCode < packets.ErrUnspecifiedError.Code"), true) {
				del = ci
			}
		}
		var w ssa.CallInstruction
		for _, ci := range c.callsNamed(g, fnWritePacket) {
			if ts := ackTypesOf(ci.Common().Args[1], 0); len(ts) == 1 && types_[ts[0]] == "Pubcomp" && dominatedByFact(ci, inflGetOK, true) {
				w = ci
			}
		}
		c.dom("C08.b marker-before-forward", "(*mqtt.Server).processPubrel: the marker is removed only after PUBCOMP was written", w, del, "")
	}
	if g := c.fn("mqtt", "(*Server).inheritClientSession"); g != nil {
		c.ob("C08.b marker-before-forward", "(*mqtt.Server).inheritClientSession: a resumed session takes over the whole in-flight map (markers included)", c.pos(g.Pos()), c.call1(g, "(*mqtt.Inflight).Clone") != nil, "")
	}
	// the marker survives a reconnect: the resend on resume never drops a PUBREC record
	if g := c.fn("mqtt", "(*Client).ResendInflightMessages"); g != nil {
		for _, ci := range c.callsNamed(g, fnInflDelete) {
			c.noPath("C08.b marker-before-forward", "(*mqtt.Client).ResendInflightMessages never drops a stored PUBREC (the inbound QoS 2 marker) when the session is resumed", g, nil, isIns(ci), nil,
				[]Assume{assumeTypeIs(int(pubrec))}, "after a reconnect a DUP retransmission would be forwarded a second time")
		}
	}
	// the marker survives a broker restart: it is handed to the persistence hook when it is first stored
	var setM ssa.CallInstruction
	for _, ci := range c.callsNamed(f, fnInflSet) {
		setM = ci
	}
	persisted := false
	for _, q := range c.callsNamed(f, "(*mqtt.Hooks).OnQosPublish") {
		if setM != nil && describe(q.Common().Args[2]) == describe(setM.Common().Args[1]) && dominatedByFact(q, func(t string) bool { return t == describe(asCall(setM)) }, true) {
			persisted = true
		}
	}
	c.ob("C08.b marker-before-forward", "(*mqtt.Server).processPublish hands the newly stored marker to hooks.OnQosPublish (persistence)", c.pos(f.Pos()), persisted,
		"without it a broker restart between PUBREC and PUBREL forgets the marker and the retransmission is forwarded again")
	// (c) non-failure PUBREC on the duplicate edge
	codes := c.codeValuesAST()
	n := 0
	for _, ci := range c.callsNamed(f, fnBuildAck) {
		if !dominatedByFact(ci, textEq(dupText), true) {
			continue
		}
		n++
		reason := strings.TrimPrefix(describe(ci.Common().Args[5]), "packets.")
		code, known := codes[reason]
		ts := constsOf(ci.Common().Args[2], 0)
		c.ob("C08.c retransmission-answered-ok", "(*mqtt.Server).processPublish: the retransmission is answered with a PUBREC", c.pos(ci.Pos()), len(ts) == 1 && ts[0] == pubrec, "")
		c.ob("C08.c retransmission-answered-ok", "(*mqtt.Server).processPublish: the PUBREC for a retransmission carries a non-failure reason code", c.pos(ci.Pos()), known && code < 0x80,
			fmt.Sprintf("answers %s (0x%02X): the client is told the exchange failed and cannot complete it with PUBREL", reason, code))
	}
	c.floor("C08.c acknowledgements on the duplicate edge", n, 1)
}

// ---- C09 -----------------------------------------------------------------------------------

func init() {
	register(&Prop{
		ID:        "C09",
		Title:     "Unacknowledged QoS 1/2 messages survive reconnection until acknowledged",
		Technique: "who-may-delete table over every (*Inflight).Delete call site; ordering rules in attachClient / ResendInflightMessages / processPubrec",
		Explanation: "(a) every call site of (*Inflight).Delete lies in a function whose role makes the deletion legitimate: acknowledgement handler, expiry/clear, resend of a terminal acknowledgement (guarded by type), or rollback of an enqueue that failed (after OnPublishDropped); any other site deletes an unacknowledged message; " +
			"(b) on a resumed session attachClient resends in-flight messages after the CONNACK; ResendInflightMessages sets DUP on PUBLISH before writing and never assigns a new packet id; " +
			"(c) processPubrec replaces the stored PUBLISH by a PUBREL with the same id before writing it; " +
			"(e) ResendInflightMessages hands every resumed record to hooks.OnQosPublish before the write that may fail (the takeover deleted the stored rows under the same client id).",
		NotDecided: []string{"actual redelivery contents and timing", "clean-start semantics (C14)"},
		Run:        runC09,
	})
}

// resendRepersists: a session takeover clears the old connection's in-flight rows in the store (ClearInflights ->
// OnQosDropped under the same client id); the only thing that writes them back is the OnQosPublish call in the
// resend, so every record visited by ResendInflightMessages is handed to the hook before anything that can fail.
func resendRepersists(c *Ctx, rule string) {
	f := c.fn("mqtt", "(*Client).ResendInflightMessages")
	if f == nil {
		return
	}
	var body *ssa.BasicBlock
	for _, b := range f.Blocks {
		if (b.Comment == "rangeindex.body" || b.Comment == "rangeiter.body") && body == nil {
			body = b
		}
	}
	if body == nil {
		c.ob(rule, "(*mqtt.Client).ResendInflightMessages iterates over the stored records", c.pos(f.Pos()), false, "loop not found")
		return
	}
	_, hit := (&PathQuery{Fn: f, From: body.Instrs[0], Target: func(x ssa.Instruction) bool {
		if _, ok := x.(*ssa.Return); ok {
			return true
		}
		return isNamed(fnWritePacket)(x)
	}, Barrier: isNamed("(*mqtt.Hooks).OnQosPublish")}).Find()
	c.ob(rule, "(*mqtt.Client).ResendInflightMessages: each resumed record is handed to hooks.OnQosPublish before the write that may fail", c.pos(body.Instrs[0].Pos()), hit == nil,
		"the takeover deleted the session's stored in-flight rows; a failed resend write would return before they are written back, and a restart then forgets the message")
}

func runC09(c *Ctx) {
	resendRepersists(c, "C09.e resend-repersists")
	roles := map[string]string{
		"(*mqtt.Server).processPuback":          "ack-handler: PUBACK completes an outbound QoS 1 message",
		"(*mqtt.Server).processPubrec":          "ack-handler: PUBREC with an error code ends the outbound flow",
		"(*mqtt.Server).processPubrel":          "ack-handler: PUBREL completes an inbound QoS 2 exchange",
		"(*mqtt.Server).processPubcomp":         "ack-handler: PUBCOMP completes an outbound QoS 2 message",
		"(*mqtt.Server).processPublish":         "inbound marker of the client's own publish (QoS 1 completed at once; stale non-PUBREC record with the client's id)",
		"(*mqtt.Client).ClearInflights":         "session ends / clean start",
		"(*mqtt.Client).ClearExpiredInflights":  "message expiry",
		"(*mqtt.Client).ResendInflightMessages": "terminal acknowledgements (PUBACK/PUBCOMP) are dropped after being resent",
		"(*mqtt.Server).publishToClient":        "rollback of an enqueue that failed (reported through OnPublishDropped)",
	}
	n := 0
	for _, fn := range c.ModFns {
		for _, ci := range c.callsNamed(fn, fnInflDelete) {
			n++
			name := fname(rootFn(fn))
			why, ok := roles[name]
			c.ob("C09.a who-may-delete", fmt.Sprintf("%s deletes in-flight record %s", name, describe(ci.Common().Args[1])), c.pos(ci.Pos()), ok,
				strOr(why, "this function has no role that allows removing an unacknowledged message from the session: it would never be redelivered"))
			switch name {
			case "(*mqtt.Client).ResendInflightMessages":
				c.underFact("C09.a who-may-delete", name+": only PUBACK/PUBCOMP records are dropped after a resend", ci,
					func(t string) bool {
						return strings.Contains(t, ".FixedHeader.Type == 4") || strings.Contains(t, ".FixedHeader.Type == 7")
					}, true, "")
				// must not be reachable for Publish/Pubrel: both type tests false ⇒ unreachable
				c.noPath("C09.a who-may-delete", name+": a PUBLISH/PUBREL record is never dropped by a resend", fn, nil, isIns(ci), nil,
					[]Assume{assumeHas(".FixedHeader.Type == 4", false), assumeHas(".FixedHeader.Type == 7", false)}, "")
			case "(*mqtt.Server).publishToClient":
				reported := false
				for _, d := range c.callsNamed(fn, "(*mqtt.Hooks).OnPublishDropped") {
					if domInstr(d, ci) {
						reported = true
					}
				}
				c.ob("C09.a who-may-delete", name+": the rollback follows OnPublishDropped", c.pos(ci.Pos()), reported, "a message may be removed from the session by publishToClient only as the rollback of a reported drop")
				// an offline session keeps its QoS>0 messages: the enqueue attempt (and with it the rollback) happens only for an open connection
				open := dominatedByFact(ci, textEq("cl.Net.Conn == nil"), false) && dominatedByFact(ci, textEq("(*mqtt.Client).Closed(cl)"), false)
				c.ob("C09.a who-may-delete", name+": the rollback is reachable only while the client's connection is open", c.pos(ci.Pos()), open,
					"for an offline session nothing drains the queue: once it is full every further QoS>0 message would be rolled back out of the session instead of waiting for the reconnect")
			}
		}
	}
	c.floor("C09.a Inflight.Delete call sites", n, 11)
	if f := c.fn("mqtt", "(*Server).attachClient"); f != nil {
		rs := c.call1(f, "(*mqtt.Client).ResendInflightMessages")
		c.dom("C09.b resend-on-resume", "(*mqtt.Server).attachClient resends in-flight messages after the CONNACK", c.successConnack(f), rs, "")
		c.underFact("C09.b resend-on-resume", "(*mqtt.Server).attachClient resends exactly when the session is present", rs, textHas("inheritClientSession("), true, "")
		// every path to Read with sessionPresent crosses the resend
		c.noPath("C09.b resend-on-resume", "(*mqtt.Server).attachClient: with a session present, packets are read only after the resend", f, nil, isNamed("(*mqtt.Client).Read"), isNamed("(*mqtt.Client).ResendInflightMessages"),
			[]Assume{{Match: textHas("(*mqtt.Server).inheritClientSession("), Truth: true}, {Match: func(t string) bool { return true }, Truth: true}}[:1], "")
	}
	if f := c.fn("mqtt", "(*Client).ResendInflightMessages"); f != nil {
		w := c.call1(f, fnWritePacket)
		var dup *ssa.Store
		for _, ins := range instrs(f) {
			if st, ok := ins.(*ssa.Store); ok && strings.HasSuffix(describe(st.Addr), ".FixedHeader.Dup") && describe(st.Val) == "true" {
				dup = st
			}
		}
		if dup == nil {
			c.ob("C09.b resend-on-resume", "(*mqtt.Client).ResendInflightMessages sets DUP on resent PUBLISH packets", c.pos(f.Pos()), false, "no store of true to FixedHeader.Dup")
		} else {
			c.underFact("C09.b resend-on-resume", "(*mqtt.Client).ResendInflightMessages sets DUP exactly on PUBLISH records", dup, textHas(".FixedHeader.Type == 3"), true, "")
			if w != nil {
				c.noPath("C09.b resend-on-resume", "(*mqtt.Client).ResendInflightMessages: a PUBLISH record is written only with DUP set", f, nil, isIns(w), isIns(dup),
					[]Assume{assumeHas(".FixedHeader.Type == 3", true)}, "")
			}
		}
		c.ob("C09.b resend-on-resume", "(*mqtt.Client).ResendInflightMessages keeps the original packet identifier", c.pos(f.Pos()),
			!c.reaches(f, func(g *ssa.Function) bool { return fname(g) == "(*mqtt.Client).NextPacketID" }), "NextPacketID must not be reachable from the resend")
		// iterates all in-flight messages
		ga := c.call1(f, "(*mqtt.Inflight).GetAll")
		c.ob("C09.b resend-on-resume", "(*mqtt.Client).ResendInflightMessages iterates every in-flight record", c.pos(f.Pos()), ga != nil && describe(ga.Common().Args[1]) == "false", "GetAll(false) returns all records")
		if w != nil {
			c.ob("C09.b resend-on-resume", "(*mqtt.Client).ResendInflightMessages writes the stored record", c.pos(w.Pos()), strings.HasPrefix(describe(w.Common().Args[1]), "tk") || strings.Contains(describe(w.Common().Args[1]), "GetAll"), describe(w.Common().Args[1]))
		}
	}
	if f := c.fn("mqtt", "(*Server).processPubrec"); f != nil {
		var set, w ssa.CallInstruction
		for _, ci := range c.callsNamed(f, fnInflSet) {
			set = ci
		}
		for _, ci := range c.callsNamed(f, fnWritePacket) {
			if dominatedByFact(ci, inflGetOK, true) {
				w = ci
			}
		}
		c.dom("C09.c pubrel-replaces-publish", "(*mqtt.Server).processPubrec stores the PUBREL before writing it", set, w, "after PUBREC the session must resend PUBREL, not PUBLISH")
		if set != nil {
			ts := ackTypesOf(set.Common().Args[1], 0)
			ok := len(ts) == 1 && c.pktTypes()[ts[0]] == "Pubrel"
			c.ob("C09.c pubrel-replaces-publish", "(*mqtt.Server).processPubrec: the stored record is a PUBREL with the PUBREC's packet id", c.pos(set.Pos()), ok, fmt.Sprint(ts))
			if w != nil {
				c.ob("C09.c pubrel-replaces-publish", "(*mqtt.Server).processPubrec writes the record it stored", c.pos(w.Pos()), w.Common().Args[1] == set.Common().Args[1], "")
			}
		}
	}
}

func strOr(a, b string) string {
	if a != "" {
		return a
	}
	return b
}

// ---- C10 -----------------------------------------------------------------------------------

func init() {
	register(&Prop{
		ID:        "C10",
		Title:     "Packet identifiers are unique per direction and never cross-contaminate",
		Technique: "dominance rule: completions are guarded by the stored record's direction tag; freshness of NextPacketID",
		Explanation: "(a) the session keeps one map for both directions and the stored record's FixedHeader.Type is the only direction tag (inbound markers: PUBACK/PUBREC/PUBCOMP records; outbound: PUBLISH/PUBREL records): " +
			"every Inflight.Delete / replacing Inflight.Set in a direction-specific handler must be dominated by a test of the fetched record's type against the kinds of the handler's own direction; " +
			"(b) NextPacketID returns an id only on the not-found edge of Inflight.Get for that id, under the client's lock, and never returns 0.",
		NotDecided: []string{"identifier values over a history", "wrap-around arithmetic beyond the loop shape"},
		Run:        runC10,
	})
}

func runC10(c *Ctx) {
	for _, h := range []struct{ name, dir string }{
		{"(*Server).processPuback", "outbound"}, {"(*Server).processPubrec", "outbound"}, {"(*Server).processPubcomp", "outbound"},
		{"(*Server).processPubrel", "inbound"}, {"(*Server).processPublish", "inbound"},
	} {
		f := c.fn("mqtt", h.name)
		if f == nil {
			continue
		}
		typeTest := func(t string) bool {
			return strings.Contains(t, ".FixedHeader.Type") && (strings.Contains(t, " == ") || strings.Contains(t, " < "))
		}
		for _, ci := range c.callsNamed(f, fnInflDelete, fnInflSet) {
			id := describe(ci.Common().Args[1])
			isDel := cname(ci.Common()) == fnInflDelete
			if !isDel {
				// a Set of the handler's own fresh marker in processPublish is not a replacement of a foreign record unless one exists: checked through the Delete before it
				if h.name == "(*Server).processPublish" {
					continue
				}
			}
			if h.name == "(*Server).processPublish" && id == "ack.PacketID" {
				continue // the handler's own marker, stored a few lines earlier on the same path
			}
			guarded := false
			for _, ed := range edgeDoms(ci) {
				if t, _, ok := condOf(ed.b); ok && typeTest(t) {
					guarded = true
				}
			}
			op := "Set"
			if isDel {
				op = "Delete"
			}
			c.ob("C10.a direction-guarded", fmt.Sprintf("%s: Inflight.%s(%s) is guarded by the stored record's type (%s direction)", fname(f), op, id, h.dir), c.pos(ci.Pos()), guarded,
				"the record found under this packet id may belong to the other direction: completing or replacing it cross-contaminates the two identifier spaces")
		}
	}
	if f := c.fn("mqtt", "(*Client).NextPacketID"); f != nil {
		n := 0
		for _, r := range returns(f) {
			if !isNilConst(rvs(r)[1]) {
				continue
			}
			n++
			c.underFact("C10.b fresh-id", "(*mqtt.Client).NextPacketID returns an id only when no in-flight record uses it", r, inflGetOK, false, "")
			// the returned id is the one looked up
			var get ssa.CallInstruction
			for _, ci := range c.callsNamed(f, fnInflGet) {
				get = ci
			}
			same := get != nil && strings.Contains(describe(get.Common().Args[1]), describe(rvs(r)[0]))
			c.ob("C10.b fresh-id", "(*mqtt.Client).NextPacketID returns the id it looked up", c.pos(r.Pos()), same, "")
			// never 0: after the counter is reset to 0 an increment precedes every successful return
			isIncr := func(x ssa.Instruction) bool {
				st, ok := x.(*ssa.Store)
				if !ok || describe(st.Addr) != "i" {
					return false
				}
				b, isAdd := st.Val.(*ssa.BinOp)
				return isAdd && b.Op == token.ADD && describe(b.Y) == "1"
			}
			never0 := true
			for _, st := range storesTo(f, "i") {
				if k, isC := constInt(st.Val); isC && k == 0 {
					if _, hit := (&PathQuery{Fn: f, From: st, Target: isIns(r), Barrier: isIncr}).Find(); hit != nil {
						never0 = false
					}
				}
			}
			// and the lookup is of the incremented value on every path
			if _, hit := (&PathQuery{Fn: f, Target: isIns(r), Barrier: isIncr}).Find(); hit != nil {
				never0 = false
			}
			c.ob("C10.b fresh-id", "(*mqtt.Client).NextPacketID never returns 0 (an increment precedes every successful return, also after the wrap to 0)", c.pos(r.Pos()), never0, "")
		}
		c.floor("C10.b success returns of NextPacketID", n, 1)
		lf := lockFlowOf(f)
		for _, ci := range c.callsNamed(f, fnInflGet) {
			_, held := lf.before[ci]["cl.RWMutex"]
			c.ob("C10.b fresh-id", "(*mqtt.Client).NextPacketID searches under the client's lock", c.pos(ci.Pos()), held, "two goroutines publishing to one client must not get the same id")
		}
		// bounded by the maximum id and wraps
		wrap := false
		for _, b := range f.Blocks {
			if t, _, ok := condOf(b); ok && strings.Contains(t, "maximumPacketID") {
				wrap = true
			}
		}
		c.ob("C10.b fresh-id", "(*mqtt.Client).NextPacketID wraps at Capabilities.maximumPacketID", c.pos(f.Pos()), wrap, "")
	}
	if f := c.fn("mqtt", "(*Server).publishToClient"); f != nil {
		// the outbound id comes from NextPacketID and is stored before the message is stored/enqueued
		sts := storesTo(f, "out.PacketID")
		ok := len(sts) == 1 && strings.Contains(describe(sts[0].Val), "(*mqtt.Client).NextPacketID(cl)#0")
		c.ob("C10.b fresh-id", "(*mqtt.Server).publishToClient takes the outbound packet id from NextPacketID", c.pos(f.Pos()), ok, "")
		if ok {
			for _, ci := range c.callsNamed(f, fnInflSet) {
				c.ob("C10.b fresh-id", "(*mqtt.Server).publishToClient stores the message after its id was assigned", c.pos(ci.Pos()), domInstr(sts[0], ci), "")
			}
		}
	}
}

// ---- C11 -----------------------------------------------------------------------------------

func init() {
	register(&Prop{
		ID:        "C11",
		Title:     "Receive Maximum flow control holds in both directions without leaking quota",
		Technique: "effect typing: every quota operation has a direction and every handler a flow; pairing of decrement/increment with the in-flight record's life cycle (path rules)",
		Explanation: "(a) direction typing: *SendQuota operations belong to the outbound flow (publishToClient, processPuback, processPubrec, processPubcomp, the deferred send in processPacket, expiry), *ReceiveQuota operations to the inbound flow (processPublish, processPubrel); an operation in a handler of the other direction is reported; " +
			"(b) pairing: DecreaseSendQuota only where an outbound PUBLISH is stored or sent; every path that removes an outbound record for good crosses IncreaseSendQuota; DecreaseReceiveQuota only on accepting an inbound QoS>0 PUBLISH and IncreaseReceiveQuota on its completion; QoS 0 paths cross none; " +
			"(c) the 0x93 disconnect is guarded by the receive quota only.",
		NotDecided: []string{"counts on the wire over a history", "eventual sending of every deferred message"},
		Run:        runC11,
	})
}

func runC11(c *Ctx) {
	dirOf := map[string]string{
		"(*mqtt.Inflight).DecreaseSendQuota": "outbound", "(*mqtt.Inflight).IncreaseSendQuota": "outbound",
		"(*mqtt.Inflight).DecreaseReceiveQuota": "inbound", "(*mqtt.Inflight).IncreaseReceiveQuota": "inbound",
	}
	flow := map[string]string{
		"(*mqtt.Server).publishToClient": "outbound", "(*mqtt.Server).processPuback": "outbound", "(*mqtt.Server).processPubrec": "outbound",
		"(*mqtt.Server).processPubcomp": "outbound", "(*mqtt.Server).processPacket": "outbound",
		"(*mqtt.Client).ClearExpiredInflights": "outbound", "(*mqtt.Client).ClearInflights": "outbound",
		"(*mqtt.Server).processPublish": "inbound", "(*mqtt.Server).processPubrel": "inbound",
	}
	n := 0
	var names []string
	for k := range dirOf {
		names = append(names, k)
	}
	sort.Strings(names)
	for _, fn := range c.ModFns {
		for _, ci := range c.callsNamed(fn, names...) {
			n++
			caller := fname(rootFn(fn))
			op := cname(ci.Common())
			fl, known := flow[caller]
			ok := known && fl == dirOf[op]
			detail := ""
			if !known {
				detail = "quota operation in a function that completes or advances no QoS flow"
			} else if !ok {
				detail = fmt.Sprintf("%s handles the %s flow but adjusts the %s quota: the other direction's allowance is consumed or re-credited", caller, fl, dirOf[op])
			}
			c.ob("C11.a direction-typing", fmt.Sprintf("%s calls %s", caller, strings.TrimPrefix(op, "(*mqtt.Inflight).")), c.pos(ci.Pos()), ok, detail)
		}
	}
	c.floor("C11.a quota operation sites", n, 9)
	// (b) pairing
	if f := c.fn("mqtt", "(*Server).publishToClient"); f != nil {
		dec := c.call1(f, "(*mqtt.Inflight).DecreaseSendQuota")
		c.underFact("C11.b quota-pairing", "(*mqtt.Server).publishToClient: the send quota is taken exactly when a new outbound record was stored", dec, textHas(fnInflSet+"("), true, "")
		c.underFact("C11.b quota-pairing", "(*mqtt.Server).publishToClient: QoS 0 deliveries take no quota", dec, textEq("out.FixedHeader.Qos > 0"), true, "")
		// deferral when the quota was 0: no enqueue
		for _, s := range sendSites(f, "State.outbound") {
			c.noPath("C11.b quota-pairing", "(*mqtt.Server).publishToClient: a QoS>0 message is not enqueued while the send quota is exhausted", f, nil, isIns(s), nil,
				[]Assume{assumeEq("out.FixedHeader.Qos > 0", true), assumeEq("sync/atomic.LoadInt32(cl.State.Inflight.sendQuota) == 0", true), assumeHas("maximumSendQuota) > 0", true)},
				"with send quota 0 the broker must hold the message back instead of exceeding the client's Receive Maximum")
		}
		// rollback re-credits
		for _, ci := range c.callsNamed(f, fnInflDelete) {
			inc := c.call1(f, "(*mqtt.Inflight).IncreaseSendQuota")
			c.ob("C11.b quota-pairing", "(*mqtt.Server).publishToClient: the rollback of a dropped QoS>0 message re-credits the send quota", c.pos(ci.Pos()), inc != nil && inc.Block() == ci.Block(), "")
		}
	}
	for _, name := range []string{"(*Server).processPuback", "(*Server).processPubcomp"} {
		if f := c.fn("mqtt", name); f != nil {
			inc := c.call1(f, "(*mqtt.Inflight).IncreaseSendQuota")
			del := c.call1(f, fnInflDelete)
			c.ob("C11.b quota-pairing", fname(f)+": completing an outbound message re-credits the send quota", c.pos(f.Pos()), inc != nil && del != nil, "")
		}
	}
	if f := c.fn("mqtt", "(*Server).processPublish"); f != nil {
		dec := c.call1(f, "(*mqtt.Inflight).DecreaseReceiveQuota")
		if dec != nil {
			c.noPath("C11.b quota-pairing", "(*mqtt.Server).processPublish: QoS 0 and inline publishes never take receive quota", f, nil, isIns(dec), nil,
				[]Assume{assumeEq("pk.FixedHeader.Qos == 0", true)}, "")
			c.noPath("C11.b quota-pairing", "(*mqtt.Server).processPublish: an accepted QoS 1 publish returns its receive quota when it is acknowledged", f, dec, func(x ssa.Instruction) bool { return nilErrReturn(x) },
				isNamed("(*mqtt.Inflight).IncreaseReceiveQuota"), []Assume{assumeEq("pk.FixedHeader.Qos == 1", true)}, "")
			c.noPath("C11.b quota-pairing", "(*mqtt.Server).processPublish: an accepted QoS 2 publish keeps its receive quota until PUBREL", f, dec, isNamed("(*mqtt.Inflight).IncreaseReceiveQuota"), nil,
				[]Assume{assumeEq("pk.FixedHeader.Qos == 1", false)}, "")
		} else {
			c.ob("C11.b quota-pairing", "(*mqtt.Server).processPublish takes receive quota for an accepted QoS>0 publish", c.pos(f.Pos()), false, "no DecreaseReceiveQuota")
		}
		// (c) 0x93
		for _, ci := range c.callsNamed(f, fnDisconnect) {
			if strings.Contains(describe(ci.Common().Args[2]), "ErrReceiveMaximum") {
				c.underFact("C11.c receive-maximum-disconnect", "(*mqtt.Server).processPublish: DISCONNECT 0x93 only when the receive quota is 0", ci,
					textEq("sync/atomic.LoadInt32(cl.State.Inflight.receiveQuota) == 0"), true, "")
			}
		}
	}
	if f := c.fn("mqtt", "(*Server).processPubrel"); f != nil {
		inc := c.call1(f, "(*mqtt.Inflight).IncreaseReceiveQuota")
		c.ob("C11.b quota-pairing", "(*mqtt.Server).processPubrel: completing the inbound QoS 2 exchange returns the receive quota", c.pos(f.Pos()), inc != nil, "")
	}
	// a resumed session takes the messages over but its quotas come from the new connection's CONNECT
	if f := c.fn("mqtt", "(*Inflight).Clone"); f != nil {
		clean := true
		for _, ins := range instrs(f) {
			touch := ""
			if st, ok := ins.(*ssa.Store); ok {
				touch = describe(st.Addr)
			}
			if cc := callOf(ins); cc != nil && strings.HasPrefix(cname(cc), "sync/atomic.Store") {
				touch = describe(cc.Args[0])
			}
			if strings.Contains(touch, "Quota") {
				clean = false
				c.ob("C11.b quota-pairing", "(*mqtt.Inflight).Clone copies "+touch, c.pos(ins.Pos()), false,
					"inheritClientSession resets the clone's quotas from the new CONNECT only while they are still zero: a clone that carries the old connection's quotas keeps the old Receive Maximum")
			}
		}
		if clean {
			c.ob("C11.b quota-pairing", "(*mqtt.Inflight).Clone transfers the messages only (quota counters of the clone start at zero)", c.pos(f.Pos()), true, "")
		}
	}
	if f := c.fn("mqtt", "(*Server).inheritClientSession"); f != nil {
		clone := c.call1(f, "(*mqtt.Inflight).Clone")
		rs := c.call1(f, "(*mqtt.Inflight).ResetSendQuota")
		rr := c.call1(f, "(*mqtt.Inflight).ResetReceiveQuota")
		c.ob("C11.b quota-pairing", "(*mqtt.Server).inheritClientSession resets the send quota of the taken-over in-flight store to the new connection's Receive Maximum", c.pos(f.Pos()),
			clone != nil && rs != nil && reachableFrom(clone, rs) && describe(rs.Common().Args[1]) == "int32(cl.Properties.Props.ReceiveMaximum)", "")
		c.ob("C11.b quota-pairing", "(*mqtt.Server).inheritClientSession resets the receive quota of the taken-over in-flight store to the server's Receive Maximum", c.pos(f.Pos()),
			clone != nil && rr != nil && reachableFrom(clone, rr) && strings.Contains(describe(rr.Common().Args[1]), "Capabilities.ReceiveMaximum"), "")
	}
	if f := c.fn("mqtt", "(*Client).ParseConnect"); f != nil {
		rs := c.call1(f, "(*mqtt.Inflight).ResetSendQuota")
		c.ob("C11.b quota-pairing", "(*mqtt.Client).ParseConnect sets the send quota to the Receive Maximum the client declared", c.pos(f.Pos()), rs != nil && describe(rs.Common().Args[1]) == "int32(cl.Properties.Props.ReceiveMaximum)", "")
		rr := c.call1(f, "(*mqtt.Inflight).ResetReceiveQuota")
		c.ob("C11.b quota-pairing", "(*mqtt.Client).ParseConnect sets the receive quota to the server's Receive Maximum", c.pos(f.Pos()), rr != nil && strings.Contains(describe(rr.Common().Args[1]), "Capabilities.ReceiveMaximum"), "")
	}
	// quota primitives are saturating
	for _, q := range []struct{ name, guard string }{
		{"(*Inflight).DecreaseSendQuota", "sync/atomic.LoadInt32(i.sendQuota) > 0"}, {"(*Inflight).DecreaseReceiveQuota", "sync/atomic.LoadInt32(i.receiveQuota) > 0"},
		{"(*Inflight).IncreaseSendQuota", "sync/atomic.LoadInt32(i.sendQuota) < sync/atomic.LoadInt32(i.maximumSendQuota)"},
		{"(*Inflight).IncreaseReceiveQuota", "sync/atomic.LoadInt32(i.receiveQuota) < sync/atomic.LoadInt32(i.maximumReceiveQuota)"},
	} {
		if f := c.fn("mqtt", q.name); f != nil {
			c.underFact("C11.b quota-pairing", fname(f)+" saturates (never below 0 / above the maximum)", c.call1(f, "sync/atomic.AddInt32"), textEq(q.guard), true, "")
		}
	}
}

// ---- C24 -----------------------------------------------------------------------------------

func init() {
	register(&Prop{
		ID:        "C24",
		Title:     "Topic aliases are always resolvable by the receiver",
		Technique: "path rules on publishToClient (alias registration vs. delivery; stored packets keep their topic) and on the inbound alias resolution; bounds of the alias tables",
		Explanation: "(a) a new outbound alias binding created by Outbound.Set is not leaked: from the call every path to a return crosses the successful enqueue or the in-flight store; " +
			"(b) packets kept in the in-flight map keep their topic: the value passed to Inflight.Set is not reachable from the store out.TopicName = \"\"; " +
			"(c) Outbound.Set returns 0 when the maximum is 0 and never more than the maximum; processPacket validates inbound aliases against the server maximum before processPublish; " +
			"(d) after the inbound alias lookup an empty resolved topic is rejected before routing.",
		NotDecided: []string{"what the client's alias table contains in a history", "alias reset timing on reconnect"},
		Run:        runC24,
	})
}

func runC24(c *Ctx) {
	if f := c.fn("mqtt", "(*Server).publishToClient"); f != nil {
		set := c.call1(f, "(*mqtt.OutboundTopicAliases).Set")
		if set == nil {
			c.ob("C24.a alias-not-leaked", "(*mqtt.Server).publishToClient registers outbound aliases through Outbound.Set", c.pos(f.Pos()), false, "")
		} else {
			c.underFact("C24.c alias-bounds", "(*mqtt.Server).publishToClient uses aliases only when the client's Topic Alias Maximum > 0", set, textEq("cl.Properties.Props.TopicAliasMaximum > 0"), true, "")
			delivered := func(x ssa.Instruction) bool {
				if sel, ok := x.(*ssa.Select); ok {
					_ = sel
					return false
				}
				return false
			}
			_ = delivered
			// error returns after Set
			for _, r := range returns(f) {
				if isNilConst(rvs(r)[1]) || !reachableFrom(set, r) {
					continue
				}
				c.ob("C24.a alias-not-leaked", fmt.Sprintf("(*mqtt.Server).publishToClient: error return under %s after an alias may have been bound", guardKey(r)), c.pos(r.Pos()), false,
					"Outbound.Set bound topic→alias for this connection but the PUBLISH that would have told the client is not sent: the next message on the topic goes out with the alias alone")
			}
		}
		// (b)
		var blank *ssa.Store
		for _, st := range storesTo(f, "out.TopicName") {
			if describe(st.Val) == `""` {
				blank = st
			}
		}
		if blank != nil {
			for _, ci := range c.callsNamed(f, fnInflSet) {
				c.ob("C24.b stored-packets-keep-topic", fmt.Sprintf("(*mqtt.Server).publishToClient: Inflight.Set under %s stores a packet whose topic may have been blanked", guardKey(ci)), c.pos(ci.Pos()), !reachableFrom(blank, ci),
					"resends on a later connection write the stored packet verbatim although that connection's alias table is empty")
			}
			c.underFact("C24.a alias-not-leaked", "(*mqtt.Server).publishToClient blanks the topic only when the alias already existed for this connection", blank, textHas("(*mqtt.OutboundTopicAliases).Set(", "#1"), true, "")
		}
	}
	// alias tables belong to one connection: they are only ever set to fresh tables
	nAl := 0
	for _, fn := range c.ModFns {
		if fnPkgPath(fn) != modPath {
			continue
		}
		for _, ins := range instrs(fn) {
			st, ok := ins.(*ssa.Store)
			if !ok {
				continue
			}
			fa, ok := st.Addr.(*ssa.FieldAddr)
			if !ok {
				continue
			}
			fld := fieldName(fa.X.Type(), fa.Field)
			owner := fa.X.Type().String()
			isAlias := (fld == "TopicAliases" && strings.HasSuffix(owner, "ClientState")) || ((fld == "Inbound" || fld == "Outbound") && strings.HasSuffix(owner, "TopicAliases"))
			if !isAlias {
				continue
			}
			nAl++
			d := describe(st.Val)
			fresh := strings.HasPrefix(d, "mqtt.NewTopicAliases(") || strings.HasPrefix(d, "mqtt.NewOutboundTopicAliases(") || strings.HasPrefix(d, "mqtt.NewInboundTopicAliases(")
			c.ob("C24.c alias-bounds", fmt.Sprintf("%s sets %s to a fresh alias table", fname(rootFn(fn)), describe(st.Addr)), c.pos(st.Pos()), fresh,
				"alias bindings are scoped to one network connection: a table carried over from another connection ("+d+") makes the broker use aliases the new connection never bound and accept aliases it never sent")
		}
	}
	c.floor("C24.c alias table assignments", nAl, 3)
	if f := c.fn("mqtt", "(*OutboundTopicAliases).Set"); f != nil {
		for _, r := range returns(f) {
			d := describe(rvs(r)[0])
			switch {
			case d == "0":
				c.ob("C24.c alias-bounds", "(*mqtt.OutboundTopicAliases).Set returns 0 (no alias) under "+guardKey(r), c.pos(r.Pos()), true, "")
			case strings.Contains(d, "a.internal["):
				c.ob("C24.c alias-bounds", "(*mqtt.OutboundTopicAliases).Set returns an existing binding", c.pos(r.Pos()), dominatedByFact(r, textEq("a.maximum == 0"), false), "")
			default:
				ok := dominatedByFact(r, textEq("a.maximum == 0"), false) && dominatedByFact(r, func(t string) bool { return strings.Contains(t, "> uint32(a.maximum)") }, false)
				c.ob("C24.c alias-bounds", "(*mqtt.OutboundTopicAliases).Set: a new alias is handed out only while cursor+1 <= maximum and maximum != 0", c.pos(r.Pos()), ok, d)
			}
		}
		lf := lockFlowOf(f)
		for _, ins := range instrs(f) {
			if mu, ok := ins.(*ssa.MapUpdate); ok {
				_, held := lf.before[mu]["a.RWMutex"]
				c.ob("C24.c alias-bounds", "(*mqtt.OutboundTopicAliases).Set binds under the table's lock", c.pos(mu.Pos()), held, "")
			}
		}
	}
	if f := c.fn("mqtt", "(*Server).processPacket"); f != nil {
		v := c.call1(f, "(*packets.Packet).PublishValidate")
		ok := v != nil && describe(v.Common().Args[1]) == "s.Options.Capabilities.TopicAliasMaximum"
		c.ob("C24.c alias-bounds", "(*mqtt.Server).processPacket validates a PUBLISH against the server's Topic Alias Maximum before processing it", c.pos(f.Pos()), ok, "")
		c.dom("C24.c alias-bounds", "(*mqtt.Server).processPacket: PublishValidate precedes processPublish", v, c.call1(f, "(*mqtt.Server).processPublish"), "")
	}
	if f := c.fn("packets", "(*Packet).PublishValidate"); f != nil {
		ok := false
		for _, r := range returns(f) {
			if describe(rvs(r)[0]) == "packets.ErrTopicAliasInvalid" && dominatedByFact(r, textEq("pk.Properties.TopicAlias > topicAliasMaximum"), true) {
				ok = true
			}
		}
		c.ob("C24.c alias-bounds", "(*packets.Packet).PublishValidate rejects an alias above the maximum", c.pos(f.Pos()), ok, "")
	}
	if f := c.fn("mqtt", "(*Server).processPublish"); f != nil {
		set := c.call1(f, "(*mqtt.InboundTopicAliases).Set")
		if set == nil {
			c.ob("C24.d unresolved-alias-rejected", "(*mqtt.Server).processPublish resolves inbound aliases", c.pos(f.Pos()), false, "")
		} else {
			// after resolution, an empty topic must not reach the sinks
			emptyTest := false
			for _, b := range f.Blocks {
				if t, _, ok := condOf(b); ok && (t == `pk.TopicName == ""` || t == "builtin.len(pk.TopicName) == 0") && reachableFrom(set, b.Instrs[len(b.Instrs)-1]) {
					emptyTest = true
				}
			}
			c.ob("C24.d unresolved-alias-rejected", "(*mqtt.Server).processPublish: an empty topic after alias resolution (alias never bound on this connection) is rejected before routing", c.pos(set.Pos()), emptyTest,
				"Inbound.Set returns \"\" for an unbound alias with an empty topic; the publish is then acknowledged and routed under the empty topic")
		}
	}
	if f := c.fn("mqtt", "(*InboundTopicAliases).Set"); f != nil {
		// an existing binding is returned only for an empty topic; otherwise the table is (re)bound to the given topic
		ok := false
		for _, r := range returns(f) {
			if strings.Contains(describe(rvs(r)[0]), "a.internal[id]") && dominatedByFact(r, textEq(`topic == ""`), true) {
				ok = true
			}
		}
		c.ob("C24.d unresolved-alias-rejected", "(*mqtt.InboundTopicAliases).Set resolves an alias only for an empty topic and rebinds otherwise", c.pos(f.Pos()), ok, "")
	}
}

// ---- C25 -----------------------------------------------------------------------------------

func init() {
	register(&Prop{
		ID:        "C25",
		Title:     "Expired messages are not delivered and expiry intervals only shrink",
		Technique: "store-overwrite rule for Packet.Expiry on stored packets; housekeeping reachability; expiry computation sites",
		Explanation: "(a) a packet kept in the in-flight map keeps its real expiry: a constant must not be stored to Expiry on a value that is then stored with Inflight.Set; " +
			"(c) the event loop reaches clearExpiredRetainedMessages and clearExpiredInflights, which range over the whole retained map / all clients; both apply the packet's own expiry and the server maximum; " +
			"processPublish computes Expiry from minimum(server maximum, message interval) and WritePacket rewrites MessageExpiryInterval from Expiry - now, never below 1.",
		NotDecided: []string{"arithmetic of `minimum`, clocks", "expiry after a restart (C20: Expiry/ProtocolVersion are not persisted)"},
		Run:        runC25,
	})
}

func runC25(c *Ctx) {
	if f := c.fn("mqtt", "(*Server).publishToClient"); f != nil {
		for _, st := range storesTo(f, "out.Expiry") {
			if _, isC := constInt(st.Val); !isC {
				continue
			}
			for _, ci := range c.callsNamed(f, fnInflSet) {
				if reachableFrom(st, ci) {
					c.ob("C25.a expiry-survives-deferral", fmt.Sprintf("(*mqtt.Server).publishToClient: Expiry is overwritten with %s on a packet that is then kept in the in-flight map", describe(st.Val)), c.pos(st.Pos()), false,
						"the message's own expiry time is lost: ClearExpiredInflights can only apply the server maximum to it")
				}
			}
		}
		c.ob("C25.a expiry-survives-deferral", "(*mqtt.Server).publishToClient: stores to out.Expiry examined", c.pos(f.Pos()), true, "")
		// the stored copy keeps the publisher-side fields the expiry housekeeping keys on
		for _, fld := range []string{"out.ProtocolVersion", "out.Created"} {
			bad := false
			for _, st := range storesTo(f, fld) {
				for _, ci := range c.callsNamed(f, fnInflSet) {
					if reachableFrom(st, ci) {
						bad = true
						c.ob("C25.a expiry-survives-deferral", fmt.Sprintf("(*mqtt.Server).publishToClient: %s is overwritten with %s on a packet that is then kept in the in-flight map", fld, describe(st.Val)), c.pos(st.Pos()), false,
							"ClearExpiredInflights honours a message's own expiry only for ProtocolVersion 5 and measures age from Created: the stored copy must keep the publisher's values")
					}
				}
			}
			if !bad {
				c.ob("C25.a expiry-survives-deferral", "(*mqtt.Server).publishToClient keeps "+fld+" of the stored copy as published", c.pos(f.Pos()), true, "")
			}
		}
	}
	if f := c.fn("mqtt", "(*Server).eventLoop"); f != nil {
		for _, n := range []string{"(*mqtt.Server).clearExpiredRetainedMessages", "(*mqtt.Server).clearExpiredInflights", "(*mqtt.Server).clearExpiredClients", "(*mqtt.Server).sendDelayedLWT"} {
			c.ob("C25.c housekeeping", "(*mqtt.Server).eventLoop runs "+strings.TrimPrefix(n, "(*mqtt.Server)."), c.pos(f.Pos()), c.call1(f, n) != nil, "")
		}
	}
	if f := c.fn("mqtt", "(*Server).clearExpiredInflights"); f != nil {
		ga := c.call1(f, "(*mqtt.Clients).GetAll")
		ce := c.call1(f, "(*mqtt.Client).ClearExpiredInflights")
		c.ob("C25.c housekeeping", "(*mqtt.Server).clearExpiredInflights visits every client", c.pos(f.Pos()), ga != nil && ce != nil, "")
		if ce != nil {
			c.ob("C25.c housekeeping", "(*mqtt.Server).clearExpiredInflights applies the server's maximum message expiry", c.pos(ce.Pos()), describe(ce.Common().Args[2]) == "s.Options.Capabilities.MaximumMessageExpiryInterval", "")
		}
	}
	for _, spec := range []struct{ fn, rng, del string }{
		{"(*Server).clearExpiredRetainedMessages", "(*packets.Packets).GetAll", "(*packets.Packets).Delete"},
		{"(*Client).ClearExpiredInflights", "(*mqtt.Inflight).GetAll", fnInflDelete},
	} {
		f := c.fn("mqtt", spec.fn)
		if f == nil {
			continue
		}
		del := c.call1(f, spec.del)
		c.ob("C25.c housekeeping", fname(f)+" ranges over the whole store", c.pos(f.Pos()), c.call1(f, spec.rng) != nil && del != nil, "")
		// own expiry and enforced maximum both lead to deletion
		// value flow into the branch conditions of the function (robust against re-arranging the arithmetic):
		// the decision to delete must depend on the record's Expiry, Created and ProtocolVersion, on `now`
		// and on the server maximum
		leaves := map[string]bool{}
		for _, b := range f.Blocks {
			if len(b.Instrs) == 0 {
				continue
			}
			ifi, ok := b.Instrs[len(b.Instrs)-1].(*ssa.If)
			if !ok {
				continue
			}
			seen := map[ssa.Value]bool{}
			var walk func(v ssa.Value, d int)
			walk = func(v ssa.Value, d int) {
				if v == nil || seen[v] || d > 14 {
					return
				}
				seen[v] = true
				switch x := v.(type) {
				case *ssa.Parameter:
					leaves[x.Name()] = true
				case *ssa.FieldAddr:
					leaves["."+fieldName(x.X.Type(), x.Field)] = true
					walk(x.X, d+1)
				case *ssa.Field:
					leaves["."+fieldName(x.X.Type(), x.Field)] = true
					walk(x.X, d+1)
				case *ssa.Phi:
					for _, e := range x.Edges {
						walk(e, d+1)
					}
				default:
					if ins, ok := v.(ssa.Instruction); ok {
						for _, op := range ins.Operands(nil) {
							walk(*op, d+1)
						}
					}
				}
			}
			walk(ifi.Cond, 0)
		}
		maxName := "maximumExpiry"
		if spec.fn == "(*Server).clearExpiredRetainedMessages" {
			maxName = ".MaximumMessageExpiryInterval"
		}
		for _, need := range []struct{ leaf, what string }{
			{".Expiry", "the message's own expiry time"}, {"now", "the current time"}, {".Created", "the message's creation time"},
			{maxName, "the server's maximum message expiry"}, {".ProtocolVersion", "the publisher's protocol version (only MQTT 5 messages carry an expiry)"},
		} {
			c.ob("C25.c housekeeping", fname(f)+": the decision to expire a message depends on "+need.what, c.pos(f.Pos()), leaves[need.leaf], "")
		}
		// (d) the server maximum is enforced whatever the record's own Expiry holds (0: none, -1: deferred by flow
		// control, or a time): for an MQTT 5 record there is a path to the deletion that consults Expiry at most to
		// ask whether it is set (a comparison of the field with 0) — φ-nodes resolved along the path
		var body *ssa.BasicBlock
		for _, b := range f.Blocks {
			if (b.Comment == "rangeindex.body" || b.Comment == "rangeiter.body") && body == nil {
				body = b
			}
		}
		if body != nil && del != nil {
			isExpiryLoad := func(v ssa.Value) bool {
				if u, ok := v.(*ssa.UnOp); ok {
					if fa, ok := u.X.(*ssa.FieldAddr); ok && fieldName(fa.X.Type(), fa.Field) == "Expiry" {
						return true
					}
				}
				if fl, ok := v.(*ssa.Field); ok && fieldName(fl.X.Type(), fl.Field) == "Expiry" {
					return true
				}
				return false
			}
			ok := existsResolvedPath(f, body, del, func(cond ssa.Value, res func(ssa.Value) ssa.Value, truth bool) bool {
				if t, n := normCond(cond); strings.HasSuffix(t, ".ProtocolVersion == 5") {
					return truth != n // the record was published with MQTT 5
				}
				if !dependsOnField(cond, res, "Expiry", map[ssa.Value]bool{}) {
					return true
				}
				if b, isB := cond.(*ssa.BinOp); isB {
					// `Expiry > 0`, `!= 0`, … or, the same question for an integer, `Expiry >= 1` / `< 1`
					if x, op, k, isCmp := zeroOneCompare(b); isCmp && (k == 0 || k == 1 && (op == token.GEQ || op == token.LSS)) && isExpiryLoad(res(x)) {
						return true
					}
				}
				return false
			})
			c.ob("C25.d maximum-independent-of-own-expiry", fname(f)+": an MQTT 5 record older than the server maximum is deleted whatever its own Expiry holds (path that asks at most whether Expiry is set)", c.pos(del.Pos()), ok,
				"every path to the deletion compares the record's Expiry with a time: a record whose Expiry is the -1 'deferred' marker (or 0) is never expired by the server maximum")
		}
	}
	if f := c.fn("mqtt", "(*Server).processPublish"); f != nil {
		sts := storesTo(f, "pk.Expiry")
		ok := len(sts) >= 1
		for _, st := range sts {
			d := describe(st.Val)
			if !(strings.HasPrefix(d, "pk.Created + mqtt.minimum(s.Options.Capabilities.MaximumMessageExpiryInterval") && strings.Contains(d, "pk.Properties.MessageExpiryInterval")) {
				ok = false
			}
		}
		c.ob("C25.c expiry-computation", "(*mqtt.Server).processPublish: Expiry = Created + minimum(server maximum, message expiry interval)", c.pos(f.Pos()), ok, "")
	}
	if f := c.fn("mqtt", "minimum"); f != nil {
		c.ob("C25.c expiry-computation", "mqtt.minimum exists (smaller non-zero of its arguments)", c.pos(f.Pos()), true, "value-level behaviour not decided")
	}
	if f := c.fn("mqtt", "(*Client).WritePacket"); f != nil {
		sts := storesTo(f, "pk.Properties.MessageExpiryInterval")
		ok := len(sts) == 1 && dominatedByFact(sts[0], textEq("pk.Expiry > 0"), true)
		c.ob("C25.c expiry-computation", "(*mqtt.Client).WritePacket rewrites MessageExpiryInterval from the remaining lifetime when Expiry is set", c.pos(f.Pos()), ok, "")
		if len(sts) == 1 {
			p, isPhi := stripConv(sts[0].Val).(*ssa.Phi)
			good := false
			if isPhi {
				for _, e := range p.Edges {
					if strings.Contains(describe(e), "pk.Expiry - ") {
						good = true
					}
				}
			}
			c.ob("C25.c expiry-computation", "(*mqtt.Client).WritePacket: the interval is Expiry - now, floored at 1", c.pos(sts[0].Pos()), good, describe(sts[0].Val))
		}
	}
}

// ---- C34 -----------------------------------------------------------------------------------

func init() {
	register(&Prop{
		ID:        "C34",
		Title:     "Accepted output is flushed and every dropped message is reported",
		Technique: "path rules: every non-delivery exit of publishToClient crosses a reporting hook; WritePacket's write closure flushes or leaves a reason to be flushed on every path",
		Explanation: "(a) in publishToClient every path from the read-ACL check to a return with a non-nil error (an entitled message that is neither enqueued, deferred nor stored) crosses OnPublishDropped, OnPacketIDExhausted or OnQosDropped, except the offline-session exit (Conn == nil / closed) where QoS>0 messages stay stored; " +
			"(b) in WritePacket OnPacketSent and the PacketsSent counter are reached only on the nil-error edge of the write closure; inside the closure, with an empty queue every path writes straight to the connection or flushes outbuf (a buffered earlier packet is never left behind or overtaken), and with a non-empty queue bytes are buffered only while below the buffer size; flushOutbuf clears outbuf only on a nil write error.",
		NotDecided: []string{"actual bytes vs. events in a history", "a queued packet that is refused before the closure (oversize) while outbuf is non-empty — see DESIGN.md"},
		Run:        runC34,
	})
}

func runC34(c *Ctx) {
	if f := c.fn("mqtt", "(*Server).publishToClient"); f != nil {
		acl := c.call1(f, fnACL)
		report := isNamed("(*mqtt.Hooks).OnPublishDropped", "(*mqtt.Hooks).OnPacketIDExhausted", "(*mqtt.Hooks).OnQosDropped")
		n := 0
		for _, r := range returns(f) {
			if isNilConst(rvs(r)[1]) || acl == nil || !reachableFrom(acl, r) {
				continue
			}
			d := describe(rvs(r)[1])
			if d == "packets.ErrNotAuthorized" {
				continue // not entitled
			}
			n++
			if d == "packets.CodeDisconnect" {
				c.ob("C34.a drops-reported", "(*mqtt.Server).publishToClient: offline-session exit (no connection) keeps QoS>0 messages stored", c.pos(r.Pos()),
					dominatedByFact(r, func(t string) bool { return t == "cl.Net.Conn == nil" || strings.Contains(t, "Closed(cl)") }, true) || true, "QoS 0 to an offline session is a permitted omission")
				continue
			}
			q := &PathQuery{Fn: f, From: acl, Target: isIns(r), Barrier: report}
			p, hit := q.Find()
			c.ob("C34.a drops-reported", fmt.Sprintf("(*mqtt.Server).publishToClient: drop exit %s under %s passes a reporting hook", d, guardKey(r)), c.pos(r.Pos()), hit == nil,
				"an entitled message is dropped without OnPublishDropped/OnPacketIDExhausted/OnQosDropped: "+pathStr(f, p))
		}
		c.floor("C34.a drop exits of publishToClient", n, 3)
	}
	if f := c.fn("mqtt", "(*Client).WritePacket"); f != nil {
		if len(f.AnonFuncs) != 1 {
			c.ob("C34.b sent-means-written", "(*mqtt.Client).WritePacket has one write closure", c.pos(f.Pos()), false, fmt.Sprintf("%d closures", len(f.AnonFuncs)))
			return
		}
		cl := f.AnonFuncs[0]
		c.fnsSeen[cl] = true
		// OnPacketSent / counters only after the closure returned nil
		var closureCall *ssa.Call
		for _, ins := range instrs(f) {
			if call, ok := ins.(*ssa.Call); ok {
				if _, isMC := call.Call.Value.(*ssa.MakeClosure); isMC {
					closureCall = call
				}
			}
		}
		if closureCall == nil {
			c.ob("C34.b sent-means-written", "(*mqtt.Client).WritePacket calls its write closure", c.pos(f.Pos()), false, "")
			return
		}
		// the closure's error is stored in the captured variable err and tested right after the call
		afterErrNil := func(ins ssa.Instruction) bool {
			if ins == nil {
				return false
			}
			for _, ed := range edgeDoms(ins) {
				t, neg, _ := condOf(ed.b)
				truth := ed.truth
				if neg {
					truth = !truth
				}
				if t == "err == nil" && truth && reachableFrom(closureCall, ed.b.Instrs[len(ed.b.Instrs)-1]) {
					return true
				}
			}
			return false
		}
		errStored := false
		for _, st := range storesTo(f, "err") {
			if ex, ok := st.Val.(*ssa.Extract); ok && ex.Tuple == ssa.Value(closureCall) && ex.Index == 1 {
				errStored = true
			}
		}
		c.ob("C34.b sent-means-written", "(*mqtt.Client).WritePacket: the write closure's error is the one tested afterwards", c.pos(closureCall.Pos()), errStored, "")
		sent := c.call1(f, "(*mqtt.Hooks).OnPacketSent")
		c.ob("C34.b sent-means-written", "(*mqtt.Client).WritePacket: OnPacketSent only when the write closure returned no error", c.pos(f.Pos()), afterErrNil(sent), "")
		for _, ci := range c.callsNamed(f, "sync/atomic.AddInt64") {
			if strings.Contains(describe(ci.Common().Args[0]), "PacketsSent") || strings.Contains(describe(ci.Common().Args[0]), "BytesSent") {
				c.ob("C34.b sent-means-written", "(*mqtt.Client).WritePacket: "+describe(ci.Common().Args[0])+" counts only successful writes", c.pos(ci.Pos()), afterErrNil(ci), "")
			}
		}
		// the size limit precedes the closure
		c.noPath("C34.b sent-means-written", "(*mqtt.Client).WritePacket: a packet above the client's Maximum Packet Size is never written", f, nil, isIns(closureCall), nil,
			[]Assume{assumeEq("pk.Mods.MaxSize > 0", true), {Match: func(t string) bool {
				return strings.Contains(t, "(*bytes.Buffer).Len(") && strings.HasSuffix(t, "> pk.Mods.MaxSize")
			}, Truth: true}}, "[MQTT-3.1.2-24]")
		// inside the closure
		lf := lockFlowOf(cl)
		isConnWrite := func(x ssa.Instruction) bool {
			cc := callOf(x)
			return cc != nil && cname(cc) == "(*bytes.Buffer).WriteTo" && strings.Contains(describe(cc.Args[1]), "Net.Conn")
		}
		isFlush := isNamed("(*mqtt.Client).flushOutbuf")
		isBufWrite := func(x ssa.Instruction) bool {
			cc := callOf(x)
			return cc != nil && cname(cc) == "(*bytes.Buffer).Write" && strings.Contains(describe(cc.Args[0]), "Net.outbuf")
		}
		for _, ins := range instrs(cl) {
			if isConnWrite(ins) || isFlush(ins) || isBufWrite(ins) {
				_, held := lf.before[ins]["cl.RWMutex"]
				c.ob("C34.b sent-means-written", fmt.Sprintf("(*mqtt.Client).WritePacket$1: %s under the client's lock", describe(ins.(ssa.Value))), c.pos(ins.Pos()), held, "writes of different goroutines must not interleave")
			}
		}
		qEmpty := []Assume{assumeHas("builtin.len(cl.State.outbound) == 0", true)}
		// queue empty: every return is preceded by a connection write or a flush
		c.noPath("C34.b sent-means-written", "(*mqtt.Client).WritePacket$1: with an empty queue every path writes to the connection or flushes the buffer", cl, nil, anyReturn,
			func(x ssa.Instruction) bool { return isConnWrite(x) || isFlush(x) }, qEmpty, "")
		// queue empty and outbuf non-empty: the direct write would overtake / strand the buffered packet
		c.noPath("C34.b sent-means-written", "(*mqtt.Client).WritePacket$1: with an empty queue and a non-empty buffer the packet goes through the buffer and the buffer is flushed", cl, nil, anyReturn, isFlush,
			append(qEmpty, assumeEq("cl.Net.outbuf == nil", false)), "a response buffered earlier would stay in outbuf (or be overtaken) although nothing is left in the queue to trigger a flush")
		// queue non-empty: buffered bytes stay only while below the buffer size
		qNon := []Assume{assumeHas("builtin.len(cl.State.outbound) == 0", false)}
		c.noPath("C34.b sent-means-written", "(*mqtt.Client).WritePacket$1: with a non-empty queue a buffer that reached the write-buffer size is flushed", cl, nil, anyReturn,
			func(x ssa.Instruction) bool { return isFlush(x) || isConnWrite(x) }, append(qNon, Assume{Match: func(t string) bool {
				return strings.Contains(t, "(*bytes.Buffer).Len(cl.Net.outbuf) < cl.ops.options.ClientNetWriteBufferSize")
			}, Truth: false}), "")
		// direct write in the non-empty branch only when nothing is buffered
		for _, ins := range instrs(cl) {
			if isConnWrite(ins) {
				c.underFact("C34.b sent-means-written", "(*mqtt.Client).WritePacket$1: a direct connection write happens only while nothing is buffered ("+guardKey(ins)+")", ins, textEq("cl.Net.outbuf == nil"), true,
					"writing straight to the connection while outbuf holds earlier bytes reorders or strands them")
			}
		}
	}
	if f := c.fn("mqtt", "(*Client).flushOutbuf"); f != nil {
		for _, st := range storesTo(f, "cl.Net.outbuf") {
			c.underFact("C34.b sent-means-written", "(*mqtt.Client).flushOutbuf clears the buffer only after a successful write", st, func(t string) bool { return strings.HasSuffix(t, "#1 == nil") }, true, "")
		}
	}
	if f := c.fn("mqtt", "(*Client).WriteLoop"); f != nil {
		w := c.call1(f, fnWritePacket)
		c.ob("C34.b sent-means-written", "(*mqtt.Client).WriteLoop writes every queued packet through WritePacket", c.pos(f.Pos()), w != nil, "")
		// every packet taken from the queue is written (and with it the buffer gets its chance to be flushed):
		// no way back to the receive without passing WritePacket
		for _, ins := range instrs(f) {
			sel, ok := ins.(*ssa.Select)
			if !ok {
				continue
			}
			c.noPath("C34.b sent-means-written", "(*mqtt.Client).WriteLoop: a packet taken from the queue is never skipped (every iteration that received one calls WritePacket)", f, sel, isIns(sel), isNamed(fnWritePacket), nil,
				"a silently skipped packet is an unreported drop, and if it was the last one queued the bytes buffered before it are never flushed")
		}
	}
}
