#!/bin/bash
# usage: r3_confirm.sh <Cxx> <n> <new-seed-index> "<needs>" [dir] — confirms change n delivered under <dir>/<Cxx>
# (default /tmp/seed_out3) and stores it as <Cxx>-<index>
P=$1; N=$2; K=$3; NEEDS="$4"; D=${5:-/tmp/seed_out3}/$P
H=$(head -1 $D/demo${N}_test.go)
PKG=$(echo "$H" | sed -n 's/.*PKG=\([^ ]*\).*/\1/p'); RUN=$(echo "$H" | sed -n 's/.*RUN=\([^ ]*\).*/\1/p'); FLAGS=$(echo "$H" | sed -n 's/.*FLAGS=\(.*\)$/\1/p')
[ "$FLAGS" = none ] && FLAGS=""
FLAGS=$(echo "$FLAGS" | sed 's/`//g; s/ *$//')
[ -z "$PKG" ] && { echo "no PKG in header: $H"; exit 2; }
/verif/confirm_seed.sh $P-$K $D/change$N.diff $D/demo${N}_test.go "$PKG" "$RUN" $P "$NEEDS" "$FLAGS"
