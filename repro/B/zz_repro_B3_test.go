package mqtt

import (
	"testing"

	"github.com/mochi-mqtt/server/v2/packets"
)

// B3: a QoS 2 PUBLISH retransmission (same id, DUP=1) before PUBREL is answered with
// PUBREC reason 0x91 (Packet Identifier in use, a failure code) instead of a non-failure PUBREC.
func TestRepro_B3(t *testing.T) {
	s := reproServer(t, nil)
	c, _ := reproConnect(t, s, "b3", 5, true, packets.Properties{})

	c.publish("b3/topic", 2, 21, "x")
	rec := c.expectType(packets.Pubrec, "first PUBREC for id 21")
	if rec.ReasonCode >= 0x80 {
		t.Fatalf("setup: first PUBREC failed with 0x%02x", rec.ReasonCode)
	}

	// the sender did not see the PUBREC (e.g. lost): it retransmits the very same PUBLISH with DUP=1
	c.send(packets.Packet{
		FixedHeader: packets.FixedHeader{Type: packets.Publish, Qos: 2, Dup: true},
		TopicName:   "b3/topic",
		PacketID:    21,
		Payload:     []byte("x"),
	})
	rec2 := c.expectType(packets.Pubrec, "PUBREC for the DUP retransmission of id 21")
	if rec2.PacketID != 21 {
		t.Fatalf("PUBREC for wrong id %d", rec2.PacketID)
	}
	if rec2.ReasonCode >= 0x80 {
		t.Fatalf("DUP retransmission of QoS2 PUBLISH id 21 before PUBREL: expected a non-failure PUBREC (reason < 0x80) so the sender continues with PUBREL; observed PUBREC reason 0x%02x (%q). Per MQTT5 4.3.3 a sender receiving PUBREC >= 0x80 must treat the id as finished, i.e. the message is reported as failed although the broker already accepted and forwarded it", rec2.ReasonCode, rec2.Properties.ReasonString)
	}
}
