package mqtt

import (
	"testing"
	"time"

	"github.com/mochi-mqtt/server/v2/packets"
)

// B10: a message deferred by flow control has its Expiry overwritten with -1 in the in-flight
// store, so its real message-expiry time is lost and ClearExpiredInflights never expires it by
// its own Message Expiry Interval.
func TestRepro_B10(t *testing.T) {
	s := reproServer(t, nil)
	c, _ := reproConnect(t, s, "b10", 5, true, packets.Properties{ReceiveMaximum: 1})
	c.subscribe("b10/t", 1)
	pub, _ := reproConnect(t, s, "b10-pub", 5, true, packets.Properties{})
	for i, p := range []string{"one", "two"} {
		pub.send(packets.Packet{
			FixedHeader: packets.FixedHeader{Type: packets.Publish, Qos: 1},
			TopicName:   "b10/t", PacketID: uint16(i + 1), Payload: []byte(p),
			Properties: packets.Properties{MessageExpiryInterval: 10},
		})
		pub.expectType(packets.Puback, "PUBACK")
	}
	m1 := c.expectType(packets.Publish, "one")
	if _, ok := c.recv(200 * time.Millisecond); ok {
		t.Fatalf("setup: second message was not deferred")
	}
	srvCl, _ := s.Clients.Get("b10")
	now := time.Now().Unix()
	var sent, deferred packets.Packet
	for _, p := range srvCl.State.Inflight.GetAll(false) {
		if string(p.Payload) == "one" {
			sent = p
		} else {
			deferred = p
		}
	}
	t.Logf("now=%d; record %q: Expiry=%d (now%+d); deferred record %q: Expiry=%d, MessageExpiryInterval prop=%d", now, sent.Payload, sent.Expiry, sent.Expiry-now, deferred.Payload, deferred.Expiry, deferred.Properties.MessageExpiryInterval)
	_ = m1

	// one hour later both messages (Message Expiry Interval 10s) are long expired
	deleted := srvCl.ClearExpiredInflights(now+3600, s.Options.Capabilities.MaximumMessageExpiryInterval) // exactly what Server.clearExpiredInflights passes
	_, deferredStill := srvCl.State.Inflight.Get(deferred.PacketID)
	if deferred.Expiry <= 0 || deferredStill {
		t.Fatalf("deferred message %q published with Message Expiry Interval 10s: expected stored Expiry ~= %d and removal by ClearExpiredInflights(now+3600); observed stored Expiry=%d, ids deleted by ClearExpiredInflights=%v, deferred record still in-flight=%v", deferred.Payload, now+10, deferred.Expiry, deleted, deferredStill)
	}
}
