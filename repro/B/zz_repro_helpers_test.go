package mqtt

// Shared helpers for the TestRepro_B* tests. Everything here talks to a real
// *Server through net.Pipe connections attached with EstablishConnection, i.e.
// the same path a TCP listener uses, with real encoded MQTT packets.

import (
	"bufio"
	"bytes"
	"io"
	"net"
	"testing"
	"time"

	"github.com/mochi-mqtt/server/v2/packets"
)

// reproServer builds a server with the library's DEFAULT capabilities (optionally
// tweaked by mod) and an allow-all auth hook.
func reproServer(t *testing.T, mod func(o *Options)) *Server {
	t.Helper()
	o := &Options{Logger: logger, Capabilities: NewDefaultServerCapabilities()}
	if mod != nil {
		mod(o)
	}
	s := New(o)
	if err := s.AddHook(new(AllowHook), nil); err != nil {
		t.Fatalf("add hook: %v", err)
	}
	t.Cleanup(func() { _ = s.Close() })
	return s
}

type reproClient struct {
	t    *testing.T
	id   string
	ver  byte
	conn net.Conn            // the "remote" end of the pipe
	in   chan packets.Packet // packets received from the broker
	done chan error          // result of EstablishConnection
}

// reproConnect attaches a new connection to s and performs the CONNECT/CONNACK handshake.
func reproConnect(t *testing.T, s *Server, id string, ver byte, clean bool, props packets.Properties) (*reproClient, packets.Packet) {
	t.Helper()
	srvSide, cliSide := net.Pipe()
	c := &reproClient{t: t, id: id, ver: ver, conn: cliSide, in: make(chan packets.Packet, 256), done: make(chan error, 1)}
	go func() { c.done <- s.EstablishConnection("repro", srvSide) }()
	go c.readLoop()
	t.Cleanup(func() { _ = cliSide.Close() }) // runs before the server's Close (LIFO)

	c.send(packets.Packet{
		FixedHeader:     packets.FixedHeader{Type: packets.Connect},
		ProtocolVersion: ver,
		Connect: packets.ConnectParams{
			ProtocolName:     []byte("MQTT"),
			ClientIdentifier: id,
			Clean:            clean,
			Keepalive:        60,
		},
		Properties: props,
	})
	ack, ok := c.recv(2 * time.Second)
	if !ok || ack.FixedHeader.Type != packets.Connack {
		t.Fatalf("client %s: no CONNACK (got ok=%v %+v)", id, ok, ack.FixedHeader)
	}
	if ack.ReasonCode != 0 {
		t.Fatalf("client %s: CONNACK reason 0x%02x", id, ack.ReasonCode)
	}
	return c, ack
}

func (c *reproClient) readLoop() {
	defer close(c.in)
	br := bufio.NewReader(c.conn)
	for {
		b, err := br.ReadByte()
		if err != nil {
			return
		}
		var fh packets.FixedHeader
		if err := fh.Decode(b); err != nil {
			return
		}
		fh.Remaining, _, err = packets.DecodeLength(br)
		if err != nil {
			return
		}
		body := make([]byte, fh.Remaining)
		if _, err := io.ReadFull(br, body); err != nil {
			return
		}
		pk := packets.Packet{FixedHeader: fh, ProtocolVersion: c.ver}
		switch fh.Type {
		case packets.Connack:
			err = pk.ConnackDecode(body)
		case packets.Publish:
			err = pk.PublishDecode(body)
		case packets.Puback:
			err = pk.PubackDecode(body)
		case packets.Pubrec:
			err = pk.PubrecDecode(body)
		case packets.Pubrel:
			err = pk.PubrelDecode(body)
		case packets.Pubcomp:
			err = pk.PubcompDecode(body)
		case packets.Suback:
			err = pk.SubackDecode(body)
		case packets.Unsuback:
			err = pk.UnsubackDecode(body)
		case packets.Disconnect:
			err = pk.DisconnectDecode(body)
		case packets.Pingresp:
		}
		if err != nil {
			c.t.Logf("client %s: decode error for type %d: %v", c.id, fh.Type, err)
			return
		}
		c.in <- pk
	}
}

func reproEncode(t *testing.T, ver byte, pk packets.Packet) []byte {
	t.Helper()
	pk.ProtocolVersion = ver
	buf := new(bytes.Buffer)
	var err error
	switch pk.FixedHeader.Type {
	case packets.Connect:
		err = pk.ConnectEncode(buf)
	case packets.Publish:
		err = pk.PublishEncode(buf)
	case packets.Puback:
		err = pk.PubackEncode(buf)
	case packets.Pubrec:
		err = pk.PubrecEncode(buf)
	case packets.Pubrel:
		pk.FixedHeader.Qos = 1
		err = pk.PubrelEncode(buf)
	case packets.Pubcomp:
		err = pk.PubcompEncode(buf)
	case packets.Subscribe:
		pk.FixedHeader.Qos = 1
		err = pk.SubscribeEncode(buf)
	case packets.Pingreq:
		err = pk.PingreqEncode(buf)
	case packets.Disconnect:
		err = pk.DisconnectEncode(buf)
	default:
		t.Fatalf("reproEncode: unsupported type %d", pk.FixedHeader.Type)
	}
	if err != nil {
		t.Fatalf("encode type %d: %v", pk.FixedHeader.Type, err)
	}
	return buf.Bytes()
}

func (c *reproClient) send(pk packets.Packet) {
	c.t.Helper()
	c.sendRaw(reproEncode(c.t, c.ver, pk))
}

func (c *reproClient) sendRaw(b []byte) {
	c.t.Helper()
	_ = c.conn.SetWriteDeadline(time.Now().Add(2 * time.Second))
	if _, err := c.conn.Write(b); err != nil {
		c.t.Fatalf("client %s: write: %v", c.id, err)
	}
}

// recv returns the next packet from the broker, or ok=false on timeout / closed connection.
func (c *reproClient) recv(d time.Duration) (packets.Packet, bool) {
	select {
	case pk, ok := <-c.in:
		return pk, ok
	case <-time.After(d):
		return packets.Packet{}, false
	}
}

// closed reports whether the broker closed the connection within d (and no packet arrived).
func (c *reproClient) closedWithin(d time.Duration) bool {
	select {
	case _, ok := <-c.in:
		return !ok
	case <-time.After(d):
		return false
	}
}

// alive checks with a PINGREQ/PINGRESP round trip that the connection is still served.
func (c *reproClient) alive() bool {
	_ = c.conn.SetWriteDeadline(time.Now().Add(time.Second))
	if _, err := c.conn.Write([]byte{packets.Pingreq << 4, 0}); err != nil {
		return false
	}
	for {
		pk, ok := c.recv(time.Second)
		if !ok {
			return false
		}
		if pk.FixedHeader.Type == packets.Pingresp {
			return true
		}
	}
}

func (c *reproClient) subscribe(filter string, qos byte) {
	c.t.Helper()
	c.send(packets.Packet{
		FixedHeader: packets.FixedHeader{Type: packets.Subscribe},
		PacketID:    999,
		Filters:     packets.Subscriptions{{Filter: filter, Qos: qos}},
	})
	ack, ok := c.recv(2 * time.Second)
	if !ok || ack.FixedHeader.Type != packets.Suback {
		c.t.Fatalf("client %s: no SUBACK for %q (ok=%v type=%d)", c.id, filter, ok, ack.FixedHeader.Type)
	}
}

func (c *reproClient) publish(topic string, qos byte, id uint16, payload string) {
	c.t.Helper()
	c.send(packets.Packet{
		FixedHeader: packets.FixedHeader{Type: packets.Publish, Qos: qos},
		TopicName:   topic,
		PacketID:    id,
		Payload:     []byte(payload),
	})
}

func (c *reproClient) ack(typ byte, id uint16, reason byte) {
	c.t.Helper()
	c.send(packets.Packet{FixedHeader: packets.FixedHeader{Type: typ}, PacketID: id, ReasonCode: reason})
}

// hangup drops the network connection without sending DISCONNECT and waits for the broker to notice.
func (c *reproClient) hangup() {
	_ = c.conn.Close()
	select {
	case <-c.done:
	case <-time.After(2 * time.Second):
		c.t.Fatalf("client %s: broker did not finish the connection after hangup", c.id)
	}
}

// expectType fetches the next packet and fails unless it has the wanted type.
func (c *reproClient) expectType(typ byte, what string) packets.Packet {
	c.t.Helper()
	pk, ok := c.recv(2 * time.Second)
	if !ok {
		c.t.Fatalf("client %s: expected %s, got nothing (timeout or closed)", c.id, what)
	}
	if pk.FixedHeader.Type != typ {
		c.t.Fatalf("client %s: expected %s, got packet type %d (id %d reason 0x%02x)", c.id, what, pk.FixedHeader.Type, pk.PacketID, pk.ReasonCode)
	}
	return pk
}

var v5session = packets.Properties{SessionExpiryInterval: 300, SessionExpiryIntervalFlag: true}
