package mqtt

import (
	"net"
	"strings"
	"sync/atomic"
	"testing"
	"time"

	"github.com/mochi-mqtt/server/v2/packets"
	"github.com/mochi-mqtt/server/v2/system"
)

type reproB13Hook struct {
	HookBase
	pingrespSent int64
}

func (h *reproB13Hook) ID() string           { return "repro-b13" }
func (h *reproB13Hook) Provides(b byte) bool { return b == OnPacketSent }
func (h *reproB13Hook) OnPacketSent(cl *Client, pk packets.Packet, b []byte) {
	if pk.FixedHeader.Type == packets.Pingresp {
		atomic.AddInt64(&h.pingrespSent, 1)
	}
}

// B13: a small acknowledgement written while len(cl.State.outbound) > 0 is only appended to
// cl.Net.outbuf (and reported as sent); if the queued packet that should trigger the flush is
// refused before the write closure (larger than the client's Maximum Packet Size ->
// ErrPacketTooLarge), the buffered bytes are never flushed.
//
// Schedule: the client (Maximum Packet Size 40, subscribed to b13/t) sends, in ONE network
// write, a QoS0 PUBLISH to b13/t with a 100 byte payload followed by a PINGREQ. The broker's
// read goroutine queues the (too large) echo on cl.State.outbound and goes straight on to the
// PINGREQ; if the WriteLoop goroutine has not dequeued the echo yet, the PINGRESP is buffered.
func TestRepro_B13(t *testing.T) {
	t.Run("deterministic_schedule", reproB13Deterministic)
	t.Run("end_to_end_stress", reproB13Stress)
}

// Deterministic rendering of the same schedule on a bare Client: the WriteLoop goroutine is
// simply started late (= "has not been scheduled yet"), everything else is the production code.
func reproB13Deterministic(t *testing.T) {
	r, w := net.Pipe()
	defer r.Close()
	info := new(system.Info)
	cl := newClient(w, &ops{
		info:  info,
		hooks: new(Hooks),
		log:   logger,
		options: &Options{
			ClientNetWriteBufferSize: 2048,
			Capabilities:             &Capabilities{MaximumClientWritesPending: 8},
		},
	})
	defer cl.Stop(nil)
	cl.ID = "b13"
	cl.Properties.ProtocolVersion = 5
	cl.Properties.Props.MaximumPacketSize = 40

	got := make(chan []byte, 4)
	go func() {
		for {
			b := make([]byte, 64)
			n, err := r.Read(b)
			if err != nil {
				return
			}
			got <- b[:n]
		}
	}()

	// 1. a publish that is too large for this client is queued (what publishToClient does)
	big := packets.Packet{FixedHeader: packets.FixedHeader{Type: packets.Publish}, TopicName: "b13/t", Payload: []byte(strings.Repeat("x", 100))}
	cl.State.outbound <- &big
	atomic.AddInt32(&cl.State.outboundQty, 1)
	// 2. the read goroutine answers a PINGREQ before the WriteLoop dequeued the publish
	if err := cl.WritePacket(packets.Packet{FixedHeader: packets.FixedHeader{Type: packets.Pingresp}}); err != nil {
		t.Fatalf("WritePacket(PINGRESP): %v", err)
	}
	reported := atomic.LoadInt64(&info.PacketsSent)
	// 3. now the WriteLoop runs and refuses the queued publish with ErrPacketTooLarge
	go cl.WriteLoop()
	select {
	case b := <-got:
		t.Logf("PINGRESP bytes arrived: %v", b)
	case <-time.After(500 * time.Millisecond):
		cl.Lock()
		n := 0
		if cl.Net.outbuf != nil {
			n = cl.Net.outbuf.Len()
		}
		cl.Unlock()
		t.Fatalf("WritePacket(PINGRESP) returned nil and Info.PacketsSent=%d, queue is drained (len(outbound)=%d): expected the 2 PINGRESP bytes on the wire; observed nothing within 500ms, %d byte(s) still sitting in cl.Net.outbuf", reported, len(cl.State.outbound), n)
	}
}

func reproB13Stress(t *testing.T) {
	const iterations = 3000
	deadline := time.Now().Add(20 * time.Second)
	s := reproServer(t, nil)
	h := new(reproB13Hook)
	if err := s.AddHook(h, nil); err != nil {
		t.Fatal(err)
	}
	for i := 1; i <= iterations && time.Now().Before(deadline); i++ {
		c, _ := reproConnect(t, s, "b13", 5, true, packets.Properties{MaximumPacketSize: 40})
		c.subscribe("b13/t", 0)
		before := atomic.LoadInt64(&h.pingrespSent)

		burst := reproEncode(t, 5, packets.Packet{
			FixedHeader: packets.FixedHeader{Type: packets.Publish},
			TopicName:   "b13/t",
			Payload:     []byte(strings.Repeat("x", 100)),
		})
		burst = append(burst, packets.Pingreq<<4, 0)
		c.sendRaw(burst)

		pk, ok := c.recv(300 * time.Millisecond)
		if ok && pk.FixedHeader.Type == packets.Pingresp {
			_ = c.conn.Close()
			<-c.done
			continue // WriteLoop won the race this time
		}
		if ok {
			t.Fatalf("iteration %d: unexpected packet type %d", i, pk.FixedHeader.Type)
		}
		counted := atomic.LoadInt64(&h.pingrespSent) - before
		srvCl, _ := s.Clients.Get("b13")
		srvCl.Lock()
		buffered := 0
		if srvCl.Net.outbuf != nil {
			buffered = srvCl.Net.outbuf.Len()
		}
		srvCl.Unlock()

		// prove the bytes are merely stuck: a second PINGREQ flushes both responses
		c.sendRaw([]byte{packets.Pingreq << 4, 0})
		n := 0
		for {
			p, ok := c.recv(300 * time.Millisecond)
			if !ok {
				break
			}
			if p.FixedHeader.Type == packets.Pingresp {
				n++
			}
		}
		t.Fatalf("iteration %d: PINGREQ sent right after a PUBLISH whose echo exceeds the client's Maximum Packet Size: expected PINGRESP; observed nothing for 300ms although OnPacketSent was invoked for %d PINGRESP packet(s) (also counted in Info.PacketsSent/BytesSent) and holds %d unflushed byte(s) in cl.Net.outbuf; a second PINGREQ then released %d PINGRESP packets at once", i, counted, buffered, n)
	}
}
