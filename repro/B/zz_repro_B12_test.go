package mqtt

import (
	"sync/atomic"
	"testing"
	"time"

	"github.com/mochi-mqtt/server/v2/packets"
)

type reproB12Hook struct {
	HookBase
	publishDropped, qosDropped, idExhausted int64
}

func (h *reproB12Hook) ID() string { return "repro-b12" }
func (h *reproB12Hook) Provides(b byte) bool {
	return b == OnPublishDropped || b == OnQosDropped || b == OnPacketIDExhausted
}
func (h *reproB12Hook) OnPublishDropped(cl *Client, pk packets.Packet) {
	atomic.AddInt64(&h.publishDropped, 1)
}
func (h *reproB12Hook) OnQosDropped(cl *Client, pk packets.Packet) { atomic.AddInt64(&h.qosDropped, 1) }
func (h *reproB12Hook) OnPacketIDExhausted(cl *Client, pk packets.Packet) {
	atomic.AddInt64(&h.idExhausted, 1)
}

// B12: publishToClient drops a QoS>0 message when Inflight.Len() >= Capabilities.MaximumInflight
// without calling any hook (OnPublishDropped / OnQosDropped / OnPacketIDExhausted).
func TestRepro_B12(t *testing.T) {
	s := reproServer(t, func(o *Options) { o.Capabilities.MaximumInflight = 2 })
	h := new(reproB12Hook)
	if err := s.AddHook(h, nil); err != nil {
		t.Fatal(err)
	}
	c, _ := reproConnect(t, s, "b12", 4, true, packets.Properties{})
	c.subscribe("b12/t", 1)
	pub, _ := reproConnect(t, s, "b12-pub", 4, true, packets.Properties{})
	for i, p := range []string{"one", "two", "three"} {
		pub.publish("b12/t", 1, uint16(i+1), p)
		pub.expectType(packets.Puback, "PUBACK")
	}
	got := 0
	for {
		pk, ok := c.recv(300 * time.Millisecond)
		if !ok {
			break
		}
		if pk.FixedHeader.Type == packets.Publish {
			got++
		}
	}
	dropped := atomic.LoadInt64(&s.Info.InflightDropped)
	if got != 2 || dropped != 1 {
		t.Fatalf("setup: expected 2 delivered + 1 dropped, got delivered=%d InflightDropped=%d", got, dropped)
	}
	pd, qd, ie := atomic.LoadInt64(&h.publishDropped), atomic.LoadInt64(&h.qosDropped), atomic.LoadInt64(&h.idExhausted)
	if pd+qd+ie == 0 {
		t.Fatalf("third QoS1 message was dropped because the subscriber already has MaximumInflight=2 unacknowledged messages (Info.InflightDropped=%d, subscriber received %d of 3): expected at least one drop hook to be invoked; observed OnPublishDropped=%d OnQosDropped=%d OnPacketIDExhausted=%d", dropped, got, pd, qd, ie)
	}
}
