package mqtt

import (
	"testing"
	"time"

	"github.com/mochi-mqtt/server/v2/packets"
)

// B2: a PUBREL carrying a reason code >= 0x80 for a packet id that IS in the
// in-flight map gets no PUBCOMP.
func TestRepro_B2(t *testing.T) {
	s := reproServer(t, nil)
	c, _ := reproConnect(t, s, "b2", 5, true, packets.Properties{})

	c.publish("b2/topic", 2, 11, "x")
	rec := c.expectType(packets.Pubrec, "PUBREC for id 11")
	if rec.PacketID != 11 || rec.ReasonCode >= 0x80 {
		t.Fatalf("unexpected PUBREC id %d reason 0x%02x", rec.PacketID, rec.ReasonCode)
	}
	srvCl, _ := s.Clients.Get("b2")
	if _, ok := srvCl.State.Inflight.Get(11); !ok {
		t.Fatalf("setup: id 11 not in the in-flight map after PUBREC")
	}

	c.ack(packets.Pubrel, 11, packets.ErrPacketIdentifierNotFound.Code) // PUBREL reason 0x92

	pk, ok := c.recv(500 * time.Millisecond)
	_, still := srvCl.State.Inflight.Get(11)
	if !ok {
		t.Fatalf("PUBREL(id 11, reason 0x92) for a KNOWN packet id: expected a PUBCOMP for id 11 [MQTT-4.3.3-11]; observed no packet at all within 500ms (connection alive=%v, id 11 still in-flight=%v)", c.alive(), still)
	}
	if pk.FixedHeader.Type != packets.Pubcomp || pk.PacketID != 11 {
		t.Fatalf("expected PUBCOMP id 11, got type %d id %d reason 0x%02x", pk.FixedHeader.Type, pk.PacketID, pk.ReasonCode)
	}
}
