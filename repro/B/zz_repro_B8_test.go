package mqtt

import (
	"testing"
	"time"

	"github.com/mochi-mqtt/server/v2/packets"
)

// B8: MQTT5 PUBLISH with an empty topic and a topic alias (<= server maximum) that was never
// bound on this connection is accepted, acknowledged with success and routed/retained under "".
func TestRepro_B8(t *testing.T) {
	s := reproServer(t, nil)
	sub, _ := reproConnect(t, s, "b8-sub", 5, true, packets.Properties{})
	sub.subscribe("#", 0)
	c, _ := reproConnect(t, s, "b8", 5, true, packets.Properties{})
	if s.Options.Capabilities.TopicAliasMaximum < 7 {
		t.Fatalf("setup: server topic alias maximum %d", s.Options.Capabilities.TopicAliasMaximum)
	}

	c.send(packets.Packet{
		FixedHeader: packets.FixedHeader{Type: packets.Publish, Qos: 1, Retain: true},
		TopicName:   "",
		PacketID:    4,
		Payload:     []byte("orphan"),
		Properties:  packets.Properties{TopicAlias: 7, TopicAliasFlag: true},
	})

	pk, ok := c.recv(500 * time.Millisecond)
	if !ok {
		t.Logf("no answer; connection alive=%v", c.alive())
		return
	}
	got, forwarded := sub.recv(300 * time.Millisecond)
	retained := s.Topics.Retained.Len()
	late, _ := reproConnect(t, s, "b8-late", 5, true, packets.Properties{})
	late.subscribe("#", 0)
	if r, ok := late.recv(300 * time.Millisecond); ok {
		t.Logf("a later '#' subscriber receives a retained PUBLISH with topic %q payload %q", r.TopicName, r.Payload)
	} else {
		t.Logf("a later '#' subscriber receives no retained message")
	}
	if pk.FixedHeader.Type == packets.Puback && pk.ReasonCode < 0x80 {
		t.Fatalf("PUBLISH with empty topic and never-bound topic alias 7: expected a protocol error (DISCONNECT 0x82 / connection closed) [MQTT5 3.3.2.3.4]; observed PUBACK id %d reason 0x%02x, forwarded to '#' subscriber=%v (topic %q payload %q), retained messages in store=%d", pk.PacketID, pk.ReasonCode, forwarded, got.TopicName, got.Payload, retained)
	}
	t.Logf("rejected with packet type %d reason 0x%02x", pk.FixedHeader.Type, pk.ReasonCode)
}
