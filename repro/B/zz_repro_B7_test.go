package mqtt

import (
	"errors"
	"fmt"
	"testing"
	"time"

	"github.com/mochi-mqtt/server/v2/packets"
)

type reproB7Hook struct {
	HookBase
	err error
}

func (h *reproB7Hook) ID() string           { return "repro-b7" }
func (h *reproB7Hook) Provides(b byte) bool { return b == OnPublish }
func (h *reproB7Hook) OnPublish(cl *Client, pk packets.Packet) (packets.Packet, error) {
	if pk.TopicName == "b7/blocked" {
		return pk, h.err
	}
	return pk, nil
}

// B7: an OnPublish hook error (other than ErrRejectPacket / CodeSuccessIgnore) does not stop the
// message for a v3.1.1 client / QoS0 / non-Code error: it is still retained and forwarded.
func TestRepro_B7(t *testing.T) {
	cases := []struct {
		name string
		ver  byte
		qos  byte
		err  error
	}{
		{"v4_qos1_codeError", 4, 1, packets.ErrNotAuthorized},
		{"v5_qos0_codeError", 5, 0, packets.ErrNotAuthorized},
		{"v5_qos1_plainError", 5, 1, errors.New("validation failed")},
		{"v5_qos1_codeError_control", 5, 1, packets.ErrNotAuthorized}, // handled branch: must NOT be forwarded
	}
	for _, tc := range cases {
		tc := tc
		t.Run(tc.name, func(t *testing.T) {
			s := reproServer(t, nil)
			if err := s.AddHook(&reproB7Hook{err: tc.err}, nil); err != nil {
				t.Fatal(err)
			}
			sub, _ := reproConnect(t, s, "b7-sub", 5, true, packets.Properties{})
			sub.subscribe("b7/#", 0)
			pub, _ := reproConnect(t, s, "b7-pub", tc.ver, true, packets.Properties{})

			var id uint16
			if tc.qos > 0 {
				id = 3
			}
			pub.send(packets.Packet{
				FixedHeader: packets.FixedHeader{Type: packets.Publish, Qos: tc.qos, Retain: true},
				TopicName:   "b7/blocked", PacketID: id, Payload: []byte("must-not-pass"),
			})
			var ackInfo string
			if tc.qos > 0 {
				if a, ok := pub.recv(500 * time.Millisecond); ok {
					ackInfo = fmt.Sprintf("publisher got packet type %d (4=PUBACK) reason 0x%02x", a.FixedHeader.Type, a.ReasonCode)
				} else {
					ackInfo = "publisher got no ack"
				}
			}
			got, forwarded := sub.recv(300 * time.Millisecond)
			retained := len(s.Topics.Messages("b7/blocked")) > 0
			if forwarded || retained {
				t.Fatalf("OnPublish hook returned error %q for this PUBLISH (v%d qos%d): expected the message to be stopped; observed forwarded to subscriber=%v (payload %q), retained=%v; %s", tc.err, tc.ver, tc.qos, forwarded, got.Payload, retained, ackInfo)
			}
			t.Logf("message stopped; %s", ackInfo)
		})
	}
}
