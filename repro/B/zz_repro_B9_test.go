package mqtt

import (
	"testing"
	"time"

	"github.com/mochi-mqtt/server/v2/packets"
)

// B9: for a v5 client with Topic Alias Maximum > 0 the second QoS1 message on a topic is stored
// in the in-flight map with TopicName "" (alias already substituted). After a reconnect the
// record is resent verbatim: empty topic + an alias the NEW connection never bound.
func TestRepro_B9(t *testing.T) {
	s := reproServer(t, nil)
	props := v5session
	props.TopicAliasMaximum = 5
	c, _ := reproConnect(t, s, "b9", 5, true, props)
	c.subscribe("b9/t", 1)
	pub, _ := reproConnect(t, s, "b9-pub", 5, true, packets.Properties{})
	for i, p := range []string{"one", "two"} {
		pub.publish("b9/t", 1, uint16(i+1), p)
		pub.expectType(packets.Puback, "PUBACK")
	}
	m1 := c.expectType(packets.Publish, "one")
	m2 := c.expectType(packets.Publish, "two")
	t.Logf("first connection: #1 topic=%q alias=%d, #2 topic=%q alias=%d", m1.TopicName, m1.Properties.TopicAlias, m2.TopicName, m2.Properties.TopicAlias)
	if m1.TopicName != "b9/t" || m1.Properties.TopicAlias == 0 || m2.TopicName != "" || m2.Properties.TopicAlias != m1.Properties.TopicAlias {
		t.Fatalf("setup: broker did not use an outbound alias as expected")
	}

	// neither message is acknowledged; the connection drops; alias mappings die with it [MQTT-3.3.2-7]
	c.hangup()
	c2, cack := reproConnect(t, s, "b9", 5, false, props)
	if !cack.SessionPresent {
		t.Fatalf("setup: no session")
	}
	n := 0
	for {
		re, ok := c2.recv(500 * time.Millisecond)
		if !ok {
			break
		}
		if re.FixedHeader.Type != packets.Publish {
			continue
		}
		n++
		t.Logf("resend on NEW connection: id=%d dup=%v topic=%q alias=%d payload=%q", re.PacketID, re.FixedHeader.Dup, re.TopicName, re.Properties.TopicAlias, re.Payload)
		if re.TopicName == "" {
			t.Fatalf("resent PUBLISH %q (id %d) on a NEW network connection has an EMPTY topic name with topic alias %d, which was never established on this connection: expected the full topic %q (alias mappings do not survive the connection, MQTT5 3.3.2.3.4); a conforming client must treat this as a protocol error", re.Payload, re.PacketID, re.Properties.TopicAlias, "b9/t")
		}
	}
	if n != 2 {
		t.Fatalf("expected 2 resent messages, got %d", n)
	}
}
