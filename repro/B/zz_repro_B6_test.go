package mqtt

import (
	"testing"
	"time"

	"github.com/mochi-mqtt/server/v2/packets"
)

func TestRepro_B6(t *testing.T) {
	// B6a: server Receive Maximum = 1. An OUTBOUND QoS2 exchange (broker->client PUBLISH,
	// client PUBREC) consumes the client's INBOUND receive quota, so an inbound QoS1 PUBLISH
	// is refused with DISCONNECT 0x93 although the client has nothing outstanding towards the broker.
	t.Run("outbound_qos2_consumes_inbound_receive_quota", func(t *testing.T) {
		s := reproServer(t, func(o *Options) { o.Capabilities.ReceiveMaximum = 1 })
		c, cack := reproConnect(t, s, "b6", 5, true, packets.Properties{})
		if cack.Properties.ReceiveMaximum != 1 {
			t.Fatalf("setup: CONNACK receive maximum %d", cack.Properties.ReceiveMaximum)
		}
		c.subscribe("b6/down", 2)
		pub, _ := reproConnect(t, s, "b6-pub", 5, true, packets.Properties{})
		pub.publish("b6/down", 2, 9, "down")
		pub.expectType(packets.Pubrec, "PUBREC")
		pub.ack(packets.Pubrel, 9, 0)
		pub.expectType(packets.Pubcomp, "PUBCOMP")

		m := c.expectType(packets.Publish, "downstream qos2")
		if m.FixedHeader.Qos != 2 {
			t.Fatalf("setup: qos %d", m.FixedHeader.Qos)
		}
		c.ack(packets.Pubrec, m.PacketID, 0)
		c.expectType(packets.Pubrel, "PUBREL")
		srvCl, _ := s.Clients.Get("b6")
		rq := srvCl.State.Inflight.receiveQuota

		// the client has sent NO QoS>0 PUBLISH so far: it is entitled to 1 unacknowledged publish
		c.publish("b6/up", 1, 1, "up")
		pk, ok := c.recv(time.Second)
		if !ok || pk.FixedHeader.Type != packets.Puback {
			t.Fatalf("server Receive Maximum 1, client has 0 unacknowledged inbound publishes (only an outbound QoS2 awaiting PUBCOMP): expected PUBACK for inbound QoS1 PUBLISH; observed ok=%v packet type %d (14=DISCONNECT) reason 0x%02x; server-side receiveQuota after the client's PUBREC was %d (expected 1)", ok, pk.FixedHeader.Type, pk.ReasonCode, rq)
		}
	})

	// B6b: client Receive Maximum = 1. While one broker->client QoS1 message is unacknowledged,
	// the PUBREL of an unrelated INBOUND QoS2 exchange re-credits the SEND quota, so the broker
	// sends a second unacknowledged QoS1 message, exceeding the client's Receive Maximum.
	t.Run("inbound_pubrel_credits_send_quota", func(t *testing.T) {
		s := reproServer(t, nil)
		c, _ := reproConnect(t, s, "b6", 5, true, packets.Properties{ReceiveMaximum: 1})
		c.subscribe("b6/down", 1)
		pub, _ := reproConnect(t, s, "b6-pub", 5, true, packets.Properties{})
		pub.publish("b6/down", 1, 1, "one")
		pub.expectType(packets.Puback, "PUBACK")
		pub.publish("b6/down", 1, 2, "two")
		pub.expectType(packets.Puback, "PUBACK")

		m1 := c.expectType(packets.Publish, "one")
		if pk, ok := c.recv(200 * time.Millisecond); ok {
			t.Fatalf("setup: second message not deferred (type %d)", pk.FixedHeader.Type)
		}
		// m1 stays unacknowledged. The client runs an inbound QoS2 exchange of its own.
		c.publish("b6/up", 2, 100, "up")
		c.expectType(packets.Pubrec, "PUBREC")
		c.ack(packets.Pubrel, 100, 0)
		c.expectType(packets.Pubcomp, "PUBCOMP")

		if pk, ok := c.recv(500 * time.Millisecond); ok && pk.FixedHeader.Type == packets.Publish && pk.FixedHeader.Qos > 0 {
			t.Fatalf("client Receive Maximum 1 and QoS1 PUBLISH id %d (%q) still unacknowledged: expected no further QoS>0 PUBLISH [MQTT-3.3.4-9]; observed PUBLISH id %d %q qos %d right after the client's PUBREL of its own inbound QoS2 exchange", m1.PacketID, m1.Payload, pk.PacketID, pk.Payload, pk.FixedHeader.Qos)
		}
	})
}
